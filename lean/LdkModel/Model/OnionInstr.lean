/- C14 — what a hop is TOLD, as values (amounts, expiries, channel ids, secrets, …), on top of the generated payload
   encoders / reader tables (Generated/OnionPayloads.lean): `HopInstr.encode` is what the sender writes for a hop,
   `readInstr` what `InboundOnionPayload::read` makes of the bytes the hop finds in its onion layer.
   Which record carries which field and how its value is serialized comes from the GENERATED `OutPayload` constructors
   and `writeEnc…` / `inboundEnc` tables; which constructor argument is which instruction field (below) is hand-written
   and tied by the c14 correspondence (`instr` / `payloaddec` ops against the real builder / reader).  No Mathlib. -/
import LdkModel.Generated.OnionPayloads
namespace Ldk.OnionPayload
open Ldk.Onion (Bytes)

/-- the instructions a hop payload of the OUTER onion carries (mirrors msgs.rs `InboundOnionPayload`'s variants that a
    sender can produce outside cfg(test); `encryptedTlvs` of blinded hops stay opaque) -/
inductive HopInstr
  | forward (scid amt cltv : Nat)
  | receive (amt cltv : Nat) (paymentData : Option (Bytes × Nat)) (metadata keysend : Option Bytes) (custom : List Rec)
  | blindedForward (encryptedTlvs : Bytes) (blindingPoint : Option Bytes)
  | blindedReceive (amt total cltv : Nat) (encryptedTlvs : Bytes) (blindingPoint keysend invoiceRequest : Option Bytes)
      (custom : List Rec)
  | trampolineEntrypoint (amt cltv : Nat) (multipath : Option (Bytes × Nat)) (packet : Bytes) (pathKey : Option Bytes)
  deriving DecidableEq

def encNum (tbl : List (Nat × ValEnc)) (t n : Nat) : Bytes := encodeVal (encOf tbl t) (.num n)
def encBytes (tbl : List (Nat × ValEnc)) (t : Nat) (b : Bytes) : Bytes := encodeVal (encOf tbl t) (.bytes b)
def encST (tbl : List (Nat × ValEnc)) (t : Nat) (p : Bytes × Nat) : Bytes := encodeVal (encOf tbl t) (.secretTotal p.1 p.2)

/-- the payload the sender writes for these instructions (generated constructor, generated value encodings) -/
def HopInstr.toOut : HopInstr → OutPayload
  | .forward scid amt cltv =>
    .onionForward (encNum writeEncOnionForward 6 scid) (encNum writeEncOnionForward 2 amt) (encNum writeEncOnionForward 4 cltv)
  | .receive amt cltv pd md ks custom =>
    .onionReceive (pd.map (encST writeEncOnionReceive 8)) (md.map (encBytes writeEncOnionReceive 16))
      (ks.map (encBytes writeEncOnionReceive 5482373484)) (encNum writeEncOnionReceive 2 amt) (encNum writeEncOnionReceive 4 cltv) custom
  | .blindedForward enc bp =>
    .onionBlindedForward (encBytes writeEncOnionBlindedForward 10 enc) (bp.map (encBytes writeEncOnionBlindedForward 12))
  | .blindedReceive amt total cltv enc bp ks ir custom =>
    .onionBlindedReceive (encNum writeEncOnionBlindedReceive 2 amt) (encNum writeEncOnionBlindedReceive 18 total)
      (encNum writeEncOnionBlindedReceive 4 cltv) (encBytes writeEncOnionBlindedReceive 10 enc)
      (bp.map (encBytes writeEncOnionBlindedReceive 12)) (ks.map (encBytes writeEncOnionBlindedReceive 5482373484))
      (ir.map (encBytes writeEncOnionBlindedReceive 77777)) custom
  | .trampolineEntrypoint amt cltv mp pkt pk =>
    .onionTrampolineEntrypoint (encNum writeEncOnionTrampolineEntrypoint 2 amt) (encNum writeEncOnionTrampolineEntrypoint 4 cltv)
      (mp.map (encST writeEncOnionTrampolineEntrypoint 8)) (encBytes writeEncOnionTrampolineEntrypoint 20 pkt)
      (pk.map (encBytes writeEncOnionTrampolineEntrypoint 12))

/-- the serialized hop payload (length prefix included), as `payload.encode()` yields it -/
def HopInstr.encode (i : HopInstr) : Bytes := encodePayload i.toOut.records

def HopInstr.kind : HopInstr → InKind
  | .forward .. => .forward
  | .receive .. => .receive
  | .blindedForward .. => .blindedForward
  | .blindedReceive .. => .blindedReceive
  | .trampolineEntrypoint .. => .trampolineEntrypoint

def HopInstr.custom : HopInstr → List Rec
  | .receive _ _ _ _ _ c => c
  | .blindedReceive _ _ _ _ _ _ _ c => c
  | _ => []

def optValid (e : ValEnc) : Option HVal → Bool
  | none => true
  | some v => v.valid e

/-- the values are of their fields' types: u64 amounts / channel ids, u32 expiries, 32-byte secrets and preimages,
    33-byte keys (ranges the Rust TYPES enforce) -/
def HopInstr.valuesOk : HopInstr → Bool
  | .forward scid amt cltv => decide (scid < 256 ^ 8) && decide (amt < 256 ^ 8) && decide (cltv < 256 ^ 4)
  | .receive amt cltv pd _ ks _ =>
    decide (amt < 256 ^ 8) && decide (cltv < 256 ^ 4) && optValid .secretTotal (pd.map fun p => .secretTotal p.1 p.2) &&
    optValid (.fixed 32) (ks.map .bytes)
  | .blindedForward _ bp => optValid (.fixed 33) (bp.map .bytes)
  | .blindedReceive amt total cltv _ bp ks _ _ =>
    decide (amt < 256 ^ 8) && decide (total < 256 ^ 8) && decide (cltv < 256 ^ 4) && optValid (.fixed 33) (bp.map .bytes) &&
    optValid (.fixed 32) (ks.map .bytes)
  | .trampolineEntrypoint amt cltv mp _ pk =>
    decide (amt < 256 ^ 8) && decide (cltv < 256 ^ 4) && optValid .secretTotal (mp.map fun p => .secretTotal p.1 p.2) &&
    optValid (.fixed 33) (pk.map .bytes)

/-- the reader's context matches the payload: unblinded kinds arrive without an `update_add_htlc` blinding point; a
    blinded hop has its blinding point in exactly one of the payload and the `update_add_htlc`, and its
    encrypted_tlvs decrypt to forward resp. receive data -/
def HopInstr.ctxOk : HopInstr → Bool → BlindedInner → Bool
  | .blindedForward _ bp, ubp, inner => (bp.isSome != ubp) && inner == .forward
  | .blindedReceive _ _ _ _ bp _ _ _, ubp, inner => (bp.isSome != ubp) && inner == .receive
  | _, ubp, _ => !ubp

/-! ### the receiving side -/

def lookupRec (l : List Rec) (t : Nat) : Option Bytes := (l.find? (fun r => r.1 == t)).map (·.2)

/-- the decoded value of typed record `t` (reader's encoding table) -/
def getVal (typed : List Rec) (t : Nat) : Option HVal := (lookupRec typed t).bind (decodeVal (encOf inboundEnc t))

def getNum (typed : List Rec) (t : Nat) : Option Nat := match getVal typed t with | some (.num n) => some n | _ => none
def getBytes (typed : List Rec) (t : Nat) : Option Bytes := match getVal typed t with | some (.bytes b) => some b | _ => none
def getST (typed : List Rec) (t : Nat) : Option (Bytes × Nat) :=
  match getVal typed t with | some (.secretTotal s n) => some (s, n) | _ => none

/-- mirrors the struct constructions at the end of each branch of `InboundOnionPayload::read` -/
def instrOf (kind : InKind) (typed custom : List Rec) : Option HopInstr :=
  match kind with
  | .forward => do
    let scid ← getNum typed 6; let amt ← getNum typed 2; let cltv ← getNum typed 4
    some (.forward scid amt cltv)
  | .receive => do
    let amt ← getNum typed 2; let cltv ← getNum typed 4
    some (.receive amt cltv (getST typed 8) (getBytes typed 16) (getBytes typed 5482373484) custom)
  | .blindedForward => do
    let enc ← getBytes typed 10
    some (.blindedForward enc (getBytes typed 12))
  | .blindedReceive => do
    let amt ← getNum typed 2; let total ← getNum typed 18; let cltv ← getNum typed 4; let enc ← getBytes typed 10
    some (.blindedReceive amt total cltv enc (getBytes typed 12) (getBytes typed 5482373484) (getBytes typed 77777) custom)
  | .trampolineEntrypoint => do
    let amt ← getNum typed 2; let cltv ← getNum typed 4; let pkt ← getBytes typed 20
    some (.trampolineEntrypoint amt cltv (getST typed 8) pkt (getBytes typed 12))
  | .dummy => do       -- a blinded hop whose encrypted_tlvs hold DummyTlvs: same outer fields as BlindedForward
    let enc ← getBytes typed 10
    some (.blindedForward enc (getBytes typed 12))

inductive ReadErr | framing | invalidValue | unknownRequired
  deriving DecidableEq, Repr

/-- what `InboundOnionPayload::read` makes of a hop payload: BigSize length + TLV framing, the record loop of
    `decode_tlv_stream_with_custom_tlv_decode!` (order, known types, custom closure, even/odd rule), the VALUE decoders
    of every typed record present, then the kind decision (translated) and the fields of that kind.
    `update_add_blinding_point` / `inner` (what the encrypted_tlvs of a blinded hop decrypt to) are the reader's context. -/
def readInstr (payload : Bytes) (update_add_blinding_point : Bool) (inner : BlindedInner) : Except ReadErr (InKind × HopInstr) :=
  match parsePayload payload with
  | none => .error .framing
  | some recs =>
    match decodeRecords inboundKnownTypes customTlvMin recs with
    | .error .invalidValue => .error .invalidValue
    | .error .unknownRequired => .error .unknownRequired
    | .ok (typed, custom) =>
      if !typed.all (fun r => (decodeVal (encOf inboundEnc r.1) r.2).isSome) then .error .invalidValue else
      match classifyInbound (presenceOf typed) update_add_blinding_point inner with
      | none => .error .invalidValue
      | some kind =>
        match instrOf kind typed custom with
        | none => .error .invalidValue
        | some i => .ok (kind, i)

end Ldk.OnionPayload
