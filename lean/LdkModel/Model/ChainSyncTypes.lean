/- C20 — data types of the lightning-block-sync model (shared by Generated/ChainSync.lean, which holds the
   decision expressions translated from the Rust text, and Model/ChainSync.lean, which calls them).
   No Mathlib; nothing outside core. -/
import LdkModel.Generated.Consts
namespace Ldk.ChainSync
open Ldk

/-- `poll::ValidatedBlockHeader`: block_hash, header.prev_blockhash, height, chainwork (cumulative, as
    the source CLAIMS it — `BlockHeaderData.{height, chainwork}` are not covered by the hash), header.bits
    and `header.work()` (the work of this one block, a function of `bits`). -/
structure Hdr where
  hash : Nat
  parent : Nat
  height : Nat
  work : Nat
  bits : Nat
  bwork : Nat
deriving DecidableEq, Repr, Inhabited

/-- rust-bitcoin `Target::from_compact` (hand-mirrored; rust-bitcoin is outside /repo): mantissa /
    exponent decoding of `header.bits`, negative mantissas give target 0 -/
def targetOf (bits : Nat) : Nat :=
  let e := bits / 2 ^ 24
  let m := bits % 2 ^ 24
  let (mant, expt) := if e ≤ 3 then (m / 2 ^ (8 * (3 - e)), 0) else (m, 8 * (e - 3))
  if mant > 0x7FFFFF then 0 else (mant * 2 ^ expt) % 2 ^ 256

/-- rust-bitcoin `Target::min_transition_threshold` (`self >> 2`) -/
def minTransitionThreshold (t : Nat) : Nat := t / 4
/-- rust-bitcoin `Target::max_transition_threshold_unchecked` (`self << 2` on a U256) -/
def maxTransitionThresholdUnchecked (t : Nat) : Nat := (t * 4) % 2 ^ 256

/-- what a `BlockSource` answers to `get_header` BEFORE `Validate`: the 80-byte header is represented
    by what the client computes from it (`hash` = `header.block_hash()`, `parent`, `bits`, `bwork`),
    `powOk` = `header.validate_pow(header.target()).is_ok()`; `height` and `chainwork` are the source's
    claims (`BlockHeaderData.{height, chainwork}`). -/
structure RawHdr where
  hash : Nat
  parent : Nat
  height : Nat
  chainwork : Nat
  bits : Nat
  bwork : Nat
  powOk : Bool
deriving DecidableEq, Repr, Inhabited

def RawHdr.toHdr (r : RawHdr) : Hdr := ⟨r.hash, r.parent, r.height, r.chainwork, r.bits, r.bwork⟩

/-- what a `BlockSource` answers to `get_block` BEFORE `Validate`: `BlockData::FullBlock(block)` or
    `BlockData::HeaderOnly(header)`; `hash`/`powOk` of the contained header, and for a full block the
    results of `check_merkle_root()` / `check_witness_commitment()` -/
structure RawBlk where
  full : Bool
  hash : Nat
  powOk : Bool
  merkleOk : Bool
  witnessOk : Bool
deriving DecidableEq, Repr, Inhabited

/-- what one iteration of the first loop of init.rs synchronize_listeners does for its listener (the value of
    the translated `initListenerStep`): `disc` = the arguments of its `disconnect_blocks(..)` calls in order,
    `recd` = the heights pushed to `chain_listeners_at_height` for it, `most` = `most_connected_blocks` afterwards -/
structure InitStep where
  disc : List Hdr
  recd : List Nat
  most : List Hdr
deriving DecidableEq, Repr

end Ldk.ChainSync
