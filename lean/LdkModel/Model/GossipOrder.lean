/- C17 — `NodeInfo.channels` is a `Vec<u64>` in ARRIVAL order in the Rust code (`push` when a channel is added,
   `retain` when one is removed; `NodeInfo: PartialEq` and the serialization observe that order). The graph model
   (Model/Gossip.lean) keeps the channel SET; this file carries the order next to it: after every operation the new
   list of a node is the old list without the channels that left (and without a replaced SCID, which
   `add_channel_between_nodes` removes and pushes again), followed by the channels that arrived, ascending (one per
   operation, except for a rapid-gossip-sync snapshot, whose announcements come in ascending SCID order).
   Used by the driver for the synchronous phases; hand-mirrored, tied by the differential. No Mathlib. -/
import LdkModel.Model.Gossip
namespace Ldk.Gossip
namespace Order

abbrev OMap := SMap (List Nat)

def orderNode (old : List Nat) (newSet : SMap Unit) (moved : Option Nat) : List Nat :=
  let kept := old.filter (fun s => newSet.contains s && !(some s == moved))
  kept ++ newSet.keys.filter (fun s => !kept.contains s)

/-- the SCID an accepted channel_announcement re-inserts (replace branch of add_channel_between_nodes) -/
def movedScid (g : Graph) (op : Op) (out : Outcome) : Option Nat :=
  match op, out with
  | .msg (.chanAnn a), .accept => if g.channels.contains a.scid then some a.scid else none
  | _, _ => none

def after (o : OMap) (moved : Option Nat) (g' : Graph) : OMap :=
  g'.nodes.filterMap (fun id ni => some (orderNode ((o.get id).getD []) ni.channels moved))

end Order
end Ldk.Gossip
