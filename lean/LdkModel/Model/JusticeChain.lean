/- C06, chain part: the justice claims of a ChannelMonitor while the chain that confirmed the revoked
   commitment is RE-ORGANISED.  Mirrors, in lightning/src/chain:
     channelmonitor.rs  check_spend_counterparty_transaction / check_spend_counterparty_htlc (which claim is
                        requested when which transaction confirms, with which heights), block_confirmed (requests are
                        registered before the block's transactions are matched), blocks_disconnected / the re-org branch
                        of best_block_updated
     onchaintx.rs       update_claims_view_from_requests (`claimable_outpoints[outpoint] = (claim_id, creation_height)`,
                        duplicates ignored), update_claims_view_from_matched_txn (a confirmed spend of a claimed outpoint
                        is remembered for ANTI_REORG_DELAY blocks, then the claim is forgotten; claims whose height timer
                        expired are re-issued), blocks_disconnected (claims created above the new tip are dropped, spends
                        confirmed above it are undone), rebroadcast_pending_claims.
   Every height expression is TRANSLATED from the Rust source on every run (Generated/Justice.lean, tools/gen_justice.py);
   the bump timer is Generated/Package.lean `getHeightTimer`.

   Abstractions.  Claims are tracked per OUTPOINT (the code tracks per outpoint in `claimable_outpoints` and per package in
   `pending_claim_requests`; aggregation / splitting of packages is not modelled — every claim carries its own timer, the
   real timer of an aggregated package is the minimum over its members, i.e. never later).  A re-issue is the list of
   outpoints being spent; transaction construction and fees are Generated/Package.lean + the harness oracles.  The chain is
   part of the state: which of the cheater's transactions are confirmed at which height and which outpoints are spent
   there; a spend with ANTI_REORG_DELAY confirmations is `final` and a disconnection that would undo a final spend is not
   accepted (the library's re-org assumption).  A claim whose confirmed spend is disconnected is due again at once
   (`timer := 0`; the code re-issues it in blocks_disconnected or, through `locktimed_packages`, at the next block).
   No Mathlib. -/
import LdkModel.Model.Punish
import LdkModel.Generated.Justice
import LdkModel.Generated.Package
namespace Ldk.Justice
open Ldk Ldk.Punish Ldk.JusticeGen Ldk.Pkg

/-- the cheater's transactions: the revoked commitment and its `k`-th second-stage (HTLC-success / HTLC-timeout) transaction -/
inductive Parent where
  | commit
  | second (k : Nat)
  deriving DecidableEq, Repr

/-- the transaction an outpoint belongs to -/
def parentOf : Outpoint → Parent
  | .commit _ => .commit
  | .second k _ => .second k

/-- what kind of revoked output a claim is for (decides the package type and its deadline) -/
inductive Kind where
  /-- `RevokedOutput` on the commitment's to_local -/
  | toLocal
  /-- `RevokedHTLCOutput` on an HTLC output of the commitment -/
  | htlc (offered : Bool) (cltv : Nat)
  /-- `RevokedOutput` on the output of a second-stage transaction -/
  | secondStage
  deriving DecidableEq, Repr

/-- static data of one punishment -/
structure World where
  /-- every outpoint the monitor claims once its parent confirms, with its kind: on the commitment this is
      `onConfirmRevoked` of Model/Punish.lean, on the second-stage transactions `allSecondClaims` -/
  outs : List (Outpoint × Kind)
  /-- the second-stage transactions the cheater holds, input by input: `some v` = spends commitment output `v` (with the
      5-element witness of an HTLC transaction), `none` = any other input (a fee input of an anchor HTLC transaction) -/
  inputs : List (List (Option Nat))
  /-- `counterparty_commitment_params.on_counterparty_tx_csv` -/
  csv : Nat

/-- the commitment outputs each second-stage transaction spends -/
def World.seconds (W : World) : List (List Nat) := W.inputs.map fun t => t.filterMap id
def World.second (W : World) (k : Nat) : List Nat := W.seconds[k]?.getD []
def World.inputsOf (W : World) (k : Nat) : List (Option Nat) := W.inputs[k]?.getD []
def World.kindOf (W : World) (X : Outpoint) : Option Kind := (W.outs.find? fun e => decide (e.1 = X)).map (·.2)
def World.allOutpoints (W : World) : List Outpoint := W.outs.map (·.1)

-- mirrors the `outpoint_confirmation_height` plumbing: <Kind>::build(.., height) → `outpoint_confirmation_height: Some(..)` →
-- `outpoints_and_creation_heights` → `creation_height = outpoint_confirmation_height.unwrap_or(conf_height)`
/-- creation height registered in `claimable_outpoints` for a claim requested while the block at height `h` (which confirms
    the parent transaction) is processed -/
def creationHeight (W : World) (kd : Kind) (h : Nat) : Nat :=
  match kd with
  | .toLocal => registeredCreationHeight (revokedOutputStored (toLocalCreationHeight h W.csv)) h
  | .htlc o c => registeredCreationHeight (revokedHtlcOutputStored (htlcCreationHeight h W.csv o c)) h
  | .secondStage => registeredCreationHeight (revokedOutputStored (secondStageCreationHeight h W.csv)) h

/-- `counterparty_spendable_height` of the package, from the height `h` at which the parent confirmed -/
def spendableHeight (W : World) (kd : Kind) (h : Nat) : Nat :=
  match kd with
  | .toLocal => toLocalSpendableHeight h W.csv
  | .htlc o c => htlcSpendableHeight h W.csv o c
  | .secondStage => secondStageSpendableHeight h W.csv

def pkgInput : Kind → PkgInput
  | .toLocal => .revokedOutput
  | .htlc _ _ => .revokedHTLCOutput
  | .secondStage => .revokedOutput

/-- `PackageTemplate::get_height_timer(cur)` of the single-outpoint package of kind `kd` whose parent confirmed at `confH` -/
def nextTimer (W : World) (kd : Kind) (confH cur : Nat) : Nat :=
  getHeightTimer cur (spendableHeight W kd confH) [pkgInput kd]

/-- a transaction spending an outpoint, confirmed on the best chain -/
structure Spend where
  height : Nat
  /-- the victim's justice transaction (else: the cheater's second-stage transaction) -/
  byVictim : Bool
  /-- has had ANTI_REORG_DELAY confirmations -/
  final : Bool
  deriving DecidableEq, Repr

/-- the best chain, as far as the punishment is concerned -/
structure Chain where
  tip : Nat
  /-- confirmation height of the cheater's transactions -/
  conf : Parent → Option Nat
  /-- the cheater's transaction has had ANTI_REORG_DELAY confirmations (`funding_spend_confirmed` is set for the commitment: the
      monitor would not process it a second time) -/
  pfinal : Parent → Bool
  spent : Outpoint → Option Spend

/-- one `claimable_outpoints` entry together with what its pending request / awaiting event say -/
structure Claim where
  /-- `claimable_outpoints[outpoint].1` -/
  created : Nat
  /-- height of the handler's `OnchainEvent::Claim` / `ContentiousOutpoint` entry for a confirmed spend of the outpoint -/
  spentAt : Option Nat
  /-- `PackageTemplate::height_timer` -/
  timer : Nat
  deriving DecidableEq, Repr

structure St where
  chain : Chain
  /-- `OnchainTxHandler::claimable_outpoints` (with `pending_claim_requests`) -/
  claim : Outpoint → Option Claim
  /-- the outputs of this transaction of the cheater are in `outputs_to_watch`: it went through the monitor's spend checks at
      some point (registrations are never removed, not even when the transaction is re-organised out) -/
  seen : Parent → Bool

def St.init (h0 : Nat) : St :=
  { chain := { tip := h0, conf := fun _ => none, pfinal := fun _ => false, spent := fun _ => none }, claim := fun _ => none, seen := fun _ => false }

/-- transactions of interest in a block -/
inductive BTx where
  | commit
  | second (k : Nat)
  /-- a transaction of the victim spending these outpoints -/
  | justice (ops : List Outpoint)
  deriving DecidableEq, Repr

-- mirrors check_spend_counterparty_transaction / check_spend_counterparty_htlc + update_claims_view_from_requests
/-- the claim requests generated when transaction `p` confirms in the block at height `h`: one per claimable output of
    `p`; "Ignoring second claim for outpoint …, already registered its claiming request" for those already tracked -/
def regClaims (W : World) (h : Nat) (p : Parent) (cl : Outpoint → Option Claim) : Outpoint → Option Claim :=
  fun X =>
    if parentOf X = p then
      match cl X with
      | some c => some c
      | none => (W.kindOf X).map fun kd =>
          { created := creationHeight W kd h, spentAt := none, timer := nextTimer W kd h h }
    else cl X

-- mirrors update_claims_view_from_matched_txn, first loop (`OnchainEvent::Claim` / `ContentiousOutpoint` at `conf_height`)
def markSpent (h : Nat) (hit : Outpoint → Bool) (cl : Outpoint → Option Claim) : Outpoint → Option Claim :=
  fun X =>
    match cl X with
    | some c => if hit X then some { c with spentAt := some h } else some c
    | none => none

/-- the commitment outputs spent by second-stage transaction `k` -/
def secondHits (W : World) (k : Nat) : Outpoint → Bool
  | .commit v => (W.second k).contains v
  | .second _ _ => false

/-- one transaction of the block at height `h`: `none` when it cannot be in a block on top of this chain (parent not
    confirmed, outpoint already spent, transaction already confirmed) -/
def applyTx (W : World) (h : Nat) (st : St) : BTx → Option St
  | .commit =>
    if st.chain.conf .commit = none then
      some { chain := { st.chain with conf := fun p => if p = .commit then some h else st.chain.conf p },
             claim := regClaims W h .commit st.claim,
             seen := fun p => if p = .commit then true else st.seen p }
    else none
  | .second k =>
    if decide (k < W.seconds.length) && !(W.second k).isEmpty && (st.chain.conf (.second k)).isNone &&
        (st.chain.conf .commit).isSome && (W.second k).all (fun v => (st.chain.spent (.commit v)).isNone) then
      some { chain := { st.chain with
                conf := fun p => if p = .second k then some h else st.chain.conf p,
                spent := fun X => if secondHits W k X then some ⟨h, false, false⟩ else st.chain.spent X },
             claim := markSpent h (secondHits W k) (regClaims W h (.second k) st.claim),
             seen := fun p => if p = .second k then true else st.seen p }
    else none
  | .justice ops =>
    if ops.all (fun X => (st.chain.conf (parentOf X)).isSome && (st.chain.spent X).isNone) then
      some { chain := { st.chain with spent := fun X => if ops.contains X then some ⟨h, true, false⟩ else st.chain.spent X },
             claim := markSpent h (fun X => ops.contains X) st.claim,
             seen := st.seen }
    else none

def applyTxs (W : World) (h : Nat) : St → List BTx → Option St
  | st, [] => some st
  | st, t :: rest => match applyTx W h st t with
    | some st' => applyTxs W h st' rest
    | none => none

-- mirrors update_claims_view_from_matched_txn, second loop (`has_reached_confirmation_threshold(cur_height)`)
/-- spends with ANTI_REORG_DELAY confirmations become final; the handler forgets the claims they satisfied -/
def mature (h : Nat) (st : St) : St :=
  { st with
    chain := { st.chain with
        pfinal := fun p => st.chain.pfinal p || (match st.chain.conf p with | some s => handlerThresholdReached s h | none => false),
        spent := fun X => (st.chain.spent X).map fun sp =>
                  { sp with final := sp.final || handlerThresholdReached sp.height h } },
    claim := fun X =>
      match st.claim X with
      | some c => (match c.spentAt with
          | some s => if handlerThresholdReached s h then none else some c
          | none => some c)
      | none => none }

/-- `cur_height >= request.timer()` for a request whose outpoint has no confirmed spend -/
def due (h : Nat) (c : Claim) : Bool := c.spentAt.isNone && timerExpired h c.timer

-- mirrors update_claims_view_from_matched_txn, third loop ("Check if any pending claim request must be rescheduled")
def bump (W : World) (h : Nat) (st : St) : St :=
  { st with claim := fun X =>
      match st.claim X with
      | some c => if due h c then
          some { c with timer := match W.kindOf X with | some kd => nextTimer W kd c.created h | none => h + 1 }
        else some c
      | none => none }

/-- what a block would do if EVERY transaction in it were handed to the spend checks (the reference `connect` is proved equal
    to, `filter_block_complete`) -/
def connectAll (W : World) (st : St) (txs : List BTx) : Option (St × List Outpoint) :=
  let h := st.chain.tip + 1
  match applyTxs W h { st with chain := { st.chain with tip := h } } txs with
  | none => none
  | some st1 =>
    let st2 := mature h st1
    let bc := W.allOutpoints.filter fun X =>
      match st2.claim X with
      | some c => c.spentAt.isNone && ((st.claim X).isNone || timerExpired h c.timer)
      | none => false
    some (bump W h st2, bc)

/-! ### which transactions of a block reach the spend checks (`filter_block`) -/

/-- txid of the output an input spends, as far as the filter can tell them apart -/
inductive TxRef where
  | funding
  | tx (p : Parent)
  | other
  deriving DecidableEq, Repr

/-- the inputs of a transaction, in order -/
def inputRefs (W : World) : BTx → List TxRef
  | .commit => [.funding]
  | .second k => (W.inputsOf k).map fun i => match i with | some _ => .tx .commit | none => .other
  | .justice ops => ops.map fun X => .tx (parentOf X)

def selfRef : BTx → TxRef
  | .commit => .tx .commit
  | .second k => .tx (.second k)
  | .justice _ => .other

-- mirrors spends_watched_output: ANY input spends an output registered in `outputs_to_watch` (the funding output always is; every
-- output of a counterparty commitment and every claimed output of a second-stage transaction once that transaction was processed)
def spendsWatched (W : World) (seen : Parent → Bool) (t : BTx) : Bool :=
  (inputRefs W t).any fun r => match r with | .funding => true | .tx p => seen p | .other => false

/-- a transaction the filter dropped: it is on the chain, the monitor never looks at it -/
def skipTx (W : World) (h : Nat) (st : St) (t : BTx) : Option St :=
  (applyTx W h st t).map fun st' => { st with chain := st'.chain }

-- mirrors filter_block (over the outputs watched BEFORE the block, `seen0`) followed by the per-transaction processing of
-- transactions_confirmed: `matches` is the TRANSLATED Generated/Justice.lean `filterMatches`
def applyBlock (W : World) (h : Nat) (seen0 : Parent → Bool) : St → List TxRef → List BTx → Option St
  | st, _, [] => some st
  | st, matched, t :: rest =>
    let m := filterMatches (spendsWatched W seen0 t) (inputRefs W t) matched
    match (if m then applyTx W h st t else skipTx W h st t) with
    | some st' => applyBlock W h seen0 st' (if m then selfRef t :: matched else matched) rest
    | none => none

/-- a block with `txs` is connected at height `tip + 1`.  Result: new state and the outpoints spent by what the victim
    broadcasts while processing the block (new claims, and claims whose height timer expired) -/
def connect (W : World) (st : St) (txs : List BTx) : Option (St × List Outpoint) :=
  let h := st.chain.tip + 1
  match applyBlock W h st.seen { st with chain := { st.chain with tip := h } } [] txs with
  | none => none
  | some st1 =>
    let st2 := mature h st1
    let bc := W.allOutpoints.filter fun X =>
      match st2.claim X with
      | some c => c.spentAt.isNone && ((st.claim X).isNone || timerExpired h c.timer)
      | none => false
    some (bump W h st2, bc)

/-- the cheater's transactions of this world -/
def World.parents (W : World) : List Parent := .commit :: (List.range W.seconds.length).map .second

/-- no final transaction is above `n` -/
def finalKept (W : World) (st : St) (n : Nat) : Bool :=
  (W.allOutpoints.all fun X => match st.chain.spent X with
    | some sp => !sp.final || decide (sp.height ≤ n)
    | none => true) &&
  (W.parents.all fun p => match st.chain.conf p with
    | some s => !st.chain.pfinal p || decide (s ≤ n)
    | none => true)

-- mirrors ChannelMonitorImpl::blocks_disconnected / best_block_updated (re-org branch) → OnchainTxHandler::blocks_disconnected
/-- the blocks above height `n` are disconnected -/
def disconnect (W : World) (st : St) (n : Nat) : Option (St × List Outpoint) :=
  if decide (n < st.chain.tip) && finalKept W st n then
    let nb := monitorDisconnectNewBest n
    let cl : Outpoint → Option Claim := fun X =>
      match st.claim X with
      | some c =>
        if claimDropped c.created nb then none
        else (match c.spentAt with
          | some s => if awaitingDropped s nb then some { c with spentAt := none, timer := 0 } else some c
          | none => some c)
      | none => none
    some ({ chain := { tip := n, pfinal := st.chain.pfinal,
                       conf := fun p => match st.chain.conf p with | some s => if n < s then none else some s | none => none,
                       spent := fun X => match st.chain.spent X with | some sp => if n < sp.height then none else some sp | none => none },
            claim := cl, seen := st.seen }, [])
  else none

/-- the outpoints of every pending request that still has something to claim -/
def active (W : World) (st : St) : List Outpoint :=
  W.allOutpoints.filter fun X => match st.claim X with | some c => c.spentAt.isNone | none => false

inductive Op where
  | connect (txs : List BTx)
  | disconnect (n : Nat)
  /-- `rebroadcast_pending_claims` -/
  | rebroadcast
  /-- the monitor is serialised and read back (every modelled field is written) -/
  | reload
  deriving DecidableEq, Repr

def step (W : World) (st : St) : Op → Option (St × List Outpoint)
  | .connect txs => connect W st txs
  | .disconnect n => disconnect W st n
  | .rebroadcast => some (st, active W st)
  | .reload => some (st, [])

def run (W : World) : St → List Op → Option St
  | st, [] => some st
  | st, o :: rest => match step W st o with
    | some (st', _) => run W st' rest
    | none => none

/-! ### the world of a revoked commitment, from the monitor model of Model/Punish.lean -/

/-- `htlcClaims` with the kind of each claim -/
def htlcKinds {S : Type} (tx : List (TxOut S)) : List Htlc → List (Outpoint × Kind)
  | [] => []
  | h :: rest =>
    match h.outIdx with
    | none => htlcKinds tx rest
    | some i =>
      match tx[i]? with
      | none => []
      | some o => if o.sat = h.sat then (.commit i, .htlc h.offered h.cltv) :: htlcKinds tx rest else []

/-- the claims of `onConfirmRevoked P m n tx` with their kinds, then those on the second-stage transactions -/
def World.ofMonitor {S : Type} [DecidableEq S] (P : Secrets.Params S) (m : Mon S) (n : Nat) (tx : List (TxOut S))
    (held : List (List (Option Nat))) (csv : Nat) : World :=
  { outs :=
      (if Secrets.getMinSeenSecret P m.store ≤ n then
        match Secrets.getSecret P m.store n with
        | none => []
        | some sec =>
          (toLocalClaims sec tx).map (fun X => (X, Kind.toLocal)) ++
            (match m.claimable.get n with
             | none => []
             | some data => htlcKinds tx (data.map (·.1)))
      else []) ++ (allSecondClaimsAt 0 held).map (fun X => (X, Kind.secondStage)),
    inputs := held, csv := csv }

end Ldk.Justice
