/- Representations of a secp256k1 public key that offers/signer.rs compares (C18).  secp256k1 itself is a
   trusted dependency and is not modelled: a `PublicKey` VALUE is represented by its 33-byte compressed
   SEC1 encoding (parity byte 0x02 / 0x03, then the 32-byte x coordinate), which is what
   `PublicKey::serialize` returns and what BOLT-12 puts on the wire (issuer id, payer id).  The BIP-340
   x-only form forgets the parity byte.  The generated comparison of `verify_metadata`
   (Generated/C18Meta.lean) is built from these projections, so WHICH representation the Rust code
   compares is part of the translated text.  No Mathlib. -/
namespace Ldk.SecpKey

abbrev Bytes := List UInt8

/-- a public key, by its 33-byte compressed encoding -/
abbrev PublicKey := Bytes

/-- secp256k1 `PublicKey::serialize` (33 bytes) -/
def PublicKey.serialize (k : PublicKey) : Bytes := k

/-- secp256k1 `PublicKey::x_only_public_key().0.serialize()` (32 bytes: the parity byte is dropped) -/
def PublicKey.xOnlySerialize (k : PublicKey) : Bytes := k.drop 1

/-- the key with the other parity (the negated point): first byte 0x02 <-> 0x03 -/
def PublicKey.flipParity : PublicKey → PublicKey
  | [] => []
  | p :: x => (p ^^^ 1) :: x

/-- lightning::util::crypto::fixed_time_eq on byte strings: equality (the timing behaviour is not modelled) -/
def fixedTimeEq (a b : Bytes) : Bool := a == b

/-- bitcoin_hashes `Sha256::LEN` (dependency constant) -/
def SHA256_LEN : Nat := 32

end Ldk.SecpKey
