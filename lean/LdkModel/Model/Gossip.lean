/- C17 — model of the gossip network graph (lightning/src/routing/gossip.rs, `NetworkGraph`),
   as compiled by the harness: features `std` + `_test_utils` (the wall-clock freshness test of
   `update_channel_internal` is compiled out; `announcement_received_time` and the tombstone times of
   `channel_failed_permanent` / `node_failed_permanent` are `SystemTime::now()`, which the ops carry
   explicitly as `now`).

   Maps are *canonical* finite maps: association lists with strictly increasing `Nat` keys, bundled
   with the sortedness proof (`SMap`), so that structural equality of graphs is equality of the
   mathematical objects. Node ids are small naturals whose order is the order of the serialized
   public keys (`NodeId: Ord`). `NodeInfo.channels` is a `Vec<u64>` in arrival order in the Rust code;
   this file keeps it as a sorted set; the order is carried next to it by Model/GossipOrder.lean.

   ECDSA is trusted: a message carries one validity flag per required signature (`ChanAnn`,
   `NodeAnn`), or the identity of the signer (`ChanUpd`, whose signature is checked against the node id
   *stored in the graph* for that direction). The UTXO lookup's synchronous answer is a parameter of the
   announcement (`Utxo`); asynchronous lookups (`PendingChecks`, utxo.rs) are the layer of Model/GossipAsync.lean
   on top of this file; the persisted form is Model/GossipPersist.lean, the arrival order of a node's channel
   list Model/GossipOrder.lean.
   LAYERS. The functions of this file outside `namespace Impl` are the hand-written SPECIFICATION of the
   handlers (what the 1700 lines of Proofs/Gossip.lean reason about). `namespace Impl` (end of the file) is
   the MODEL THE DRIVER RUNS and the property theorems are stated about: the same handlers, but every
   decision (comparison, flag test, tombstone test, replace-vs-reject, staleness cut-off, error class) is a
   CALL of a definition of Generated/Gossip.lean, which tools/gen_gossip.py re-translates from gossip.rs /
   processing.rs on every run. Proofs/GossipRefine.lean proves `Impl.f = f` for every handler from small
   lemmas about the generated definitions, so a changed comparison in the Rust text breaks the refinement
   and with it every property theorem. `Impl` also holds the rapid-gossip-sync layer (`applySnapshot`).
   No Mathlib; core only. -/
import LdkModel.Generated.Consts
import LdkModel.Generated.Gossip
import LdkModel.Model.GossipSig
import LdkModel.Generated.GossipNetUpd
import LdkModel.Generated.GossipUtxo
namespace Ldk.Gossip

/-! ### canonical finite maps -/

/-- strictly increasing keys -/
abbrev KeysLt {α : Type} (l : List (Nat × α)) : Prop := l.Pairwise (fun a b => a.1 < b.1)

def getL {α : Type} : List (Nat × α) → Nat → Option α
  | [], _ => none
  | (k', v) :: t, k => if k = k' then some v else getL t k

def insertL {α : Type} (k : Nat) (v : α) : List (Nat × α) → List (Nat × α)
  | [] => [(k, v)]
  | (k', v') :: t =>
    if k < k' then (k, v) :: (k', v') :: t
    else if k = k' then (k, v) :: t
    else (k', v') :: insertL k v t

def eraseL {α : Type} (k : Nat) (l : List (Nat × α)) : List (Nat × α) :=
  l.filter (fun p => decide (p.1 ≠ k))

def filterMapL {α β : Type} (f : Nat → α → Option β) : List (Nat × α) → List (Nat × β)
  | [] => []
  | (k, v) :: t =>
    match f k v with
    | some w => (k, w) :: filterMapL f t
    | none => filterMapL f t

theorem mem_insertL {α : Type} {k : Nat} {v : α} {l : List (Nat × α)} {p : Nat × α}
    (h : p ∈ insertL k v l) : p = (k, v) ∨ p ∈ l := by
  induction l with
  | nil => simp [insertL] at h; exact Or.inl h
  | cons hd t ih =>
    obtain ⟨k', v'⟩ := hd
    simp only [insertL] at h
    split at h
    · simp only [List.mem_cons] at h ⊢
      rcases h with h | h | h
      · exact Or.inl h
      · exact Or.inr (Or.inl h)
      · exact Or.inr (Or.inr h)
    · split at h
      · simp only [List.mem_cons] at h ⊢
        rcases h with h | h
        · exact Or.inl h
        · exact Or.inr (Or.inr h)
      · simp only [List.mem_cons] at h ⊢
        rcases h with h | h
        · exact Or.inr (Or.inl h)
        · rcases ih h with h | h
          · exact Or.inl h
          · exact Or.inr (Or.inr h)

theorem insertL_sorted {α : Type} (k : Nat) (v : α) {l : List (Nat × α)} (hs : KeysLt l) :
    KeysLt (insertL k v l) := by
  induction l with
  | nil => simp [insertL, KeysLt]
  | cons hd t ih =>
    obtain ⟨k', v'⟩ := hd
    have hs' := List.pairwise_cons.mp hs
    simp only [insertL]
    split
    · rename_i hlt
      refine List.pairwise_cons.mpr ⟨?_, hs⟩
      intro p hp
      simp only [List.mem_cons] at hp
      rcases hp with hp | hp
      · subst hp; exact hlt
      · exact Nat.lt_trans hlt (hs'.1 p hp)
    · split
      · rename_i _ heq
        subst heq
        exact List.pairwise_cons.mpr ⟨fun p hp => hs'.1 p hp, hs'.2⟩
      · rename_i hnlt hne
        refine List.pairwise_cons.mpr ⟨?_, ih hs'.2⟩
        intro p hp
        rcases mem_insertL hp with hp | hp
        · subst hp; show k' < k; omega
        · exact hs'.1 p hp

theorem mem_filterMapL {α β : Type} {f : Nat → α → Option β} {l : List (Nat × α)} {p : Nat × β}
    (h : p ∈ filterMapL f l) : ∃ v, (p.1, v) ∈ l := by
  induction l with
  | nil => simp [filterMapL] at h
  | cons hd t ih =>
    obtain ⟨k, v⟩ := hd
    simp only [filterMapL] at h
    split at h
    · simp only [List.mem_cons] at h
      rcases h with h | h
      · subst h; exact ⟨v, by simp⟩
      · obtain ⟨w, hw⟩ := ih h; exact ⟨w, by simp [hw]⟩
    · obtain ⟨w, hw⟩ := ih h; exact ⟨w, by simp [hw]⟩

theorem filterMapL_sorted {α β : Type} (f : Nat → α → Option β) {l : List (Nat × α)}
    (hs : KeysLt l) : KeysLt (filterMapL f l) := by
  induction l with
  | nil => simp [filterMapL, KeysLt]
  | cons hd t ih =>
    obtain ⟨k, v⟩ := hd
    have hs' := List.pairwise_cons.mp hs
    simp only [filterMapL]
    split
    · refine List.pairwise_cons.mpr ⟨?_, ih hs'.2⟩
      intro p hp
      obtain ⟨w, hw⟩ := mem_filterMapL hp
      exact hs'.1 _ hw
    · exact ih hs'.2

/-- canonical finite map `Nat ⇀ α` -/
structure SMap (α : Type) where
  l : List (Nat × α)
  sorted : KeysLt l

namespace SMap
variable {α β : Type}

def empty : SMap α := ⟨[], List.Pairwise.nil⟩
def get (m : SMap α) (k : Nat) : Option α := getL m.l k
def contains (m : SMap α) (k : Nat) : Bool := (m.get k).isSome
def insert (m : SMap α) (k : Nat) (v : α) : SMap α := ⟨insertL k v m.l, insertL_sorted k v m.sorted⟩
def erase (m : SMap α) (k : Nat) : SMap α := ⟨eraseL k m.l, List.Pairwise.filter _ m.sorted⟩
def filterMap (f : Nat → α → Option β) (m : SMap α) : SMap β :=
  ⟨filterMapL f m.l, filterMapL_sorted f m.sorted⟩
def isEmpty (m : SMap α) : Bool := m.l.isEmpty
def size (m : SMap α) : Nat := m.l.length
def keys (m : SMap α) : List Nat := m.l.map (·.1)
/-- `insert` or `erase` -/
def set (m : SMap α) (k : Nat) : Option α → SMap α
  | some v => m.insert k v
  | none => m.erase k
end SMap

/-! ### the graph -/

def U32_MAX : Nat := 4294967295

/-- `ChannelUpdateInfo`; `hasMsg` = `last_update_message.is_some()` -/
structure UpdInfo where
  lastUpdate : Nat
  enabled : Bool
  cltv : Nat
  htlcMin : Nat
  htlcMax : Nat
  feeBase : Nat
  feeProp : Nat
  hasMsg : Bool
  deriving DecidableEq, Repr

/-- `ChannelInfo` (features omitted; `hasMsg` = `announcement_message.is_some()`) -/
structure ChanInfo where
  node1 : Nat
  node2 : Nat
  capacity : Option Nat
  d12 : Option UpdInfo
  d21 : Option UpdInfo
  recvTime : Nat
  hasMsg : Bool
  deriving DecidableEq, Repr

/-- `NodeAnnouncementInfo` (`relayed` = the `Relayed` variant; `payload` abstracts rgb/alias/…) -/
structure NodeAnnInfo where
  lastUpdate : Nat
  payload : Nat
  relayed : Bool
  deriving DecidableEq, Repr

/-- `NodeInfo`; `channels` as a sorted set of scids -/
structure NodeInfo where
  channels : SMap Unit
  ann : Option NodeAnnInfo

/-- `NetworkGraph`: channels, nodes and the two tombstone maps (`removed_channels`, `removed_nodes`;
    with `std` the tracked time is always `Some(now)`) -/
structure Graph where
  channels : SMap ChanInfo
  nodes : SMap NodeInfo
  removedChannels : SMap Nat
  removedNodes : SMap Nat

def Graph.empty : Graph := ⟨SMap.empty, SMap.empty, SMap.empty, SMap.empty⟩

-- `Reject` (the `LightningError`s of the gossip handlers with their `ErrorAction`s) is GENERATED from the
-- Rust text: Generated/Gossip.lean

inductive Outcome
  | accept
  | reject (r : Reject)
  | done
  deriving DecidableEq, Repr

/-- synchronous result of the (unmodelled) `UtxoLookup` for this announcement -/
inductive Utxo
  | noLookup
  | value (sats : Nat)
  | unknownTx
  deriving DecidableEq, Repr

/-- `channel_announcement` as delivered: `verify` = signed entry point
    (`update_channel_from_announcement`) vs `update_channel_from_unsigned_announcement`;
    `now` = wall clock at receipt -/
structure ChanAnn where
  scid : Nat
  n1 : Nat
  n2 : Nat
  sameBtc : Bool
  chainOk : Bool
  verify : Bool
  sigN1 : Bool
  sigN2 : Bool
  sigB1 : Bool
  sigB2 : Bool
  utxo : Utxo
  now : Nat
  deriving DecidableEq, Repr

/-- `channel_update`: `dir` = `channel_flags & 1` (true: two_to_one, to be signed by node_two),
    `disabled` = `channel_flags & 2`, `dontForward` = `message_flags & 2`; `signer` = the node whose
    key made the signature (a value that is no node id = garbage signature); `verify` = signed entry
    point (`P2PGossipSync::handle_channel_update`) vs `update_channel_unsigned` -/
structure ChanUpd where
  scid : Nat
  dir : Bool
  disabled : Bool
  ts : Nat
  cltv : Nat
  htlcMin : Nat
  htlcMax : Nat
  feeBase : Nat
  feeProp : Nat
  chainOk : Bool
  dontForward : Bool
  verify : Bool
  signer : Nat
  deriving DecidableEq, Repr

/-- `node_announcement`: `verify` = `update_node_from_announcement` vs `..._unsigned_announcement` -/
structure NodeAnn where
  node : Nat
  ts : Nat
  payload : Nat
  verify : Bool
  sigOk : Bool
  deriving DecidableEq, Repr

/-! ### node bookkeeping -/

-- mirrors gossip.rs::add_channel_between_nodes (the loop over node_one / node_two)
def addChanToNode (nodes : SMap NodeInfo) (id scid : Nat) : SMap NodeInfo :=
  match nodes.get id with
  | some ni => nodes.insert id { ni with channels := ni.channels.insert scid () }
  | none => nodes.insert id { channels := SMap.empty.insert scid (), ann := none }

-- mirrors gossip.rs::remove_channel_in_nodes_callback (macro remove_from_node with immediate
-- removal; an absent node is a panic "inconsistent network map" in the Rust code, unreachable)
def removeChanFromNode (nodes : SMap NodeInfo) (id scid : Nat) : SMap NodeInfo :=
  match nodes.get id with
  | some ni =>
    let chs := ni.channels.erase scid
    if chs.isEmpty then nodes.erase id else nodes.insert id { ni with channels := chs }
  | none => nodes

-- mirrors gossip.rs::remove_channel_in_nodes
def removeChanInNodes (nodes : SMap NodeInfo) (c : ChanInfo) (scid : Nat) : SMap NodeInfo :=
  removeChanFromNode (removeChanFromNode nodes c.node1 scid) c.node2 scid

/-! ### channel_announcement -/

def ChanAnn.sigsOk (a : ChanAnn) : Bool := a.sigN1 && a.sigN2 && a.sigB1 && a.sigB2

/-- what the op line says about a signature slot: `true` = made over this message by the key announced in the
    slot the signature belongs to (BOLT 7 pairing, `Gen.CaSig.ownKey`), `false` = by a key that is none of the
    announced ones -/
def ChanAnn.flag (a : ChanAnn) : Gen.CaSig → Bool
  | .node_signature_1 => a.sigN1
  | .node_signature_2 => a.sigN2
  | .bitcoin_signature_1 => a.sigB1
  | .bitcoin_signature_2 => a.sigB2

/-- holders of the announced keys of a `ca` op -/
def ChanAnn.keyOf (a : ChanAnn) : Gen.CaKey → KeyId
  | .node_id_1 => .node a.n1
  | .node_id_2 => .node a.n2
  | .bitcoin_key_1 => .btc 0
  | .bitcoin_key_2 => .btc (if a.sameBtc then 0 else 1)

/-- the wire-level reading of a `ca` op: announced key holders and who made each signature -/
def ChanAnn.wire (a : ChanAnn) : CaWire where
  key := a.keyOf
  sig := fun s => ⟨if a.flag s then a.keyOf s.ownKey else .other 0, true⟩

/-- the wire-level reading of a `na` op -/
def NodeAnn.wire (n : NodeAnn) : NaWire where
  key := fun | .node_id => .node n.node
  sig := fun | .signature => ⟨if n.sigOk then .node n.node else .other 0, true⟩

-- mirrors gossip.rs::pre_channel_announcement_validation_check
def chanAnnPre (g : Graph) (a : ChanAnn) : Option Reject :=
  if a.n1 ≥ a.n2 then some .nodeIdsNotSorted
  else if a.sameBtc then some .selfChannel
  else if !a.chainOk then some .wrongChain
  else match g.channels.get a.scid with
    | some c =>
      match c.capacity with
      | some _ => if a.n1 = c.node1 ∧ a.n2 = c.node2 then some .dupChainValidated else none
      | none => if a.utxo = .noLookup then some .dupNonChainValidated else none
    | none => none

-- mirrors gossip.rs::add_channel_between_nodes
def addChannelBetweenNodes (g : Graph) (scid : Nat) (c : ChanInfo) (utxoSome : Bool) : Graph × Outcome :=
  match g.channels.get scid with
  | some old =>
    if utxoSome then
      let nodes := removeChanInNodes g.nodes old scid
      ({ g with channels := g.channels.insert scid c,
                nodes := addChanToNode (addChanToNode nodes c.node1 scid) c.node2 scid }, .accept)
    else (g, .reject .alreadyKnown)
  | none =>
    ({ g with channels := g.channels.insert scid c,
              nodes := addChanToNode (addChanToNode g.nodes c.node1 scid) c.node2 scid }, .accept)

-- mirrors gossip.rs::update_channel_from_announcement / update_channel_from_unsigned_announcement
-- (pre-check, verify_channel_announcement, update_channel_from_unsigned_announcement_intern)
def applyChanAnn (g : Graph) (a : ChanAnn) : Graph × Outcome :=
  match chanAnnPre g a with
  | some r => (g, .reject r)
  | none =>
    if a.verify && !a.sigsOk then (g, .reject .badSig)
    else if g.removedChannels.contains a.scid || g.removedNodes.contains a.n1
        || g.removedNodes.contains a.n2 then (g, .reject .recentlyRemoved)
    else match a.utxo with
      | .unknownTx => (g, .reject .utxoUnknownTx)
      | .noLookup =>
        addChannelBetweenNodes g a.scid
          { node1 := a.n1, node2 := a.n2, capacity := none, d12 := none, d21 := none,
            recvTime := a.now, hasMsg := a.verify } false
      | .value v =>
        addChannelBetweenNodes g a.scid
          { node1 := a.n1, node2 := a.n2, capacity := some v, d12 := none, d21 := none,
            recvTime := a.now, hasMsg := a.verify } true

-- mirrors gossip.rs::add_channel_from_partial_announcement (rapid-gossip-sync entry point:
-- no chain-hash, tombstone or signature checks; explicit receipt time)
def applyChanPartial (g : Graph) (scid : Nat) (cap : Option Nat) (recv n1 n2 : Nat) : Graph × Outcome :=
  if n1 ≥ n2 then (g, .reject .nodeIdsNotSorted)
  else addChannelBetweenNodes g scid
    { node1 := n1, node2 := n2, capacity := cap, d12 := none, d21 := none, recvTime := recv,
      hasMsg := false } false

/-! ### channel_update -/

-- mirrors the closure check_update_latest in gossip.rs::update_channel_internal
def checkUpdLatest (target : Option UpdInfo) (ts : Nat) : Option Reject :=
  match target with
  | some e =>
    if e.lastUpdate > ts then some .older
    else if e.lastUpdate = ts then some .sameTimestamp
    else none
  | none => none

def ChanInfo.dir (c : ChanInfo) (d : Bool) : Option UpdInfo := if d then c.d21 else c.d12
def ChanInfo.dirNode (c : ChanInfo) (d : Bool) : Nat := if d then c.node2 else c.node1
def ChanInfo.setDir (c : ChanInfo) (d : Bool) (u : Option UpdInfo) : ChanInfo :=
  if d then { c with d21 := u } else { c with d12 := u }

-- mirrors the closure check_msg_sanity in gossip.rs::update_channel_internal
def checkMsgSanity (c : ChanInfo) (u : ChanUpd) : Option Reject :=
  match c.capacity with
  | some cap =>
    if cap > MAX_VALUE_MSAT / 1000 ∨ u.htlcMax > cap * 1000 then some .htlcMaxAboveCapacity
    else checkUpdLatest (c.dir u.dir) u.ts
  | none => checkUpdLatest (c.dir u.dir) u.ts

def ChanUpd.info (u : ChanUpd) : UpdInfo :=
  { lastUpdate := u.ts, enabled := !u.disabled, cltv := u.cltv, htlcMin := u.htlcMin,
    htlcMax := u.htlcMax, feeBase := u.feeBase, feeProp := u.feeProp, hasMsg := u.verify }

/-- what `update_channel_internal` does to the channel entry it finds -/
def updChan (c : ChanInfo) (u : ChanUpd) : Except Reject ChanInfo :=
  match checkMsgSanity c u with
  | some r => .error r
  | none =>
    if u.verify && u.signer != c.dirNode u.dir then .error .badSig
    else .ok (c.setDir u.dir (some u.info))

-- mirrors P2PGossipSync::handle_channel_update (dont_forward) + gossip.rs::update_channel_internal
-- (`_test_utils` build: no wall-clock freshness test)
def applyChanUpd (g : Graph) (u : ChanUpd) : Graph × Outcome :=
  if u.verify && u.dontForward then (g, .reject .dontForward)
  else if !u.chainOk then (g, .reject .wrongChain)
  else if u.htlcMax > MAX_VALUE_MSAT then (g, .reject .htlcMaxTooLarge)
  else match g.channels.get u.scid with
    | none => (g, .reject .unknownChannel)
    | some c =>
      match updChan c u with
      | .error r => (g, .reject r)
      | .ok c' => ({ g with channels := g.channels.insert u.scid c' }, .accept)

/-! ### node_announcement -/

/-- what `update_node_from_announcement_intern` does to the node entry it finds -/
def updNode (ni : NodeInfo) (n : NodeAnn) : Except Reject NodeInfo :=
  match ni.ann with
  | some a =>
    if a.lastUpdate > n.ts then .error .older
    else if a.lastUpdate = n.ts then .error .sameTimestamp
    else .ok { ni with ann := some ⟨n.ts, n.payload, n.verify⟩ }
  | none => .ok { ni with ann := some ⟨n.ts, n.payload, n.verify⟩ }

-- mirrors gossip.rs::update_node_from_announcement (duplicate pre-check, verify_node_announcement)
-- and update_node_from_announcement_intern
def applyNodeAnn (g : Graph) (n : NodeAnn) : Graph × Outcome :=
  match g.nodes.get n.node with
  | none => if n.verify && !n.sigOk then (g, .reject .badSig) else (g, .reject .noChannelsForNode)
  | some ni =>
    if n.verify && (ni.ann.map (·.lastUpdate) == some n.ts) then (g, .reject .sameTimestamp)
    else if n.verify && !n.sigOk then (g, .reject .badSig)
    else match updNode ni n with
      | .error r => (g, .reject r)
      | .ok ni' => ({ g with nodes := g.nodes.insert n.node ni' }, .accept)

/-! ### removals -/

-- mirrors gossip.rs::channel_failed_permanent (→ channel_failed_permanent_with_time, Some(now))
def failPermanent (g : Graph) (scid now : Nat) : Graph :=
  match g.channels.get scid with
  | some c =>
    { g with channels := g.channels.erase scid,
             removedChannels := g.removedChannels.insert scid now,
             nodes := removeChanInNodes g.nodes c scid }
  | none => g

/-- one iteration of the loop over `node.channels` in `node_failed_permanent` -/
def nodeFailStep (id now : Nat) (st : SMap ChanInfo × SMap NodeInfo × SMap Nat) (scid : Nat) :
    SMap ChanInfo × SMap NodeInfo × SMap Nat :=
  match st.1.get scid with
  | some c =>
    let other := if id = c.node1 then c.node2 else c.node1
    (st.1.erase scid, removeChanFromNode st.2.1 other scid, st.2.2.insert scid now)
  | none => st

-- mirrors gossip.rs::node_failed_permanent
def nodeFailPermanent (g : Graph) (id now : Nat) : Graph :=
  match g.nodes.get id with
  | some n =>
    let st := n.channels.keys.foldl (nodeFailStep id now) (g.channels, g.nodes.erase id, g.removedChannels)
    { channels := st.1, nodes := st.2.1, removedChannels := st.2.2,
      removedNodes := g.removedNodes.insert id now }
  | none => g

/-- clear a direction whose `last_update` is below `min_time_unix` -/
def pruneDir (minT : Nat) (d : Option UpdInfo) : Option UpdInfo :=
  match d with
  | some u => if u.lastUpdate < minT then none else some u
  | none => none

/-- the body of the loop of `remove_stale_channels_and_tracking_with_time`: `none` = the channel is
    removed (a direction is missing after clearing and the announcement is older than the limit) -/
def pruneChan (minT : Nat) (c : ChanInfo) : Option ChanInfo :=
  let d12 := pruneDir minT c.d12
  let d21 := pruneDir minT c.d21
  if (d12.isNone || d21.isNone) && decide (c.recvTime < minT) then none
  else some { c with d12 := d12, d21 := d21 }

def prunedScid (g : Graph) (minT scid : Nat) : Bool :=
  match g.channels.get scid with
  | some c => (pruneChan minT c).isNone
  | none => false

/-- a node loses the removed channels; it is removed when that leaves it without channels -/
def pruneNode (g : Graph) (minT : Nat) (ni : NodeInfo) : Option NodeInfo :=
  let chs := ni.channels.filterMap (fun s _ => if prunedScid g minT s then none else some ())
  -- (`remove_channel_in_nodes_callback` only visits nodes that lose a channel: an untouched node is kept)
  if chs.isEmpty && !ni.channels.isEmpty then none else some { ni with channels := chs }

/-- `should_keep_tracking` (std: the time is always known) -/
def keepTracking (t : Nat) (time : Nat) : Option Nat :=
  if t - time < REMOVED_ENTRIES_TRACKING_AGE_LIMIT_SECS then some time else none

-- mirrors gossip.rs::remove_stale_channels_and_tracking_with_time
def pruneAt (g : Graph) (t : Nat) : Graph :=
  if t > U32_MAX then g
  else if t < STALE_CHANNEL_UPDATE_AGE_LIMIT_SECS then g
  else
    let minT := t - STALE_CHANNEL_UPDATE_AGE_LIMIT_SECS
    let removed := (g.channels.keys.filter (prunedScid g minT))
    let rc := removed.foldl (fun m s => m.insert s t) g.removedChannels
    { channels := g.channels.filterMap (fun _ c => pruneChan minT c),
      nodes := g.nodes.filterMap (fun _ ni => pruneNode g minT ni),
      removedChannels := rc.filterMap (fun _ time => keepTracking t time),
      removedNodes := g.removedNodes.filterMap (fun _ time => keepTracking t time) }

/-! ### operations -/

inductive Msg
  | chanAnn (a : ChanAnn)
  | chanUpd (u : ChanUpd)
  | nodeAnn (n : NodeAnn)
  deriving DecidableEq, Repr

inductive Op
  | msg (m : Msg)
  | chanPartial (scid : Nat) (cap : Option Nat) (recv n1 n2 : Nat)
  | failPermanent (scid now : Nat)
  | nodeFailPermanent (id now : Nat)
  | pruneAt (t : Nat)

def applyMsg (g : Graph) : Msg → Graph × Outcome
  | .chanAnn a => applyChanAnn g a
  | .chanUpd u => applyChanUpd g u
  | .nodeAnn n => applyNodeAnn g n

def step (g : Graph) : Op → Graph × Outcome
  | .msg m => applyMsg g m
  | .chanPartial scid cap recv n1 n2 => applyChanPartial g scid cap recv n1 n2
  | .failPermanent scid now => (failPermanent g scid now, .done)
  | .nodeFailPermanent id now => (nodeFailPermanent g id now, .done)
  | .pruneAt t => (pruneAt g t, .done)

/-- deliver a list of messages -/
def runMsgs (g : Graph) (ms : List Msg) : Graph := ms.foldl (fun g m => (applyMsg g m).1) g
/-- execute a list of operations -/
def run (g : Graph) (ops : List Op) : Graph := ops.foldl (fun g o => (step g o).1) g


/-! ## the model proper: every decision is a call of generated code (Generated/Gossip.lean) -/
namespace Impl

-- mirrors gossip.rs::verify_channel_announcement: the GENERATED check list evaluated on the op's wire reading
def chanAnnSigsVerify (a : ChanAnn) : Bool := verifyChanAnn a.wire

-- mirrors gossip.rs::verify_node_announcement: the GENERATED check list evaluated on the op's wire reading
def nodeAnnSigVerifies (n : NodeAnn) : Bool := verifyNodeAnn n.wire

/-- `channel_flags` as the harness builds it: bit 0 = direction, bit 1 = disabled -/
def _root_.Ldk.Gossip.ChanUpd.channelFlags (u : ChanUpd) : Nat :=
  (if u.dir then 1 else 0) ||| (if u.disabled then 2 else 0)
/-- `message_flags`: bit 0 must-be-one, bit 1 = dont_forward -/
def _root_.Ldk.Gossip.ChanUpd.messageFlags (u : ChanUpd) : Nat :=
  1 ||| (if u.dontForward then 2 else 0)
/-- chain hashes as small naturals: 0 = the graph's chain -/
def chainId (ok : Bool) : Nat := if ok then 0 else 1
/-- length of `excess_data` (the harness never sends any) -/
def noExcess : Nat := 0

-- mirrors gossip.rs::pre_channel_announcement_validation_check
def chanAnnPre (g : Graph) (a : ChanAnn) : Option Reject :=
  if Gen.annIdsUnsorted a.n1 a.n2 then some .nodeIdsNotSorted
  else if Gen.annSameBitcoinKeys 1 (if a.sameBtc then 1 else 2) then some .selfChannel
  else if Gen.annChainMismatch (chainId a.chainOk) 0 then some .wrongChain
  else match g.channels.get a.scid with
    | some c =>
      if Gen.annKnownValidated c.capacity then
        (if Gen.annSameNodes a.n1 a.n2 c.node1 c.node2 then some .dupChainValidated else none)
      else if Gen.annNoLookup (match a.utxo with | .noLookup => none | _ => some 0) then some .dupNonChainValidated
      else none
    | none => none

-- mirrors gossip.rs::add_channel_between_nodes (`utxoValue` = the argument `utxo_value`)
def addChannelBetweenNodes (g : Graph) (scid : Nat) (c : ChanInfo) (utxoValue : Option Nat) : Graph × Outcome :=
  match g.channels.get scid with
  | some old =>
    if Gen.replaceExisting utxoValue then
      let nodes := removeChanInNodes g.nodes old scid
      ({ g with channels := g.channels.insert scid c,
                nodes := addChanToNode (addChanToNode nodes c.node1 scid) c.node2 scid }, .accept)
    else (g, .reject .alreadyKnown)
  | none =>
    ({ g with channels := g.channels.insert scid c,
              nodes := addChanToNode (addChanToNode g.nodes c.node1 scid) c.node2 scid }, .accept)

-- mirrors gossip.rs::update_channel_from_announcement / update_channel_from_unsigned_announcement(_intern)
def applyChanAnn (g : Graph) (a : ChanAnn) : Graph × Outcome :=
  match chanAnnPre g a with
  | some r => (g, .reject r)
  | none =>
    if a.verify && !chanAnnSigsVerify a then (g, .reject .badSig)
    else if Gen.annRecentlyRemoved g.removedChannels.contains g.removedNodes.contains a.scid a.n1 a.n2 then
      (g, .reject .recentlyRemoved)
    else match a.utxo with
      | .unknownTx => (g, .reject .utxoUnknownTx)
      | .noLookup =>
        addChannelBetweenNodes g a.scid
          { node1 := a.n1, node2 := a.n2, capacity := none, d12 := none, d21 := none,
            recvTime := a.now, hasMsg := a.verify && Gen.annKeepMessage noExcess } none
      | .value v =>
        addChannelBetweenNodes g a.scid
          { node1 := a.n1, node2 := a.n2, capacity := some v, d12 := none, d21 := none,
            recvTime := a.now, hasMsg := a.verify && Gen.annKeepMessage noExcess } (some v)

-- mirrors gossip.rs::add_channel_from_partial_announcement
def applyChanPartial (g : Graph) (scid : Nat) (cap : Option Nat) (recv n1 n2 : Nat) : Graph × Outcome :=
  if Gen.partialIdsUnsorted n1 n2 then (g, .reject .nodeIdsNotSorted)
  else addChannelBetweenNodes g scid
    { node1 := n1, node2 := n2, capacity := cap, d12 := none, d21 := none, recvTime := recv,
      hasMsg := false } none

-- mirrors the closure check_update_latest in gossip.rs::update_channel_internal
def checkUpdLatest (target : Option UpdInfo) (ts : Nat) : Option Reject :=
  match target with
  | some e =>
    if Gen.updOlder e.lastUpdate ts then some .older
    else if Gen.updSame e.lastUpdate ts then some .sameTimestamp
    else none
  | none => none

-- mirrors the closure check_msg_sanity in gossip.rs::update_channel_internal
def checkMsgSanity (c : ChanInfo) (u : ChanUpd) : Option Reject :=
  match c.capacity with
  | some cap =>
    if Gen.updCapacityBad cap u.htlcMax then some .htlcMaxAboveCapacity
    else checkUpdLatest (c.dir (Gen.updDirCheck u.channelFlags)) u.ts
  | none => checkUpdLatest (c.dir (Gen.updDirCheck u.channelFlags)) u.ts

/-- the `ChannelUpdateInfo` stored by update_channel_internal -/
def updInfo (u : ChanUpd) : UpdInfo :=
  { lastUpdate := u.ts, enabled := Gen.updChanEnabled u.channelFlags, cltv := u.cltv, htlcMin := u.htlcMin,
    htlcMax := u.htlcMax, feeBase := u.feeBase, feeProp := u.feeProp,
    hasMsg := u.verify && Gen.updKeepMessage noExcess }

def updChan (c : ChanInfo) (u : ChanUpd) : Except Reject ChanInfo :=
  match checkMsgSanity c u with
  | some r => .error r
  | none =>
    if u.verify && u.signer != c.dirNode (Gen.updDirSigner u.channelFlags) then .error .badSig
    else .ok (c.setDir (Gen.updDirStore u.channelFlags) (some (updInfo u)))

-- mirrors P2PGossipSync::handle_channel_update (dont_forward) + gossip.rs::update_channel_internal
def applyChanUpd (g : Graph) (u : ChanUpd) : Graph × Outcome :=
  if u.verify && Gen.updDontForward u.messageFlags then (g, .reject .dontForward)
  else if Gen.updChainMismatch (chainId u.chainOk) 0 then (g, .reject .wrongChain)
  else if Gen.updHtlcMaxTooLarge u.htlcMax then (g, .reject .htlcMaxTooLarge)
  else match g.channels.get u.scid with
    | none => (g, .reject .unknownChannel)
    | some c =>
      match updChan c u with
      | .error r => (g, .reject r)
      | .ok c' => ({ g with channels := g.channels.insert u.scid c' }, .accept)

def updNode (ni : NodeInfo) (n : NodeAnn) : Except Reject NodeInfo :=
  let stored : NodeAnnInfo := ⟨n.ts, n.payload, n.verify && Gen.nodeAnnShouldRelay noExcess noExcess⟩
  match ni.ann with
  | some a =>
    if Gen.nodeAnnOlder a.lastUpdate n.ts then .error .older
    else if Gen.nodeAnnSame a.lastUpdate n.ts then .error .sameTimestamp
    else .ok { ni with ann := some stored }
  | none => .ok { ni with ann := some stored }

/-- the duplicate pre-check of update_node_from_announcement -/
def preDup (o : Option NodeAnnInfo) (ts : Nat) : Bool :=
  match o with
  | some a => Gen.nodeAnnPreDup a.lastUpdate ts
  | none => false

-- mirrors gossip.rs::update_node_from_announcement (duplicate pre-check, verify_node_announcement)
-- and update_node_from_announcement_intern
def applyNodeAnn (g : Graph) (n : NodeAnn) : Graph × Outcome :=
  match g.nodes.get n.node with
  | none => if n.verify && !nodeAnnSigVerifies n then (g, .reject .badSig) else (g, .reject .noChannelsForNode)
  | some ni =>
    if n.verify && preDup ni.ann n.ts then (g, .reject .sameTimestamp)
    else if n.verify && !nodeAnnSigVerifies n then (g, .reject .badSig)
    else match updNode ni n with
      | .error r => (g, .reject r)
      | .ok ni' => ({ g with nodes := g.nodes.insert n.node ni' }, .accept)

/-- one iteration of the loop over `node.channels` in `node_failed_permanent` -/
def nodeFailStep (id now : Nat) (st : SMap ChanInfo × SMap NodeInfo × SMap Nat) (scid : Nat) :
    SMap ChanInfo × SMap NodeInfo × SMap Nat :=
  match st.1.get scid with
  | some c =>
    (st.1.erase scid, removeChanFromNode st.2.1 (Gen.failOtherNode id c.node1 c.node2) scid, st.2.2.insert scid now)
  | none => st

-- mirrors gossip.rs::node_failed_permanent
def nodeFailPermanent (g : Graph) (id now : Nat) : Graph :=
  match g.nodes.get id with
  | some n =>
    let st := n.channels.keys.foldl (nodeFailStep id now) (g.channels, g.nodes.erase id, g.removedChannels)
    { channels := st.1, nodes := st.2.1, removedChannels := st.2.2,
      removedNodes := g.removedNodes.insert id now }
  | none => g

def lastUpd (d : Option UpdInfo) : Option Nat := d.map (·.lastUpdate)

/-- the body of the loop of `remove_stale_channels_and_tracking_with_time` -/
def pruneChan (minT : Nat) (c : ChanInfo) : Option ChanInfo :=
  let d12 := if Gen.pruneDir12Stale (lastUpd c.d12) minT then none else c.d12
  let d21 := if Gen.pruneDir21Stale (lastUpd c.d21) minT then none else c.d21
  if Gen.pruneDirMissing (lastUpd d12) (lastUpd d21) && Gen.pruneAnnOld c.recvTime minT then none
  else some { c with d12 := d12, d21 := d21 }

def prunedScid (g : Graph) (minT scid : Nat) : Bool :=
  match g.channels.get scid with
  | some c => (pruneChan minT c).isNone
  | none => false

def pruneNode (g : Graph) (minT : Nat) (ni : NodeInfo) : Option NodeInfo :=
  let chs := ni.channels.filterMap (fun s _ => if prunedScid g minT s then none else some ())
  if chs.isEmpty && !ni.channels.isEmpty then none else some { ni with channels := chs }

def keepTracking (t : Nat) (time : Nat) : Option Nat :=
  if Gen.pruneKeepTracking t time then some time else none

-- mirrors gossip.rs::remove_stale_channels_and_tracking_with_time
def pruneAt (g : Graph) (t : Nat) : Graph :=
  if Gen.pruneTimeTooLarge t then g
  else if Gen.pruneTimeTooSmall t then g
  else
    let minT := Gen.pruneMinTime t
    let removed := (g.channels.keys.filter (prunedScid g minT))
    let rc := removed.foldl (fun m s => m.insert s t) g.removedChannels
    { channels := g.channels.filterMap (fun _ c => pruneChan minT c),
      nodes := g.nodes.filterMap (fun _ ni => pruneNode g minT ni),
      removedChannels := rc.filterMap (fun _ time => keepTracking t time),
      removedNodes := g.removedNodes.filterMap (fun _ time => keepTracking t time) }

def applyMsg (g : Graph) : Msg → Graph × Outcome
  | .chanAnn a => applyChanAnn g a
  | .chanUpd u => applyChanUpd g u
  | .nodeAnn n => applyNodeAnn g n

def step (g : Graph) : Op → Graph × Outcome
  | .msg m => applyMsg g m
  | .chanPartial scid cap recv n1 n2 => applyChanPartial g scid cap recv n1 n2
  | .failPermanent scid now => (failPermanent g scid now, .done)
  | .nodeFailPermanent id now => (nodeFailPermanent g id now, .done)
  | .pruneAt t => (pruneAt g t, .done)

/-- deliver a list of messages -/
def runMsgs (g : Graph) (ms : List Msg) : Graph := ms.foldl (fun g m => (applyMsg g m).1) g
/-- execute a list of operations -/
def run (g : Graph) (ops : List Op) : Graph := ops.foldl (fun g o => (step g o).1) g

/-! ### rapid gossip sync (lightning-rapid-gossip-sync/src/processing.rs) on top of the graph -/

/-- one channel announcement of a snapshot (`cap` = the version-2 funding amount) -/
structure RgsAnn where
  scid : Nat
  cap : Option Nat
  n1 : Nat
  n2 : Nat
  deriving DecidableEq, Repr

/-- one node id of a version-2 snapshot; `flag` = first pubkey byte (parity + detail bits) -/
structure RgsNode where
  node : Nat
  flag : Nat
  deriving DecidableEq, Repr

/-- one channel update of a snapshot; a field is on the wire only when its flag bit is set -/
structure RgsUpd where
  scid : Nat
  flags : Nat
  cltv : Nat
  htlcMin : Nat
  feeBase : Nat
  feeProp : Nat
  htlcMax : Nat
  deriving DecidableEq, Repr

/-- a snapshot as `update_network_graph_no_std(bytes, now)` sees it -/
structure Snapshot where
  latestSeen : Nat
  now : Option Nat
  nodes : List RgsNode
  anns : List RgsAnn
  dCltv : Nat
  dMin : Nat
  dBase : Nat
  dProp : Nat
  dMax : Nat
  upds : List RgsUpd
  deriving DecidableEq, Repr

/-- the announcements: `add_channel_from_partial_announcement` with the backdated time; an
    `IgnoreDuplicateGossip` error is skipped, any other error aborts the whole snapshot there -/
def rgsAnns (g : Graph) (ts : Nat) : List RgsAnn → Graph × Option Reject
  | [] => (g, none)
  | a :: t =>
    let r := applyChanPartial g a.scid a.cap ts a.n1 a.n2
    match r.2 with
    | .reject e => if e.action == "IgnoreDuplicateGossip" then rgsAnns r.1 ts t else (r.1, some e)
    | _ => rgsAnns r.1 ts t

/-- the synthetic node announcement of a modified node: backdated timestamp, the payload the graph held
    BEFORE the snapshot (rgb/alias are copied from the stored announcement, `[0,0,0]` otherwise) -/
def rgsNodeMod (g0 : Graph) (ts : Nat) (n : RgsNode) : Option NodeAnn :=
  if Gen.rgsNodeModified n.flag then
    some { node := n.node, ts := ts,
           payload := match (g0.nodes.get n.node).bind (·.ann) with | some a => a.payload | none => 0,
           verify := false, sigOk := true }
  else none

/-- the synthetic `channel_update` of one snapshot entry against the current graph; `none` = skipped
    (incremental update without stored data for that direction) -/
def rgsUpdMsg (g : Graph) (ts : Nat) (s : Snapshot) (u : RgsUpd) : Option ChanUpd :=
  let std := Gen.rgsStdFlags u.flags
  let base : Option UpdInfo :=
    if Gen.rgsIncremental u.flags then
      (g.channels.get u.scid).bind (fun c => c.dir (Gen.dirInfoIsTwoToOne u.flags))
    else some { lastUpdate := 0, enabled := true, cltv := s.dCltv, htlcMin := s.dMin, htlcMax := s.dMax,
                feeBase := s.dBase, feeProp := s.dProp, hasMsg := false }
  base.map fun b =>
    { scid := u.scid, dir := decide (std &&& 1 = 1), disabled := decide (std &&& 2 = 2), ts := ts,
      cltv := if Gen.rgsHasCltv u.flags then u.cltv else b.cltv,
      htlcMin := if Gen.rgsHasHtlcMin u.flags then u.htlcMin else b.htlcMin,
      htlcMax := if Gen.rgsHasHtlcMax u.flags then u.htlcMax else b.htlcMax,
      feeBase := if Gen.rgsHasFeeBase u.flags then u.feeBase else b.feeBase,
      feeProp := if Gen.rgsHasFeeProp u.flags then u.feeProp else b.feeProp,
      chainOk := true, dontForward := false, verify := false, signer := 0 }

def rgsUpdStep (ts : Nat) (s : Snapshot) (g : Graph) (u : RgsUpd) : Graph :=
  match rgsUpdMsg g ts s u with
  | some cu => (applyChanUpd g cu).1
  | none => g

-- mirrors processing.rs::update_network_graph_from_byte_stream_no_std (after parsing)
def applySnapshot (g : Graph) (s : Snapshot) : Graph × Outcome :=
  if (match s.now with | some t => Gen.rgsSnapshotStale s.latestSeen t | none => false) then (g, .reject .rgsStale)
  else
    let ts := Gen.rgsBackdated s.latestSeen
    let mods := s.nodes.filterMap (rgsNodeMod g ts)
    match rgsAnns g ts s.anns with
    | (g1, some e) => (g1, .reject e)
    | (g1, none) =>
      let g2 := mods.foldl (fun g n => (applyNodeAnn g n).1) g1
      if s.upds.isEmpty then (g2, .done)     -- early return: no pruning either
      else
        let g3 := s.upds.foldl (rgsUpdStep ts s) g2
        (match s.now with | some t => pruneAt g3 t | none => g3, .done)

/-! ### payment-failure reports -/

/-- `NetworkUpdate` (gossip.rs): a payment failure blamed on a channel / a node, permanent or not -/
inductive NetUpd
  | channelFailure (scid : Nat) (isPermanent : Bool)
  | nodeFailure (id : Nat) (isPermanent : Bool)
  deriving DecidableEq, Repr

-- mirrors gossip.rs::NetworkGraph::handle_network_update: the graph operation a report turns into (none = no-op);
-- the two guards are GENERATED from the `if` conditions of the two match arms
def netUpdateOp (u : NetUpd) (now : Nat) : Option Op :=
  match u with
  | .channelFailure scid p => if Gen.chanFailureActs p then some (.failPermanent scid now) else none
  | .nodeFailure id p => if Gen.nodeFailureActs p then some (.nodeFailPermanent id now) else none

-- mirrors gossip.rs::NetworkGraph::handle_network_update on the graph
def handleNetworkUpdate (g : Graph) (u : NetUpd) (now : Nat) : Graph :=
  match netUpdateOp u now with
  | some op => (step g op).1
  | none => g

/-! ### UTXO lookup answers -/

-- mirrors utxo.rs::check_channel_announcement::handle_result, arm Ok(TxOut { value, script_pubkey }): the answer
-- validates the announcement with `value` unless the GENERATED script test refuses it. The model has ONE
-- "lookup refused" outcome (`Utxo.unknownTx`: reject, nothing stored); the driver prints the error text of the
-- script mismatch for it when the answer was a TxOut.
def utxoOfTxOut (value scriptPubkey expectedScript : Nat) : Utxo :=
  if Gen.utxoScriptRefused scriptPubkey expectedScript then .unknownTx else .value value

end Impl

end Ldk.Gossip
