/- C03 — the retry gate of one outbound payment: `retry_strategy`, `attempts.count`, and what a
   `find_route_and_send_payment` call does with them.  The gate expressions are `Generated/OutboundRetry.lean`
   (Retry::is_retryable_now) and `Generated/OutboundSend.lean` (PendingOutboundPayment::is_retryable_now /
   is_auto_retryable_now), re-translated from outbound_payment.rs on every run.  Time (`Retry::Timeout`) is injected:
   every call carries the time elapsed since `first_attempted_at`.  No Mathlib. -/
import LdkModel.Generated.OutboundRetry
import LdkModel.Generated.OutboundSend
namespace Ldk.OutboundRetry
open Ldk.OutboundRetryGen

/-- `retry_strategy: Option<Retry>` -/
inductive Strategy
  | manual                      -- `None`: retries are the user's business
  | attempts (max : Nat)        -- `Some(Retry::Attempts(max))`
  | timeout (maxDuration : Nat) -- `Some(Retry::Timeout(maxDuration))`
  deriving DecidableEq, Repr, Inhabited

def Strategy.isSome : Strategy → Bool
  | .manual => false
  | _ => true

/-- `strategy.is_retryable_now(&attempts)` -/
def Strategy.gate : Strategy → Nat → Nat → Bool
  | .manual, _, _ => true
  | .attempts n, count, _ => attemptsGate n count
  | .timeout d, _, elapsed => timeoutGate d elapsed

structure RetrySt where
  strategy : Strategy := .manual
  /-- `attempts.count` -/
  count : Nat := newCount
  /-- the entry is (still) `Retryable` -/
  retryable : Bool := true
  /-- `payment_params: Some(_)` (false only for entries rebuilt from monitors at start-up) -/
  paramsSome : Bool := true
  deriving DecidableEq, Repr, Inhabited

def RetrySt.variant (r : RetrySt) : OutboundSendGen.Variant := if r.retryable then .retryable else .abandoned

/-- mirrors PendingOutboundPayment::is_retryable_now -/
def RetrySt.isRetryableNow (r : RetrySt) (elapsed : Nat) : Bool :=
  OutboundSendGen.isRetryableNow r.variant r.strategy.isSome (r.strategy.gate r.count elapsed)

/-- mirrors PendingOutboundPayment::is_auto_retryable_now -/
def RetrySt.isAutoRetryableNow (r : RetrySt) (elapsed : Nat) : Bool :=
  OutboundSendGen.isAutoRetryableNow r.variant r.strategy.isSome r.paramsSome (r.strategy.gate r.count elapsed)

/-- what the router / the overflow test answer in one find_route_and_send_payment call -/
inductive Answer
  | noRoute | overflow | route
  deriving DecidableEq, Repr

/-- mirrors find_route_and_send_payment as far as the retry budget goes: the router has been asked
    (`routerCalledBeforeGate`); no route / overflow / a closed gate abandon the payment (it leaves `Retryable` for good);
    otherwise the new HTLCs are inserted and `increment_attempts()` runs.  Returns whether HTLCs are sent. -/
def RetrySt.call (r : RetrySt) (elapsed : Nat) (a : Answer) : RetrySt × Bool :=
  if !r.retryable then (r, false) else
  match a with
  | .noRoute | .overflow => ({ r with retryable := false }, false)
  | .route =>
    if r.isRetryableNow elapsed then ({ r with count := incrementCount r.count }, true)
    else ({ r with retryable := false }, false)

/-- a sequence of calls `(elapsed, answer)`: (final state, number of calls that sent HTLCs, number of router calls made
    while the entry was still Retryable) -/
def RetrySt.run (r : RetrySt) : List (Nat × Answer) → RetrySt × Nat × Nat
  | [] => (r, 0, 0)
  | (el, a) :: rest =>
    let x := r.call el a
    let y := RetrySt.run x.1 rest
    (y.1, y.2.1 + (if x.2 then 1 else 0), y.2.2 + (if r.retryable then 1 else 0))

end Ldk.OutboundRetry
