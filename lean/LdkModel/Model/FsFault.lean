/- C19 — the file-level store model UNDER I/O FAULTS (extends Model/FsStore.lean). No Mathlib.

   A body of an issued operation may FAIL: the first mutating file operation of the callback that
   `execute_locked_write` runs (the `fs::rename` of a write, the `fs::remove_file` of a remove) returns an
   I/O error and has no effect (e.g. a non-empty directory at the destination path, a read-only directory).
   What the per-path lock then records as "last written version" — and hence which operations that were
   issued EARLIER but execute LATER are skipped as stale and report `Ok(())` — is decided by the locked block
   of `execute_locked_write`, TRANSLATED (statement order included) by tools/gen_fslocked.py into
   `FsConsts.lockedWrite`. `execF` uses exactly that definition. -/
import LdkModel.Model.FsStore
import LdkModel.Generated.FsStoreLocked
namespace Ldk.Fs
open Ldk.Kv Ldk.Persist Ldk.FsConsts

variable {ν : Type}

/-- would the callback fail, given that the injected fault makes its first mutating file operation fail?
    mirrors write_version's closure (`fs::rename(..)?` comes first) and remove_version's closure
    (`if !dest_file_path.is_file() { return Ok(()) }` comes before `fs::remove_file(..)?`: a remove of an
    absent key performs no file operation and cannot fail) -/
def cbFails (content : Option (Content ν)) (b : Body ν) (fault : Bool) : Bool :=
  fault && (match b with
    | .write _ => true
    | .remove _ => content.isSome)

/-- the per-destination register `(last written version, contents of the destination)` after the body of
    `x` ran under the per-path lock, and whether the call returned `Ok`: `lockedWrite` (translated) decides
    the result and the version; the contents change iff the callback ran and succeeded -/
def regF (acc : Nat × Option (Content ν)) (x : Pending ν) (fault : Bool) : (Nat × Option (Content ν)) × Bool :=
  let cbOk := !cbFails acc.2 x.body fault
  let r := lockedWrite x.version acc.1 cbOk
  ((r.2, if !isStaleVersion x.version acc.1 && cbOk then x.result else acc.2), r.1)

/-- the file operations of a body whose callback failed at its first mutating operation: a write has
    created, filled and synced its tmp file, the rename failed, `tmp_file_needs_cleanup` is still true so
    the tmp file is removed; a remove did nothing -/
def failedOps (st : St ν) (x : Pending ν) : List (FOp ν) :=
  match x.body with
  | .write v => let tmp := tmpPath x.dest st.tmpCounter; [.create tmp, .writeAll tmp v, .fsync tmp, .unlink tmp]
  | .remove _ => []

/-- run the body of an issued operation to completion, the callback failing if `fault` says so.
    Returns the state and whether the call returned `Ok`. mirrors write_version / remove_version +
    execute_locked_write (result and version bookkeeping: `lockedWrite` via `regF`) + clean_locks -/
def execF (st : St ν) (x : Pending ν) (fault : Bool) : St ν × Bool :=
  let l := lockOf st x.dest
  let r := regF (l.lastWritten, st.fs.get x.dest) x fault
  ({ st with fs := applyOps st.fs (if !staleNow st x && cbFails (st.fs.get x.dest) x.body fault then failedOps st x else bodyOps st x),
             tmpCounter := (match x.body with | .write _ => st.tmpCounter + 1 | .remove _ => st.tmpCounter),
             locks := if l.refs ≤ 1 then st.locks.del x.dest else st.locks.put x.dest ⟨r.1.1, l.refs - 1⟩ },
   r.2)

/-- run the bodies in the given order with the given faults; second component: the operations whose call
    returned `Ok` (most recent first) -/
def execAllF (acc : St ν × List (Pending ν)) (l : List (Pending ν × Bool)) : St ν × List (Pending ν) :=
  l.foldl (fun a e => let r := execF a.1 e.1 e.2; (r.1, if r.2 then e.1 :: a.2 else a.2)) acc

end Ldk.Fs

namespace Ldk.Fs
open Ldk.Kv Ldk.Persist Ldk.FsConsts
variable {ν : Type}

/-! ### arbitrary async histories: calls and completions interleaved -/

/-- an event of an async history: an API call is made (a valid write/remove takes its version and its lock
    reference NOW), or the body of the issued operation with that version completes (with or without a fault) -/
inductive AEv (ν : Type) where
  | call (op : KvOp ν)
  | complete (version : Nat) (fault : Bool)

/-- store state + the issued, not yet completed operations + the operations whose call returned Ok -/
structure ASt (ν : Type) where
  st : St ν
  pend : List (Pending ν) := []
  oks : List (Pending ν) := []

/-- take the pending operation with version `v` out of the list -/
def pickV (v : Nat) : List (Pending ν) → Option (Pending ν × List (Pending ν))
  | [] => none
  | y :: r => if y.version = v then some (y, r) else (pickV v r).map (fun e => (e.1, y :: e.2))

def AEv.apply (ue : Bool) (a : ASt ν) : AEv ν → ASt ν
  | .call op => match mutOf ue op with
      | some (d, b) => let i := issue a.st d b; { a with st := i.1, pend := i.2 :: a.pend }
      | none => a
  | .complete v f => match pickV v a.pend with
      | none => a
      | some (x, rest) => let r := execF a.st x f
                          { st := r.1, pend := rest, oks := if r.2 then x :: a.oks else a.oks }

def runA (ue : Bool) (a : ASt ν) (evs : List (AEv ν)) : ASt ν := evs.foldl (AEv.apply ue) a

end Ldk.Fs

namespace Ldk.Fs
open Ldk.Kv Ldk.Persist Ldk.FsConsts
variable {ν : Type}

/-! ### more fault kinds: failure BEFORE the lock, failure of the directory fsync AFTER the rename / unlink -/

/-- `early`: write_version fails before `execute_locked_write` (tmp create / write_all / sync_all): returns Err
    at once — no file operation took effect (a created tmp file is removed again), the tmp counter advanced,
    the lock reference is dropped WITHOUT clean_locks (the map entry and its version stay). A remove has no
    such part: it runs normally.
    `dirSync`: the LAST step of the callback fails — opening / syncing the parent directory after the rename
    (write) or the unlink (non-lazy remove of a present key) already happened: the call returns Err although
    the effect IS on disk, and (lockedWrite) the version is not recorded. -/
inductive FKind where
  | none | cb | early | dirSync
  deriving DecidableEq

def isDirSync : FOp ν → Bool
  | .fsyncDir _ _ => true
  | _ => false

/-- mirrors the early `return Err(..)` paths of write_version -/
def execE (st : St ν) (x : Pending ν) : St ν × Bool :=
  match x.body with
  | .write _ =>
    let l := lockOf st x.dest
    ({ st with tmpCounter := st.tmpCounter + 1, locks := st.locks.put x.dest ⟨l.lastWritten, l.refs - 1⟩ }, false)
  | .remove _ => execF st x false

/-- the callback runs completely except that its final directory fsync fails (if it has one) -/
def execD (st : St ν) (x : Pending ν) : St ν × Bool :=
  let l := lockOf st x.dest
  let r := lockedWrite x.version l.lastWritten (!(bodyOps st x).any isDirSync)
  ({ st with fs := applyOps st.fs (bodyOps st x),
             tmpCounter := (match x.body with | .write _ => st.tmpCounter + 1 | .remove _ => st.tmpCounter),
             locks := if l.refs ≤ 1 then st.locks.del x.dest else st.locks.put x.dest ⟨r.2, l.refs - 1⟩ },
   r.1)

def execK (st : St ν) (x : Pending ν) : FKind → St ν × Bool
  | .none => execF st x false
  | .cb => execF st x true
  | .early => execE st x
  | .dirSync => execD st x

/-- histories with all fault kinds; `all` = every operation issued so far -/
inductive KEv (ν : Type) where
  | call (op : KvOp ν)
  | complete (version : Nat) (k : FKind)

structure KSt (ν : Type) where
  st : St ν
  pend : List (Pending ν) := []
  all : List (Pending ν) := []

def KEv.apply (ue : Bool) (a : KSt ν) : KEv ν → KSt ν
  | .call op => match mutOf ue op with
      | some (d, b) => let i := issue a.st d b; { st := i.1, pend := i.2 :: a.pend, all := i.2 :: a.all }
      | none => a
  | .complete v k => match pickV v a.pend with
      | none => a
      | some (x, rest) => { a with st := (execK a.st x k).1, pend := rest }

def runK (ue : Bool) (a : KSt ν) (evs : List (KEv ν)) : KSt ν := evs.foldl (KEv.apply ue) a

end Ldk.Fs
