/- How the byte string of a BOLT-12 invoice request is assembled from the offer's bytes, and an
   invoice's from the invoice request's / refund's bytes (C18) — interpreter of the write PLANS of
   Generated/C18Mirror.lean (translated from UnsignedInvoiceRequest::new / UnsignedBolt12Invoice::new
   and their sign methods by tools/gen_c18_mirror.py).  The earlier message's records are copied as
   raw bytes (`TlvRecord::write` writes `record_bytes`), never re-encoded.  No Mathlib. -/
import LdkModel.Model.OfferMeta
import LdkModel.Generated.C18Mirror
namespace Ldk.OfferMirror
open Ldk.Merkle (Rec parseStream)
open Ldk.OfferMeta (rangeRecs)
open Ldk.C18Mirror

abbrev Bytes := List UInt8

def recsBytes (rs : List Rec) : Bytes := rs.flatMap (·.recordBytes)

/-- the message's own tlv_stream! outputs (already serialised) and its signature record -/
structure Own where
  payer : Bytes
  own : Bytes
  expOwn : Bytes
  sig : Bytes

def Own.get (o : Own) : String → Bytes
  | "payer" => o.payer
  | "own" => o.own
  | "expOwn" => o.expOwn
  | _ => []

/-- state of the construction: bytes written, number of source bytes copied so far (the offset of
    `remaining_bytes`), records copied so far -/
structure St where
  out : Bytes := []
  copiedLen : Nat := 0
  copied : List Rec := []

/-- one write; `none` where `TlvStream::next` would run into malformed source bytes -/
def stepSeg (src : Bytes) (o : Own) (s : St) : Seg → Option St
  | .own n => some { s with out := s.out ++ o.get n }
  | .sig => some { s with out := s.out ++ o.sig }
  | .copy lo hi =>
    match parseStream src with
    | none => none
    | some rs =>
      let c := rangeRecs lo hi rs
      some { out := s.out ++ recsBytes c, copiedLen := s.copiedLen + (recsBytes c).length, copied := s.copied ++ c }
  | .copyRest lo hi =>
    match parseStream (src.drop s.copiedLen) with
    | none => none
    | some rs =>
      let c := rangeRecs lo hi rs
      some { s with out := s.out ++ recsBytes c, copied := s.copied ++ c }

def runPlan (src : Bytes) (o : Own) : List Seg → St → Option St
  | [], s => some s
  | g :: gs, s => match stepSeg src o s g with | none => none | some s' => runPlan src o gs s'

/-- the bytes of the signed message built on top of `src` -/
def build (plan : List Seg) (src : Bytes) (o : Own) : Option Bytes := (runPlan src o plan {}).map (·.out)

/-- the records copied from `src` while doing so -/
def copiedRecs (plan : List Seg) (src : Bytes) (o : Own) : Option (List Rec) := (runPlan src o plan {}).map (·.copied)

end Ldk.OfferMirror
