/- How the byte string of a BOLT-12 invoice request is assembled from the offer's bytes, and an
   invoice's from the invoice request's / refund's bytes (C18) — interpreter of the write PLANS of
   Generated/C18Mirror.lean (translated from UnsignedInvoiceRequest::new / UnsignedBolt12Invoice::new
   and their sign methods by tools/gen_c18_mirror.py).  The earlier message's records are copied as
   raw bytes (`TlvRecord::write` writes `record_bytes`), never re-encoded.  No Mathlib. -/
import LdkModel.Model.OfferMeta
import LdkModel.Generated.C18Mirror
namespace Ldk.OfferMirror
open Ldk.Merkle (Rec parseStream)
open Ldk.OfferMeta (rangeRecs)
open Ldk.C18Mirror

abbrev Bytes := List UInt8

def recsBytes (rs : List Rec) : Bytes := rs.flatMap (·.recordBytes)

/-- the message's own tlv_stream! outputs (already serialised) and its signature record -/
structure Own where
  payer : Bytes
  own : Bytes
  expOwn : Bytes
  sig : Bytes

def Own.get (o : Own) : String → Bytes
  | "payer" => o.payer
  | "own" => o.own
  | "expOwn" => o.expOwn
  | _ => []

/-- state of the construction: bytes written, number of source bytes copied so far (the offset of
    `remaining_bytes`), records copied so far -/
structure St where
  out : Bytes := []
  copiedLen : Nat := 0
  copied : List Rec := []

/-- one write; `none` where `TlvStream::next` would run into malformed source bytes -/
def stepSeg (src : Bytes) (o : Own) (s : St) : Seg → Option St
  | .own n => some { s with out := s.out ++ o.get n }
  | .sig => some { s with out := s.out ++ o.sig }
  | .copy lo hi =>
    match parseStream src with
    | none => none
    | some rs =>
      let c := rangeRecs lo hi rs
      some { out := s.out ++ recsBytes c, copiedLen := s.copiedLen + (recsBytes c).length, copied := s.copied ++ c }
  | .copyRest lo hi =>
    match parseStream (src.drop s.copiedLen) with
    | none => none
    | some rs =>
      let c := rangeRecs lo hi rs
      some { s with out := s.out ++ recsBytes c, copied := s.copied ++ c }

def runPlan (src : Bytes) (o : Own) : List Seg → St → Option St
  | [], s => some s
  | g :: gs, s => match stepSeg src o s g with | none => none | some s' => runPlan src o gs s'

/-- the bytes of the signed message built on top of `src` -/
def build (plan : List Seg) (src : Bytes) (o : Own) : Option Bytes := (runPlan src o plan {}).map (·.out)

/-- the records copied from `src` while doing so -/
def copiedRecs (plan : List Seg) (src : Bytes) (o : Own) : Option (List Rec) := (runPlan src o plan {}).map (·.copied)

/-! ### Re-parsed unsigned messages (remote signing): TryFrom<Vec<u8>> for UnsignedInvoiceRequest /
    UnsignedBolt12Invoice split the received bytes into `bytes` / `experimental_bytes`, `sign()` writes
    `bytes ‖ signature ‖ experimental_bytes`.  The range predicate `p` is `C18Mirror.invreqSplitIn` /
    `invoiceSplitIn`, translated from the two `TlvStream::new(&bytes).range(R).last()` expressions. -/

/-- mirrors merkle.rs::TlvStream::range for any `RangeBounds` (`skip_while` not in range, `take_while` in range) -/
def rangeBy (p : Nat → Bool) (rs : List Rec) : List Rec :=
  (rs.dropWhile (fun r => !p r.ty)).takeWhile (fun r => p r.ty)

/-- mirrors `TlvStream::new(&bytes).range(R).last().map_or(0, |last_record| last_record.end)`: the byte
    offset at which the last record of the range ends (everything skipped before the range included) -/
def splitOffset (p : Nat → Bool) (rs : List Rec) : Nat :=
  if (rangeBy p rs).isEmpty then 0
  else (recsBytes (rs.takeWhile (fun r => !p r.ty) ++ rangeBy p rs)).length

/-- mirrors TryFrom<Vec<u8>> for Unsigned*: `(bytes, experimental_bytes)` after `bytes.split_off(offset)` -/
def reparseSplit (p : Nat → Bool) (b : Bytes) : Option (Bytes × Bytes) :=
  match parseStream b with
  | none => none
  | some rs => some (b.take (splitOffset p rs), b.drop (splitOffset p rs))

/-- mirrors `impl Writeable for Unsigned*`: the halves named by the translated write plan, in order -/
def writeUnsigned (plan : List WPart) (x : Bytes × Bytes) : Bytes :=
  plan.flatMap (fun | .bytes => x.1 | .experimental => x.2)

/-- `Unsigned*::try_from(b)` then `write` -/
def rewriteUnsigned (p : Nat → Bool) (plan : List WPart) (b : Bytes) : Option Bytes :=
  (reparseSplit p b).map (writeUnsigned plan)

/-- mirrors the sign methods on a re-parsed unsigned message: `bytes ‖ signature record ‖ experimental_bytes` -/
def signReparsed (p : Nat → Bool) (b sig : Bytes) : Option Bytes :=
  (reparseSplit p b).map (fun x => x.1 ++ sig ++ x.2)

/-- strictly ascending record types (what `ParsedMessage::try_from` / the tlv_stream! readers demand) -/
def ascendingB : List Rec → Bool
  | [] => true
  | [_] => true
  | a :: b :: rest => decide (a.ty < b.ty) && ascendingB (b :: rest)

/-- verdict on the signed bytes: `ok` iff they are a well-formed strictly ascending TLV stream whose
    non-signature records are exactly the records of the unsigned bytes -/
def resignVerdict (p : Nat → Bool) (b sig : Bytes) : String :=
  match signReparsed p b sig, parseStream b with
  | some out, some rs =>
    match parseStream out with
    | none => "malformed"
    | some rs' => if !ascendingB rs' then "not-ascending" else if Ldk.Merkle.nonSig rs' == rs then "ok" else "contents-differ"
  | _, _ => "err"

end Ldk.OfferMirror
