/- C20 — model of lightning-block-sync: SpvClient::poll_best_tip, ChainNotifier, HeaderCache,
   ChainPoller and init::synchronize_listeners over an abstract block tree.

   * block hashes are `Nat`s; a validated header is `Hdr = (hash, parent, height, work)` where `work`
     is the *cumulative* chainwork (BlockHeaderData.chainwork);
   * the block source is an oracle over a tree plus a failure schedule: the k-th request of an
     operation (get_best_block / get_header / get_block, counted from 0 in the order the real code
     issues them) fails iff `fails k`; a failure stands for a transient or persistent source error, a
     header/block that does not hash to the requested hash, fails PoW, or does not build on its child
     (`check_builds_on`) — the real code maps all of these to `Err` at that request;
   * output = the `chain::Listen` notifications, `connected hash height` for
     `block_connected`/`filtered_block_connected` and `disconnected hash height` for
     `blocks_disconnected(fork_point)`.
   No Mathlib; everything here is executable (the driver runs these very functions). -/
import LdkModel.Generated.Consts
import LdkModel.Generated.ChainSyncConsts
import LdkModel.Model.ChainSyncTypes
import LdkModel.Generated.ChainSync
namespace Ldk.ChainSync
open Ldk

-- `Hdr` (poll::ValidatedBlockHeader), `RawHdr`, `RawBlk` are in Model/ChainSyncTypes.lean; every comparison
-- below is a call into Generated/ChainSync.lean (translated from the Rust text on every check).

abbrev Tree := List Hdr

/-- the header with the given hash, if the tree has one -/
def hdrOf (t : Tree) (h : Nat) : Option Hdr := t.find? (fun b => b.hash == h)

inductive Err where
  | source      -- BlockSourceErrorKind::Persistent: the source answered a persistent Err / something `Validate` refuses
  | transient   -- BlockSourceErrorKind::Transient: the source answered a transient Err
  | genesis     -- poll.rs look_up_previous_header: "genesis block reached"
  | buildsOn    -- poll.rs check_builds_on failed
  | fuel        -- model artefact: walk did not terminate (unreachable on well-formed trees)
  | noLocator   -- "could not resolve any block from BlockLocator"
  | locatorHeight -- "BlockLocator had more previous_blocks than its height"
deriving DecidableEq, Repr

inductive Notif where
  | disconnected (toHash toHeight : Nat)
  | connected (hash height : Nat)
deriving DecidableEq, Repr

/-! ### block source -/

/-- a request as the source sees it: its index within the poll / start-up sync and what is asked for -/
inductive Req where
  | best (k : Nat)
  | header (k : Nat) (hash : Nat)
  | block (k : Nat) (hash : Nat)
deriving DecidableEq, Repr

structure Source where
  tree : Tree
  /-- hash returned by `get_best_block` -/
  best : Nat
  /-- failure schedule: which requests end in `Err` (a source error, or an answer that `Validate` refuses:
      see `Adv.toSource`, which computes this from ARBITRARY raw answers through the translated Validate layer) -/
  fails : Req → Bool
  /-- blocks the source does not know ("header not found" / pruned fork) -/
  hidden : Nat → Bool
  /-- `ChainPoller::network` is `Network::Bitcoin` (check_builds_on then enforces the difficulty rules) -/
  bitcoin : Bool := false
  /-- which failing requests are `BlockSourceError::transient` (all other errors — persistent source errors,
      everything `Validate` / `check_builds_on` refuse, "header not found" — are persistent) -/
  transient : Req → Bool := fun _ => false

/-- the `BlockSourceError` of a failing request -/
def Source.err (s : Source) (r : Req) : Err := if s.transient r then .transient else .source

/-- `BlockSourceError::kind() == Transient`; the kinds of the errors the library itself constructs (genesis test of
    ChainPoller::look_up_previous_header, the two locator errors of find_difference_from_best_block) are TRANSLATED
    from the constructor named in the Rust text (Generated/ChainSync.lean); what `Validate` / check_builds_on refuse
    is `persistent` (pinned by the translator's ERR shape) -/
def Err.isTransient : Err → Bool
  | .transient => true
  | .genesis => genesisErrTransient
  | .noLocator => noLocatorErrTransient
  | .locatorHeight => locatorHeightErrTransient
  | _ => false

/-- mirrors BlockSource::get_best_block (request `req`) -/
def Source.getBestBlock (s : Source) (req : Nat) : Except Err Nat :=
  if s.fails (.best req) then .error (s.err (.best req)) else .ok s.best

/-- mirrors BlockSource::get_header followed by `BlockHeaderData::validate(hash)` (request `req`) -/
def Source.getHeader (s : Source) (req : Nat) (h : Nat) : Except Err Hdr :=
  if s.fails (.header req h) then .error (s.err (.header req h))
  else if s.hidden h then .error .source
  else match hdrOf s.tree h with
    | some b => .ok b
    | none => .error .source

/-- mirrors Poll::fetch_block = BlockSource::get_block followed by `BlockData::validate(hash)` -/
def Source.getBlock (s : Source) (req : Nat) (b : Hdr) : Except Err Unit :=
  if s.fails (.block req b.hash) then .error (s.err (.block req b.hash))
  else if s.hidden b.hash then .error .source
  else match hdrOf s.tree b.hash with
    | some _ => .ok ()
    | none => .error .source

/-! ### header cache (lib.rs HeaderCache; a HashMap keyed by hash — order is irrelevant) -/

abbrev Cache := List Hdr

/-- mirrors HeaderCache::look_up -/
def cacheLookUp (c : Cache) (h : Nat) : Option Hdr := c.find? (fun b => b.hash == h)

/-- HashMap::insert -/
def cacheInsert (c : Cache) (b : Hdr) : Cache := b :: c.filter (fun x => x.hash != b.hash)

/-- mirrors HeaderCache::block_connected -/
def cacheBlockConnected (c : Cache) (b : Hdr) : Cache :=
  (cacheInsert c b).filter (fun x => cacheKeeps x (cacheCutoff b))

/-- `self.headers.iter().map(|(_, header)| header.height).max().unwrap_or(..)` -/
def maxHeight (c : Cache) : Nat :=
  match c with
  | [] => diffBestHeightDefault
  | _ => c.foldl (fun m x => max m x.height) 0

/-- mirrors HeaderCache::insert_during_diff -/
def cacheInsertDuringDiff (c : Cache) (b : Hdr) : Cache :=
  let c' := cacheInsert c b
  c'.filter (fun x => diffKeeps x (diffCutoff (maxHeight c')))

/-- mirrors HeaderCache::blocks_disconnected -/
def cacheBlocksDisconnected (c : Cache) (retainOnDisconnect : Bool) (fork : Hdr) : Cache :=
  if retainOnDisconnect then c else c.filter (fun x => disconnectKeeps x fork)

/-! ### poller (poll.rs ChainPoller) -/

/-- result of an operation that talks to the source: value or error, each with the index of the
    next request (= number of requests issued so far in this poll / start-up sync) -/
abbrev Res (α : Type) := Except (Err × Nat) (α × Nat)

/-- poll.rs ValidatedBlockHeader::check_builds_on = the translated `checkBuildsOnErr` (prev hash, height + 1,
    `chainwork == previous.chainwork + header.work()`, and for Network::Bitcoin the difficulty rules) -/
def checkBuildsOn (bitcoin : Bool) (h p : Hdr) : Bool := (checkBuildsOnErr bitcoin h p).isNone

/-- mirrors poll.rs ChainPoller::look_up_previous_header; returns the header and the next request index -/
def pollerPrev (s : Source) (req : Nat) (h : Hdr) : Res Hdr :=
  if isGenesisHeader h then .error (.genesis, req)
  else match s.getHeader req h.parent with
    | .error e => .error (e, req + 1)
    | .ok p => if checkBuildsOn s.bitcoin h p then .ok (p, req + 1) else .error (.buildsOn, req + 1)

inductive TipKind where
  | common
  | better (h : Hdr)
  | worse (h : Hdr)
deriving DecidableEq, Repr

/-- mirrors poll.rs ChainPoller::poll_chain_tip: `Better` iff strictly more chainwork; equal work is `Worse` -/
def pollChainTip (s : Source) (req : Nat) (known : Hdr) : Res TipKind :=
  match s.getBestBlock req with
  | .error e => .error (e, req + 1)
  | .ok bh =>
    if tipIsCommon bh known then .ok (.common, req + 1)
    else match s.getHeader (req + 1) bh with
      | .error e => .error (e, req + 2)
      | .ok tip =>
        if tipIsBetter tip known then .ok (.better tip, req + 2) else .ok (.worse tip, req + 2)

/-! ### ChainNotifier (lib.rs) -/

/-- mirrors lib.rs ChainNotifier::look_up_previous_header: cache first (no linkage check), then the poller -/
def lookUpPrev (s : Source) (c : Cache) (req : Nat) (h : Hdr) : Res Hdr :=
  match cacheLookUp c h.parent with
  | some p => .ok (p, req)
  | none => pollerPrev s req h

/-- lib.rs ChainDifference; `connected` is height-descending (new tip first), as the Rust `Vec` -/
structure Diff where
  common : Hdr
  connected : List Hdr
deriving DecidableEq, Repr

/-- mirrors lib.rs ChainNotifier::find_difference_from_header (the `loop`): walk back the higher of
    the two headers, both if the heights are equal (previous first, then current). Fuel bounds the
    number of iterations. -/
def findDiffF (s : Source) (c : Cache) : Nat → Hdr → Hdr → Nat → Res Diff
  | 0, _, _, req => .error (.fuel, req)
  | n + 1, cur, prev, req =>
    if fdFound cur prev then .ok (⟨cur, []⟩, req)
    else
      match (if fdWalkPrevious cur.height prev.height then lookUpPrev s c req prev else .ok (prev, req)) with
      | .error e => .error e
      | .ok (prev', req1) =>
        if fdWalkCurrent cur.height prev.height then
          match lookUpPrev s c req1 cur with
          | .error e => .error e
          | .ok (cur', req2) =>
            match findDiffF s c n cur' prev' req2 with
            | .error e => .error e
            | .ok (d, r) => .ok (⟨d.common, cur :: d.connected⟩, r)
        else findDiffF s c n cur prev' req1

/-- find_difference_from_header with enough fuel: every iteration lowers the sum of the heights -/
def findDiff (s : Source) (c : Cache) (cur prev : Hdr) (req : Nat) : Res Diff :=
  findDiffF s c (cur.height + prev.height + 1) cur prev req

structure ConnRes where
  ok : Bool
  /-- `new_tip`: the last block the listener was told about (the common ancestor if none) -/
  tip : Hdr
  cache : Cache
  req : Nat
  notifs : List Notif
deriving Repr

/-- mirrors lib.rs ChainNotifier::connect_blocks over the translated iteration order (`connectOrder`, applied by the caller):
    fetch, notify with the translated `connectHeight`, cache, advance `new_tip` (`connectNewTip`); a fetch error stops and
    reports `new_tip` (statement order whole-body pinned). -/
def connectBlocks (s : Source) : List Hdr → Hdr → Cache → Nat → ConnRes
  | [], tip, c, req => ⟨true, tip, c, req, []⟩
  | b :: rest, tip, c, req =>
    match s.getBlock req b with
    | .error _ => ⟨false, tip, c, req + 1, []⟩
    | .ok _ =>
      let r := connectBlocks s rest (connectNewTip b) (cacheBlockConnected c b) (req + 1)
      { r with notifs := .connected b.hash (connectHeight b) :: r.notifs }

/-- mirrors lib.rs ChainNotifier::disconnect_blocks(fork_point): the listener's `blocks_disconnected(BlockLocator)` with the
    translated locator arguments (`disconnectLocator`, Generated/ChainSync.lean) -/
def discNotif (h : Hdr) : Notif := .disconnected (disconnectLocator h).1 (disconnectLocator h).2

/-- result of synchronize_listener: `Ok(())`, `Err((_, None))`, `Err((_, Some(tip)))` -/
inductive SyncRes where
  | ok
  | errNone
  | errAt (tip : Hdr)
deriving DecidableEq, Repr

structure SyncOut where
  res : SyncRes
  cache : Cache
  req : Nat
  notifs : List Notif
deriving Repr

/-- mirrors lib.rs ChainNotifier::synchronize_listener -/
def synchronizeListener (s : Source) (c : Cache) (req : Nat) (new old : Hdr) : SyncOut :=
  match findDiff s c new old req with
  | .error (_, r) => ⟨.errNone, c, r, []⟩
  | .ok (d, req1) =>
    let disc := syncDisconnects d.common old
    let c1 := if disc then cacheBlocksDisconnected c false d.common else c
    let r := connectBlocks s (connectOrder d.connected) d.common c1 req1
    let ns := (if disc then [discNotif d.common] else []) ++ r.notifs
    ⟨if r.ok then .ok else .errAt r.tip, r.cache, r.req, ns⟩

/-- SpvClient state: `chain_tip` and `header_cache` -/
structure Client where
  tip : Hdr
  cache : Cache
deriving Repr

/-- mirrors lib.rs SpvClient::update_chain_tip: returns the new client, whether blocks were
    (dis)connected, and the notifications -/
def updateChainTip (s : Source) (cl : Client) (req : Nat) (best : Hdr) : Client × Bool × List Notif × Nat :=
  let o := synchronizeListener s cl.cache req best cl.tip
  match o.res with
  | .ok => (⟨best, o.cache⟩, true, o.notifs, o.req)
  | .errAt t => if partialAdvance t cl.tip then (⟨t, o.cache⟩, true, o.notifs, o.req) else (⟨cl.tip, o.cache⟩, false, o.notifs, o.req)
  | .errNone => (⟨cl.tip, o.cache⟩, false, o.notifs, o.req)

structure PollOut where
  result : Except Err (TipKind × Bool)
  client : Client
  notifs : List Notif
  /-- number of requests the source received during this poll -/
  reqs : Nat

/-- mirrors lib.rs SpvClient::poll_best_tip (request indices of the schedule count from 0 per poll) -/
def pollBestTip (s : Source) (cl : Client) : PollOut :=
  match pollChainTip s 0 cl.tip with
  | .error (e, r) => ⟨.error e, cl, [], r⟩
  | .ok (.common, r) => ⟨.ok (.common, false), cl, [], r⟩
  | .ok (.worse t, r) => ⟨.ok (.worse t, false), cl, [], r⟩
  | .ok (.better t, req) =>
    let (cl', connected, ns, r) := updateChainTip s cl req t
    ⟨.ok (.better t, connected), cl', ns, r⟩

/-! ### the tuple listener adapter (lightning/src/chain/mod.rs `impl Listen for (T, U)`) -/

/-- what the two components of a tuple listener receive, in delivery order, when the tuple is notified of `ns`:
    every notification goes to the components in the translated order (`tupleConnectOrder` / `tupleDisconnectOrder`)
    before the next notification is delivered -/
def tupleDeliver (ns : List Notif) : List (Nat × Notif) :=
  ns.flatMap (fun n => match n with
    | .connected .. => tupleConnectOrder.map (fun k => (k, n))
    | .disconnected .. => tupleDisconnectOrder.map (fun k => (k, n)))

/-- the notifications component `k` of the tuple saw -/
def componentView (k : Nat) (ds : List (Nat × Notif)) : List Notif := (ds.filter (fun d => d.1 == k)).map (·.2)

/-! ### init.rs synchronize_listeners -/

/-- lightning::chain::BlockLocator: tip hash, height, and up to 12 ancestor hashes (tip-1, tip-2, …) -/
structure Locator where
  hash : Nat
  height : Nat
  prevs : List (Option Nat)
deriving Repr

def prevCandidates : Nat → List (Option Nat) → List (Nat × Nat)
  | _, [] => []
  | i, none :: r => prevCandidates (i + 1) r
  | i, some h :: r => (locatorHeightDiff i, h) :: prevCandidates (i + 1) r

/-- `(height_diff, hash)` candidates in the order find_difference_from_best_block tries them -/
def Locator.candidates (l : Locator) : List (Nat × Nat) := (0, l.hash) :: prevCandidates 0 l.prevs

/-- mirrors the resolution loop of lib.rs ChainNotifier::find_difference_from_best_block: cache, then
    the source (`if let Ok(..)`: a failed request just moves on to the next candidate) -/
def resolveLocator (s : Source) (height : Nat) : List (Nat × Nat) → Cache → Nat → Res (Hdr × Cache)
  | [], _, req => .error (.noLocator, req)
  | (d, h) :: rest, c, req =>
    match cacheLookUp c h with
    | some b => .ok ((b, c), req)
    | none =>
      if (locatorHeight height d).isNone then .error (.locatorHeight, req)
      else match s.getHeader req h with
        | .ok b => .ok ((b, cacheInsertDuringDiff c b), req + 1)
        | .error _ => resolveLocator s height rest c (req + 1)

/-- mirrors lib.rs ChainNotifier::find_difference_from_best_block -/
def findDiffFromBestBlock (s : Source) (c : Cache) (req : Nat) (best : Hdr) (l : Locator) :
    Res (Diff × Cache) :=
  match resolveLocator s l.height l.candidates c req with
  | .error e => .error e
  | .ok ((found, c1), req1) =>
    match findDiff s c1 best found req1 with
    | .error e => .error e
    | .ok (d, req2) => .ok ((d, c1), req2)

/-- first loop of synchronize_listeners; per listener: the heights recorded for it in `chain_listeners_at_height`
    (none = not reached because an earlier `?` returned) and its disconnect notifications -/
structure Phase1 where
  ok : Bool
  cache : Cache
  req : Nat
  most : List Hdr
  per : List (List Nat × List Notif)
  /-- the `BlockSourceError` the `?` of the first loop returned (`none` iff `ok`) -/
  err : Option Err := none
deriving Repr

/-- first loop of synchronize_listeners: `find_difference_from_best_block(..).await?`, then the translated
    per-listener body `initListenerStep` (Generated/ChainSync.lean: which disconnects, which height is recorded,
    what becomes of most_connected_blocks — including any early `continue`) -/
def phase1 (s : Source) (best : Hdr) : List Locator → Cache → Nat → List Hdr → Phase1
  | [], c, req, most => ⟨true, c, req, most, [], none⟩
  | l :: ls, c, req, most =>
    match findDiffFromBestBlock s c req best l with
    | .error (e, r) => ⟨false, c, r, most, (l :: ls).map (fun _ => ([], [])), some e⟩
    | .ok ((d, c1), req1) =>
      let st := initListenerStep best l.hash l.height d.common d.connected most
      -- header_cache.retain_on_disconnect = true: blocks_disconnected leaves the cache alone
      let r := phase1 s best ls (st.disc.foldl (fun c h => cacheBlocksDisconnected c true h) c1) req1 st.most
      { r with per := (st.recd, st.disc.map discNotif) :: r.per }

-- `MAX_BLOCKS_AT_ONCE` (init.rs, `#[cfg(not(test))]` value) is generated: Generated/ChainSyncConsts.lean

/-- all fetches of one batch are issued (MultiResultFuturePoller) before any result is looked at -/
def fetchAll (s : Source) : List Hdr → Nat → Bool × Nat
  | [], req => (true, req)
  | b :: rest, req =>
    let (ok, r) := fetchAll s rest (req + 1)
    ((match s.getBlock req b with | .ok _ => true | .error _ => false) && ok, r)

/-- the error `block_res?` returns for a batch: results are looked at in fetch order (oldest block first), so it is the
    error of the FIRST failing fetch of the batch even when a later one failed too; `none` = every fetch succeeded -/
def firstFetchErr (s : Source) : List Hdr → Nat → Option Err
  | [], _ => none
  | b :: rest, req => match s.getBlock req b with
    | .error e => some e
    | .ok _ => firstFetchErr s rest (req + 1)

/-- the error a failed second loop returns: the first failing fetch of the first failing batch (same batching as `phase2`;
    `phase2_fails_iff`: it is `some` exactly when `phase2` fails) -/
def phase2Err (s : Source) (k : Nat) : Nat → List Hdr → Nat → Option Err
  | 0, _, _ => none
  | n + 1, asc, req =>
    if asc.isEmpty then none
    else match firstFetchErr s (asc.take k) req with
      | some e => some e
      | none => phase2Err s k n (asc.drop k) (req + (asc.take k).length)

def connectedFor (lh : Nat) (chunk : List Hdr) : List Notif :=
  (chunk.filter (fun b => initDelivers (batchHeight b) lh)).map (fun b => Notif.connected b.hash (batchHeight b))

/-- second loop of synchronize_listeners over `asc` = most_connected_blocks reversed, in batches of
    `k`: a batch is fetched completely, then cached and delivered; a failed fetch returns `Err` before
    anything of that batch is delivered. Returns success, cache, next request index and the blocks
    delivered (each listener is told of those above its own common ancestor, see `connectedFor`). -/
def phase2 (s : Source) (k : Nat) : Nat → List Hdr → Cache → Nat → Bool × Cache × Nat × List Hdr
  | 0, _, c, req => (true, c, req, [])
  | n + 1, asc, c, req =>
    if asc.isEmpty then (true, c, req, [])
    else
      let chunk := asc.take k
      let (ok, req1) := fetchAll s chunk req
      if !ok then (false, c, req1, [])
      else
        let c1 := chunk.foldl cacheBlockConnected c
        let (ok2, c2, req2, rest) := phase2 s k n (asc.drop k) c1 req1
        (ok2, c2, req2, chunk ++ rest)

structure InitOut where
  result : Except Err (Hdr × Cache)
  notifs : List (List Notif)
  /-- number of requests the source received -/
  reqs : Nat

/-- mirrors init.rs synchronize_listeners (validate_best_block_header, per-listener difference and
    disconnect, then batched connects). Per listener the notifications are its disconnect (if any)
    followed by the delivered blocks above the height recorded for it in the first loop, in ascending order —
    the real code interleaves listeners batch by batch, which leaves each listener's own sequence unchanged
    (a listener recorded twice would get the batches interleaved; the clean code records exactly one height,
    `initListenerStep_eq`). -/
def synchronizeListeners (s : Source) (ls : List Locator) : InitOut :=
  let empties := ls.map (fun _ => ([] : List Notif))
  match s.getBestBlock 0 with
  | .error e => ⟨.error e, empties, 1⟩
  | .ok bh =>
    match s.getHeader 1 bh with
    | .error e => ⟨.error e, empties, 2⟩
    | .ok best =>
      let p1 := phase1 s best ls [] 2 []
      if !p1.ok then ⟨.error (p1.err.getD .source), p1.per.map (·.2), p1.req⟩
      else
        let asc := batchOrder p1.most
        let (ok, c, r, delivered) := phase2 s MAX_BLOCKS_AT_ONCE asc.length asc p1.cache p1.req
        let ns := p1.per.map (fun p => p.2 ++ p.1.flatMap (fun lh => connectedFor lh delivered))
        if ok then ⟨.ok (best, c), ns, r⟩ else ⟨.error ((phase2Err s MAX_BLOCKS_AT_ONCE asc.length asc p1.req).getD .source), ns, r⟩

/-! ### an arbitrary (adversarial) source seen through the Validate layer -/

/-- An ARBITRARY block source: any function from requests (index within the poll / start-up sync and the
    requested hash) to raw answers; `none` = the source answered `Err` (transient or persistent). -/
structure Adv where
  best : Nat → Option Nat
  header : Nat → Nat → Option RawHdr
  block : Nat → Nat → Option RawBlk
  bitcoin : Bool := false
  /-- the kind of the `Err` answered at request `k` (when the answer is `none`): transient or persistent -/
  transient : Nat → Bool := fun _ => false

def Adv.err (a : Adv) (k : Nat) : Err := if a.transient k then .transient else .source

/-- BlockSource::get_header followed by the translated `BlockHeaderData::validate(hash)` (PoW, hash binding) -/
def Adv.getHeader (a : Adv) (req h : Nat) : Except Err Hdr :=
  match a.header req h with
  | none => .error (a.err req)
  | some raw => match validateHeader raw h with
    | none => .error .source
    | some b => .ok b

/-- Poll::fetch_block: BlockSource::get_block followed by the translated `BlockData::validate(hash)` -/
def Adv.getBlock (a : Adv) (req : Nat) (h : Nat) : Except Err Unit :=
  match a.block req h with
  | none => .error (a.err req)
  | some raw => if validateBlock raw h then .ok () else .error .source

/-- The adversary as a failure-scheduled source over the universe `t` of headers that exist (every
    PoW-valid header the adversary can ever show is a header of `t`; hashes are collision-free): a request
    ends in `Err` iff the source errs, or the translated Validate layer refuses the answer, or — the TRUST
    BOUNDARY, see `Adv.TruthfulOn` — the accepted header is not `t`'s header for that hash, i.e. its CLAIMED
    height / chainwork are untrue. (`prev_lookup_accepts_only_the_parent` in Props/C20.lean shows that
    check_builds_on enforces this for every previous-header look-up; for the tip header and the locator
    look-ups the real code has no such check.) `get_best_block` is request 0 of every operation. -/
def Adv.toSource (a : Adv) (t : Tree) : Source :=
  { tree := t, best := (a.best 0).getD 0,
    fails := fun r => match r with
      | .best k => (a.best k).isNone || (a.best k != a.best 0)
      | .header k h => (match a.getHeader k h with
          | .ok b => hdrOf t h != some b
          | .error _ => true)
      | .block k h => (match a.getBlock k h with
          | .ok _ => (hdrOf t h).isNone
          | .error _ => true),
    hidden := fun _ => false, bitcoin := a.bitcoin,
    transient := fun r => match r with
      | .best k => (a.best k).isNone && a.transient k
      | .header k h => (a.header k h).isNone && a.transient k
      | .block k h => (a.block k h).isNone && a.transient k }

/-- the REAL `ChainPoller::look_up_previous_header` over an arbitrary source: genesis test, get_header +
    `validate(prev_blockhash)`, then `check_builds_on` (all translated) — no reference to any tree -/
def Adv.pollerPrev (a : Adv) (req : Nat) (h : Hdr) : Res Hdr :=
  if isGenesisHeader h then .error (.genesis, req)
  else match a.getHeader req h.parent with
    | .error e => .error (e, req + 1)
    | .ok p => if checkBuildsOn a.bitcoin h p then .ok (p, req + 1) else .error (.buildsOn, req + 1)

/-- hashes are collision-free over the universe `t`: a PoW-valid raw header that hashes to the hash of a
    header of `t` has that header's contents (prev_blockhash, bits, and therefore work) -/
def Adv.CollisionFree (a : Adv) (t : Tree) : Prop :=
  ∀ k h raw p0, a.header k h = some raw → raw.powOk = true → hdrOf t raw.hash = some p0 →
    raw.parent = p0.parent ∧ raw.bits = p0.bits ∧ raw.bwork = p0.bwork

/-- every header the Validate layer accepts from `a` is the universe's header for the requested hash
    (collision-free hashes + truthful height / chainwork claims) and every accepted block is known -/
def Adv.TruthfulOn (a : Adv) (t : Tree) : Prop :=
  (∀ k h b, a.getHeader k h = .ok b → hdrOf t h = some b) ∧
  (∀ k h, a.getBlock k h = .ok () → (hdrOf t h).isSome)

/-! ### specification vocabulary (used by Props/C20.lean; not by the driver) -/

/-- ancestors of `b` in `t`, `b` first, genesis last (fuel-indexed) -/
def ancF (t : Tree) : Nat → Hdr → List Hdr
  | 0, b => [b]
  | n + 1, b => match hdrOf t b.parent with
    | some p => b :: ancF t n p
    | none => [b]

/-- the chain ending in `b`: `[b, parent b, …, genesis]` -/
def anc (t : Tree) (b : Hdr) : List Hdr := ancF t b.height b

/-- `b` is a header of the tree -/
def InTree (t : Tree) (b : Hdr) : Prop := hdrOf t b.hash = some b
instance (t : Tree) (b : Hdr) : Decidable (InTree t b) := by unfold InTree; infer_instance

/-- well-formed block tree: hashes are keys; a block of height 0 has no parent in the tree (genesis);
    every other block's parent is in the tree, one lower and with strictly less cumulative work -/
def wfBlock (t : Tree) (b : Hdr) : Bool :=
  (hdrOf t b.hash == some b) &&
  (if b.height = 0 then (hdrOf t b.parent).isNone
   else match hdrOf t b.parent with
     | some p => p.height + 1 == b.height && b.work == p.work + b.bwork && decide (0 < b.bwork)
     | none => false)

def wfTree (t : Tree) : Bool := t.all (wfBlock t)

/-- at most one genesis: any two blocks of height 0 coincide -/
def oneGenesis (t : Tree) : Bool := t.all (fun a => t.all (fun b => !(a.height == 0 && b.height == 0) || a == b))

/-- cache entries are headers of the tree -/
def CacheOk (t : Tree) (c : Cache) : Prop := ∀ x ∈ c, InTree t x

/-- The listener's view: its chain, tip first. `disconnected h ht` rewinds to the (proper) ancestor
    with hash `h` and height `ht`; `connected h ht` appends the tree block `h`, which must be a
    child of the current tip, one higher. `none` = the notification does not fit the chain. -/
def applyNotif (t : Tree) (chain : List Hdr) : Notif → Option (List Hdr)
  | .disconnected h ht =>
    match chain with
    | [] => none
    | tip :: rest =>
      if tip.hash == h then none
      else match rest.dropWhile (fun b => b.hash != h) with
        | [] => none
        | b :: r => if b.height == ht then some (b :: r) else none
  | .connected h ht =>
    match chain, hdrOf t h with
    | tip :: rest, some b =>
      if b.parent == tip.hash && b.height == tip.height + 1 && ht == b.height then some (b :: tip :: rest) else none
    | _, _ => none

def connNotif (b : Hdr) : Notif := .connected b.hash b.height

/-- last element of `l`, or `d` if `l` is empty -/
def lastOr (d : Hdr) : List Hdr → Hdr
  | [] => d
  | b :: rest => lastOr b rest

/-- number of leading block fetches that succeed when `bs` is fetched starting at request `req` -/
def fetchPrefix (s : Source) : Nat → List Hdr → Nat
  | _, [] => 0
  | req, b :: rest => match s.getBlock req b with
    | .ok _ => fetchPrefix s (req + 1) rest + 1
    | .error _ => 0

/-- where the listener is after synchronize_listener returned `res` -/
def syncTip (res : SyncRes) (new old : Hdr) : Hdr :=
  match res with
  | .ok => new
  | .errNone => old
  | .errAt t => t

/-- element-wise relation between two lists of the same length -/
inductive Forall2 {α β : Type} (R : α → β → Prop) : List α → List β → Prop
  | nil : Forall2 R [] []
  | cons {a : α} {b : β} {l1 : List α} {l2 : List β} : R a b → Forall2 R l1 l2 → Forall2 R (a :: l1) (b :: l2)

/-- the listener's `BlockLocator` `l` describes tree block `b`: it carries `b`'s hash, and every
    candidate hash (the tip itself or a `previous_blocks` entry) that names a block of the tree names
    an ancestor of `b` -/
def LocatorOk (t : Tree) (l : Locator) (b : Hdr) : Prop :=
  InTree t b ∧ l.hash = b.hash ∧ ∀ d h x, (d, h) ∈ l.candidates → hdrOf t h = some x → x ∈ anc t b

/-- the tree obeys the difficulty rules `check_builds_on` enforces for Network::Bitcoin -/
def diffRulesOk (t : Tree) : Bool :=
  t.all (fun b => match hdrOf t b.parent with
    | some p => (checkBuildsOnErr true b p).isNone || (checkBuildsOnErr false b p).isSome
    | none => true)

/-- a source that answers every request and knows every block of its tree (and, when the poller runs
    with Network::Bitcoin, whose tree obeys the mainnet difficulty rules, so that honest answers pass) -/
def Source.Healthy (s : Source) : Prop :=
  (∀ k, s.fails k = false) ∧ (∀ h, s.hidden h = false) ∧ (s.bitcoin = true → diffRulesOk s.tree = true)

/-- a history of polls of one client; each poll sees its own best tip / failure schedule / hidden set -/
def runPolls : Client → List Source → Client × List Notif
  | cl, [] => (cl, [])
  | cl, s :: ss =>
    let o := pollBestTip s cl
    let (cl', ns) := runPolls o.client ss
    (cl', o.notifs ++ ns)

def applyNotifs (t : Tree) : List Hdr → List Notif → Option (List Hdr)
  | chain, [] => some chain
  | chain, n :: ns => match applyNotif t chain n with
    | some c' => applyNotifs t c' ns
    | none => none

end Ldk.ChainSync
