/- C06 + C07 (shared): the PACKAGE layer of lightning/src/chain/onchaintx.rs — `pending_claim_requests` (claim id ↦
   PackageTemplate), `claimable_outpoints` (outpoint ↦ claim id, creation height), `onchain_events_awaiting_threshold_conf`
   (`Claim` / `ContentiousOutpoint` entries) and `locktimed_packages` — and of lightning/src/chain/package.rs
   (PackageTemplate::{split_package, merge_package, can_merge_with, get_height_timer}).

   Every DECISION is translated from the Rust text on every run (Generated/Packages.lean, tools/gen_packages.py:
   `canMergeWith`, `mapOutputTypeFlags`, `isPossiblyFromSameTxTree`, `mergeSpendable/Feerate/Timer`, `splitBranch`,
   `bumpInsertOverwrites`; Generated/Package.lean: `getHeightTimer`, `packageLocktime`; Generated/Justice.lean:
   `timerExpired`, `handlerThresholdReached`); the loops around them are hand-written mirrors whose Rust text is pinned by
   gen_packages.py and which are tied by the differential (op `pkgblock` / `pkgagg`: the REAL handler state before a call,
   dumped by the hook OnchainTxHandler::verif_pkg_dump, is the model's input, the real state after it the expected answer).

   Abstractions: outpoints are an arbitrary type with decidable equality; claim ids / txids are numbers; a package input
   carries only what the decisions read (`Member`); fees are outside (a parameter `feeOk : claim id → Bool` says whether
   `compute_package_output` let the claim be built — Generated/Package.lean is the arithmetic); `pending_claim_events` is not
   modelled.  No Mathlib. -/
import LdkModel.Generated.Packages
namespace Ldk.Packages
open Ldk Ldk.Pkg Ldk.PkgLayer Ldk.JusticeGen

/-- one `(BitcoinOutPoint, PackageSolvingData)` entry, reduced to what the package decisions read -/
structure Member where
  kind : PkgInput
  /-- `htlc.offered` of a RevokedHTLCOutput -/
  offered : Bool := false
  /-- `channel_type_features.supports_anchors_zero_fee_htlc_tx()` of a HolderHTLCOutput -/
  freeHtlcs : Bool := false
  /-- `channel_type_features.supports_anchor_zero_fee_commitments()` of a HolderHTLCOutput -/
  freeCommits : Bool := false
  deriving DecidableEq, Repr, Inhabited

/-- `PackageSolvingData::map_output_type_flags` -/
def Member.flags (m : Member) : Malleability := mapOutputTypeFlags m.offered m.freeHtlcs m.freeCommits m.kind

/-- `PackageTemplate` -/
structure Package (α : Type) where
  inputs : List (α × Member)
  /-- `malleability` -/
  mall : Malleability
  /-- `counterparty_spendable_height` -/
  spendable : Nat
  /-- `feerate_previous` -/
  feerate : Nat
  /-- `height_timer` -/
  timer : Nat
  deriving DecidableEq, Repr

variable {α : Type} [DecidableEq α]

/-- `PackageTemplate::outpoints` -/
def Package.outpoints (p : Package α) : List α := p.inputs.map (·.1)
def Package.kinds (p : Package α) : List PkgInput := p.inputs.map (·.2.kind)

-- mirrors package.rs PackageTemplate::split_package (text pinned: Generated/Packages.lean `splitPackagePinned`)
/-- `(split_package(o), self afterwards)` -/
def Package.split (p : Package α) (o : α) : Option (Package α) × Package α :=
  match p.mall with
  | .malleable _ =>
    let rest := p.inputs.filter (fun e => !decide (e.1 = o))
    let hit := (p.inputs.filter (fun e => decide (e.1 = o))).getLast?
    (hit.map fun e => { inputs := [e], mall := e.2.flags, spendable := p.spendable, feerate := p.feerate, timer := p.timer },
     { p with inputs := rest, mall := match rest.head? with | some l => l.2.flags | none => p.mall })
  | .untractable => (none, p)

/-- `self.can_merge_with(other, cur_height)` -/
def Package.canMerge (p q : Package α) (cur : Nat) : Bool :=
  canMergeWith p.mall q.mall p.kinds q.kinds p.spendable q.spendable cur

-- mirrors package.rs PackageTemplate::merge_package (skeleton pinned, the three assignments translated)
/-- `self.merge_package(merge_from, cur_height)`: `none` = `Err(merge_from)` -/
def Package.merge (p q : Package α) (cur : Nat) : Option (Package α) :=
  if p.canMerge q cur then
    some { inputs := p.inputs ++ q.inputs, mall := p.mall, spendable := mergeSpendable p.spendable q.spendable,
           feerate := mergeFeerate p.feerate q.feerate, timer := mergeTimer p.timer q.timer }
  else none

/-- `PackageTemplate::get_height_timer(cur_height)` -/
def Package.heightTimer (p : Package α) (cur : Nat) : Nat := getHeightTimer cur p.spendable p.kinds

/-- `PackageTemplate::package_weight(destination_script)` (`anchors` = the channel type supports zero-fee HTLC transactions) -/
def Package.weight (anchors : Bool) (destLen : Nat) (p : Package α) : Nat :=
  packageWeight destLen (p.inputs.map fun e => inputWeight anchors e.2.offered e.2.kind)

/-! ### aggregation of fresh requests (update_claims_view_from_requests, "Then try to maximally aggregate `requests`") -/

/-- the inner `for j in 0..i` loop for `requests[i] = r`: the first `requests[j]` with `r.can_merge_with(requests[j])` whose
    `merge_package(r)` succeeds absorbs `r` -/
def mergeInto (cur : Nat) (r : Package α) : List (Package α) → Option (List (Package α))
  | [] => none
  | q :: rest =>
    match (if r.canMerge q cur then q.merge r cur else none) with
    | some q' => some (q' :: rest)
    | none => (mergeInto cur r rest).map (q :: ·)

/-- the outer `for i in (1..requests.len()).rev()` loop on the REVERSED list (head = `requests[i]`), answer reversed too -/
def aggregateRev (cur : Nat) : Nat → List (Package α) → List (Package α)
  | 0, l => l
  | _, [] => []
  | fuel + 1, r :: frontRev =>
    match mergeInto cur r frontRev.reverse with
    | some front' => aggregateRev cur fuel front'.reverse
    | none => r :: aggregateRev cur fuel frontRev

/-- `requests` after the aggregation loop -/
def aggregate (cur : Nat) (reqs : List (Package α)) : List (Package α) :=
  (aggregateRev cur reqs.length reqs.reverse).reverse

/-! ### the handler -/

/-- `OnchainEventEntry` (`txid`, `height`, `event`) -/
inductive Ev (α : Type) where
  | claim (id : Nat) (txid : Nat) (height : Nat)
  | contentious (pkg : Package α) (txid : Nat) (height : Nat)
  deriving DecidableEq, Repr

def Ev.height : Ev α → Nat
  | .claim _ _ h => h
  | .contentious _ _ h => h

/-- the package bookkeeping of `OnchainTxHandler` -/
structure Handler (α : Type) where
  /-- `pending_claim_requests` -/
  pending : List (Nat × Package α)
  /-- `claimable_outpoints`: outpoint, claim id, creation height -/
  claimable : List (α × Nat × Nat)
  /-- `onchain_events_awaiting_threshold_conf` -/
  events : List (Ev α)
  /-- `locktimed_packages`, flattened: (locktime key, package) -/
  locked : List (Nat × Package α)
  deriving Repr

/-- a confirmed transaction: txid and the outpoints it spends, in input order -/
structure Tx (α : Type) where
  txid : Nat
  inputs : List α
  deriving Repr

/-- `bump_candidates` -/
abbrev Bump (α : Type) := List (Nat × Package α)

def lookupClaim (cl : List (α × Nat × Nat)) (o : α) : Option (Nat × Nat) :=
  (cl.find? fun e => decide (e.1 = o)).map (·.2)
def lookupReq (pd : List (Nat × Package α)) (id : Nat) : Option (Package α) :=
  (pd.find? fun e => decide (e.1 = id)).map (·.2)
/-- `*pending_claim_requests.get_mut(id) = p` -/
def setReq (pd : List (Nat × Package α)) (id : Nat) (p : Package α) : List (Nat × Package α) :=
  pd.map fun e => if e.1 = id then (id, p) else e
/-- `if !events.contains(&entry) { events.push(entry) }` -/
def pushEv (evs : List (Ev α)) (e : Ev α) : List (Ev α) := if evs.contains e then evs else evs ++ [e]

def bumpHas (bc : Bump α) (id : Nat) : Bool := bc.any fun e => decide (e.1 = id)
/-- `bump_candidates.insert(id, p)` (`overwrite`) resp. `bump_candidates.entry(id).or_insert_with(|| p)` -/
def bumpPut (overwrite : Bool) (bc : Bump α) (id : Nat) (p : Package α) : Bump α :=
  if bumpHas bc id then (if overwrite then bc.map fun e => if e.1 = id then (id, p) else e else bc) else bc ++ [(id, p)]

/-- there is an awaiting `Claim { claim_id: id }` entry -/
def hasClaim (evs : List (Ev α)) (id : Nat) : Bool :=
  evs.any fun e => match e with | .claim i _ _ => decide (i = id) | .contentious _ _ _ => false

-- mirrors the inner `for input in tx.input.iter() { if let Some(package) = request.split_package(..) {..} }` loop
/-- `(request afterwards, the packages split off)` -/
def splitAll (p : Package α) : List α → Package α × List (Package α)
  | [] => (p, [])
  | i :: rest =>
    let s := p.split i
    let r := splitAll s.2 rest
    (r.1, s.1.toList ++ r.2)

/-- the state threaded through the inputs of one transaction -/
structure Acc (α : Type) where
  h : Handler α
  bc : Bump α
  /-- `claimed_outputs_material` -/
  mat : List (Package α)

-- mirrors update_claims_view_from_matched_txn, body of `for inp in &tx.input`, first half (`if let Some((claim_id, _)) =
-- self.claimable_outpoints.get(&inp.previous_output)`)
def visitPending (conf : Nat) (tx : Tx α) (a : Acc α) (inp : α) : Acc α :=
  match lookupClaim a.h.claimable inp with
  | none => a
  | some (id, _) =>
    match lookupReq a.h.pending id with
    | none => a     -- (the code panics: "Inconsistencies between pending_claim_requests map and claimable_outpoints map")
    | some req =>
      let isSubset := req.outpoints.all fun o => tx.inputs.contains o
      if isSubset then
        { a with h := { a.h with events := pushEv a.h.events (.claim id tx.txid conf) } }
      else if splitBranch isSubset (bumpHas a.bc id) then
        let r := splitAll req tx.inputs
        -- (`if request.outpoints().is_empty() { clean_claim_request_after_safety_delay!() }` inside the loop: the request, once
        -- empty, stays empty, and the entry is pushed at most once)
        let evs := if r.1.inputs.isEmpty then pushEv a.h.events (.claim id tx.txid conf) else a.h.events
        { h := { a.h with pending := setReq a.h.pending id r.1, events := evs },
          bc := if r.2.isEmpty then a.bc else bumpPut bumpInsertOverwrites a.bc id r.1,
          mat := a.mat ++ r.2 }
      else a

-- … second half ("Also remove/split any locktimed packages whose inputs have been spent by this transaction")
def visitLocked (a : Acc α) (inp : α) : Acc α :=
  let spl := a.h.locked.map fun e => (e.1, e.2.split inp)
  { a with
    h := { a.h with locked := (spl.filter fun e => !e.2.2.inputs.isEmpty).map fun e => (e.1, e.2.2) },
    mat := a.mat ++ spl.filterMap fun e => e.2.1 }

def visitInput (conf : Nat) (tx : Tx α) (a : Acc α) (inp : α) : Acc α :=
  visitLocked (visitPending conf tx a inp) inp

-- mirrors the body of `for tx in txn_matched`
def processTx (conf : Nat) (st : Handler α × Bump α) (tx : Tx α) : Handler α × Bump α :=
  let a := tx.inputs.foldl (visitInput conf tx) { h := st.1, bc := st.2, mat := [] }
  ({ a.h with events := a.mat.foldl (fun evs p => pushEv evs (.contentious p tx.txid conf)) a.h.events }, a.bc)

/-- the first loop of update_claims_view_from_matched_txn over all matched transactions of the block -/
def matchLoop (conf : Nat) (h : Handler α) (txs : List (Tx α)) : Handler α × Bump α :=
  txs.foldl (processTx conf) (h, [])

-- mirrors the second loop ("After security delay, either our claim tx got enough confs or outpoint is definetely out of reach")
def matureStep (cur : Nat) (h : Handler α) (e : Ev α) : Handler α :=
  if handlerThresholdReached e.height cur then
    match e with
    | .claim id _ _ =>
      match lookupReq h.pending id with
      | some req => { h with pending := h.pending.filter (fun x => !decide (x.1 = id)),
                             claimable := h.claimable.filter fun c => !req.outpoints.contains c.1 }
      | none => h
    | .contentious pkg _ _ =>
      match pkg.outpoints.head? with
      | some o => { h with claimable := h.claimable.filter fun c => !decide (c.1 = o) }
      | none => h
  else { h with events := h.events ++ [e] }

def mature (cur : Nat) (h : Handler α) : Handler α := h.events.foldl (matureStep cur) { h with events := [] }

-- mirrors the third loop ("Check if any pending claim request must be rescheduled"): `bump_candidates.insert`
def timerLoop (cur : Nat) (h : Handler α) (bc : Bump α) : Bump α :=
  h.pending.foldl (fun bc e => if timerExpired cur e.2.timer then bumpPut true bc e.1 e.2 else bc) bc

-- mirrors the head of generate_claim (text pinned: `generateClaimGuardPinned`)
/-- generate_claim(snapshot) gets past its two early `return None`s -/
def claimGuard (h : Handler α) (snap : Package α) : Bool :=
  !snap.inputs.isEmpty &&
  !(snap.outpoints.all fun o => match lookupClaim h.claimable o with
      | some (rid, _) => hasClaim h.events rid
      | none => false)

/-- a claim (re)issued by the bump loop: claim id, the outpoints its transaction spends, the request's new height timer -/
structure Issue (α : Type) where
  id : Nat
  spends : List α
  timer : Nat
  deriving Repr

-- mirrors the bump loop: generate_claim on the SNAPSHOT, then set_timer on the stored request
def bumpLoop (cur : Nat) (feeOk : Nat → Bool) (h : Handler α) (bc : Bump α) : Handler α × List (Issue α) :=
  bc.foldl (fun acc c =>
      if claimGuard h c.2 && feeOk c.1 then
        let t := c.2.heightTimer cur
        ({ acc.1 with pending := acc.1.pending.map fun e => if e.1 = c.1 then (e.1, { e.2 with timer := t }) else e },
         acc.2 ++ [{ id := c.1, spends := c.2.outpoints, timer := t }])
      else acc) (h, [])

structure BlockResult (α : Type) where
  /-- the handler before the bump loop -/
  mid : Handler α
  /-- `bump_candidates` before the bump loop -/
  cands : Bump α
  /-- the handler at the end (timers of the re-issued requests set; `feerate_previous` is outside the model) -/
  handler : Handler α
  issued : List (Issue α)

/-- `update_claims_view_from_matched_txn(txn_matched, conf_height, _, cur_height, ..)` -/
def matchedTxn (conf cur : Nat) (feeOk : Nat → Bool) (h : Handler α) (txs : List (Tx α)) : BlockResult α :=
  let s1 := matchLoop conf h txs
  let h2 := mature cur s1.1
  let bc := timerLoop cur h2 s1.2
  let r := bumpLoop cur feeOk h2 bc
  { mid := h2, cands := bc, handler := r.1, issued := r.2 }

/-- every outpoint spent by a transaction of the block -/
def blockSpent (txs : List (Tx α)) : List α := txs.flatMap (·.inputs)

/-- every awaiting `Claim` entry of claim id `id` is at height `conf` -/
def claimsOnlyAt (evs : List (Ev α)) (id conf : Nat) : Bool :=
  evs.all fun e => match e with | .claim i _ hg => !decide (i = id) || decide (hg = conf) | .contentious _ _ _ => true

/-- consensus, seen from the handler: no transaction of a new block spends an outpoint of a request whose complete spend was confirmed
    in an EARLIER block (an awaiting `Claim` entry below `conf`) — that would be a double spend; the same block delivered twice (the
    redundant `Confirm` styles) is fine -/
def blockOk (conf : Nat) (h : Handler α) (txs : List (Tx α)) : Bool :=
  h.pending.all fun e => claimsOnlyAt h.events e.1 conf || e.2.outpoints.all fun o => !(blockSpent txs).contains o

/-- the processing of the block at height `height` (`conf_height = cur_height`: block_connected, or transactions_confirmed +
    best_block_updated for the tip): `none` when the block cannot be on top of the chain the handler has seen -/
def connectBlock (height : Nat) (feeOk : Nat → Bool) (h : Handler α) (txs : List (Tx α)) : Option (BlockResult α) :=
  if blockOk height h txs then some (matchedTxn height height feeOk h txs) else none

/-! ### what the theorems assume about the handler a block arrives at (checked on every REAL handler state by the differential) -/

/-- a malleable package has only inputs of malleable kinds; an untractable one has a single input -/
def Package.okB (p : Package α) : Bool :=
  match p.mall with
  | .malleable _ => p.inputs.all fun e => match e.2.flags with | .malleable _ => true | .untractable => false
  | .untractable => decide (p.inputs.length ≤ 1)

/-- every outpoint of a pending request is registered under the request's claim id, claim ids are unique, packages are well-formed, and
    an outpoint that was split off (awaiting `ContentiousOutpoint`) is in no pending request -/
def Handler.wfB (h : Handler α) : Bool :=
  (h.pending.all fun e =>
    e.2.okB &&
    (e.2.outpoints.all fun o => match lookupClaim h.claimable o with | some (id, _) => decide (id = e.1) | none => false) &&
    (h.pending.all fun e2 => !decide (e2.1 = e.1) || decide (e2 = e))) &&
  (h.events.all fun ev => match ev with
    | .contentious pkg _ _ => pkg.outpoints.all fun o => h.pending.all fun e => !e.2.outpoints.contains o
    | .claim _ _ _ => true)

end Ldk.Packages
