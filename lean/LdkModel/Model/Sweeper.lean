import LdkModel.Generated.Sweep
/-! C07: state machine of `lightning/src/util/sweep.rs` `OutputSweeper` — the per-output `OutputSpendStatus` under
    track_spendable_outputs / regenerate_and_broadcast_spend_if_necessary / transactions_confirmed / best_block_updated /
    blocks_disconnected / transaction_unconfirmed. Every DECISION (which outputs a disconnect / an un-confirmation un-confirms,
    which outputs are re-spent, which are pruned) is the definition translated by tools/gen_sweep.py (Generated/Sweep.lean);
    the status TABLE below mirrors `impl OutputSpendStatus` by hand (text pinned by gen_sweep.py, tied by the c07sweep differential).
    Abstractions: block hashes are dropped (first_broadcast_hash / confirmation_hash), a transaction is its id + the tracked
    outputs it spends, descriptors are numbers. -/
namespace Ldk.Sweeper
open Ldk Ldk.SweepGen

/-- mirrors sweep.rs `OutputSpendStatus` (hash fields dropped) -/
inductive Status
  | initial (delayedUntil : Option Nat)                        -- PendingInitialBroadcast { delayed_until_height }
  | firstConf (lbh : Nat) (tx : Nat)                           -- PendingFirstConfirmation { latest_broadcast_height, latest_spending_tx }
  | threshold (lbh : Nat) (tx : Nat) (confHeight : Nat)        -- PendingThresholdConfirmations { .., confirmation_height }
deriving DecidableEq, Repr, Inhabited

namespace Status
/-- mirrors OutputSpendStatus::confirmation_height -/
def confirmationHeight : Status → Option Nat
  | threshold _ _ h => some h
  | _ => none
/-- mirrors OutputSpendStatus::latest_broadcast_height -/
def latestBroadcastHeight : Status → Option Nat
  | initial _ => none
  | firstConf l _ => some l
  | threshold l _ _ => some l
/-- mirrors OutputSpendStatus::latest_spending_tx (as its id) -/
def latestTx : Status → Option Nat
  | initial _ => none
  | firstConf _ t => some t
  | threshold _ t _ => some t
/-- mirrors OutputSpendStatus::is_confirmed -/
def isConfirmed : Status → Bool
  | threshold _ _ _ => true
  | _ => false
/-- mirrors OutputSpendStatus::is_delayed (the PendingInitialBroadcast arm is translated) -/
def isDelayed (s : Status) (cur : Nat) : Bool :=
  match s with
  | initial d => initialIsDelayed d cur
  | _ => false
/-- mirrors OutputSpendStatus::broadcast (the confirmed arm is a debug_assert!(false): unreachable behind `filter_fn`, kept unchanged) -/
def broadcast (s : Status) (cur tx : Nat) : Status :=
  match s with
  | initial _ => firstConf cur tx
  | firstConf _ _ => firstConf cur tx
  | threshold l t h => threshold l t h
/-- mirrors OutputSpendStatus::confirmed -/
def confirmed (s : Status) (h tx : Nat) : Status :=
  match s with
  | initial _ => threshold h tx h
  | firstConf l _ => threshold l tx h
  | threshold l _ _ => threshold l tx h
/-- mirrors OutputSpendStatus::unconfirmed -/
def unconfirmed : Status → Status
  | threshold l t _ => firstConf l t
  | s => s
end Status

/-- a tracked output: descriptor id + status (mirrors TrackedSpendableOutput) -/
structure Out where
  id : Nat
  status : Status
deriving DecidableEq, Repr, Inhabited

/-- a transaction as the sweeper sees it: its id and the tracked outputs it spends (`is_spent_in`) -/
structure Tx where
  id : Nat
  inputs : List Nat
deriving DecidableEq, Repr, Inhabited

/-- mirrors SweeperState (+ the counter that names the next sweep transaction) -/
structure State where
  best : Nat
  outputs : List Out
  nextTx : Nat
deriving Repr, Inhabited

/-- the translated `filter_fn` on a tracked output -/
def respend (o : Out) (cur : Nat) : Bool :=
  respendFilter o.status.isConfirmed (o.status.isDelayed cur) o.status.latestBroadcastHeight cur

/-- mirrors OutputSweeper::track_spendable_outputs for one descriptor (a descriptor already tracked is skipped) -/
def track (s : State) (id : Nat) (delay : Option Nat) : State :=
  if s.outputs.any (·.id == id) then s else { s with outputs := s.outputs ++ [{ id := id, status := .initial delay }] }

/-- the outputs the next sweep transaction spends -/
def sweepInputs (s : State) : List Nat := (s.outputs.filter (respend · s.best)).map (·.id)

/-- mirrors regenerate_and_broadcast_spend_if_necessary_internal (the spender succeeds, persistence succeeds) -/
def sweep (s : State) : State × Option Tx :=
  let ins := sweepInputs s
  if ins.isEmpty then (s, none) else
  ({ s with outputs := s.outputs.map (fun o => if respend o s.best then { o with status := o.status.broadcast s.best s.nextTx } else o),
            nextTx := s.nextTx + 1 }, some { id := s.nextTx, inputs := ins })

/-- one transaction of transactions_confirmed_internal -/
def confirmTx (outs : List Out) (h : Nat) (tx : Tx) : List Out :=
  outs.map fun o => if tx.inputs.contains o.id then { o with status := o.status.confirmed h tx.id } else o

/-- mirrors transactions_confirmed_internal -/
def txsConfirmed (s : State) (h : Nat) (txs : List Tx) : State :=
  { s with outputs := txs.foldl (fun outs tx => confirmTx outs h tx) s.outputs }

/-- mirrors prune_confirmed_outputs (translated test) -/
def keepOut (cur : Nat) (o : Out) : Bool :=
  match o.status.confirmationHeight with
  | some h => !prunes cur h
  | none => true

/-- mirrors best_block_updated_internal: new tip, then prune -/
def bestBlockUpdated (s : State) (h : Nat) : State :=
  { s with best := h, outputs := s.outputs.filter (keepOut h) }

/-- mirrors Listen::filtered_block_connected for a block that is not a rescan of the tip -/
def blockConnected (s : State) (h : Nat) (txs : List Tx) : State := bestBlockUpdated (txsConfirmed s h txs) h

/-- mirrors Listen::blocks_disconnected (translated test) -/
def blocksDisconnected (s : State) (fork : Nat) : State :=
  { s with best := fork,
           outputs := s.outputs.map fun o => if disconnectUnconfirms o.status.confirmationHeight fork then { o with status := o.status.unconfirmed } else o }

/-- mirrors Confirm::transaction_unconfirmed (translated test) -/
def transactionUnconfirmed (s : State) (txid : Nat) : State :=
  match (s.outputs.find? fun o => o.status.latestTx == some txid).bind (·.status.confirmationHeight) with
  | some uh => { s with outputs := s.outputs.map fun o => if txUnconfirmedUnconfirms o.status.confirmationHeight uh then { o with status := o.status.unconfirmed } else o }
  | none => s

/-! ### Listen-style histories with the chain they describe (ghost state for the theorems and the driver's `chain` oracle) -/

/-- a block of the best chain: height and the transactions in it -/
abbrev Block := Nat × List Tx

def blockSpends (b : Block) (id : Nat) : Bool := b.2.any (·.inputs.contains id)
/-- some transaction in the best chain spends output `id` -/
def spentOnChain (chain : List Block) (id : Nat) : Bool := chain.any (blockSpends · id)

inductive LOp
  | track (id : Nat) (delay : Option Nat)
  | sweep
  | connect (txs : List Tx)          -- the next block, height best + 1
  | disconnect (fork : Nat)          -- reorg: `fork` is the last block that stays
deriving Repr

structure LState where
  sw : State
  chain : List Block                 -- newest first
deriving Repr, Inhabited

def LState.step (l : LState) : LOp → LState
  | .track id d => { l with sw := track l.sw id d }
  | .sweep => { l with sw := (sweep l.sw).1 }
  | .connect txs => { sw := blockConnected l.sw (l.sw.best + 1) txs, chain := (l.sw.best + 1, txs) :: l.chain }
  | .disconnect f => { sw := blocksDisconnected l.sw f, chain := l.chain.filter (·.1 ≤ f) }

def LState.run (l : LState) (ops : List LOp) : LState := ops.foldl LState.step l

end Ldk.Sweeper
