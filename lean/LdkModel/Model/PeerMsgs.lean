/- The messages a `PeerManager` builds BY ITSELF in reaction to what a peer sends (peer_handler.rs), and
   their wire sizes: the peer chooses the numbers, the node must only ever hand the encryptor something
   it can carry (`≤ LN_MAX_MSG_LEN`, Framing.send), and must never drop a reply silently.

     encodePing / encodePong / parsePing / parsePong   msgs.rs `Writeable` / `LengthReadable` for Ping, Pong
                                                       (with the `CollectionLength` prefix of util/ser.rs)
     pingReply                                         the `Message::Ping(msg)` arm of
                                                       do_handle_message_without_peer_lock
     bogusGossipWarning / zlibWarning                  the two warnings do_read_event builds on a decode error
     nodeStep / nodeRun                                one decrypted message through wire::read, the Init
                                                       gate (Framing.gateStep) and the control-message arms:
                                                       what is passed up, what is replied, when the peer is dropped
     replyChannelRangeLen                              size of one reply_channel_range batch (routing/gossip.rs)
   The literals (65532, 0xffff, 18, 19, …) are tied to the source by Generated/PeerSizes.lean and theorem
   `Ldk.C15.size_bounds_match_source`.  No Mathlib. -/
import LdkModel.Model.Framing
namespace Ldk.PeerMsgs
open Ldk.Noise Ldk.Framing

def zeros (n : Nat) : Bytes := List.replicate n 0

/-- the bytes of an ASCII string literal -/
def ascii (s : String) : Bytes := s.toList.map (fun ch => UInt8.ofNat ch.toNat)

/-- u64 big endian -/
def be64 (n : Nat) : Bytes :=
  [56, 48, 40, 32, 24, 16, 8, 0].map (fun s => UInt8.ofNat (n / 2 ^ s))

def PING_TYPE : Nat := 18
def PONG_TYPE : Nat := 19
def WARNING_TYPE : Nat := 1

/-- mirrors `impl Writeable for CollectionLength` (util/ser.rs): a u16, or 0xffff followed by a u64 -/
def collectionLength (n : Nat) : Bytes :=
  if n < 0xffff then be16 n else be16 0xffff ++ be64 (n - 0xffff)

/-- mirrors encrypt_message / encode_message on `Message::Pong(Pong { byteslen })`:
    the u16 type, then `vec![0u8; byteslen].write(w)` -/
def encodePong (byteslen : Nat) : Bytes :=
  be16 PONG_TYPE ++ collectionLength byteslen ++ zeros byteslen

/-- mirrors encrypt_message on `Message::Ping(Ping { ponglen, byteslen })` -/
def encodePing (ponglen byteslen : Nat) : Bytes :=
  be16 PING_TYPE ++ be16 ponglen ++ collectionLength byteslen ++ zeros byteslen

/-- mirrors `impl LengthReadable for Ping` on the bytes after the type: u16 ponglen, u16 byteslen,
    `read_exact` of byteslen bytes (`None` = DecodeError::ShortRead); trailing bytes are not looked at -/
def parsePing (body : Bytes) : Option (Nat × Nat) :=
  if body.length < 4 then none
  else if body.length < 4 + unbe16 (body.drop 2) then none
  else some (unbe16 body, unbe16 (body.drop 2))

/-- mirrors `impl LengthReadable for Pong` -/
def parsePong (body : Bytes) : Option Nat :=
  if body.length < 2 then none
  else if body.length < 2 + unbe16 body then none
  else some (unbe16 body)

/-- the bound of the `Message::Ping(msg)` arm: `if msg.ponglen < 65532` -/
def PONG_LIMIT : Nat := 65532

/-- mirrors the `Message::Ping(msg)` arm of do_handle_message_without_peer_lock: the reply handed to
    enqueue_message, if any -/
def pingReply (ponglen : Nat) : Option Bytes :=
  if ponglen < PONG_LIMIT then some (encodePong ponglen) else none

/-- the ping the PeerManager sends by itself (timer_tick_occurred / maybe_send_extra_ping) -/
def ownPing : Bytes := encodePing 0 64

/-- `format!("{}", ty)` for a `u16`: decimal, no leading zeros -/
def dec5 (n : Nat) : Bytes :=
  let ds := [n / 10000 % 10, n / 1000 % 10, n / 100 % 10, n / 10 % 10].dropWhile (· == 0) ++ [n % 10]
  ds.map (fun d => UInt8.ofNat (48 + d))

/-- mirrors `impl Writeable for WarningMessage` after the type: 32-byte channel id (all zero here:
    `ChannelId::new_zero()`), u16 length, text -/
def encodeWarning (data : Bytes) : Bytes :=
  be16 WARNING_TYPE ++ zeros 32 ++ be16 data.length ++ data

/-- do_read_event, `(_, Some(ty)) if is_gossip_msg(ty)`:
    `format!("Unreadable/bogus gossip message of type {}", ty)` -/
def bogusGossipWarning (ty : Nat) : Bytes :=
  encodeWarning (ascii "Unreadable/bogus gossip message of type " ++ dec5 ty)

/-- do_read_event, `DecodeError::UnsupportedCompression` -/
def zlibWarning : Bytes := encodeWarning (ascii "Unsupported message compression: zlib")

/-- wire size of a reply_channel_range carrying `scids` short channel ids (msgs.rs
    `impl Writeable for ReplyChannelRange`, uncompressed encoding) -/
def replyChannelRangeLen (scids : Nat) : Nat := 2 + 32 + 4 + 4 + 1 + 2 + 1 + 8 * scids

/-- outcome of `wire::read` as far as do_read_event distinguishes it -/
inductive Decoded where
  | ok           -- a message (possibly `Message::Unknown`)
  | bogusGossip  -- `Err((_, Some(ty))) if is_gossip_msg(ty)`: warning sent, message skipped, peer kept
  | zlib         -- `DecodeError::UnsupportedCompression`: warning sent, message skipped, peer kept
  | fatal        -- every other decode error: `Err(PeerHandleError {})`
  deriving DecidableEq, Repr

/-- `wire::read` on the two control messages this model parses itself; `other` abstracts the decoders
    of all other types -/
def decode (other : Bytes → Decoded) (m : Bytes) : Decoded :=
  if msgType m = PING_TYPE then (if (parsePing (m.drop 2)).isSome then .ok else .fatal)
  else if msgType m = PONG_TYPE then (if (parsePong (m.drop 2)).isSome then .ok else .fatal)
  else other m

/-- what one received message makes the node do -/
inductive Ev where
  | up (m : Bytes)      -- handed to a message handler
  | reply (m : Bytes)   -- built by the PeerManager itself and handed to enqueue_message
  | disc                -- `Err(PeerHandleError)`: the peer is dropped
  deriving DecidableEq, Repr

/-- mirrors the `NoiseComplete` body arm of do_read_event after decrypt_message (wire::read and its
    error table), handle_message (Init gate) and the Ping / Pong arms of
    do_handle_message_without_peer_lock.  A decode failure is acted on BEFORE the Init gate. -/
def nodeStep (classify : Nat → PeerGate.MK) (initOk : Bytes → Bool) (other : Bytes → Decoded) (g : Gate)
    (m : Bytes) : Gate × List Ev :=
  match decode other m with
  | .fatal => (g, [.disc])
  | .bogusGossip => (g, [.reply (bogusGossipWarning (msgType m))])
  | .zlib => (g, [.reply zlibWarning])
  | .ok =>
    if msgType m = PING_TYPE then
      if !g.theirInit then (g, [.disc])
      else match parsePing (m.drop 2) with
        | none => (g, [.disc])
        | some (ponglen, _) =>
          match pingReply ponglen with
          | some r => (g, [.reply r])
          | none => (g, [])
    else if msgType m = PONG_TYPE then
      if !g.theirInit then (g, [.disc]) else (g, [])
    else
      match gateStep classify initOk g m with
      | (g1, .disconnect) => (g1, [.disc])
      | (g1, .passUp x) => (g1, [.up x])
      | (g1, .passUpDisc x) => (g1, [.up x, .disc])
      | (g1, _) => (g1, [])

/-- the node's reaction to the decrypted message sequence; nothing is processed after a drop -/
def nodeRun (classify : Nat → PeerGate.MK) (initOk : Bytes → Bool) (other : Bytes → Decoded) (g : Gate) :
    List Bytes → List Ev
  | [] => []
  | m :: ms =>
    let (g1, evs) := nodeStep classify initOk other g m
    if evs.contains .disc then evs else evs ++ nodeRun classify initOk other g1 ms

def repliesOf (evs : List Ev) : List Bytes :=
  evs.filterMap (fun e => match e with | .reply r => some r | _ => none)

def upsOf (evs : List Ev) : List Bytes :=
  evs.filterMap (fun e => match e with | .up m => some m | _ => none)

end Ldk.PeerMsgs
