/- C03 — probes (`OutboundPayments::send_probe`): a probe is an ordinary single-path entry of
   `pending_outbound_payments` whose payment hash is derived from its id (`payment_is_probe`); `fail_htlc` treats it
   differently in three places (always abandon, no `PaymentFailed`, `ProbeSuccessful` / `ProbeFailed` instead of
   `PaymentPathFailed`).  This file runs the SAME generated decisions as `stepP`'s `.fail` branch
   (Generated/OutboundSend.lean: failReturnsNotRemoved, failReturnsFulfilled, failAbandons, failReason, failDrops,
   failPushesFailed, failPathEvent, probeDropsEntry) with `payment_is_probe = true`, on the same `PState`.  No Mathlib. -/
import LdkModel.Model.OutboundPay
namespace Ldk.OutboundProbe
open Ldk.OutboundPay Ldk.OutboundSendGen

/-- every kind of event `OutboundPayments` can push for one payment id -/
inductive PEv
  | probeSuccessful (part : PartId)
  | probeFailed (part : PartId)
  | pathFailed (part : PartId)
  | pathOk (part : PartId)
  | failed (r : Reason)
  | sent
  deriving DecidableEq, Repr, Inhabited

def PEv.isProbeEv : PEv → Bool
  | .probeSuccessful _ | .probeFailed _ => true
  | _ => false

def convEv : Ev → PEv
  | .sent _ => .sent
  | .failed _ r => .failed r
  | .pathOk _ p => .pathOk p
  | .pathFailed _ p => .pathFailed p

/-- mirrors OutboundPayments::send_probe on the entry of its (fresh) id: add_new_pending_payment with the single path
    (Occupied ⇒ DuplicateProbe), pay_route_internal, remove_outbound_if_all_failed.  Returns the entry and whether
    `send_probe` answered Ok. -/
def sendProbe (amt : Amt) (st : PState) (p : PartId) (res : PathIn) : PState × Bool :=
  match st with
  | .absent =>
    let k := if res == .bad then SendKind.pathParameterError else sendKindOf (flagsOf amt [(p, res.sendRes)])
    if k == .sentAll then (.retryable [p] (amt p) (amt p), true)
    else if probeDropsEntry k then (.absent, false)
    else (.retryable [p] (amt p) (amt p), false)
  | _ => (st, false)

/-- mirrors OutboundPayments::fail_htlc with `payment_is_probe = true` -/
def failProbe (amt : Amt) (st : PState) (p : PartId) (auto perm : Bool) : PState × List PEv :=
  match st.variant with
  | none => (st, [])
  | some v => match removeP amt p st with
    | none => (st, [])
    | some r =>
      if failReturnsNotRemoved r.1 then (r.2, [])
      else if failReturnsFulfilled (isFulfilledV v) then (r.2, [])
      else
        let st2 := if failAbandons true (autoRetryableV v && auto) perm then markAbandonedP r.2 (Reason.ofGen (failReason perm)) else r.2
        let pe := match failPathEvent true perm with
          | .probeSuccessful => PEv.probeSuccessful p
          | .probeFailed => PEv.probeFailed p
          | .paymentPathFailed => PEv.pathFailed p
        if failDrops st2.remaining.length st2.isAbandoned then
          (.absent, pe :: (if failPushesFailed true then [PEv.failed st2.storedReason] else []))
        else (st2, [pe])

/-- what can happen to a probe's entry after `send_probe`: its HTLC fails (`fail`, also duplicated / for unknown session
    privs), the user abandons the id, check_retry_payments sweeps (no retry strategy: never auto-retryable), the timer ticks -/
inductive ProbeOp
  | fail (p : PartId) (auto perm : Bool)
  | abandon (r : Reason)
  | sweep (auto : Bool)
  | tick (pendingEv : Bool)
  deriving DecidableEq, Repr

def stepProbe (amt : Amt) (id : PayId) (st : PState) : ProbeOp → PState × List PEv
  | .fail p auto perm => failProbe amt st p auto perm
  | .abandon r => ((stepP amt id st (.abandon r)).1, (stepP amt id st (.abandon r)).2.evs.map convEv)
  | .sweep auto => ((stepP amt id st (.sweep auto)).1, (stepP amt id st (.sweep auto)).2.evs.map convEv)
  | .tick b => ((stepP amt id st (.tick b)).1, (stepP amt id st (.tick b)).2.evs.map convEv)

def runProbe (amt : Amt) (id : PayId) (st : PState) : List ProbeOp → PState × List PEv
  | [] => (st, [])
  | op :: rest =>
    let r := stepProbe amt id st op
    let r' := runProbe amt id r.1 rest
    (r'.1, r.2 ++ r'.2)

end Ldk.OutboundProbe
