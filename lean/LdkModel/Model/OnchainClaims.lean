/- After a unilateral close (C07): an abstract ENTITLEMENT LEDGER of what the node is owed on chain
   and how `ChannelMonitor::get_claimable_balances` reports it block by block.

   At the height the closing commitment confirms the node's entitlement is a list of items
   `(kind, sat, claimableFrom, contestedFrom, csv)`; every item moves
        Pending → Claimed(txHeight) → Matured        (our claim confirmed, then buried), or
        Pending → Lost(txHeight) → Gone              (the counterparty's spend confirmed, then buried)
   driven by block ops, with the burial depth of `OnchainEventEntry::confirmation_threshold`
   (Generated/Timing.lean `confirmationThreshold`, translated from the Rust on every run).
   `balances` maps the ledger to the `Balance` classes of `get_claimable_balances` /
   `get_htlc_balance` (lightning/src/chain/channelmonitor.rs).

   The arithmetic of fee bumping, bump timers and locktimes is not here: it is TRANSLATED into
   Generated/Package.lean.  Transaction construction and the OnchainTxHandler's bookkeeping are not
   modelled (validated by the c07close run: consensus validity, finality, per-block balances).
   No Mathlib. -/
import LdkModel.Generated.Timing
import LdkModel.Generated.Package
namespace Ldk.Onchain
open Ldk

/-- what kind of output the item is, from the node's point of view -/
inductive Kind where
  /-- the node's own balance output (`to_local` of its commitment, CSV-delayed; or `to_remote` of
      the counterparty's commitment) — "claimed" by the commitment confirming -/
  | toSelf
  /-- an HTLC the node offered: claimable by timeout from `cltv_expiry` -/
  | outboundHtlc
  /-- an HTLC the node received and knows the preimage of: claimable now, contested from `cltv_expiry` -/
  | inboundHtlcPreimage
  /-- an HTLC the node received without (yet) knowing the preimage: not owed to the node -/
  | inboundHtlcUnknown
  deriving DecidableEq, Repr, Inhabited

structure Item where
  kind : Kind
  sat : Nat
  /-- first height whose block may contain the node's claim (`cltv_expiry` for timeout claims) -/
  claimableFrom : Nat
  /-- height from which the counterparty can spend the output too (`cltv_expiry` of an inbound HTLC) -/
  contestedFrom : Nat
  /-- CSV delay on the output that finally pays the node (`to_self_delay` on the holder's own
      commitment / HTLC transactions; `none` for claims on the counterparty's commitment) -/
  csv : Option Nat
  deriving DecidableEq, Repr, Inhabited

inductive Stage where
  | pending
  /-- the node's claim confirmed at `txHeight`; `net` = what reaches the node after claim fees -/
  | claimed (txHeight net : Nat)
  /-- the counterparty's spend confirmed at `txHeight` -/
  | lost (txHeight : Nat)
  /-- buried: handed to the user as `SpendableOutputs` worth `net` -/
  | matured (net : Nat)
  | gone
  deriving DecidableEq, Repr, Inhabited

structure Entry where
  item : Item
  stage : Stage
  deriving DecidableEq, Repr, Inhabited

structure Ledger where
  /-- best block height seen -/
  best : Nat
  entries : List Entry
  deriving Repr, Inhabited

/-- the `Balance` variants that can appear once the closing commitment has confirmed -/
inductive BalClass where
  /-- `ClaimableAwaitingConfirmations { confirmation_height }` -/
  | awaitingConfirmations (confirmationHeight : Nat)
  /-- `ContentiousClaimable { timeout_height }` -/
  | contentious (timeoutHeight : Nat)
  /-- `MaybeTimeoutClaimableHTLC { claimable_height }` -/
  | maybeTimeout (claimableHeight : Nat)
  /-- `MaybePreimageClaimableHTLC { expiry_height }` -/
  | maybePreimage (expiryHeight : Nat)
  deriving DecidableEq, Repr, Inhabited

structure Bal where
  cls : BalClass
  sat : Nat
  deriving DecidableEq, Repr, Inhabited

/-- `Balance::claimable_amount_satoshis`-style ownership: a `MaybePreimageClaimableHTLC` is not
    (yet) the node's money -/
def Bal.owned (b : Bal) : Nat := match b.cls with
  | .maybePreimage _ => 0
  | _ => b.sat

/-- what the node is owed for an item -/
def Item.entitled (i : Item) : Nat := if i.kind = .inboundHtlcUnknown then 0 else i.sat

-- mirrors the not-yet-spent arms of lightning::chain::channelmonitor::ChannelMonitorImpl::get_htlc_balance
/-- the class an unresolved output is reported under -/
def Item.pendingClass (i : Item) : BalClass := match i.kind with
  | .toSelf => .awaitingConfirmations 0        -- never pending: created `claimed` by `close`
  | .outboundHtlc => .maybeTimeout i.claimableFrom
  | .inboundHtlcPreimage => .contentious i.contestedFrom
  | .inboundHtlcUnknown => .maybePreimage i.contestedFrom

-- mirrors lightning::chain::channelmonitor::ChannelMonitor::get_claimable_balances (closed channel)
/-- A claimed-but-unburied item is reported GROSS (`htlc.amount_msat / 1000`, resp. the balance
    output's value) as `ClaimableAwaitingConfirmations` until `confirmation_threshold`; an item
    whose counterparty spend is not yet buried is still reported under its pending class. -/
def Entry.balance (e : Entry) : Option Bal := match e.stage with
  | .pending => some ⟨e.item.pendingClass, e.item.sat⟩
  | .claimed h _ => some ⟨.awaitingConfirmations (confirmationThreshold h e.item.csv), e.item.sat⟩
  | .lost _ => some ⟨e.item.pendingClass, e.item.sat⟩
  | .matured _ => none
  | .gone => none

def balances (l : Ledger) : List Bal := l.entries.filterMap Entry.balance

/-- the part of an entry's reported balance that is the node's -/
def Entry.owned (e : Entry) : Nat := match e.balance with | some b => b.owned | none => 0

/-- value handed to the user as spendable outputs so far -/
def Entry.spendable (e : Entry) : Nat := match e.stage with | .matured net => net | _ => 0
/-- on-chain fees realised by buried claims -/
def Entry.feePaid (e : Entry) : Nat := match e.stage with | .matured net => e.item.sat - net | _ => 0
/-- value that finally went to the counterparty -/
def Entry.lostSat (e : Entry) : Nat := match e.stage with | .gone => e.item.entitled | _ => 0

def sum (xs : List Nat) : Nat := xs.foldr (· + ·) 0
def entitlement (l : Ledger) : Nat := sum (l.entries.map (·.item.entitled))
def balanceTotal (l : Ledger) : Nat := sum ((balances l).map Bal.owned)
def spendableTotal (l : Ledger) : Nat := sum (l.entries.map Entry.spendable)
def feesTotal (l : Ledger) : Nat := sum (l.entries.map Entry.feePaid)
def lostTotal (l : Ledger) : Nat := sum (l.entries.map Entry.lostSat)

inductive Op where
  /-- best block is now `h` -/
  | block (h : Nat)
  /-- the node's claim of item `idx` confirmed in block `h`, `net` sat reach the node -/
  | claim (idx h net : Nat)
  /-- the counterparty's spend of item `idx` confirmed in block `h` -/
  | peerClaim (idx h : Nat)
  deriving DecidableEq, Repr

/-- the ledger when the closing commitment confirms at `height`: `toSelf` items are claimed by the
    commitment itself (net of nothing), everything else is pending -/
def close (height : Nat) (items : List Item) : Ledger :=
  { best := height,
    entries := items.map fun i =>
      { item := i, stage := if i.kind = .toSelf then .claimed height i.sat else .pending } }

/-- burial: mirrors the `has_reached_confirmation_threshold` filter of block_confirmed
    (`MaturingOutput` → `SpendableOutputs`; `HTLCUpdate`/`HTLCSpendConfirmation` → `htlcs_resolved_on_chain`) -/
def Entry.bury (best : Nat) (e : Entry) : Entry := match e.stage with
  | .claimed h net => if hasReachedConfirmationThreshold best h e.item.csv then { e with stage := .matured net } else e
  | .lost h => if hasReachedConfirmationThreshold best h none then { e with stage := .gone } else e
  | _ => e

def modifyAt (xs : List Entry) (idx : Nat) (f : Entry → Entry) : List Entry :=
  xs.mapIdx fun i e => if i = idx then f e else e

def step (l : Ledger) : Op → Ledger
  | .block h =>
    let best := Nat.max l.best h
    { best := best, entries := l.entries.map (Entry.bury best) }
  | .claim idx h net =>
    { l with entries := modifyAt l.entries idx fun e =>
        match e.stage with
        | .pending =>
          -- an HTLC whose preimage the node does not know cannot be claimed by it
          if e.item.kind = .inboundHtlcUnknown then e else { e with stage := .claimed h (Nat.min net e.item.sat) }
        | _ => e }
  | .peerClaim idx h =>
    { l with entries := modifyAt l.entries idx fun e =>
        match e.stage with
        | .pending => { e with stage := .lost h }
        | _ => e }

def run (l : Ledger) (ops : List Op) : Ledger := ops.foldl step l

/-- every item is buried one way or the other -/
def allSettled (l : Ledger) : Bool := l.entries.all fun e => match e.stage with
  | .matured _ | .gone => true
  | _ => false

end Ldk.Onchain

/-! ### Fee-bump trajectory of ONE claim (C07; appended — nothing above is changed)

    `OnchainTxHandler::generate_claim` (chain/onchaintx.rs) is called for a pending claim when it is
    first issued (`feerate_previous = 0`), whenever its height timer fires (`ForceBump`), on
    `rebroadcast_pending_claims` (`HighestOfPreviousOrNew`) and on `signer_unblocked`
    (`RetryPrevious`); every caller stores the feerate it answers with `set_feerate`.  The fee
    estimator may answer ANYTHING each time.
    * a claim that takes its fee from external inputs (anchor channels: the commitment bump
      `ClaimEvent::BumpCommitment`, holder HTLC claims `ClaimEvent::BumpHTLC`) gets its target from
      `compute_package_feerate` (translated: `Pkg.computePackageFeerate`);
    * a self-funded malleable claim gets its feerate from `compute_package_output` (translated:
      `Pkg.computePackageOutput`); when that answers `None`, `generate_claim` answers `None` and the
      stored feerate is left alone. -/
namespace Ldk.Onchain
open Ldk Ldk.Pkg

/-- the successive TARGET feerates (`BumpTransactionEvent::ChannelClose::package_target_feerate_sat_per_1000_weight`,
    `BumpTransactionEvent::HTLCResolution::target_feerate_sat_per_1000_weight`) of an externally
    funded claim whose stored feerate is `prev`, over a trajectory of (strategy, raw estimate) calls -/
def extTargets (prev : Nat) : List (FeerateStrategy × Nat) → List Nat
  | [] => []
  | (s, est) :: rest => computePackageFeerate prev s est :: extTargets (computePackageFeerate prev s est) rest

/-- one re-issue of a self-funded claim: what is being spent (the package may have been split or
    merged since the last issue), the predicted weight, the dust limit of the destination script,
    the strategy and the raw estimate -/
structure Reissue where
  amount : Nat
  weight : Nat
  dust : Nat
  strategy : FeerateStrategy
  est : Nat
  deriving Repr

/-- the successive feerates of the transactions a self-funded claim is (re-)issued with -/
def ownFeerates (prev : Nat) : List Reissue → List Nat
  | [] => []
  | r :: rest =>
    match computePackageOutput r.amount r.weight r.dust prev r.strategy r.est with
    | some (_, rate) => rate :: ownFeerates rate rest
    | none => ownFeerates prev rest

/-- the u32 product `feerate_estimate * 5` of `compute_package_feerate` IS evaluated (a `ForceBump` of a
    claim issued before, the bounded estimate not above the previous feerate) and does not fit a u32
    (estimate > 858 993 459 sat/kW): debug builds panic there, release builds wrap.  Outside this
    region the Nat rendering `Pkg.computePackageFeerate` is exact.  Used by the driver to answer `ovf`. -/
def packageFeerateOverflows (prev : Nat) (s : FeerateStrategy) (est : Nat) : Bool :=
  s == .forceBump && prev != 0 && decide (boundedSatPer1000Weight est ≤ Nat.min prev U32_MAX) &&
    decide (U32_MAX < 5 * boundedSatPer1000Weight est)

end Ldk.Onchain
