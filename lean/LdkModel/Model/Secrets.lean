/- The BOLT-3 per-commitment-secret store (`CounterpartyCommitmentSecrets`) and the sender-side
   generator (`build_commitment_secret`) of lightning/src/ln/chan_utils.rs.

   The model is generic in
     * the index width `B`            (the code: 48; the store has `B + 1` slots: 49),
     * the secret type `S`            (the code: `[u8; 32]`),
     * `flip : Nat → S → S`           (the code: `res[bitpos / 8] ^= 1 << (bitpos & 7)`),
     * `H : S → S`                    (the code: `Sha256::hash(&res).to_byte_array()`),
     * `zero : S`                     (the code: `[0; 32]`, the secret of a never-written slot).
   Indices are `Nat` (the code: `u64`; every shift/mask below is overflow-free for `idx < 2^64`,
   `B ≤ 63`).  `Params48` at the end is the concrete instance the driver runs (real SHA-256,
   width re-read from the Rust source on every run by tools/gen_secrets.py).
   No Mathlib. -/
import LdkModel.Prim.Sha256
import LdkModel.Generated.SecretsConsts
namespace Ldk.Secrets

structure Params (S : Type) where
  /-- number of index bits (48) -/
  B : Nat
  /-- `[0; 32]` -/
  zero : S
  /-- flip bit `bitpos` of the secret -/
  flip : Nat → S → S
  /-- the hash -/
  H : S → S

/-- Rust `idx & (1 << bitpos) == (1 << bitpos)` -/
def bitSet (idx bitpos : Nat) : Bool := idx &&& (1 <<< bitpos) == (1 <<< bitpos)

/-- Rust `idx & (!((1 << i) - 1))` on `u64`: `idx` with its `i` low bits cleared -/
def clearLow (idx i : Nat) : Nat := (idx >>> i) <<< i

variable {S : Type}

/-- one slot of `old_secrets`: `(secret, idx)` -/
abbrev Slot (S : Type) := S × Nat
/-- `old_secrets: [([u8; 32], u64); 49]` -/
abbrev Store (S : Type) := List (Slot S)

/-- the value `1 << 48` marking a never-written slot -/
def emptyIdx (P : Params S) : Nat := 1 <<< P.B

-- mirrors lightning::ln::chan_utils::CounterpartyCommitmentSecrets::new
def Store.new (P : Params S) : Store S := List.replicate (P.B + 1) (P.zero, emptyIdx P)

/-- loop of `place_secret`: scan positions `i, i+1, …` (`n` of them), first set bit wins,
    fall through to `i + n` -/
def placeLoop (idx : Nat) : Nat → Nat → Nat
  | i, 0 => i
  | i, n + 1 => if bitSet idx i then i else placeLoop idx (i + 1) n

-- mirrors lightning::ln::chan_utils::CounterpartyCommitmentSecrets::place_secret
/-- number of trailing zero bits of `idx`, capped at `B` -/
def placeSecret (B idx : Nat) : Nat := placeLoop idx 0 B

-- mirrors lightning::ln::chan_utils::CounterpartyCommitmentSecrets::derive_secret
/-- `for bitpos in (0..bits).rev() { if idx has bit bitpos { flip bit bitpos; hash } }` -/
def deriveSecret (P : Params S) (secret : S) : Nat → Nat → S
  | 0, _ => secret
  | b + 1, idx => deriveSecret P (if bitSet idx b then P.H (P.flip b secret) else secret) b idx

-- mirrors lightning::ln::chan_utils::build_commitment_secret
/-- BOLT-3 `generate_from_seed`: the same walk over bits `B-1 … 0`, starting from the seed -/
def buildLoop (P : Params S) (res : S) : Nat → Nat → S
  | 0, _ => res
  | b + 1, idx => buildLoop P (if bitSet idx b then P.H (P.flip b res) else res) b idx
def buildCommitmentSecret (P : Params S) (seed : S) (idx : Nat) : S := buildLoop P seed P.B idx

-- mirrors lightning::ln::chan_utils::CounterpartyCommitmentSecrets::get_min_seen_secret
def getMinSeenSecret (P : Params S) (st : Store S) : Nat :=
  st.foldl (fun m sl => if sl.2 < m then sl.2 else m) (emptyIdx P)

/-- slot accessor (`self.old_secrets[i]`); out of range never happens for a `B+1`-slot store -/
def slot (P : Params S) (st : Store S) (i : Nat) : Slot S := st.getD i (P.zero, emptyIdx P)

/-- the consistency loop of `provide_secret`: every slot below `pos` must be derivable -/
def consistent [DecidableEq S] (P : Params S) (st : Store S) (pos : Nat) (secret : S) : Bool :=
  (List.range pos).all fun i => decide (deriveSecret P secret pos (slot P st i).2 = (slot P st i).1)

-- mirrors lightning::ln::chan_utils::CounterpartyCommitmentSecrets::provide_secret
/-- `none` = `Err(())` (the store is left untouched), `some st'` = `Ok(())` with the new store -/
def provideSecret [DecidableEq S] (P : Params S) (st : Store S) (idx : Nat) (secret : S) :
    Option (Store S) :=
  let pos := placeSecret P.B idx
  if consistent P st pos secret then
    if getMinSeenSecret P st ≤ idx then some st
    else some (st.set pos (secret, idx))
  else none

/-- loop of `get_secret` over the slots, `i` = index of the head slot -/
def getLoop (P : Params S) (idx : Nat) : List (Slot S) → Nat → Option S
  | [], _ => none
  | sl :: rest, i =>
    if clearLow idx i == sl.2 then some (deriveSecret P sl.1 i idx) else getLoop P idx rest (i + 1)

-- mirrors lightning::ln::chan_utils::CounterpartyCommitmentSecrets::get_secret
/-- (the Rust function additionally `assert!(idx < self.get_min_seen_secret())` before returning
    `None`; see `getSecretAsserts`) -/
def getSecret (P : Params S) (st : Store S) (idx : Nat) : Option S := getLoop P idx st 0

/-- `true` iff the `assert!` in `get_secret` would fire (no slot matched although
    `idx ≥ get_min_seen_secret()`): the real code panics -/
def getSecretAsserts (P : Params S) (st : Store S) (idx : Nat) : Bool :=
  (getSecret P st idx).isNone && decide (getMinSeenSecret P st ≤ idx)

/-! ### concrete instance: 32-byte secrets, SHA-256, width from the Rust source -/

abbrev Bytes := List UInt8

/-- `res[bitpos / 8] ^= 1 << (bitpos & 7)` -/
def flipBit (bitpos : Nat) (s : Bytes) : Bytes :=
  s.modify (bitpos / 8) (fun b => b ^^^ ((1 : UInt8) <<< UInt8.ofNat (bitpos &&& 7)))

def zero32 : Bytes := List.replicate 32 0

/-- the code's instance (B = 48 re-read from chan_utils.rs on every run) -/
def Params48 : Params Bytes where
  B := Ldk.Generated.SECRET_INDEX_BITS
  zero := zero32
  flip := flipBit
  H := Ldk.Prim.sha256

/-- big-endian u64 -/
def be64 (n : Nat) : Bytes := (List.range 8).map fun i => UInt8.ofNat ((n >>> (8 * (7 - i))) % 256)
def ofBe (b : Bytes) : Nat := b.foldl (fun acc x => acc * 256 + x.toNat) 0

-- mirrors impl Writeable for CounterpartyCommitmentSecrets (write_tlv_fields!(writer, {}) = one
-- BigSize length byte 0)
def serialize (st : Store Bytes) : Bytes :=
  st.foldr (fun sl acc => sl.1 ++ be64 sl.2 ++ acc) [0]

/-- read `n` slots of 32 + 8 bytes -/
def readSlots : Nat → Bytes → Option (Store Bytes × Bytes)
  | 0, rest => some ([], rest)
  | n + 1, b =>
    if b.length < 40 then none else
    match readSlots n (b.drop 40) with
    | none => none
    | some (sls, rest) => some ((b.take 32, ofBe ((b.drop 32).take 8)) :: sls, rest)

-- mirrors impl Readable for CounterpartyCommitmentSecrets, restricted to an EMPTY trailing TLV
-- stream (length byte 0 — the only thing `write` emits); anything else is `none` here
def deserialize (slots : Nat) (b : Bytes) : Option (Store Bytes) :=
  match readSlots slots b with
  | some (st, [0]) => some st
  | _ => none

end Ldk.Secrets
