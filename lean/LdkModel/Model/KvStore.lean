/- C19 — the key-value store as a finite map, with the key-validity rules the shipped stores enforce.
   No Mathlib. The sequential semantics of `FilesystemStore` / `FilesystemStoreV2` (lightning-persister)
   is `KvOp.apply` below; `Store` itself (get/put/del/names) is also the store the
   `MonitorUpdatingPersister` model (Model/MonPersister.lean) runs on. -/
import LdkModel.Generated.PersistConsts
namespace Ldk.Kv
open Ldk.Persist

/-- `(primary_namespace, secondary_namespace, key)` -/
abbrev Key := String × String × String

/-- association list, newest binding first; `put` erases the old binding, so a store built from
    `[]` by `put`/`del` never holds a key twice (`Store.WF`). -/
abbrev Store (ν : Type) := List (Key × ν)

namespace Store
variable {ν : Type}

def get : Store ν → Key → Option ν
  | [], _ => none
  | (k', v) :: r, k => if k' = k then some v else get r k

def del (s : Store ν) (k : Key) : Store ν := s.filter (fun e => decide (e.1 ≠ k))

def put (s : Store ν) (k : Key) (v : ν) : Store ν := (k, v) :: del s k

/-- the keys stored under `(p, sn)` — what `KVStoreSync::list` returns (in arbitrary order) -/
def names (s : Store ν) (p sn : String) : List String :=
  (s.filter (fun e => decide (e.1.1 = p ∧ e.1.2.1 = sn))).map (fun e => e.1.2.2)

def keys (s : Store ν) : List Key := s.map (·.1)

/-- representation invariant: no key is bound twice -/
def WF (s : Store ν) : Prop := (s.map (·.1)).Nodup

end Store

/-! ### validity rules — mirrors lightning-persister/src/utils.rs -/

/-- mirrors lightning-persister/src/utils.rs::is_valid_kvstore_str
    (`key.len() <= KVSTORE_NAMESPACE_KEY_MAX_LEN && key.chars().all(|c| ALPHABET.contains(c))`;
    for strings over the alphabet the byte length is the character count) -/
def validStr (s : String) : Bool :=
  decide (s.length ≤ KVSTORE_NAMESPACE_KEY_MAX_LEN) &&
    s.toList.all (fun c => KVSTORE_NAMESPACE_KEY_ALPHABET.toList.contains c)

inductive KvErr where
  | emptyKey       -- "key may not be empty."
  | emptyPrimary   -- "primary namespace may not be empty if a non-empty secondary namespace is given."
  | invalid        -- "... must be valid."
  | notFound       -- io::ErrorKind::NotFound on read
  deriving DecidableEq, Repr

def KvErr.name : KvErr → String
  | .emptyKey => "EmptyKey" | .emptyPrimary => "EmptyPrimary" | .invalid => "Invalid" | .notFound => "NotFound"

/-- mirrors lightning-persister/src/utils.rs::check_namespace_key_validity with `Some(key)`
    (order of the checks: empty key, empty primary with non-empty secondary, alphabet/length) -/
def checkKey (k : Key) : Except KvErr Unit :=
  if k.2.2.isEmpty then .error .emptyKey
  else if k.1.isEmpty && !k.2.1.isEmpty then .error .emptyPrimary
  else if !validStr k.1 || !validStr k.2.1 || !validStr k.2.2 then .error .invalid
  else .ok ()

/-- mirrors check_namespace_key_validity with `None` (list) -/
def checkNs (p sn : String) : Except KvErr Unit :=
  if p.isEmpty && !sn.isEmpty then .error .emptyPrimary
  else if !validStr p || !validStr sn then .error .invalid
  else .ok ()

def validKey (k : Key) : Bool := match checkKey k with | .ok _ => true | .error _ => false

/-! ### operations and answers — mirrors fs_store/common.rs::{read,write,remove,list}_impl -/

inductive KvOp (ν : Type) where
  | write (k : Key) (v : ν)
  | read (k : Key)
  | remove (k : Key) (lazy : Bool)
  | list (p sn : String)

inductive KvAns (ν : Type) where
  | ok
  | value (v : ν)
  | names (l : List String)
  | err (e : KvErr)

/-- one store operation: new store and answer. Invalid keys/namespaces are rejected without effect;
    `remove` of a missing key succeeds; `lazy` makes no difference for the *sequential* result of the
    filesystem stores (they unlink immediately, only the directory fsync is skipped). -/
def KvOp.apply {ν : Type} (s : Store ν) : KvOp ν → Store ν × KvAns ν
  | .write k v => match checkKey k with
      | .error e => (s, .err e)
      | .ok _ => (s.put k v, .ok)
  | .read k => match checkKey k with
      | .error e => (s, .err e)
      | .ok _ => match s.get k with
          | some v => (s, .value v)
          | none => (s, .err .notFound)
  | .remove k _ => match checkKey k with
      | .error e => (s, .err e)
      | .ok _ => (s.del k, .ok)
  | .list p sn => match checkNs p sn with
      | .error e => (s, .err e)
      | .ok _ => (s, .names (s.names p sn))

/-- run a history of operations -/
def run {ν : Type} (s : Store ν) (ops : List (KvOp ν)) : Store ν :=
  ops.foldl (fun s op => (KvOp.apply s op).1) s

/-- the answers a history produces, in order -/
def answers {ν : Type} : Store ν → List (KvOp ν) → List (KvAns ν)
  | _, [] => []
  | s, op :: r => (KvOp.apply s op).2 :: answers (KvOp.apply s op).1 r

/-- SPEC (does not mention `Store`): what the history says key `k` should hold — the value of the
    last *completed* (= valid) write to `k` that no later completed remove of `k` followed. -/
def lastWrite {ν : Type} (ops : List (KvOp ν)) (k : Key) : Option ν :=
  ops.foldl (fun acc op => match op with
    | .write k' v => if k' = k ∧ validKey k' then some v else acc
    | .remove k' _ => if k' = k ∧ validKey k' then none else acc
    | _ => acc) none

end Ldk.Kv
