/- C10 — re-delivery of `Event::HTLCIntercepted` ("will be persisted across restarts") for the HTLCs a node holds in
   `ChannelManager::pending_intercepted_htlcs`.  Live: an intercepted HTLC is inserted into the map TOGETHER with its event; the
   application's handler accepts a PREFIX of the pending events (the rest is replayed); `forward_intercepted_htlc` /
   `fail_intercepted_htlc` / the expiry sweep remove the entry.  The manager is written at arbitrary points; after a crash
   `from_channel_manager_data` restores the written map and queue and creates an event for every held HTLC for which the
   GENERATED test `eventIsFor` finds none in the written queue (GENERATED `regenWhen`, `mkInterceptedEvent`,
   `interceptsFromDisk`).  Intercept ids / hashes are numbers (the harness uses the first 6 bytes).  No Mathlib. -/
import LdkModel.Generated.InterceptRegen
namespace Ldk.Restart

/-- what a ChannelManager (live or a written copy) knows about intercepted HTLCs -/
structure IcMgr where
  /-- pending_intercepted_htlcs (keys are unique) -/
  held : List (Nat × IcHtlc)
  /-- the Event::HTLCIntercepted entries of pending_events, in order -/
  queue : List IcEv
  deriving DecidableEq, Repr, Inhabited

/-- one iteration of the regeneration loop of from_channel_manager_data -/
def regenStep (q : List IcEv) (kv : Nat × IcHtlc) : List IcEv :=
  if regenWhen (q.any (eventIsFor kv.1)) then
    match mkInterceptedEvent kv.1 kv.2 with
    | some e => q ++ [e]
    | none => q
  else q

-- mirrors ChannelManager::from_channel_manager_data: `for (id, fwd) in pending_intercepted_htlcs.iter() { if !any(..) { push } }`
def regen (held : List (Nat × IcHtlc)) (q : List IcEv) : List IcEv := held.foldl regenStep q

/-- the restarted manager, from the written copy `d` -/
def reloadI (reconstruct : Bool) (d : IcMgr) : IcMgr :=
  let held := if interceptsFromDisk reconstruct then d.held else []
  { held := held, queue := regen held d.queue }

structure ISt where
  live : IcMgr
  /-- the last ChannelManager written to disk -/
  disk : IcMgr
  /-- intercept ids whose event the handler accepted since the last (re)start: the running application knows these HTLCs -/
  told : List Nat
  deriving DecidableEq, Repr, Inhabited

inductive IOp where
  /-- process_pending_update_add_htlcs intercepts an HTLC: vacant entry and the event can be built => event pushed (equal ones
      retained out first) + entry inserted; otherwise the HTLC is failed back and nothing is kept -/
  | intercept (id : Nat) (h : IcHtlc)
  /-- process_pending_events: the handler returns Ok for the first k HTLCIntercepted events and Err(ReplayEvent) for the next -/
  | handle (k : Nat)
  /-- forward_intercepted_htlc / fail_intercepted_htlc / the expiry sweep of best_block_updated: the entry is removed -/
  | resolve (id : Nat)
  /-- the best block becomes `height`: the expiry sweep drops (and fails back) the held HTLCs for which GENERATED `interceptTimedOut` holds -/
  | blocks (height : Nat)
  /-- the ChannelManager is written -/
  | persist
  /-- crash; restart from the last written manager (legacy = production reload path) -/
  | crash
  /-- crash; restart on the reconstruct-from-monitors reload path: the map starts EMPTY (GENERATED interceptsFromDisk true = false), the written
      events are kept; the committed inbound HTLCs are decoded again afterwards (`intercept` ops for the same ids) -/
  | crashRebuild
  deriving DecidableEq, Repr, Inhabited

def heldIds (m : IcMgr) : List Nat := m.held.map (·.1)

def istep (s : ISt) : IOp → ISt
  | .intercept id h =>
    if (heldIds s.live).contains id then s else
    match mkInterceptedEvent id h with
    | some e => { s with live := { held := s.live.held ++ [(id, h)], queue := s.live.queue.filter (· != e) ++ [e] } }
    | none => s
  | .handle k =>
    { s with live := { s.live with queue := s.live.queue.drop k }, told := s.told ++ (s.live.queue.take k).map (·.interceptId) }
  | .resolve id => { s with live := { s.live with held := s.live.held.filter (·.1 != id) } }
  | .blocks height => { s with live := { s.live with held := s.live.held.filter (fun kv => !interceptTimedOut height kv.2) } }
  | .persist => { s with disk := s.live }
  | .crash => { s with live := reloadI false s.disk, told := [] }
  | .crashRebuild => { s with live := reloadI true s.disk, told := [] }

def ISt.init : ISt := { live := ⟨[], []⟩, disk := ⟨[], []⟩, told := [] }

def irun (ops : List IOp) : ISt := ops.foldl istep ISt.init

/-- an `Event::HTLCIntercepted` naming this intercept id is pending (it will be handed to the handler until it accepts it) -/
def IcMgr.eventPending (m : IcMgr) (id : Nat) : Bool := m.queue.any (fun e => e.interceptId == id)

end Ldk.Restart
