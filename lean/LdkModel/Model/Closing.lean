/- Cooperative close (C01): the hand-written part.  All arithmetic and every fee decision is the GENERATED translation in
   Generated/Closing.lean (`build_closing_transaction`, `calculate_closing_fee_limits`, `closing_signed_fee_decision`, the three
   pinned equality tests); what is mirrored by hand here is the ORDER of the steps of `FundedChannel::closing_signed` /
   `maybe_propose_closing_signed` (build, compare the fee used, verify the signature against the plain and the
   skip_remote_output transaction, completion on echo, decision, answer) and the two-party message loop.  The hand-mirrored
   order is tied by the end-to-end differential of the `chan` harness (real nodes shut down, every closing_signed compared).
   No Mathlib. -/
import LdkModel.Generated.Closing
namespace Ldk.Closing

/-- what one party knows when the negotiation starts -/
structure View where
  valueToSelfMsat : Nat     -- funding.value_to_self_msat
  chanValueSat : Nat        -- funding.get_value_satoshis()
  dust : Nat                -- context.holder_dust_limit_satoshis
  isFunder : Bool           -- funding.is_outbound()
  minFee : Nat              -- calculate_closing_fee_limits().0
  maxFee : Nat              -- calculate_closing_fee_limits().1
  deriving DecidableEq, Repr, Inhabited

/-- `build_closing_transaction` on a view: `(value_to_holder, value_to_counterparty, total_fee_satoshis)` as naturals
    (`as u64` in the source: the translated function never returns a negative value, `closingTx_spec`) -/
def closingTx (v : View) (fee : Nat) (skipRemote : Bool) : Option (Nat × Nat × Nat) :=
  (build_closing_transaction v.valueToSelfMsat v.chanValueSat v.dust v.isFunder fee skipRemote).map
    (fun r => (r.1.toNat, r.2.1.toNat, r.2.2.toNat))

/-- the content of a closing transaction as its SIGNER sees it: (value to the signer's script, value to the peer's script);
    zero = no such output.  Two parties sign the same transaction iff one pair is the other one flipped. -/
abbrev Tx := Nat × Nat
def flip (t : Tx) : Tx := (t.2, t.1)

/-- closing_signed: fee_satoshis, the fee_range TLV, and (standing for the signature) the transaction the sender signed -/
structure CsMsg where
  fee : Nat
  range : Option (Nat × Nat)
  tx : Tx
  deriving DecidableEq, Repr, Inhabited

inductive Res where
  /-- `Err(ChannelError)`: nothing is signed or broadcast by this call -/
  | err (e : CloseErr)
  /-- the peer echoed the fee we proposed: we broadcast (no answer) -/
  | done (fee : Nat) (tx : Tx)
  /-- we answer; `bcast` = we also signed the PEER's transaction and broadcast it (ShutdownComplete) -/
  | reply (m : CsMsg) (bcast : Option (Nat × Tx))
  deriving DecidableEq, Repr, Inhabited

/-- mirrors the funder arm of `maybe_propose_closing_signed`: build at `our_min_fee`, sign, send with our range -/
def propose (v : View) : Option CsMsg :=
  match closingTx v v.minFee false with
  | none => none
  | some (h, c, used) => some { fee := used, range := some (v.minFee, v.maxFee), tx := (h, c) }

/-- the signature check of `closing_signed`: against our transaction at the peer's fee, then against the one without the
    REMOTE (= the signer's own) output (`skip_remote_output = true`); the result is the transaction we hold from here on -/
def verified (v : View) (m : CsMsg) : Option Tx :=
  match closingTx v m.fee false with
  | none => none
  | some (h, c, _) =>
    if flip (h, c) == m.tx then some (h, c)
    else match closingTx v m.fee true with
      | none => none
      | some (h', c', _) => if flip (h', c') == m.tx then some (h', c') else none

/-- mirrors `FundedChannel::closing_signed` for a connected channel with both shutdowns exchanged, no HTLCs, no monitor
    update in progress; `last` = fee of our last closing_signed (`last_sent_closing_fee`) -/
def onClosingSigned (v : View) (last : Option Nat) (m : CsMsg) : Res :=
  match closingTx v m.fee false with
  | none => .err .close
  | some (_, _, used) =>
    if !(used_fee_ok used m.fee) then .err .close else
    match verified v m with
    | none => .err .close
    | some closing_tx =>
      if (match last with | some lf => completes_on_echo lf m.fee | none => false) then .done m.fee closing_tx else
      match closing_signed_fee_decision v.isFunder m.fee m.range last v.minFee v.maxFee with
      | .error e => .err e
      | .ok newFee =>
        if accepts_peer_fee newFee m.fee then
          .reply { fee := newFee, range := some (v.minFee, v.maxFee), tx := closing_tx } (some (m.fee, closing_tx))
        else match closingTx v newFee false with
          | none => .err .close
          | some (h2, c2, used2) => .reply { fee := used2, range := some (v.minFee, v.maxFee), tx := (h2, c2) } none

/-- result of a whole negotiation between a funder `F` and a fundee `N` that both run this code; transactions are
    recorded in the FUNDER's orientation: (fee, value to the funder, value to the fundee) -/
structure Outcome where
  err : Option CloseErr := none
  /-- the funder could not even build its first proposal (its balance is below its own minimum fee) -/
  noProposal : Bool := false
  bF : Option (Nat × Tx) := none
  bN : Option (Nat × Tx) := none
  msgs : List CsMsg := []
  deriving DecidableEq, Repr, Inhabited

def absN (b : Option (Nat × Tx)) : Option (Nat × Tx) := b.map (fun x => (x.1, flip x.2))

/-- the message loop: F proposes, N answers, F answers, N completes.  (With fee ranges on both sides the exchange never
    needs a fourth message: `negotiate_complete` in Props/C01Close.lean.) -/
def negotiate (F N : View) : Outcome :=
  match propose F with
  | none => { noProposal := true, err := some .close }
  | some m1 =>
    match onClosingSigned N none m1 with
    | .err e => { err := some e, msgs := [m1] }
    | .done _ _ => { err := some .close, msgs := [m1] }        -- unreachable (`last = none`)
    | .reply m2 bN =>
      match onClosingSigned F (some m1.fee) m2 with
      | .err e => { err := some e, bN := absN bN, msgs := [m1, m2] }
      | .done f t => { bF := some (f, t), bN := absN bN, msgs := [m1, m2] }
      | .reply m3 bF =>
        match onClosingSigned N (some m2.fee) m3 with
        | .err e => { err := some e, bF := bF, bN := absN bN, msgs := [m1, m2, m3] }
        | .done f t => { bF := bF, bN := absN (some (f, t)), msgs := [m1, m2, m3] }
        -- a fourth message: never happens between two nodes running this code (`negotiate_complete`)
        | .reply m4 _ => { err := some .warn, bF := bF, bN := absN bN, msgs := [m1, m2, m3, m4] }

end Ldk.Closing
