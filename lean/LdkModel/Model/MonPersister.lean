/- C19 — model of `lightning::util::persist::MonitorUpdatingPersister` over the map store of
   Model/KvStore.lean, with an explicit fault/crash schedule. No Mathlib.

   A monitor is `(id, st)`; `apply : St → Upd → St` is abstract. Every store operation the persister
   issues goes through `kWrite/kRead/kRemove/kList`, which (a) consult the schedule `Sched` for the
   outcome of the op with that sequence number, (b) append the op to the emitted trace. A crash after
   `c` ops is the schedule "every op ≥ c fails without effect"; a lazy delete that never lands is
   `eff i = false`; a failing op may or may not have hit the disk (`ok i = false`, `eff i` free).
   The decision expressions (`persistUpdate`, `sentinelWhen`, `legacyCleanup`, `cleanupStart`,
   `cleanupCount`, `loadFilter`, `staleFilter`) are GENERATED from persist.rs on every run. -/
import LdkModel.Model.KvStore
namespace Ldk.MonP
open Ldk.Kv Ldk.Persist

structure Mon (St : Type) where
  id : Nat
  st : St

/-- what a stored byte string decodes to -/
inductive PVal (St Upd : Type) where
  /-- a serialized ChannelMonitor (with/without the 0xFFFF sentinel), carrying its own persistence key -/
  | mon (sentinel : Bool) (name : String) (m : Mon St)
  /-- a serialized ChannelMonitorUpdate with its `update_id` -/
  | upd (id : Nat) (u : Upd)
  /-- bytes that decode to neither -/
  | junk (tag : Nat)

def monKey (name : String) : Key :=
  (CHANNEL_MONITOR_PERSISTENCE_PRIMARY_NAMESPACE, CHANNEL_MONITOR_PERSISTENCE_SECONDARY_NAMESPACE, name)
/-- `monitor_updates/<monitor key>/<update_id>` — mirrors persist.rs::UpdateName::from(u64) (decimal) -/
def updKey (name : String) (id : Nat) : Key :=
  (CHANNEL_MONITOR_UPDATE_PERSISTENCE_PRIMARY_NAMESPACE, name, Nat.repr id)
def archKey (name : String) : Key :=
  (ARCHIVED_CHANNEL_MONITOR_PERSISTENCE_PRIMARY_NAMESPACE, ARCHIVED_CHANNEL_MONITOR_PERSISTENCE_SECONDARY_NAMESPACE, name)

/-- outcome of the store op with sequence number `i`:
    `ok i`  — the op reports success;
    `eff i` — for an op that reports failure, and for every *lazy* remove: whether it nevertheless
              changed the store. (A non-lazy write/remove that reports success always took effect.) -/
structure Sched where
  ok : Nat → Bool
  eff : Nat → Bool

def okSched : Sched := ⟨fun _ => true, fun _ => true⟩

/-- crash after `c` ops (no later op has any effect), op `failAt` (if any) fails — with effect iff
    `failEff` —, the lazy remove with sequence number `i` lands iff `lazyDone i`. -/
def crashSched (c : Nat) (failAt : Option Nat) (failEff : Bool) (lazyDone : Nat → Bool) : Sched where
  ok := fun i => decide (i < c) && decide (failAt ≠ some i)
  eff := fun i => decide (i < c) && (if failAt = some i then failEff else lazyDone i)

inductive POp (St Upd : Type) where
  | write (k : Key) (v : PVal St Upd)
  | read (k : Key)
  | remove (k : Key) (lazy : Bool)
  | list (p sn : String)

/-- an emitted store op with what the schedule made of it (`eff`: the store changed) -/
structure Entry (St Upd : Type) where
  op : POp St Upd
  ok : Bool
  eff : Bool

structure World (St Upd : Type) where
  store : Store (PVal St Upd)
  n : Nat := 0
  trace : List (Entry St Upd) := []

variable {St Upd : Type}

/-- effect of one emitted op on a store (what a crash-recovery sees is `replay` of the trace) -/
def Entry.step (s : Store (PVal St Upd)) (e : Entry St Upd) : Store (PVal St Upd) :=
  match e.op with
  | .write k v => if e.eff then s.put k v else s
  | .remove k _ => if e.eff then s.del k else s
  | _ => s

def replay (s : Store (PVal St Upd)) (tr : List (Entry St Upd)) : Store (PVal St Upd) :=
  tr.foldl Entry.step s

/-! ### store primitives (KVStoreSync::{write,read,remove,list} under a schedule) -/

def kWrite (sc : Sched) (w : World St Upd) (k : Key) (v : PVal St Upd) : World St Upd × Bool :=
  let ok := sc.ok w.n
  let eff := ok || sc.eff w.n
  ({ store := if eff then w.store.put k v else w.store, n := w.n + 1,
     trace := w.trace ++ [⟨.write k v, ok, eff⟩] }, ok)

def kRemove (sc : Sched) (w : World St Upd) (k : Key) (lazy : Bool) : World St Upd × Bool :=
  let ok := sc.ok w.n
  let eff := if lazy then sc.eff w.n else ok || sc.eff w.n
  ({ store := if eff then w.store.del k else w.store, n := w.n + 1,
     trace := w.trace ++ [⟨.remove k lazy, ok, eff⟩] }, ok)

/-- `none` = any io::Error (including NotFound) -/
def kRead (sc : Sched) (w : World St Upd) (k : Key) : World St Upd × Option (PVal St Upd) :=
  let ok := sc.ok w.n
  ({ w with n := w.n + 1, trace := w.trace ++ [⟨.read k, ok, false⟩] },
   if ok then w.store.get k else none)

def kList (sc : Sched) (w : World St Upd) (p sn : String) : World St Upd × Option (List String) :=
  let ok := sc.ok w.n
  ({ w with n := w.n + 1, trace := w.trace ++ [⟨.list p sn, ok, false⟩] },
   if ok then some (w.store.names p sn) else none)

/-! ### the persister -/

structure Cfg (St Upd : Type) where
  /-- `maximum_pending_updates` -/
  maxPending : Nat
  /-- abstract `ChannelMonitor::update_monitor` state change -/
  apply : St → Upd → St
  /-- `MonitorName::from_str(key).is_ok()` -/
  nameOk : String → Bool

/-- mirrors persist.rs::MonitorUpdatingPersisterAsyncInner::persist_new_channel:
    one write of the full monitor, sentinel-prefixed iff `maximum_pending_updates != 0` -/
def persistNew (cfg : Cfg St Upd) (sc : Sched) (w : World St Upd) (name : String) (m : Mon St) :
    World St Upd × Bool :=
  kWrite sc w (monKey name) (.mon (sentinelWhen cfg.maxPending) name m)

/-- mirrors persist.rs::cleanup_in_range: lazily remove `start..=end`, errors only logged -/
def cleanupInRange (sc : Sched) (w : World St Upd) (name : String) (start end_ : Nat) : World St Upd :=
  (List.range' start (cleanupCount start end_)).foldl
    (fun w id => (kRemove sc w (updKey name id) cleanupInRangeLazy).1) w

/-- loop of persist.rs::cleanup_stale_updates_for_monitor_to over the listed names -/
def cleanupLoop (sc : Sched) (name : String) (latest : Nat) (lazy : Bool) :
    List String → World St Upd → World St Upd × Bool
  | [], w => (w, true)
  | nm :: rest, w =>
    match nm.toNat? with
    | none => (w, false)                       -- `UpdateName::new(update)?`
    | some id =>
      if staleFilter id latest then
        let r := kRemove sc w (updKey name id) lazy
        if r.2 then cleanupLoop sc name latest lazy rest r.1 else (r.1, false)
      else cleanupLoop sc name latest lazy rest w

/-- mirrors persist.rs::cleanup_stale_updates_for_monitor_to: list, remove every id ≤ latest -/
def cleanupTo (sc : Sched) (w : World St Upd) (name : String) (latest : Nat) (lazy : Bool) :
    World St Upd × Bool :=
  let r := kList sc w CHANNEL_MONITOR_UPDATE_PERSISTENCE_PRIMARY_NAMESPACE name
  match r.2 with
  | none => (r.1, false)
  | some names => cleanupLoop sc name latest lazy names r.1

/-- mirrors persist.rs::MonitorUpdatingPersisterAsyncInner::update_persisted_channel.
    `upd = some (update_id, update)` / `none` (chain-sync persist, or update_monitor returned Err);
    `m` is the in-memory monitor *after* the update. Result `true` = `Completed`,
    `false` = `UnrecoverableError` (the sync persister never returns InProgress). -/
def updatePersisted (cfg : Cfg St Upd) (sc : Sched) (w : World St Upd) (name : String)
    (upd : Option (Nat × Upd)) (m : Mon St) : World St Upd × Bool :=
  match upd with
  | some (uid, u) =>
    if persistUpdate uid cfg.maxPending then
      kWrite sc w (updKey name uid) (.upd uid u)
    else
      let r := persistNew cfg sc w name m
      if r.2 then
        if legacyCleanup m.id then
          cleanupTo sc r.1 name m.id true      -- `.await?` : a clean-up error is returned
        else
          (cleanupInRange sc r.1 name (cleanupStart m.id cfg.maxPending) m.id, true)
      else (r.1, false)
  | none => persistNew cfg sc w name m

inductive RdErr where
  | badName | io | decode | wrongKey | badUpdateName
  /-- `update_monitor` panics: "Attempted to apply ChannelMonitorUpdates out of order" -/
  | outOfOrder
  deriving DecidableEq, Repr

def RdErr.name : RdErr → String
  | .badName => "err" | .io => "err" | .decode => "err" | .wrongKey => "err" | .badUpdateName => "err"
  | .outOfOrder => "panic"

/-- mirrors persist.rs::maybe_read_monitor (sentinel skipped if present; key check) -/
def decodeMon (name : String) : PVal St Upd → Except RdErr (Mon St)
  | .mon _ nm m => if nm = name then .ok m else .error .wrongKey
  | _ => .error .decode

/-- the id discipline of channelmonitor.rs::ChannelMonitorImpl::update_monitor: an update with the
    legacy id `u64::MAX` is always accepted, any other must be `latest_update_id + 1` (else panic).
    Update ids are `u64`: `uid ≤ u64::MAX`, and `latest_update_id + 1` overflows (panics in the dev
    profile) when the monitor already is at `u64::MAX` — hence the explicit bound. -/
def applyUpd (cfg : Cfg St Upd) (m : Mon St) (uid : Nat) (u : Upd) : Option (Mon St) :=
  if uid = LEGACY_CLOSED_CHANNEL_UPDATE_ID then some ⟨uid, cfg.apply m.st u⟩
  else if m.id + 1 = uid ∧ uid ≤ LEGACY_CLOSED_CHANNEL_UPDATE_ID then some ⟨uid, cfg.apply m.st u⟩
  else none

/-- issue the read of every update to load (all futures are polled before any result is looked at) -/
def readAllUpd (sc : Sched) (name : String) : List Nat → World St Upd → World St Upd × List (Option (PVal St Upd))
  | [], w => (w, [])
  | id :: r, w =>
    let a := kRead sc w (updKey name id)
    let b := readAllUpd sc name r a.1
    (b.1, a.2 :: b.2)

def applyAll (cfg : Cfg St Upd) : Mon St → List (Option (PVal St Upd)) → Except RdErr (Mon St)
  | m, [] => .ok m
  | _, none :: _ => .error .io
  | m, some (.upd uid u) :: r =>
    match applyUpd cfg m uid u with
    | some m' => applyAll cfg m' r
    | none => .error .outOfOrder
  | _, some _ :: _ => .error .decode

/-- parse every listed name (`UpdateName::new`), `sort_unstable`, keep ids above the stored monitor's -/
def idsToLoad (names : List String) (cur : Nat) : Option (List Nat) :=
  (names.mapM String.toNat?).map (fun ids => (ids.mergeSort (fun a b => decide (a ≤ b))).filter (loadFilter · cur))

/-- mirrors persist.rs::maybe_read_channel_monitor_with_updates. The list of the update namespace is
    issued before the monitor read (`KVStoreSyncWrapper::list` runs when the future is created). -/
def readWithUpdates (cfg : Cfg St Upd) (sc : Sched) (w : World St Upd) (name : String) :
    World St Upd × Except RdErr (Mon St) :=
  if !cfg.nameOk name then (w, .error .badName) else
  let l := kList sc w CHANNEL_MONITOR_UPDATE_PERSISTENCE_PRIMARY_NAMESPACE name
  let r := kRead sc l.1 (monKey name)
  match r.2 with
  | none => (r.1, .error .io)
  | some v =>
    match decodeMon name v with
    | .error e => (r.1, .error e)
    | .ok m =>
      match l.2 with
      | none => (r.1, .error .io)
      | some names =>
        match idsToLoad names m.id with
        | none => (r.1, .error .badUpdateName)
        | some ids =>
          let a := readAllUpd sc name ids r.1
          (a.1, applyAll cfg m a.2)

/-- mirrors persist.rs::read_all_channel_monitors_with_updates: every monitor's read is issued, then
    the first error (in list order) is returned -/
def readAllLoop (cfg : Cfg St Upd) (sc : Sched) :
    List String → World St Upd → World St Upd × Except RdErr (List (String × Mon St))
  | [], w => (w, .ok [])
  | nm :: rest, w =>
    let a := readWithUpdates cfg sc w nm
    let b := readAllLoop cfg sc rest a.1
    (b.1, match a.2, b.2 with
          | .error e, _ => .error e
          | .ok _, .error e => .error e
          | .ok m, .ok l => .ok ((nm, m) :: l))

def readAll (cfg : Cfg St Upd) (sc : Sched) (w : World St Upd) :
    World St Upd × Except RdErr (List (String × Mon St)) :=
  let l := kList sc w CHANNEL_MONITOR_PERSISTENCE_PRIMARY_NAMESPACE CHANNEL_MONITOR_PERSISTENCE_SECONDARY_NAMESPACE
  match l.2 with
  | none => (l.1, .error .io)
  | some names => readAllLoop cfg sc names l.1

/-- mirrors persist.rs::cleanup_stale_updates (loop body, first error aborts) -/
def cleanupStaleLoop (cfg : Cfg St Upd) (sc : Sched) (lazy : Bool) :
    List String → World St Upd → World St Upd × Bool
  | [], w => (w, true)
  | nm :: rest, w =>
    if !cfg.nameOk nm then (w, false) else
    let r := kRead sc w (monKey nm)
    match r.2 with
    | none => (r.1, false)
    | some v =>
      match decodeMon nm v with
      | .error _ => (r.1, false)
      | .ok m =>
        let c := cleanupTo sc r.1 nm m.id lazy
        if c.2 then cleanupStaleLoop cfg sc lazy rest c.1 else (c.1, false)

def cleanupStale (cfg : Cfg St Upd) (sc : Sched) (lazy : Bool) (w : World St Upd) : World St Upd × Bool :=
  let l := kList sc w CHANNEL_MONITOR_PERSISTENCE_PRIMARY_NAMESPACE CHANNEL_MONITOR_PERSISTENCE_SECONDARY_NAMESPACE
  match l.2 with
  | none => (l.1, false)
  | some names => cleanupStaleLoop cfg sc lazy names l.1

/-- mirrors persist.rs::maybe_read_monitor on its own: the stored full monitor, no update applied -/
def readMonOnly (cfg : Cfg St Upd) (sc : Sched) (w : World St Upd) (name : String) :
    World St Upd × Except RdErr (Mon St) :=
  if !cfg.nameOk name then (w, .error .badName) else
  let r := kRead sc w (monKey name)
  match r.2 with
  | none => (r.1, .error .io)
  | some v => (r.1, decodeMon name v)

/-- the read `archive_persisted_channel` starts with — WHICH one is translated from persist.rs
    (`archiveAppliesUpdates`: `read_channel_monitor_with_updates` vs `maybe_read_monitor`) -/
def archiveRead (cfg : Cfg St Upd) (sc : Sched) (w : World St Upd) (name : String) :
    World St Upd × Except RdErr (Mon St) :=
  if archiveAppliesUpdates then readWithUpdates cfg sc w name else readMonOnly cfg sc w name

/-- mirrors persist.rs::archive_persisted_channel: read (see `archiveRead`), write the archive copy (no
    sentinel), then remove the live monitor key; every failure just returns. Whether a failed archive
    write stops the function (`archiveRemoveAfterWriteOk`) and the laziness of the removal
    (`archiveRemoveLazy`) are translated from persist.rs. -/
def archive (cfg : Cfg St Upd) (sc : Sched) (w : World St Upd) (name : String) : World St Upd :=
  let a := archiveRead cfg sc w name
  match a.2 with
  | .error _ => a.1
  | .ok m =>
    let b := kWrite sc a.1 (archKey name) (.mon false name m)
    if b.2 || !archiveRemoveAfterWriteOk then (kRemove sc b.1 (monKey name) archiveRemoveLazy).1 else b.1

/-! ### pure reading of the recovery functions (no world threading): what a healthy store answers -/

/-- `maybe_read_channel_monitor_with_updates` as a function of the three things it looks at: the
    listing of the monitor's update namespace, the stored monitor, the stored updates -/
def recoverPure (cfg : Cfg St Upd) (name : String) (names : List String) (mon : Option (PVal St Upd))
    (upd : Nat → Option (PVal St Upd)) : Except RdErr (Mon St) :=
  if !cfg.nameOk name then .error .badName else
  match mon with
  | none => .error .io
  | some v =>
    match decodeMon name v with
    | .error e => .error e
    | .ok m =>
      match idsToLoad names m.id with
      | none => .error .badUpdateName
      | some ids => applyAll cfg m (ids.map upd)

/-- what recovery returns for monitor `name` from store `s` -/
def recover (cfg : Cfg St Upd) (s : Store (PVal St Upd)) (name : String) : Except RdErr (Mon St) :=
  recoverPure cfg name (s.names CHANNEL_MONITOR_UPDATE_PERSISTENCE_PRIMARY_NAMESPACE name) (s.get (monKey name))
    (fun id => s.get (updKey name id))

/-- first error in list order, else all results (the `result?` loop of read_all_channel_monitors_with_updates) -/
def collect : List (String × Except RdErr (Mon St)) → Except RdErr (List (String × Mon St))
  | [] => .ok []
  | (nm, r) :: rest =>
    match r, collect rest with
    | .error e, _ => .error e
    | .ok _, .error e => .error e
    | .ok m, .ok l => .ok ((nm, m) :: l)

/-! ### several monitors: the persister calls on ONE monitor, as world transformers -/

inductive Call (St Upd : Type) where
  | persistNew (m : Mon St)
  | updatePersisted (upd : Option (Nat × Upd)) (m : Mon St)
  | archive
  | cleanupTo (latest : Nat) (lazy : Bool)

def applyCall (cfg : Cfg St Upd) (sc : Sched) (w : World St Upd) (c : String × Call St Upd) : World St Upd :=
  match c.2 with
  | .persistNew m => (persistNew cfg sc w c.1 m).1
  | .updatePersisted u m => (updatePersisted cfg sc w c.1 u m).1
  | .archive => archive cfg sc w c.1
  | .cleanupTo latest lazy => (cleanupTo sc w c.1 latest lazy).1

/-- any interleaving of calls on any monitors -/
def runCalls (cfg : Cfg St Upd) (sc : Sched) (w : World St Upd) (l : List (String × Call St Upd)) : World St Upd :=
  l.foldl (applyCall cfg sc) w

/-- the keys that belong to monitor `name` -/
def ownKey (name : String) (k : Key) : Prop :=
  k = monKey name ∨ k = archKey name ∨ (k.1 = CHANNEL_MONITOR_UPDATE_PERSISTENCE_PRIMARY_NAMESPACE ∧ k.2.1 = name)

/-! ### a node's life: the calls `ChainMonitor` makes, until the first `UnrecoverableError`
    (chainmonitor.rs panics on it) or an out-of-order update (channelmonitor.rs panics) -/

inductive Ev (Upd : Type) where
  /-- `ChainMonitor::update_channel`: apply `(update_id, update)` in memory, then persist it;
      `asFull` = `update_monitor` returned `Err`, the whole monitor is persisted (`update = None`) -/
  | update (uid : Nat) (u : Upd) (asFull : Bool)
  /-- chain-sync persist: `update_persisted_channel(.., None, monitor)` -/
  | full
  /-- the user runs `cleanup_stale_updates(lazy)` -/
  | cleanupStale (lazy : Bool)

structure Run (St Upd : Type) where
  w : World St Upd
  /-- the in-memory monitor -/
  mem : Mon St
  /-- `persist_new_channel` returned Completed -/
  started : Bool
  alive : Bool
  /-- updates applied in memory (and handed to the persister) so far, oldest first -/
  applied : List (Nat × Upd)
  /-- how many of them the persister reported `Completed` -/
  completed : Nat

def start (cfg : Cfg St Upd) (sc : Sched) (name : String) (s0 : Store (PVal St Upd)) (m0 : Mon St) : Run St Upd :=
  let r := persistNew cfg sc { store := s0 } name m0
  { w := r.1, mem := m0, started := r.2, alive := r.2, applied := [], completed := 0 }

def stepEv (cfg : Cfg St Upd) (sc : Sched) (name : String) (r : Run St Upd) : Ev Upd → Run St Upd
  | .update uid u asFull =>
    if !r.alive then r else
    match applyUpd cfg r.mem uid u with
    | none => { r with alive := false }
    | some m' =>
      let p := updatePersisted cfg sc r.w name (if asFull then none else some (uid, u)) m'
      { w := p.1, mem := m', started := r.started, alive := p.2, applied := r.applied ++ [(uid, u)],
        completed := if p.2 then r.completed + 1 else r.completed }
  | .full =>
    if !r.alive then r else
    let p := updatePersisted cfg sc r.w name none r.mem
    { r with w := p.1, alive := p.2 }
  | .cleanupStale lazy =>
    if !r.alive then r else { r with w := (cleanupStale cfg sc lazy r.w).1 }

def runHistory (cfg : Cfg St Upd) (sc : Sched) (name : String) (s0 : Store (PVal St Upd)) (m0 : Mon St)
    (evs : List (Ev Upd)) : Run St Upd :=
  evs.foldl (stepEv cfg sc name) (start cfg sc name s0 m0)

/-- SPEC: the in-memory monitor after the first `n` applied updates -/
def snapAt (cfg : Cfg St Upd) (m0 : Mon St) (us : List (Nat × Upd)) (n : Nat) : Mon St :=
  (us.take n).foldl (fun m x => ⟨x.1, cfg.apply m.st x.2⟩) m0

end Ldk.MonP
