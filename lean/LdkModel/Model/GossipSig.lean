/- C17 — authentication of gossip messages at the level of "which signature is checked against which key".
   The check LIST is Generated/GossipSig.lean (translated from gossip.rs::verify_channel_announcement /
   verify_node_announcement on every run); this file evaluates it.
   ECDSA is trusted and modelled by identities: a signature is (who produced it, over this message's hash or
   over something else); it verifies against a key iff it was produced over this hash by that very key. -/
import LdkModel.Generated.GossipSig
namespace Ldk.Gossip

/-- who holds a key: a node key, one of the funding ("bitcoin") keys, or a key that is none of the announced ones -/
inductive KeyId where
  | node (n : Nat) | btc (i : Nat) | other (i : Nat)
  deriving DecidableEq, Repr

/-- a signature as far as the model is concerned -/
structure SigBy where
  signer : KeyId
  /-- produced over sha256d(contents) of THIS message (false: over any other digest) -/
  overThis : Bool
  deriving DecidableEq, Repr

-- models secp256k1 verify_ecdsa(msg_hash, sig, key) under the ECDSA assumption
def SigBy.verifies (s : SigBy) (k : KeyId) : Bool := s.overThis && s.signer == k

/-- the authentication-relevant part of a `channel_announcement` on the wire -/
structure CaWire where
  key : Gen.CaKey → KeyId
  sig : Gen.CaSig → SigBy

/-- the authentication-relevant part of a `node_announcement` on the wire -/
structure NaWire where
  key : Gen.NaKey → KeyId
  sig : Gen.NaSig → SigBy

-- mirrors gossip.rs::verify_channel_announcement (Ok(()) = true): the generated checks, all of them
def verifyChanAnn (w : CaWire) : Bool := Gen.chanAnnSigChecks.all fun p => (w.sig p.1).verifies (w.key p.2)

-- mirrors gossip.rs::verify_node_announcement
def verifyNodeAnn (w : NaWire) : Bool := Gen.nodeAnnSigChecks.all fun p => (w.sig p.1).verifies (w.key p.2)

/-- SPECIFICATION (BOLT 7): the key each signature of a channel_announcement has to be made with -/
def Gen.CaSig.ownKey : Gen.CaSig → Gen.CaKey
  | .node_signature_1 => .node_id_1
  | .node_signature_2 => .node_id_2
  | .bitcoin_signature_1 => .bitcoin_key_1
  | .bitcoin_signature_2 => .bitcoin_key_2

/-- SPECIFICATION: the signature of a node_announcement is made with the announced node_id -/
def Gen.NaSig.ownKey : Gen.NaSig → Gen.NaKey
  | .signature => .node_id

end Ldk.Gossip
