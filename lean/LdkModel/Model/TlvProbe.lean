import LdkModel.Model.Codec
/-! C13 — a probe schema with REQUIRED TLV fields.  No peer message of msgs.rs declares a `required` TLV today, so the `required`
    arms of `_check_decoded_tlv_order!` / `_check_missing_tlv!` are reached by no message decoder; harness/src/bin/c13.rs expands the
    public `decode_tlv_stream!` macro of /repo on exactly this field list (op `tlvp`) so that the real macro text is run on them. -/
namespace Ldk.Codec

/-- mirrors harness/src/bin/c13.rs::tlv_probe: `decode_tlv_stream!(s, {(2, a, required), (3, b, option), (6, c, required), (9, d, option)})`
    with a: u64, b: u32, c: u16, d: u64 -/
def tlvProbeSchema : Schema :=
  ⟨"TlvProbe", [], [], [⟨2, "a", .uint 8, .required⟩, ⟨3, "b", .uint 4, .option⟩, ⟨6, "c", .uint 2, .required⟩, ⟨9, "d", .uint 8, .option⟩]⟩

end Ldk.Codec
