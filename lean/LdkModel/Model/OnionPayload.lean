/- C14 — hop payloads as TLV record lists: the record-level mirrors of LDK's TLV stream macros
   (lightning/src/util/ser_macros.rs; their text is pinned by tools/gen_onion_payloads.py), on which the
   GENERATED payload encoders (Generated/OnionPayloads.lean, from `impl Writeable for OutboundOnionPayload` /
   `OutboundTrampolinePayload`) are built.  Field values are opaque serialized byte strings (value codecs:
   C13); what is modelled is WHICH records are written, IN WHICH ORDER, and how the receiving
   `decode_tlv_stream_with_custom_tlv_decode!` sorts them into typed fields and custom TLVs.  No Mathlib. -/
import LdkModel.Model.Onion
namespace Ldk.OnionPayload
open Ldk.Onion (Bytes)

/-- one TLV record: (type, serialized value) -/
abbrev Rec := Nat × Bytes

/-- mirrors `v.sort_unstable_by_key(|(typ, _)| *typ)` (the result is determined whenever the types are distinct) -/
def sortByType (l : List Rec) : List Rec := l.mergeSort (fun a b => decide (a.1 ≤ b.1))

/-- mirrors `_encode_tlv_stream!`: the typed fields in the order the source lists them (`option` fields only when
    `Some`, `required` / `required_vec` always — `_encode_tlv!`), then the extra TLVs in the order given -/
def tlvRecords (typed : List (Nat × Option Bytes)) (extra : List Rec) : List Rec :=
  typed.filterMap (fun tv => tv.2.map (fun v => (tv.1, v))) ++ extra

/-- what one `_encode_varint_length_prefixed_tlv!` call is given -/
structure TlvOut where
  typed : List (Nat × Option Bytes)
  extra : List Rec

def TlvOut.records (o : TlvOut) : List Rec := tlvRecords o.typed o.extra

/-- the type sequence `_check_encoded_tlv_order!` walks in debug builds: every DECLARED typed field (present or
    not), then the extra TLVs; the encoder panics (debug) unless it is strictly increasing -/
def TlvOut.checkedTypes (o : TlvOut) : List Nat := o.typed.map (·.1) ++ o.extra.map (·.1)

def StrictInc (l : List Nat) : Prop := l.Pairwise (· < ·)

/-- some adjacent pair satisfies `f` -/
def adjacentAny (f : Nat → Nat → Bool) : List Nat → Bool
  | a :: b :: rest => f a b || adjacentAny f (b :: rest)
  | _ => false

/-- executable strict-increase test (adjacent pairs) -/
def strictIncB (l : List Nat) : Bool := !adjacentAny (fun a b => decide (a ≥ b)) l

/-! ## the receiving side: `_decode_tlv_stream_range!` with a custom-TLV closure, at record level -/

inductive DecErr
  | invalidValue        -- types not strictly increasing
  | unknownRequired     -- unknown even type below the custom range
  deriving DecidableEq, Repr

/-- `Some(t) if typ.0 <= t` -/
def orderBad : Option Nat → Nat → Bool
  | some l, t => decide (t ≤ l)
  | none, _ => false

/-- mirrors the loop of `_decode_tlv_stream_range!`: `Some(t) if typ.0 <= t => InvalidValue`; a known type goes to
    its typed field; otherwise the custom closure keeps it iff `!(msg_type < customMin)`; otherwise an even type is
    `UnknownRequiredFeature` and an odd one is skipped.  Returns (typed records, custom TLVs), both in stream order. -/
def decodeGo (known : List Nat) (customMin : Nat) : Option Nat → List Rec → Except DecErr (List Rec × List Rec)
  | _, [] => .ok ([], [])
  | last, (t, v) :: rest =>
    if orderBad last t then .error .invalidValue else
    if known.contains t then (decodeGo known customMin (some t) rest).map (fun r => ((t, v) :: r.1, r.2))
    else if t < customMin then
      (if t % 2 == 0 then .error .unknownRequired else decodeGo known customMin (some t) rest)
    else (decodeGo known customMin (some t) rest).map (fun r => (r.1, (t, v) :: r.2))

def decodeRecords (known : List Nat) (customMin : Nat) (recs : List Rec) : Except DecErr (List Rec × List Rec) :=
  decodeGo known customMin none recs

/-! ## bytes (driver / correspondence only; framing theorems are C13's) -/

/-- the low `w` bytes of `x`, big-endian (`to_be_bytes`) -/
def beBytes : Nat → Nat → Bytes
  | 0, _ => []
  | w + 1, x => beBytes w (x / 256) ++ [UInt8.ofNat (x % 256)]

/-- `BigSize::write` -/
def bigSize (n : Nat) : Bytes :=
  if n < 0xfd then [UInt8.ofNat n] else if n < 0x10000 then 0xfd :: beBytes 2 n else if n < 0x100000000 then 0xfe :: beBytes 4 n else 0xff :: beBytes 8 n

def encodeRecords (recs : List Rec) : Bytes := recs.flatMap fun r => bigSize r.1 ++ bigSize r.2.length ++ r.2

/-- `_encode_varint_length_prefixed_tlv!`: BigSize length of the stream, then the stream -/
def encodePayload (recs : List Rec) : Bytes :=
  let s := encodeRecords recs
  bigSize s.length ++ s

def beNat (l : Bytes) : Nat := l.foldl (fun acc x => acc * 256 + x.toNat) 0

/-- `BigSize::read` (canonical encodings only) -/
def readBigSize : Bytes → Option (Nat × Bytes)
  | [] => none
  | x :: rest =>
    if x.toNat < 0xfd then some (x.toNat, rest)
    else
      let w := if x.toNat = 0xfd then 2 else if x.toNat = 0xfe then 4 else 8
      let lo := if x.toNat = 0xfd then 0xfd else if x.toNat = 0xfe then 0x10000 else 0x100000000
      if rest.length < w then none else
      let v := beNat (rest.take w)
      if v < lo then none else some (v, rest.drop w)

/-- the records of a TLV stream (fuel-bounded); `none` on a framing error -/
def parseRecords : Nat → Bytes → Option (List Rec)
  | 0, _ => none
  | _, [] => some []
  | fuel + 1, b =>
    match readBigSize b with
    | none => none
    | some (t, r1) =>
      match readBigSize r1 with
      | none => none
      | some (l, r2) =>
        if r2.length < l then none else
        (parseRecords fuel (r2.drop l)).map ((t, r2.take l) :: ·)

/-- a length-prefixed payload → its records -/
def parsePayload (b : Bytes) : Option (List Rec) :=
  match readBigSize b with
  | none => none
  | some (l, rest) => if rest.length ≠ l then none else parseRecords (rest.length + 1) rest

/-! ## value encodings of the typed records (which encoding a record uses is GENERATED from the writers / the reader:
   `writeEnc…` / `inboundEnc` in Generated/OnionPayloads.lean) -/

/-- how the value of a typed record is serialized -/
inductive ValEnc
  | hzbd (w : Nat)   -- HighZeroBytesDroppedBigSize<u{8w}>: big-endian without leading zero bytes
  | be (w : Nat)     -- fixed-width big-endian integer (u64 short_channel_id)
  | fixed (n : Nat)  -- exactly `n` bytes ([u8; 32] preimage, 33-byte public key; point validity is not modelled)
  | raw              -- WithoutLength<Vec<u8>> / an opaque serialized object: all bytes of the record
  | secretTotal      -- FinalOnionHopData: [u8; 32] payment_secret ‖ HighZeroBytesDroppedBigSize<u64> total_msat
  deriving DecidableEq, Repr

/-- a field value as the caller means it -/
inductive HVal
  | num (n : Nat)
  | bytes (b : Bytes)
  | secretTotal (secret : Bytes) (total : Nat)
  deriving DecidableEq

/-- mirrors `impl Writeable for HighZeroBytesDroppedBigSize<uN>`: `to_be_bytes()[leading_zeros / 8 ..]` -/
def hzbdEnc (w x : Nat) : Bytes := (beBytes w x).dropWhile (· == 0)

/-- mirrors `impl Readable for HighZeroBytesDroppedBigSize<uN>` inside a TLV record (the record's bytes are all it may
    read): more than `w` bytes leave bytes unread (InvalidValue), a leading zero byte is InvalidValue, nothing is 0 -/
def hzbdDec (w : Nat) (b : Bytes) : Option Nat :=
  if b.length > w then none else if b.head? = some 0 then none else some (beNat b)

def encodeVal : ValEnc → HVal → Bytes
  | .hzbd w, .num n => hzbdEnc w n
  | .be w, .num n => beBytes w n
  | .fixed _, .bytes b => b
  | .raw, .bytes b => b
  | .secretTotal, .secretTotal s t => s ++ hzbdEnc 8 t
  | _, _ => []

/-- `none` = the record's value does not decode (ShortRead / InvalidValue) -/
def decodeVal : ValEnc → Bytes → Option HVal
  | .hzbd w, b => (hzbdDec w b).map .num
  | .be w, b => if b.length = w then some (.num (beNat b)) else none
  | .fixed n, b => if b.length = n then some (.bytes b) else none
  | .raw, b => some (.bytes b)
  | .secretTotal, b => if b.length < 32 then none else (hzbdDec 8 (b.drop 32)).map (.secretTotal (b.take 32))

/-- the value is of the encoding's type (integer range / byte length) -/
def HVal.valid : ValEnc → HVal → Bool
  | .hzbd w, .num n => decide (n < 256 ^ w)
  | .be w, .num n => decide (n < 256 ^ w)
  | .fixed k, .bytes b => b.length == k
  | .raw, .bytes _ => true
  | .secretTotal, .secretTotal s t => s.length == 32 && decide (t < 256 ^ 8)
  | _, _ => false

/-- the encoding of type `t` in a generated table (`raw` when absent) -/
def encOf (tbl : List (Nat × ValEnc)) (t : Nat) : ValEnc := (tbl.lookup t).getD .raw

end Ldk.OnionPayload
