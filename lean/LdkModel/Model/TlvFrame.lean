import LdkModel.Model.Codec
/-!
  Model/TlvFrame.lean — frame-level view of the persisted-object serialization (C12).

  The persisted objects themselves (ChannelMonitor, ChannelManager, …) are NOT modelled.  What is
  modelled is the *framing* every one of them is written in:

    * the two-byte version prefix (`write_ver_prefix!` / `read_ver_prefix!`, util/ser_macros.rs),
    * TLV streams whose declared fields are known only by (type number, kind class) — exactly what
      tools/gen_tlv_schemas.py extracts from every `impl_ser_tlv_based!`, `impl_*_tlv_based_enum*!`,
      `write_tlv_fields!` / `read_tlv_fields!` … invocation.  Field payloads are opaque byte strings
      (`FieldTy.restBytes`: any bytes are accepted and all of them are consumed), so the stream is run
      through the SAME `decodeTlvStream` / `tlvLoop` that C13 proves its theorems about
      (mirror of `_decode_tlv_stream_range!`),
    * the BigSize length prefix of `write_tlv_fields!` / `read_tlv_fields!`.

  Core only (no Mathlib): the C12 driver links natively.
-/
namespace Ldk.TlvFrame
open Ldk.Codec

/-- kind classes of util/ser_macros.rs TLV field kinds, as far as framing is concerned
    (`_check_decoded_tlv_order!`, `_check_missing_tlv!`):
    * `required`  required | (required: T) | (required, explicit_type) | required_vec | (required_vec, encoding) |
                  upgradable_required — a missing record is `InvalidValue`
    * `optional`  option | (option, explicit_type) | (option: T) | (option, encoding) | optional_vec | upgradable_option
    * `default`   (default_value, e) | (default_value_vec, e) — a missing record is replaced by `e`
    * `custom`    (custom, T, read, write) — a missing record calls `read(None)`
    * `legacy`    (legacy, T, read, write) — optional; `read(opt)` runs after the stream was read
    `(static_value, e)` entries never match a record and write nothing: the translator drops them. -/
inductive FrameKind | required | optional | default | custom | legacy
  deriving DecidableEq, Repr

inductive Dir | write | read | both
  deriving DecidableEq, Repr

structure FrameField where
  typ : Nat
  kind : FrameKind
  deriving DecidableEq, Repr

/-- one TLV block of the Rust source -/
structure FrameSchema where
  name : String        -- struct / `Enum.Variant` / `Type.fn.{w,r}<ordinal>`
  file : String
  line : Nat
  macroName : String
  dir : Dir            -- does the block write, read, or both (declarative macros)
  lenPrefixed : Bool   -- BigSize length before the stream (`write_tlv_fields!` family) or bare stream to the end
  fields : List FrameField
  deriving Repr

def FrameSchema.types (s : FrameSchema) : List Nat := s.fields.map (·.typ)

/-- the reader's view of a field: opaque payload; only `required` makes a missing record an error at
    frame level -/
def FrameField.toTlv (f : FrameField) : TlvField :=
  ⟨f.typ, "", .restBytes, if f.kind == .required then .required else .option⟩

def FrameSchema.tlvs (s : FrameSchema) : List TlvField := s.fields.map FrameField.toTlv

def FrameSchema.readerSide (s : FrameSchema) : Bool := s.dir != .write
def FrameSchema.writerSide (s : FrameSchema) : Bool := s.dir != .read

/-- Decidable well-formedness of a block.
    * types strictly increasing (sorted, no type number used twice): this is what the macros enforce —
      `_check_encoded_tlv_order!` is a `debug_assert!(t < $type)` on every write, and the decoder's
      `_check_decoded_tlv_order!` / `_check_missing_tlv!` are only meaningful on a sorted list
      ("Fields MUST be sorted in `$type`-order");
    * types fit a BigSize;
    * reader side: a `required` field has an even type ("it's OK to be odd": an odd type may be skipped by a
      reader) unless the pair `(block name, type)` is in the explicit exception list `exc` — the macros do
      not enforce this rule and the code base has many always-written odd fields that later became
      required; they are enumerated one by one in Props/C12 rather than by weakening this predicate. -/
def FrameSchema.wf (exc : List (String × Nat)) (s : FrameSchema) : Bool :=
  strictInc s.types && s.fields.all (fun f => f.typ < 2 ^ 64) &&
  (!s.readerSide || s.fields.all (fun f => f.kind != .required || f.typ % 2 == 0 || exc.contains (s.name, f.typ)))

/-- the odd-typed `required` fields of reader-side blocks -/
def oddRequired (ss : List FrameSchema) : List (String × Nat) :=
  ss.flatMap fun s =>
    if s.readerSide then (s.fields.filter fun f => f.kind == .required && f.typ % 2 == 1).map fun f => (s.name, f.typ)
    else []

/-- mirrors `decode_tlv_stream!` over the block's field list with opaque payloads:
    the known records in stream order, or the framing error -/
def frameDecode (s : FrameSchema) (b : Bytes) : Res (List (Nat × Val)) := decodeTlvStream s.tlvs b

/-- mirrors `encode_tlv_stream!` with opaque payloads: one optional payload per declared field -/
def frameEncode (s : FrameSchema) (vals : List (Option Val)) : Bytes := encodeTlvs s.tlvs vals

/-- mirrors util/ser_macros.rs::read_tlv_fields!: BigSize length, `FixedLengthReader::new(stream, len)`,
    `decode_tlv_stream!` on it, then `rd.eat_remaining()` (ShortRead when the stream holds fewer than
    `len` bytes).  Returns the known records and the unread rest. -/
def readTlvFields (s : FrameSchema) (b : Bytes) : Res (List (Nat × Val) × Bytes) :=
  match BigSize.decode b with
  | .error e => .error e
  | .ok (len, r) =>
    match frameDecode s (r.take len) with
    | .error e => .error e
    | .ok recs => if r.length < len then .error .ShortRead else .ok (recs, r.drop len)

/-- mirrors util/ser_macros.rs::write_tlv_fields! / _encode_varint_length_prefixed_tlv! -/
def writeTlvFields (s : FrameSchema) (vals : List (Option Val)) : Bytes :=
  BigSize.encode (frameEncode s vals).length ++ frameEncode s vals

/-- mirrors util/ser_macros.rs::write_ver_prefix!: `[this_version, min_version_that_can_read_this]` -/
def writeVerPrefix (ver minVer : Nat) : Bytes := [UInt8.ofNat ver, UInt8.ofNat minVer]

/-- mirrors util/ser_macros.rs::read_ver_prefix!($stream, $this_version): two `u8` reads (ShortRead on
    EOF); `min_ver > this_version` ⇒ `UnknownVersion`; evaluates to the written version -/
def readVerPrefix (thisVersion : Nat) (b : Bytes) : Res (Nat × Bytes) :=
  match readUint 1 b with
  | .error e => .error e
  | .ok (ver, r) =>
    match readUint 1 r with
    | .error e => .error e
    | .ok (minVer, r') => if minVer > thisVersion then .error .UnknownVersion else .ok (ver, r')

/-- the first byte of a TLV-based enum (`impl_ser_tlv_based_enum!` / `_upgradable!`):
    known struct variant ⇒ its TLV block follows; known tuple variant; unknown odd id of an
    upgradable enum ⇒ skipped (`Ok(None)`); anything else ⇒ `UnknownRequiredFeature` -/
inductive VariantClass | struct | tuple | skipped | rejected
  deriving DecidableEq, Repr

def classifyVariant (upgradable : Bool) (structIds tupleIds : List Nat) (id : Nat) : VariantClass :=
  if structIds.contains id then .struct
  else if tupleIds.contains id then .tuple
  else if upgradable && id % 2 == 1 then .skipped
  else .rejected

/-- writer/reader pairing: the types the writer may emit that the reader does not declare -/
def unknownToReader (w r : FrameSchema) : List Nat := w.types.filter fun t => !r.types.contains t

/-! ## field-level pairing of hand-written writers and readers

  A row of `Generated/TlvFieldPairs.lean`: (write block, read block, TLV type, writer key, reader key) — the struct
  field the writer takes the value of that TLV type from, and the struct field the paired reader initialises from
  the record of that type (`.field a.b`), as far as the translator's syntactic analysis can follow them; `.name x` when
  one side is a computed local and the names (the only thing left to compare) are equal; `.loc` (computed local) /
  `.const` / `.expr` / `.multi` otherwise. -/
inductive KeyKind | field | name | loc | const | expr | multi
  deriving DecidableEq, Repr

abbrev FieldKey := KeyKind × String

/-- (index of the pair in `tlvPairs`, write block, read block, TLV type, writer key, reader key) -/
abbrev FieldRow := Nat × String × String × Nat × FieldKey × FieldKey

def FieldRow.pairIdx (r : FieldRow) : Nat := r.1
def FieldRow.wblock (r : FieldRow) : String := r.2.1
def FieldRow.rblock (r : FieldRow) : String := r.2.2.1
def FieldRow.typ (r : FieldRow) : Nat := r.2.2.2.1
def FieldRow.wkey (r : FieldRow) : FieldKey := r.2.2.2.2.1
def FieldRow.rkey (r : FieldRow) : FieldKey := r.2.2.2.2.2

/-- a pinned disagreement: (write block, TLV type, writer key, reader key) -/
abbrev FieldPin := String × Nat × FieldKey × FieldKey

def FieldRow.pin (r : FieldRow) : FieldPin := (r.wblock, r.typ, r.wkey, r.rkey)

/-- both sides resolved to a struct field path -/
def FieldRow.bothFields (r : FieldRow) : Bool := r.wkey.1 == .field && r.rkey.1 == .field

/-- writer and reader name the same field for this TLV type, or the disagreement is one of the pinned ones -/
def FieldRow.agrees (pins : List FieldPin) (r : FieldRow) : Bool := r.wkey == r.rkey || pins.contains r.pin

/-- the rows whose two keys differ -/
def fieldMismatches (rows : List FieldRow) : List FieldPin :=
  rows.filterMap fun r => if r.wkey == r.rkey then none else some r.pin

/-- the struct field paths a write block puts under more than one TLV type (each reported once per extra use),
    except the pinned (block, path) pairs -/
def writtenTwice (allowed : List (String × String)) (blocks : List (String × List (Nat × String))) : List (String × String) :=
  blocks.flatMap fun b =>
    let paths := (b.2.map (·.2)).filter fun p => !allowed.contains (b.1, p)
    ((List.range paths.length).filterMap fun i =>
      match paths[i]? with
      | some p => if (paths.take i).contains p then some (b.1, p) else none
      | none => none)

/-! ## hand-written enum byte codecs (the positional, non-TLV parts)

  A row of `Generated/EnumCodecs.lean`: (codec, [(variant, byte written)], [(byte, variant read)]) — e.g.
  `impl Writeable / Readable for ChannelUpdateStatus`, or the inline `match &htlc.state { … => 1u8.write(w)? … }` of
  `FundedChannel::write` with the `match <u8 as Readable>::read(r)? { 1 => InboundHTLCState::… }` of `::read`. -/
abbrev EnumCodec := String × List (String × Nat) × List (Nat × String)

def EnumCodec.name (c : EnumCodec) : String := c.1
def EnumCodec.writes (c : EnumCodec) : List (String × Nat) := c.2.1
def EnumCodec.reads (c : EnumCodec) : List (Nat × String) := c.2.2

/-- mirrors the read side: the variant a byte is read back as (`none`: the reader rejects the byte) -/
def EnumCodec.readByte (c : EnumCodec) (b : Nat) : Option String := c.reads.lookup b

/-- mirrors the write side -/
def EnumCodec.writeVariant (c : EnumCodec) (v : String) : Option Nat := c.writes.lookup v

/-- the DOCUMENTED lossy normalisation of a codec: (codec, variant, variant it is read back as); identity for every
    variant not listed; `"!"` = the variant is written but its byte is not readable -/
abbrev EnumCanon := List (String × String × String)

def canonOf (canon : EnumCanon) (codec v : String) : String :=
  match canon.find? (fun e => e.1 == codec && e.2.1 == v) with
  | some e => e.2.2
  | none => v

/-- read (write v) for every variant of every codec: (codec, variant, what it reads back as, `"!"` if rejected) -/
def codecRoundtrips (cs : List EnumCodec) : List (String × String × String) :=
  cs.flatMap fun c => c.writes.map fun w => (c.name, w.1, (c.readByte w.2).getD "!")

/-- the variants that do NOT read back as themselves -/
def codecLossy (cs : List EnumCodec) : EnumCanon := (codecRoundtrips cs).filter fun t => t.2.1 != t.2.2

/-- bytes a reader accepts that its writer never emits (legacy encodings): (codec, byte, variant) -/
def codecReadOnly (cs : List EnumCodec) : List (String × Nat × String) :=
  cs.flatMap fun c => (c.reads.filter fun r => !(c.writes.any fun w => w.2 == r.1)).map fun r => (c.name, r.1, r.2)

/-! ## positional (non-TLV) prefixes of the three big hand-written serializers

  A step of `Generated/Positional.lean` (tools/gen_positional.py): one TOP-LEVEL statement of `write` / `read` that touches the
  stream, in source order: (kind `ver` | `val` | `blk` | `tlv`, canonical name, type as far as the statement states it, number of
  syntactic stream accesses inside). -/
abbrev PosStep := String × String × String × Nat

def PosStep.kind (s : PosStep) : String := s.1
def PosStep.name (s : PosStep) : String := s.2.1
def PosStep.ty (s : PosStep) : String := s.2.2.1
def PosStep.accesses (s : PosStep) : Nat := s.2.2.2

/-- `(start, count)`: the `count` consecutive steps from `start` on are ONE step on the other side (e.g. `txid` + `index` written
    separately, read as one `OutPoint` block): merged into a `blk` named after the first, accesses summed.  Directives are applied
    in the order given and must be listed from the highest `start` down (indices refer to the original list). -/
def mergeSteps (steps : List PosStep) (merges : List (Nat × Nat)) : List PosStep :=
  merges.foldl (fun st m =>
    match st.drop m.1 with
    | [] => st
    | f :: _ => st.take m.1 ++ [("blk", f.name, "", ((st.drop m.1).take m.2).foldl (fun a x => a + x.accesses) 0)] ++ st.drop (m.1 + m.2)) steps

/-- position-by-position comparison of the write steps and the read steps: the positions whose canonical names differ
    (position, written name, read name) -/
def posNameMismatches (ws rs : List PosStep) : List (Nat × String × String) :=
  ((List.zip ws rs).zipIdx.filterMap fun p => if p.1.1.name == p.1.2.name then none else some (p.2, p.1.1.name, p.1.2.name))

/-- … and the positions on which BOTH sides state a type and the types differ -/
def posTypeMismatches (ws rs : List PosStep) : List (Nat × String × String) :=
  ((List.zip ws rs).zipIdx.filterMap fun p =>
    if p.1.1.ty == "" || p.1.2.ty == "" || p.1.1.ty == p.1.2.ty then none else some (p.2, p.1.1.ty, p.1.2.ty))

/-- the compound steps: (position, written name, accesses inside on the write side, on the read side) -/
def posBlocks (ws rs : List PosStep) : List (Nat × String × Nat × Nat) :=
  ((List.zip ws rs).zipIdx.filterMap fun p =>
    if p.1.1.kind == "blk" || p.1.2.kind == "blk" then some (p.2, p.1.1.name, p.1.1.accesses, p.1.2.accesses) else none)

/-- both sequences start with the version prefix, end with the TLV block, and have the same number of steps -/
def posFramed (ws rs : List PosStep) : Bool :=
  ws.length == rs.length && (ws.head?.map PosStep.kind) == some "ver" && (rs.head?.map PosStep.kind) == some "ver" &&
  (ws.getLast?.map PosStep.kind) == some "tlv" && (rs.getLast?.map PosStep.kind) == some "tlv" &&
  ((ws.zip rs).all fun p => (p.1.kind == "ver") == (p.2.kind == "ver") && (p.1.kind == "tlv") == (p.2.kind == "tlv"))

end Ldk.TlvFrame
