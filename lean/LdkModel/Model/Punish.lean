/- What a ChannelMonitor remembers about every counterparty commitment, and what it claims when a
   REVOKED one confirms (C06).  Mirrors, in lightning/src/chain/channelmonitor.rs:
     provide_latest_counterparty_commitment_tx, provide_secret (what is pruned),
     check_spend_counterparty_transaction (revoked branch), check_spend_counterparty_htlc,
   with the secret store of Model/Secrets.lean (CounterpartyCommitmentSecrets).

   Abstractions: a commitment transaction is its list of outputs `(sat, kind)`; the `to_local`
   script (P2WSH of get_revokeable_redeemscript over keys derived from the per-commitment point)
   is represented by the per-commitment SECRET it is keyed by, so "script equality" in the monitor
   is equality of the secret the monitor derives with the one the cheater used; a commitment's txid
   is its commitment number (the code recovers the number from locktime/sequence and looks the
   HTLC data up by txid).  Key derivation, script and witness construction and the
   OnchainTxHandler package bookkeeping are NOT modelled (validated by the c06justice run).
   No Mathlib. -/
import LdkModel.Model.Secrets
namespace Ldk.Punish
open Ldk.Secrets

/-- `HTLCOutputInCommitment` as far as punishment needs it -/
structure Htlc where
  amtMsat : Nat
  offered : Bool
  cltv : Nat
  /-- `transaction_output_index` (`none` for dust HTLCs) -/
  outIdx : Option Nat
  deriving DecidableEq, Repr, Inhabited

/-- `HTLCOutputInCommitment::to_bitcoin_amount` -/
def Htlc.sat (h : Htlc) : Nat := h.amtMsat / 1000

/-- output kinds of a counterparty commitment, from the victim's point of view:
    `toLocal` = the broadcaster's (cheater's) revocable balance, `toRemote` = the victim's own -/
inductive OutKind where
  | toLocal | htlc | toRemote | anchor
  deriving DecidableEq, Repr, Inhabited

/-- scriptPubKey classes the monitor distinguishes; `revokeable sec` is keyed by the per-commitment
    secret `sec` of the commitment the output belongs to -/
inductive Spk (S : Type) where
  | revokeable (sec : S)
  | htlc | toRemote | anchor
  deriving DecidableEq, Repr

structure TxOut (S : Type) where
  sat : Nat
  spk : Spk S
  deriving DecidableEq, Repr

/-- one counterparty commitment of the history, before numbering: its outputs (in transaction
    order) and the HTLC list handed to the monitor with it (dust HTLCs included, `outIdx = none`) -/
structure Body where
  outputs : List (Nat × OutKind)
  htlcs : List Htlc
  deriving DecidableEq, Repr, Inhabited

/-- the transaction the cheater holds for `b` when it is commitment number `n` of a channel whose
    per-commitment secrets are `sec` -/
def Body.tx {S : Type} (b : Body) (sec : S) : List (TxOut S) :=
  b.outputs.map fun (sat, k) =>
    { sat := sat, spk := match k with
        | .toLocal => .revokeable sec | .htlc => .htlc | .toRemote => .toRemote | .anchor => .anchor }


/-! ### commitments as the channel builds them

    The monitor never looks at how the outputs of a commitment are ordered: it follows the output
    indices stored with the HTLC list.  `Spec` is a commitment before layout; `Spec.body` lays it out
    (victim's `to_remote`, anchors, one output per non-dust HTLC, the broadcaster's `to_local`) and
    assigns the indices the way the tx builder does — to every non-dust HTLC the index of ITS output,
    to dust HTLCs none.  (The real order is BIP-69; any order with consistent indices is equivalent
    for the monitor — `Body.WF` is exactly that consistency, re-checked on every real commitment by
    the c06justice harness.) -/

/-- a body whose HTLC list and outputs agree: every HTLC carrying an output index points at an
    `htlc` output of its own value, and every `htlc` output is pointed at by a listed HTLC -/
def Body.WF (b : Body) : Prop :=
  (∀ h ∈ b.htlcs, ∀ i, h.outIdx = some i → b.outputs[i]? = some (h.sat, .htlc)) ∧
  (∀ i sat, b.outputs[i]? = some (sat, .htlc) → ∃ h ∈ b.htlcs, h.outIdx = some i)

structure HtlcSpec where
  amtMsat : Nat
  offered : Bool
  cltv : Nat
  /-- above the broadcaster's dust limit (has an output) -/
  nondust : Bool
  deriving DecidableEq, Repr, Inhabited

structure Spec where
  /-- the broadcaster's (cheater's) revocable balance, if above dust -/
  toLocalSat : Option Nat
  /-- the victim's balance, if above dust -/
  toRemoteSat : Option Nat
  /-- anchor channel: two anchor outputs -/
  anchors : Bool
  htlcs : List HtlcSpec
  deriving DecidableEq, Repr, Inhabited

/-- the HTLC list handed to the monitor: non-dust HTLCs get consecutive output indices from `base` -/
def assignIdx : Nat → List HtlcSpec → List Htlc
  | _, [] => []
  | base, h :: rest =>
    if h.nondust then ⟨h.amtMsat, h.offered, h.cltv, some base⟩ :: assignIdx (base + 1) rest
    else ⟨h.amtMsat, h.offered, h.cltv, none⟩ :: assignIdx base rest

/-- one output per non-dust HTLC, in list order -/
def htlcOuts : List HtlcSpec → List (Nat × OutKind)
  | [] => []
  | h :: rest => if h.nondust then (h.amtMsat / 1000, .htlc) :: htlcOuts rest else htlcOuts rest

def Spec.pre (s : Spec) : List (Nat × OutKind) :=
  (match s.toRemoteSat with | some v => [(v, .toRemote)] | none => []) ++
  (if s.anchors then [(330, .anchor), (330, .anchor)] else [])

def Spec.post (s : Spec) : List (Nat × OutKind) :=
  match s.toLocalSat with | some v => [(v, .toLocal)] | none => []

def Spec.body (s : Spec) : Body :=
  { outputs := s.pre ++ (htlcOuts s.htlcs ++ s.post), htlcs := assignIdx s.pre.length s.htlcs }

variable {S : Type}

/-- `counterparty_claimable_outpoints: HashMap<Txid, Vec<(HTLCOutputInCommitment, Option<Box<HTLCSource>>)>>`
    keyed by commitment number; the `Bool` is "source still present" -/
abbrev Claimable := List (Nat × List (Htlc × Bool))

def Claimable.get (m : Claimable) (k : Nat) : Option (List (Htlc × Bool)) := m.lookup k
/-- `HashMap::insert` (replaces) -/
def Claimable.insert (m : Claimable) (k : Nat) (v : List (Htlc × Bool)) : Claimable :=
  (k, v) :: m.filter (fun e => e.1 != k)
/-- `for (_, source_opt) in map.get_mut(&txid).unwrap() { *source_opt = None }` -/
def Claimable.pruneSources (m : Claimable) (k : Nat) : Claimable :=
  m.map fun e => if e.1 == k then (e.1, e.2.map fun hs => (hs.1, false)) else e

/-- the punishment-relevant part of `ChannelMonitorImpl` -/
structure Mon (S : Type) where
  /-- `commitment_secrets` -/
  store : Store S
  /-- `funding.counterparty_claimable_outpoints` -/
  claimable : Claimable
  /-- `funding.current_counterparty_commitment_txid` -/
  cur : Option Nat
  /-- `funding.prev_counterparty_commitment_txid` -/
  prev : Option Nat

def Mon.new (P : Params S) : Mon S := { store := Store.new P, claimable := [], cur := none, prev := none }

-- mirrors lightning::chain::channelmonitor::ChannelMonitorImpl::provide_latest_counterparty_commitment_tx
def provideCommitment (m : Mon S) (n : Nat) (htlcs : List Htlc) : Mon S :=
  { m with prev := m.cur, cur := some n, claimable := m.claimable.insert n (htlcs.map fun h => (h, true)) }

-- mirrors lightning::chain::channelmonitor::ChannelMonitorImpl::provide_secret
/-- `none` = `Err("Previous secret did not match new one")` (monitor untouched).  Pruning touches
    ONLY the `Option<HTLCSource>` halves of the previous commitment's entry (and preimages, not
    modelled); the `HTLCOutputInCommitment`s stay. -/
def provideSecret [DecidableEq S] (P : Params S) (m : Mon S) (idx : Nat) (secret : S) : Option (Mon S) :=
  match Secrets.provideSecret P m.store idx secret with
  | none => none
  | some st =>
    match m.prev with
    | none => some { m with store := st }
    | some p =>
      if m.cur != some p then some { m with store := st, prev := none, claimable := m.claimable.pruneSources p }
      else some { m with store := st, prev := none }

/-- an outpoint the victim claims: an output of the revoked commitment, or output `vout` of the
    `k`-th confirmed second-stage (HTLC-success or HTLC-timeout) transaction of the cheater -/
inductive Outpoint where
  | commit (vout : Nat)
  | second (k : Nat) (vout : Nat)
  deriving DecidableEq, Repr

/-- the `RevokedHTLCOutput` packages of check_spend_counterparty_transaction: one per stored HTLC
    with an output index; a stored index/value that does not match the transaction aborts the loop
    ("per_commitment_data is corrupt or our commitment signing key leaked") keeping what was pushed -/
def htlcClaims (tx : List (TxOut S)) : List Htlc → List Outpoint
  | [] => []
  | h :: rest =>
    match h.outIdx with
    | none => htlcClaims tx rest
    | some i =>
      match tx[i]? with
      | none => []
      | some o => if o.sat = h.sat then .commit i :: htlcClaims tx rest else []

/-- outputs whose script is the revokeable P2WSH derived from `sec` (`RevokedOutput` packages) -/
def toLocalClaims [DecidableEq S] (sec : S) (tx : List (TxOut S)) : List Outpoint :=
  ((List.range tx.length).filter fun i => (tx[i]?.map (·.spk)) == some (.revokeable sec)).map .commit

-- mirrors lightning::chain::channelmonitor::ChannelMonitorImpl::check_spend_counterparty_transaction
/-- claims generated when the transaction `tx` with commitment number `n` confirms; `[]` when `n`
    is not revoked (the non-revoked branch belongs to C07).  The code `unwrap()`s `get_secret`,
    i.e. would panic where this returns `[]` on `none` — `revoked_secret_available` shows that
    never happens on a channel history. -/
def onConfirmRevoked [DecidableEq S] (P : Params S) (m : Mon S) (n : Nat) (tx : List (TxOut S)) : List Outpoint :=
  if getMinSeenSecret P m.store ≤ n then
    match getSecret P m.store n with
    | none => []
    | some sec =>
      toLocalClaims sec tx ++
        (match m.claimable.get n with
         | none => []
         | some data => htlcClaims tx (data.map (·.1)))   -- `for (htlc, _) in per_commitment_claimable_data`
  else []

-- mirrors lightning::chain::channelmonitor::ChannelMonitorImpl::check_spend_counterparty_htlc
/-- a confirmed second-stage transaction is the list of commitment outputs its inputs spend (each
    with a 5-element witness); the justice claim takes the output at the SAME index as the input -/
def secondStageClaims (k : Nat) (spends : List Nat) : List Outpoint :=
  (List.range spends.length).map (.second k)

/-- all second-stage transactions, numbered from `k` -/
def allSecondClaims : Nat → List (List Nat) → List Outpoint
  | _, [] => []
  | k, t :: rest => secondStageClaims k t ++ allSecondClaims (k + 1) rest

/-- a commitment output not spent by any confirmed second-stage transaction -/
def notSpent (second : List (List Nat)) : Outpoint → Bool
  | .commit v => !(second.any fun t => t.contains v)
  | _ => true

/-- `onConfirmRevoked n confirmedSecondStage`: commitment outputs still to be claimed (those spent
    by a confirmed second-stage transaction are dropped from their package by the
    OnchainTxHandler) plus the second-stage outputs claimed instead -/
def punish [DecidableEq S] (P : Params S) (m : Mon S) (n : Nat) (tx : List (TxOut S))
    (second : List (List Nat)) : List Outpoint :=
  match getSecret P m.store n with
  | none => []      -- check_spend_counterparty_htlc: `get_secret(commitment_number)` is `None` ⇒ nothing
  | some _ => (onConfirmRevoked P m n tx).filter (notSpent second) ++ allSecondClaims 0 second

/-! ### channel histories -/

/-- monitor-visible events of the channel, in order -/
inductive Op (S : Type) where
  | commit (n : Nat) (htlcs : List Htlc)
  | secret (n : Nat) (s : S)

def step [DecidableEq S] (P : Params S) (m : Mon S) : Op S → Mon S
  | .commit n htlcs => provideCommitment m n htlcs
  | .secret n s => (provideSecret P m n s).getD m

def run [DecidableEq S] (P : Params S) (m : Mon S) (ops : List (Op S)) : Mon S := ops.foldl (step P) m

/-- the sender's (BOLT-3) secret of commitment number `i` (= `Ldk.C05.secretFor`) -/
def secretOf (P : Params S) (seed : S) (i : Nat) : S := buildCommitmentSecret P seed i

/-- commitment number of the `i`-th commitment of a channel (numbers count DOWN from `2^B − 1`) -/
def numberOf (P : Params S) (i : Nat) : Nat := 2 ^ P.B - 1 - i

/-- events after the first commitment: each new commitment `i` is followed by the revocation of
    commitment `i − 1` (`commitment_signed` … `revoke_and_ack`) -/
def opsFrom (P : Params S) (seed : S) : Nat → List Body → List (Op S)
  | _, [] => []
  | i, b :: rest =>
    .commit (numberOf P i) b.htlcs :: .secret (numberOf P (i - 1)) (secretOf P seed (numberOf P (i - 1))) ::
      opsFrom P seed (i + 1) rest

/-- the whole history: initial commitment, then `opsFrom`.  After it, commitments `0 … len−2` are
    revoked and `len−1` is the current one. -/
def chanOps (P : Params S) (seed : S) : List Body → List (Op S)
  | [] => []
  | b :: rest => .commit (numberOf P 0) b.htlcs :: opsFrom P seed 1 rest

/-- monitor state after the history `bodies`, optionally followed by one more commitment `pending`
    whose predecessor is not yet revoked (two unrevoked commitments exist) -/
def monitorAfter [DecidableEq S] (P : Params S) (seed : S) (bodies : List Body) (pending : Option Body) : Mon S :=
  let m := run P (Mon.new P) (chanOps P seed bodies)
  match pending with
  | none => m
  | some b => provideCommitment m (numberOf P bodies.length) b.htlcs

/-! ### second-stage transactions with other inputs (anchor channels: fee inputs anywhere, several HTLC inputs)

    `check_spend_counterparty_htlc` looks at EVERY input: input `i` that spends the commitment with a 5-element witness makes
    output `i` a justice claim.  A second-stage transaction is given input by input: `some v` = such an input spending
    commitment output `v`, `none` = any other input. -/

def secondStageClaimsAt (k : Nat) (inputs : List (Option Nat)) : List Outpoint :=
  ((List.range inputs.length).filter fun i => match inputs[i]? with | some (some _) => true | _ => false).map (.second k)

/-- all second-stage transactions, numbered from `k` -/
def allSecondClaimsAt : Nat → List (List (Option Nat)) → List Outpoint
  | _, [] => []
  | k, t :: rest => secondStageClaimsAt k t ++ allSecondClaimsAt (k + 1) rest

end Ldk.Punish
