/- channel_reestablish's retransmission decisions over the GENERATED comparisons (Generated/Reestablish.lean, tools/gen_reest.py).
   The peer's message carries next_local_commitment_number = peerCsRecv + 1 and next_remote_commitment_number = peerRaaRecv;
   INITIAL_COMMITMENT_NUMBER - counterparty_next_commitment_transaction_number = raaRecv + 1. No Mathlib. -/
import LdkModel.Model.Channel
import LdkModel.Generated.Reestablish
namespace Ldk.Chan

def Node.reestablishG (n : Node) (peerCsRecv peerRaaRecv : Nat) : Option (Node × List Msg) :=
  if !n.paused then none else
  match Reest.requiredRevoke peerRaaRecv n.csRecv,
        Reest.commitmentDecision (peerCsRecv + 1) (Reest.nextCounterpartyCommitmentNumber (n.raaRecv + 1) n.awaitingRaa) with
  | some rr, some resend =>
    some ({ n with paused := false, raaSent := peerRaaRecv, owesRaa := if rr then 1 else 0 }, if resend then n.lastBatch else [])
  | _, _ => none

end Ldk.Chan
