/- Persistence of one party's channel state (C01, seeded change C01-r5): what `impl Writeable for FundedChannel`
   writes and `ReadableArgs` reads back, on the node of the two-party protocol model (Model/Channel.lean).
   The per-state decisions (which inbound HTLC is written, which state an outbound HTLC / a fee update comes back in,
   the rewind of `next_counterparty_htlc_id`) are the GENERATED tables of Generated/ChanWriter.lean
   (tools/gen_chanwriter.py); this file only applies them to the node.  No Mathlib. -/
import LdkModel.Model.Channel
import LdkModel.Generated.ChanWriter
namespace Ldk.Chan

/-- the codes Generated/ChanWriter.lean uses for FeeUpdateState -/
def FeeState.code : FeeState → Nat
  | .remoteAnnounced => 0 | .awaitingRemoteRevokeToAnnounce => 1 | .outbound => 2
def FeeState.ofCode : Nat → FeeState
  | 0 => .remoteAnnounced | 1 => .awaitingRemoteRevokeToAnnounce | _ => .outbound

/-- `pending_update_fee` after write + read: the writer keeps or drops the feerate (`Writer.feeWritten`), the reader
    derives the state from the funding side alone (`Writer.feeReadState`) -/
def feeReadBack (isFunder : Bool) : Option (Nat × FeeState) → Option (Nat × FeeState)
  | none => none
  | some (f, st) => if Writer.feeWritten isFunder st.code then some (f, FeeState.ofCode (Writer.feeReadState isFunder)) else none

/-- mirrors `impl Writeable for FundedChannel` followed by `ReadableArgs`: the node as it comes back from disk.
    The written channel_state has PEER_DISCONNECTED set; counters, balances, AwaitingRemoteRevoke and the revocation owed
    are written as they are. -/
def Node.written (n : Node) : Node :=
  { n with inb := n.inb.filter (fun h => Writer.inWritten h.st),
           nextInId := Writer.nextCounterpartyHtlcIdWritten n.nextInId (n.inb.filter (fun h => Writer.inCountedAsDropped h.st)).length,
           outb := n.outb.map (fun (h : OutHtlc) => { h with st := Writer.outReadBack h.st }),
           pendingFee := feeReadBack n.isFunder n.pendingFee,
           paused := true }

/-- events of a run in which nodes may also crash and come back from what they persisted -/
inductive EvR where
  | ev (e : Ev)
  /-- node x (true = a) is persisted NOW, crashes and is reloaded from exactly that; the peer sees a disconnection;
      everything on the wire is lost -/
  | restart (x : Bool)
  deriving Repr, Inhabited

def stepR (s : Sys) : EvR → Option Sys
  | .ev e => step s e
  | .restart true => some { s with a := s.a.written, b := s.b.pause, qab := [], qba := [] }
  | .restart false => some { s with a := s.a.pause, b := s.b.written, qab := [], qba := [] }

def runR (s : Sys) : List EvR → Option Sys
  | [] => some s
  | e :: es => match stepR s e with
    | none => none
    | some s' => runR s' es

/-- forget the difference between a crash and a plain disconnection -/
def EvR.erase : EvR → Ev
  | .ev e => e
  | .restart _ => .disconnect

/-- nothing of the peer's uncommitted updates is left: no RemoteAnnounced inbound HTLC, no RemoteRemoved outbound HTLC,
    no RemoteAnnounced fee update (what a disconnected node looks like) -/
def Node.noUncommitted (n : Node) : Bool :=
  n.inb.all (fun h => h.st != .remoteAnnounced) &&
  n.outb.all (fun h => match h.st with | .remoteRemoved _ => false | _ => true) &&
  (match n.pendingFee with | some (_, .remoteAnnounced) => false | _ => true)

end Ldk.Chan
