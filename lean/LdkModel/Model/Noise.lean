/- BOLT-8 handshake (Noise_XK) as implemented by lightning/src/ln/peer_channel_encryptor.rs, over an
   ABSTRACT crypto structure.  Theorems (Props/C15.lean) never unfold the primitives: they hold for
   every `Crypto` that satisfies the stated hypotheses (`CryptoOK`).  The driver instantiates the
   structure with the executable SHA-256 / HKDF / ChaCha20-Poly1305 of `Prim/` and passes the ECDH
   outputs in from the op line (ECDH is trusted): that is why every act function takes the shared
   secret as a FUNCTION ARGUMENT `ssOf` / `ss` and the composed handshake (`runHandshake`) plugs
   `c.ecdh` in.
   No Mathlib. -/
namespace Ldk.Noise

abbrev Bytes := List UInt8

/-- the primitives the transport uses.  `aeadSeal key nonceCounter ad plaintext` returns
    ciphertext ‖ 16-byte tag (`encrypt_with_ad`: 12-byte nonce = 4 zero bytes ‖ LE64 counter),
    `aeadOpen` its inverse (`decrypt_with_ad`, `None` = "Bad MAC"); `hkdf2 salt ikm` is
    `crypto::utils::hkdf_extract_expand_twice`; `hash` is SHA-256; `ecdh sk pk` is
    `SharedSecret::new(pk, sk)` / `NodeSigner::ecdh`; `pubOf sk` the 33-byte compressed public key;
    `validPub` is `PublicKey::from_slice(..).is_ok()` on a 33-byte string. -/
structure Crypto where
  aeadSeal : Bytes → Nat → Bytes → Bytes → Bytes
  aeadOpen : Bytes → Nat → Bytes → Bytes → Option Bytes
  hkdf2 : Bytes → Bytes → Bytes × Bytes
  hash : Bytes → Bytes
  ecdh : Bytes → Bytes → Bytes
  pubOf : Bytes → Bytes
  validPub : Bytes → Bool

/-- `BidirectionalNoiseState` -/
structure HS where
  h : Bytes
  ck : Bytes
  deriving Repr, DecidableEq

/-- `NoiseState::Finished` -/
structure Keys where
  sk : Bytes
  sn : Nat
  sck : Bytes
  rk : Bytes
  rn : Nat
  rck : Bytes
  deriving Repr, DecidableEq

/-- Sha256("Noise_XK_secp256k1_ChaChaPoly_SHA256") — mirrors NOISE_CK -/
def NOISE_CK : Bytes := [
  0x26, 0x40, 0xf5, 0x2e, 0xeb, 0xcd, 0x9e, 0x88, 0x29, 0x58, 0x95, 0x1c, 0x79, 0x42, 0x50, 0xee,
  0xdb, 0x28, 0x00, 0x2c, 0x05, 0xd7, 0xdc, 0x2e, 0xa0, 0xf1, 0x95, 0x40, 0x60, 0x42, 0xca, 0xf1]
/-- Sha256(NOISE_CK || "lightning") — mirrors NOISE_H -/
def NOISE_H : Bytes := [
  0xd1, 0xfb, 0xf6, 0xde, 0xe4, 0xf6, 0x86, 0xf1, 0x32, 0xfd, 0x70, 0x2c, 0x4a, 0xbf, 0x8f, 0xba,
  0x4b, 0xb4, 0x20, 0xd8, 0x9d, 0x2a, 0x04, 0x8a, 0x3c, 0x4f, 0x4c, 0x09, 0x2e, 0x37, 0xb6, 0x76]

variable (c : Crypto)

/-- mirrors PeerChannelEncryptor::new_outbound / new_inbound: `h = SHA256(NOISE_H ‖ responder's
    static public key)`, `ck = NOISE_CK` -/
def initHS (responderStaticPub : Bytes) : HS :=
  { h := c.hash (NOISE_H ++ responderStaticPub), ck := NOISE_CK }

/-- mirrors PeerChannelEncryptor::hkdf: `(ck', temp_k) = hkdf(ck, ss)` -/
def mixKey (st : HS) (ss : Bytes) : HS × Bytes :=
  let (t1, t2) := c.hkdf2 st.ck ss
  ({ st with ck := t1 }, t2)

/-- mirrors PeerChannelEncryptor::outbound_noise_act: version byte 0 ‖ our 33-byte ephemeral
    public key ‖ 16-byte tag of the empty plaintext under `temp_k`, nonce 0, ad = h.
    Returns (act, state, temp_k). -/
def outboundAct (st : HS) (ourPub : Bytes) (ss : Bytes) : Bytes × HS × Bytes :=
  let h1 := c.hash (st.h ++ ourPub)
  let (st1, tempK) := mixKey c { st with h := h1 } ss
  let tag := c.aeadSeal tempK 0 h1 []
  ((0 : UInt8) :: ourPub ++ tag, { st1 with h := c.hash (h1 ++ tag) }, tempK)

/-- mirrors PeerChannelEncryptor::inbound_noise_act (`None` = any `Err(DisconnectPeer)`).
    `ssOf theirPub` is the ECDH of our secret with the public key found in the act.
    Returns (their_pub, state, temp_k). -/
def inboundAct (st : HS) (act : Bytes) (ssOf : Bytes → Bytes) : Option (Bytes × HS × Bytes) :=
  if act.length ≠ 50 then none            -- `assert_eq!(act.len(), 50)`; the caller always passes 50
  else if act.head? ≠ some 0 then none    -- "Unknown handshake version number"
  else
    let theirPub := (act.drop 1).take 33
    if !c.validPub theirPub then none     -- "Invalid public key"
    else
      let h1 := c.hash (st.h ++ theirPub)
      let (st1, tempK) := mixKey c { st with h := h1 } (ssOf theirPub)
      let tag := act.drop 34
      match c.aeadOpen tempK 0 h1 tag with
      | none => none                       -- "Bad MAC"
      | some _ => some (theirPub, { st1 with h := c.hash (h1 ++ tag) }, tempK)

/-- initiator state after act one -/
structure InitiatorPostOne where
  st : HS
  deriving Repr

/-- mirrors PeerChannelEncryptor::get_act_one (initiator): `ss = ecdh(ie, responder static)` -/
def getActOne (responderStaticPub iePub ss : Bytes) : Bytes × HS :=
  let (act, st, _) := outboundAct c (initHS c responderStaticPub) iePub ss
  (act, st)

/-- responder state after act two (`DirectionalNoiseState::Inbound` filled in) -/
structure ResponderPostTwo where
  st : HS
  ie : Bytes
  tempK2 : Bytes
  deriving Repr

/-- mirrors PeerChannelEncryptor::process_act_one_with_keys (responder):
    `ssOf1 iePub = ecdh(responder static secret, ie)`, `ssOf2 iePub = ecdh(re secret, ie)`.
    Returns (act two, state). -/
def processActOne (ourStaticPub : Bytes) (actOne : Bytes) (rePub : Bytes)
    (ssOf1 ssOf2 : Bytes → Bytes) : Option (Bytes × ResponderPostTwo) :=
  match inboundAct c (initHS c ourStaticPub) actOne ssOf1 with
  | none => none
  | some (ie, st, _) =>
    let (act, st2, tempK) := outboundAct c st rePub (ssOf2 ie)
    some (act, { st := st2, ie := ie, tempK2 := tempK })

/-- mirrors PeerChannelEncryptor::process_act_two (initiator): `ssOfE rePub = ecdh(ie secret, re)`,
    `ssOfS rePub = NodeSigner::ecdh(our static secret, re)`.  Returns (act three, Finished keys). -/
def processActTwo (st : HS) (actTwo : Bytes) (ourStaticPub : Bytes)
    (ssOfE ssOfS : Bytes → Bytes) : Option (Bytes × Keys) :=
  match inboundAct c st actTwo ssOfE with
  | none => none
  | some (re, st1, tempK2) =>
    let c1 := c.aeadSeal tempK2 1 st1.h ourStaticPub
    let h2 := c.hash (st1.h ++ c1)
    let (st2, tempK) := mixKey c { st1 with h := h2 } (ssOfS re)
    let t := c.aeadSeal tempK 0 h2 []
    let (sk, rk) := c.hkdf2 st2.ck []
    some ((0 : UInt8) :: c1 ++ t, { sk := sk, sn := 0, sck := st2.ck, rk := rk, rn := 0, rck := st2.ck })

/-- mirrors PeerChannelEncryptor::process_act_three (responder):
    `ssOf theirStaticPub = ecdh(re secret, initiator static)`.  Returns (their node id, keys). -/
def processActThree (r : ResponderPostTwo) (actThree : Bytes) (ssOf : Bytes → Bytes) :
    Option (Bytes × Keys) :=
  if actThree.length ≠ 66 then none          -- `assert_eq!(act_three.len(), 66)`
  else if actThree.head? ≠ some 0 then none  -- "Unknown handshake version number"
  else
    let c1 := (actThree.drop 1).take 49
    match c.aeadOpen r.tempK2 1 r.st.h c1 with
    | none => none                            -- "Bad MAC"
    | some theirNodeId =>
      if !c.validPub theirNodeId then none    -- "Bad node_id from peer"
      else
        let h2 := c.hash (r.st.h ++ c1)
        let (st2, tempK) := mixKey c { r.st with h := h2 } (ssOf theirNodeId)
        match c.aeadOpen tempK 0 h2 (actThree.drop 50) with
        | none => none                        -- "Bad MAC"
        | some _ =>
          let (rk, sk) := c.hkdf2 st2.ck []
          some (theirNodeId, { sk := sk, sn := 0, sck := st2.ck, rk := rk, rn := 0, rck := st2.ck })

/-- The whole handshake between an initiator (static secret `sI`, ephemeral `eI`, who knows the
    responder's static public key) and a responder (static `sR`, ephemeral `eR`), every ECDH
    computed by `c.ecdh`.  Returns (initiator keys, node id learnt by the responder, responder keys). -/
def runHandshake (sI eI sR eR : Bytes) : Option (Keys × Bytes × Keys) :=
  let (act1, stI) := getActOne c (c.pubOf sR) (c.pubOf eI) (c.ecdh eI (c.pubOf sR))
  match processActOne c (c.pubOf sR) act1 (c.pubOf eR) (c.ecdh sR) (c.ecdh eR) with
  | none => none
  | some (act2, rp) =>
    match processActTwo c stI act2 (c.pubOf sI) (c.ecdh eI) (c.ecdh sI) with
    | none => none
    | some (act3, kI) =>
      match processActThree c rp act3 (c.ecdh eR) with
      | none => none
      | some (idI, kR) => some (kI, idI, kR)

end Ldk.Noise
