import LdkModel.Generated.OnionFwdInfo
/- C14: route blinding across the forwarding hops of a blinded tail, incl. CONCATENATED blinded paths (a hop whose
   encrypted recipient data carry `next_blinding_override`, BOLT 4 `next_path_key_override`, TLV 8).
   The per-hop decision functions (`fwdBlinded` = create_fwd_pending_htlc_info's `blinded:` field, `nextBlindingPoint` =
   channelmanager's outgoing `blinding_point`) are GENERATED (Generated/OnionFwdInfo.lean); this file only chains them
   hop after hop and states what the path creator(s) intended.  ECDH + `next_hop_pubkey` (the derivation of the next path
   key by a hop's node key) is a trusted parameter `derive`. -/
namespace Ldk.Onion

/-- one blinded FORWARDING hop as far as blinding goes: its node key's path-key derivation and the override its
    encrypted recipient data carry (TLV 8; `none` everywhere except where two blinded paths were joined) -/
structure BlindedHopSpec where
  derive : Bytes → Option Bytes
  next_blinding_override : Option Bytes

/-- BOLT 4, what the path creator(s) intend every successive hop to see: the path key it is handed (the override of the
    previous hop when that has one, else the key the previous hop derives from its own), ITS OWN override as the
    instruction for the next hand-over, and the introduction-node role only at the head of the tail -/
def intendedBlinded : Bool → Option Bytes → List BlindedHopSpec → List (Option BlindedForward)
  | _, _, [] => []
  | isIntro, e, h :: rest =>
    e.map (fun e => ⟨e, h.next_blinding_override, if isIntro then .fromIntroductionNode else .fromBlindedNode⟩)
      :: intendedBlinded false (e.bind fun e => h.next_blinding_override.orElse fun _ => h.derive e) rest

/-- the path key handed on after the last of `hops` -/
def keyAfter : Option Bytes → List BlindedHopSpec → Option Bytes
  | e, [] => e
  | e, h :: rest => keyAfter (e.bind fun e => h.next_blinding_override.orElse fun _ => h.derive e) rest

/-- what the CODE does: hop after hop, create_fwd_pending_htlc_info's `blinded` (from the hop's decoded payload: the
    introduction point it carries, its override; and the `blinding_point` of the incoming update_add_htlc), then
    channelmanager's outgoing blinding point.  Yields the `BlindedForward` every hop records. -/
def relayBlinded : Option Bytes → Option Bytes → List BlindedHopSpec → List (Option BlindedForward)
  | _, _, [] => []
  | intro, msg_bp, h :: rest =>
    let b := fwdBlinded (.blindedForward intro h.next_blinding_override) msg_bp
    b :: relayBlinded none (nextBlindingPoint h.derive b) rest

/-- what the CODE hands to the hop after the last forwarding hop (the recipient of the tail): the `blinding_point` of the
    last outgoing update_add_htlc -/
def relayFinalKey : Option Bytes → Option Bytes → List BlindedHopSpec → Option Bytes
  | intro, msg_bp, [] => intro.or msg_bp
  | intro, msg_bp, h :: rest =>
    relayFinalKey none (nextBlindingPoint h.derive (fwdBlinded (.blindedForward intro h.next_blinding_override) msg_bp)) rest

end Ldk.Onion
