/- Which record types the BOLT-12 parsers admit (C18, round 6): `ParsedMessage::<T>::try_from` runs the
   `tlv_stream!` range readers of the tuple `T` one after the other over one cursor and then demands that
   the cursor is exhausted.  The reader chains (which readers, in which order, their ranges and field
   types) are TRANSLATED: Generated/C18Readers.lean (tools/gen_c18_readers.py).  Hand-written here: the
   loop of one reader (util/ser_macros.rs::_decode_tlv_stream_range, shape pinned by the translator),
   at the level of record TYPES (the per-field value decoding is not modelled).  No Mathlib. -/
import LdkModel.Model.Merkle
import LdkModel.Generated.C18Readers
namespace Ldk.OfferReaders
open Ldk.C18Readers

def inRange (rd : Reader) (t : Nat) : Bool := decide (rd.lo ≤ t) && decide (t < rd.hi)

/-- a type the reader has no field for is tolerated only when odd (`t % 2 == 0 => UnknownRequiredFeature`) -/
def tolerates (rd : Reader) (t : Nat) : Bool := rd.known.contains t || t % 2 == 1

/-- `Some(t) if typ.0 <= t => return Err(InvalidValue)` with `t` = `last_seen_type` -/
def stale (last : Option Nat) (t : Nat) : Bool :=
  match last with
  | some l => decide (t ≤ l)
  | none => false

/-- mirrors `_decode_tlv_stream_range!`: `last` = `last_seen_type`; a type outside the range ends the
    reader (rewind + break) and leaves the record for the next one; inside the range the type must be
    larger than the last seen one and known or odd.  `none` = `Err(..)`, `some rest` = records left. -/
def readOne (rd : Reader) : Option Nat → List Nat → Option (List Nat)
  | _, [] => some []
  | last, t :: ts =>
    if inRange rd t then
      if !stale last t && tolerates rd t then readOne rd (some t) ts else none
    else some (t :: ts)

/-- mirrors `impl CursorReadable for <tuple>`: the readers in order, each starting with `last_seen_type = None` -/
def runChain : List Reader → List Nat → Option (List Nat)
  | [], ts => some ts
  | rd :: rest, ts =>
    match readOne rd none ts with
    | none => none
    | some ts' => runChain rest ts'

/-- mirrors offers/parse.rs `ParsedMessage::try_from`: read the tuple, then `cursor.position() < len => Err` -/
def chainAccepts (c : List Reader) (ts : List Nat) : Bool := runChain c ts == some []

def chainByName : String → Option (List Reader)
  | "offer" => some offerChain
  | "req" => some invreqChain
  | "requ" => some invreqPartialChain
  | "inv" => some invoiceChain
  | "invu" => some invoicePartialChain
  | "sinv" => some staticInvoiceChain
  | "refund" => some refundChain
  | _ => none

/-- answer of driver op `readers <chain> <bytes>` -/
def readersVerdict (chain : String) (b : List UInt8) : String :=
  match chainByName chain, Ldk.Merkle.parseStream b with
  | none, _ => "bad-op"
  | _, none => "malformed"
  | some c, some rs => if chainAccepts c (rs.map (·.ty)) then "accept" else "refuse"

end Ldk.OfferReaders
