/- C02: histories of the RAA-blocker map.  Every function that changes or reads the map is GENERATED
   (Generated/RaaBlock.lean, tools/gen_raablock.py). -/
import LdkModel.Generated.RaaBlock
namespace Ldk.RaaBlock
open Ldk.RaaBlockGen

/-- what happens to the blocker map of one peer -/
inductive Ev where
  /-- `internal_update_fulfill_htlc`: the next hop fulfilled, on downstream channel `chan`, the HTLC whose inbound edge is `b` -/
  | fulfil (chan b : Nat)
  /-- `handle_monitor_update_release(.., Some(b))`: the completion action of `b`'s `PaymentPreimage` update ran -/
  | release (chan b : Nat)
  deriving DecidableEq, Repr

def stepEv (m : BlockMap) : Ev → BlockMap
  | .fulfil c b => registerOnFulfil m c b
  | .release c b => release m c b

def runEv (m : BlockMap) (evs : List Ev) : BlockMap := evs.foldl stepEv m

/-- the claim `b` over downstream channel `c` is pending after the history: its last event is a `fulfil` (`acc` = before) -/
def pendingAcc (c b : Nat) (acc : Bool) : List Ev → Bool
  | [] => acc
  | .fulfil c' b' :: r => pendingAcc c b (if c' = c ∧ b' = b then true else acc) r
  | .release c' b' :: r => pendingAcc c b (if c' = c ∧ b' = b then false else acc) r

def pending (c b : Nat) (evs : List Ev) : Bool := pendingAcc c b false evs

/-- `internal_revoke_and_ack` / `handle_monitor_update_release` on channel `c`: the `revoke_and_ack` monitor update is parked -/
def raaParked (m : BlockMap) (c : Nat) : Bool := held m c

/-- the map after the next hop fulfilled, over downstream channel 1, exactly the claims `l` (built with the GENERATED registration) -/
def registerAll (l : List Nat) : BlockMap := runEv BlockMap.empty (l.map (Ev.fulfil 1))

end Ldk.RaaBlock
