/- C03 — restart reconstruction: which outbound HTLCs of a closed channel a `ChannelMonitor` reports as FAILED ON
   CHAIN when a `ChannelManager` is read (`ChannelManager::read` turns every reported HTLC into
   `PaymentPathFailed` (+ `PaymentFailed`) with `OnChainTimeout`).
   Model of `ChannelMonitor::get_onchain_failed_outbound_htlcs` (lightning/src/chain/channelmonitor.rs). Every
   deciding expression comes from Generated/OnchainFailed.lean (tools/gen_onchain_failed.py); hand-written here: the
   data layout, the loop / `find` / `filter(..).next()` glue and the arm nesting (pinned by the translator's template,
   tied by the `ocf` op of the c03chain differential run). One funding scope (no confirmed splice). -/
import LdkModel.Generated.OnchainFailed
namespace Ldk.OnchainFailed
open Ldk Ldk.OnchainFailedGen

/-- `(HTLCOutputInCommitment, Option<HTLCSource>)`: the source (outbound HTLCs only; a number per distinct source) and
    `transaction_output_index` (`none` = dust, no output) -/
structure Htlc where
  src : Option Nat
  outIdx : Option Nat
deriving Repr, DecidableEq

/-- `IrrevocablyResolvedHTLC`: `commitment_tx_output_idx`, `payment_preimage` -/
structure Resolved where
  outIdx : Option Nat
  preimage : Option Nat
deriving Repr, DecidableEq

/-- an entry of `onchain_events_awaiting_threshold_conf` -/
structure Awaiting where
  txid : Nat
  height : Nat
  isFundingSpend : Bool
deriving Repr, DecidableEq

/-- what `get_onchain_failed_outbound_htlcs` reads from the monitor -/
structure Mon where
  best : Nat                                  -- best_block.height
  fundingSpendConfirmed : Option Nat          -- funding_spend_confirmed
  awaiting : List Awaiting                    -- onchain_events_awaiting_threshold_conf
  curCp : Option Nat                          -- funding.current_counterparty_commitment_txid
  prevCp : Option Nat                         -- funding.prev_counterparty_commitment_txid (unrevoked)
  cpCur : List Htlc                           -- counterparty_claimable_outpoints[curCp]
  cpPrev : List Htlc                          -- counterparty_claimable_outpoints[prevCp]
  holderCurTxid : Nat                         -- funding.current_holder_commitment_tx.trust().txid()
  holderCur : List Htlc                       -- holder_commitment_htlcs!(us, CURRENT_WITH_SOURCES)
  holderPrev : Option (Nat × List Htlc)       -- funding.prev_holder_commitment_tx, PREV_WITH_SOURCES
  resolvedToUser : List Nat                   -- htlcs_resolved_to_user (as sources)
  resolvedOnChain : List Resolved             -- htlcs_resolved_on_chain
deriving Repr

/-- mirrors `us.funding_spend_confirmed.or_else(|| awaiting.iter().find_map(..))` -/
def confirmedTxid (m : Mon) : Option Nat :=
  match m.fundingSpendConfirmed with
  | some t => some t
  | none => (m.awaiting.find? (fun e => e.isFundingSpend && buried e.height m.best)).map (·.txid)

/-- mirrors `funding.counterparty_claimable_outpoints.get(txid)` for the two unrevoked counterparty commitments -/
def cpHtlcs (m : Mon) (t : Nat) : List Htlc :=
  if m.curCp = some t then m.cpCur else if m.prevCp = some t then m.cpPrev else []

/-- mirrors the `if / else if / else if let` chain that picks `$htlc_iter`: the HTLCs (with sources) of the commitment
    transaction that the monitor takes the confirmed funding spend to be -/
def confirmedHtlcs (m : Mon) (t : Nat) : List Htlc :=
  if isCounterparty t m.curCp m.prevCp then (cpHtlcs m t).filter (·.src.isSome)
  else if isHolderCur t m.holderCurTxid then m.holderCur
  else match m.holderPrev with
    | some (p, hs) => if isHolderPrev t p then hs else []
    | none => []

/-- mirrors one round of `walk_candidate_htlcs`: `some s` = `res.insert(source, ..)` -/
def walkOne (m : Mon) (conf : List Htlc) (c : Htlc) : Option Nat :=
  match c.src with
  | none => none
  | some s =>
    if skipResolved (m.resolvedToUser.contains s) then none else
    match conf.find? (fun h => h.src == some s) with
    | some h =>
      if isDust h.outIdx then (if reportDust then some s else none)
      else match m.resolvedOnChain.find? (fun r => resolvedFilter r.outIdx h.outIdx) with
        | some st => if reportResolved st.preimage then some s else none
        | none => if reportUnresolved then some s else none
    | none => if reportNotIncluded then some s else none

/-- the HTLCs walked: those of the unrevoked counterparty commitments -/
def candidateHtlcs (m : Mon) : List Htlc :=
  (candidates m.curCp m.prevCp).flatMap (fun o => match o with | some t => cpHtlcs m t | none => [])

/-- mirrors `get_onchain_failed_outbound_htlcs`: the sources reported failed (the Rust result is a map: a set) -/
def onchainFailed (m : Mon) : List Nat :=
  match confirmedTxid m with
  | none => []
  | some t => (candidateHtlcs m).filterMap (walkOne m (confirmedHtlcs m t))

/-- mirrors `ChannelMonitor::get_all_current_outbound_htlcs` (the sources; the Rust result is a map): the outbound HTLCs a
    restart re-inserts as pending (`insert_from_monitor_on_startup`) or replays as claimed -/
def allCurrentOutbound (m : Mon) : List Nat :=
  ((allCurrentLists m.curCp m.prevCp).flatMap (fun o => match o with | some t => cpHtlcs m t | none => [])).filterMap
    (fun h => match h.src with
      | some s => if listedUnresolved (m.resolvedToUser.contains s) then some s else none
      | none => none)

/-! ### `ChannelManager::read`: how the two monitor answers are consumed, per channel of one payment -/

/-- one channel that carries parts of the payment, as `ChannelManager::read` sees it -/
structure ChanView where
  inMap : Bool              -- the channel is still in the manager's channel map (open)
  mon : Mon                 -- its monitor
  preimages : List Nat      -- the sources `get_all_current_outbound_htlcs` lists WITH a preimage (counterparty_fulfilled_htlcs)
deriving Repr

/-- first pass: `insert_from_monitor_on_startup` calls -/
def readInsertsOf (v : ChanView) : List Nat :=
  if readInserts (channelClosed v.inMap) then allCurrentOutbound v.mon else []
/-- second pass: `claim_htlc(.., from_onchain = true)` calls -/
def readClaimsOf (v : ChanView) : List Nat :=
  if readResolves (channelClosed v.inMap) then (allCurrentOutbound v.mon).filter (fun s => v.preimages.contains s) else []
/-- second pass: `failed_htlcs` (later `fail_htlc`, OnChainTimeout) -/
def readFailsOf (v : ChanView) : List Nat :=
  if readResolves (channelClosed v.inMap) then onchainFailed v.mon else []

inductive Outcome | sent | failed | pending
deriving DecidableEq, Repr

/-- REDUCED entry semantics of one payment over a reload (hand-written; the full one is Model/OutboundPay.stepP): the parts held
    are the persisted ones plus the re-inserted ones; a claim of a held part fulfils the payment (PaymentSent); otherwise
    `fail_htlc` removes the failed parts and PaymentFailed follows once none remains (nothing is retried during a reload) -/
def outcomeOf (persisted inserted claims fails : List Nat) : Outcome :=
  if claims.any (fun s => (persisted ++ inserted).contains s) then .sent
  else if !(persisted ++ inserted).isEmpty && (persisted ++ inserted).all (fun s => fails.contains s) then .failed
  else .pending

/-- the payment after `ChannelManager::read`, from the persisted parts and the views of its channels -/
def restartOutcome (persisted : List Nat) (vs : List ChanView) : Outcome :=
  outcomeOf persisted (vs.flatMap readInsertsOf) (vs.flatMap readClaimsOf) (vs.flatMap readFailsOf)

/-- SPECIFICATION (independent of the generated arm tests): the HTLC list of the commitment transaction with txid `t`,
    for the four commitment transactions a monitor can still see confirmed without it being a revoked state:
    current / previous (unrevoked) counterparty, current / previous holder. -/
def commitmentHtlcs (m : Mon) (t : Nat) : List Htlc :=
  if m.curCp = some t then m.cpCur
  else if m.prevCp = some t then m.cpPrev
  else if t = m.holderCurTxid then m.holderCur
  else match m.holderPrev with
    | some (p, hs) => if t = p then hs else []
    | none => []

/-- the output `i` of the confirmed commitment is LIVE: not irrevocably resolved without a preimage (i.e. still unspent
    / spend not yet buried, or claimed with the preimage) -/
def Live (m : Mon) (i : Nat) : Prop :=
  ∀ r ∈ m.resolvedOnChain, r.outIdx = some i → r.preimage ≠ none

end Ldk.OnchainFailed
