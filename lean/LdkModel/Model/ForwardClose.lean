/- C02 — force-closing the OUTBOUND channel of a forward.  One outbound HTLC X of node B on the channel B–C, followed
   through the commitment dance: its `OutboundHTLCState` (rewrites from the GENERATED tables of Generated/HtlcTables.lean;
   the `revoke_and_ack` rewrites are mirrored by hand and pinned by tools/gen_htlc_tables.py), and — as ghost state — which
   commitment transactions contain it: the counterparty's latest and previous-unrevoked commitments for which B has
   RELEASED a `commitment_signed`, a counterparty commitment B has built whose `ChannelMonitorUpdate` is still held in
   `blocked_monitor_updates` (its `commitment_signed` never left B), and B's own latest holder commitment.
   `forceClose` applies the GENERATED selection of `ChannelContext::force_shutdown` (Generated/ForceClose.lean).
   No Mathlib. -/
import LdkModel.Generated.HtlcTables
import LdkModel.Generated.ForceClose
namespace Ldk.FwdClose
open Ldk.Chan Ldk.FcGen

inductive Phase where
  /-- not yet handed to the channel -/
  | notYet
  /-- `HTLCUpdateAwaitingACK::AddHTLC` in `holding_cell_htlc_updates` -/
  | holdingCell
  /-- in `pending_outbound_htlcs` -/
  | pending (s : OutState)
  /-- removed from the channel (irrevocably resolved off-chain) -/
  | gone
  deriving DecidableEq, Repr, Inhabited

structure St where
  phase : Phase := .notYet
  /-- the latest counterparty commitment whose `commitment_signed` B has released contains X -/
  cpLatest : Bool := false
  /-- there is a previous released counterparty commitment that C has not revoked yet (`some`), and it contains X -/
  cpPrev : Option Bool := none
  /-- B has built a counterparty commitment whose monitor update is held (`some`), and it lists X -/
  held : Option Bool := none
  /-- B's latest holder commitment (the one B broadcasts when it force-closes) contains X -/
  holder : Bool := false
  closed : Bool := false
  /-- X was handed back for immediate backwards failure by `force_shutdown` (`dropped_outbound_htlcs`) -/
  dropped : Bool := false
  deriving DecidableEq, Repr, Inhabited

inductive Op where
  /-- `send_htlc` while the channel cannot commit (awaiting `revoke_and_ack` / monitor update): holding cell -/
  | queueAdd
  /-- `send_htlc` + `build_commitment_no_status_check` (directly, or freeing the holding cell): X becomes `LocalAnnounced` in a
      newly built counterparty commitment; `blocked` = its monitor update is held (RAA blocker), nothing is sent -/
  | announce (blocked : Bool)
  /-- B builds a new counterparty commitment for other updates while X is pending -/
  | commit (blocked : Bool)
  /-- the held monitor update is released: its `commitment_signed` goes out -/
  | release
  /-- C's `revoke_and_ack`: its previous commitment is revoked -/
  | recvRaa
  /-- C's `update_fulfill_htlc` (`ok`) / `update_fail_htlc` -/
  | recvRemove (ok : Bool)
  /-- C's `commitment_signed`: B has a new holder commitment -/
  | recvCs
  /-- `ChannelContext::force_shutdown` -/
  | forceClose
  deriving DecidableEq, Repr

/-- a new counterparty commitment that lists X iff `incl`; held or released -/
def built (s : St) (incl blocked : Bool) : St :=
  if blocked then { s with held := some incl } else { s with cpPrev := some s.cpLatest, cpLatest := incl }

/-- mirrors the outbound part of `FundedChannel::revoke_and_ack` (as Model/Channel.lean `Node.onRaa`) -/
def raaRewrite : Phase → Phase
  | .pending .localAnnounced => .pending .committed
  | .pending (.awaitingRemoteRevokeToRemove ok) => .pending (.awaitingRemovedRemoteRevoke ok)
  | .pending (.awaitingRemovedRemoteRevoke _) => .gone
  | p => p

/-- what `force_shutdown` decides for X -/
def dropDecision (s : St) : Bool :=
  match s.phase with
  | .holdingCell => forceShutdownDropsHoldingCellAdd
  | .pending st => forceShutdownDropsPending st s.held
  | _ => false

def step (s : St) (op : Op) : St :=
  if s.closed then s else
  match op with
  | .queueAdd => if s.phase = .notYet then { s with phase := .holdingCell } else s
  | .announce b =>
    -- a commitment can only be built when none is outstanding (AWAITING_REMOTE_REVOKE clear)
    if (s.phase = .notYet ∨ s.phase = .holdingCell) ∧ s.cpPrev = none ∧ s.held = none then
      built { s with phase := .pending .localAnnounced } (OutState.included .localAnnounced true) b
    else s
  | .commit b =>
    if s.cpPrev = none ∧ s.held = none then
      match s.phase with
      | .pending st => built { s with phase := .pending st.onBuildCommitment } (st.included true) b
      | _ => built s false b
    else s
  | .release =>
    match s.held with
    | some i => { s with held := none, cpPrev := some s.cpLatest, cpLatest := i }
    | none => s
  | .recvRaa =>
    match s.cpPrev with
    | some _ => { s with cpPrev := none, phase := raaRewrite s.phase }
    | none => s
  | .recvRemove ok =>
    if s.phase = .pending .committed then { s with phase := .pending (.remoteRemoved ok) } else s
  | .recvCs =>
    match s.phase with
    | .pending st => { s with holder := st.included false, phase := .pending st.onCommitmentSigned }
    | _ => { s with holder := false }
  | .forceClose => { s with closed := true, dropped := dropDecision s }

def init : St := {}
def run (s : St) (ops : List Op) : St := ops.foldl step s

/-- the next hop can still get X on chain: a commitment of its own it holds B's signature for and has not revoked, or the
    commitment B itself broadcasts, contains X -/
def downstreamCanClaim (s : St) : Bool := s.cpLatest || s.cpPrev == some true || s.holder

/-- X never left B: it sits in the holding cell, or it is `LocalAnnounced` and the only commitment listing it is held -/
def neverSent (s : St) : Bool :=
  match s.phase with
  | .holdingCell => true
  | .pending .localAnnounced => s.held == some true
  | _ => false

/-! ### what the harness can see at the instant of the force-close -/

/-- `OutboundHTLCStateDetails` as `list_channels` reports it (the three removal states collapse), or holding cell -/
inductive Seen where
  | holdingCell | awaitingRemoteRevokeToAdd | committed | removing (ok : Bool)
  deriving DecidableEq, Repr

def Seen.states : Seen → List OutState
  | .holdingCell => []
  | .awaitingRemoteRevokeToAdd => [.localAnnounced]
  | .committed => [.committed]
  | .removing ok => [.remoteRemoved ok, .awaitingRemoteRevokeToRemove ok, .awaitingRemovedRemoteRevoke ok]

/-- the decisions `force_shutdown` may take for an HTLC seen as `v` when a held counterparty commitment exists (`heldExists`;
    it lists every HTLC its builder includes) -/
def Seen.decisions (v : Seen) (heldExists : Bool) : List Bool :=
  match v with
  | .holdingCell => [forceShutdownDropsHoldingCellAdd]
  | v => v.states.map fun st => forceShutdownDropsPending st (if heldExists then some (st.included true) else none)

/-- the observation (seen state, X's `update_add_htlc` ever released, X in C's latest commitment, X in the commitment B broadcasts)
    is one the model can produce -/
def Seen.consistent (v : Seen) (sent cHas bHas : Bool) : Bool :=
  match v with
  | .holdingCell => !sent && !cHas && !bHas
  | .awaitingRemoteRevokeToAdd => !bHas && (sent || !cHas)
  | _ => sent

end Ldk.FwdClose
