/- C07 `claim_in_time`: WHEN the node goes on chain for an HTLC, when the OnchainTxHandler issues and
   re-issues the claim, and at which feerates — a composition of TRANSLATED pieces only:

     Generated/Timing.lean       shouldBroadcastFor            (should_broadcast_holder_commitment_txn's test)
     Generated/Package.lean      getHeightTimer, packageLocktime, computePackageFeerate
     Generated/ClaimTiming.lean  parksPackage, releasedFromPark, timerFires, firstIssueStrategy,
                                 timerBumpStrategy, issueTimer, issueLocktime   (onchaintx.rs)
                                 pre* (the pre-confirmation arm of get_claimable_balances)

   plus the pre-confirmation `ClaimableOnChannelClose` view of the entitlement ledger.
   The chain is abstract: blocks arrive one height at a time; what confirms when is a HYPOTHESIS of
   the theorems (Props/C07.lean), never a definition here.  No Mathlib. -/
import LdkModel.Generated.Timing
import LdkModel.Generated.Package
import LdkModel.Generated.ClaimTiming
import LdkModel.Model.OnchainClaims
namespace Ldk.ClaimTime
open Ldk Ldk.Pkg Ldk.ClaimTiming Ldk.Onchain

/-- the first height `h` in `start, start+1, …, start+fuel-1` with `p h` (blocks are connected one by one) -/
def firstHeight (p : Nat → Bool) : Nat → Nat → Option Nat
  | _, 0 => none
  | h, fuel + 1 => if p h then some h else firstHeight p (h + 1) fuel

-- mirrors ChannelMonitorImpl::block_confirmed → should_broadcast_holder_commitment_txn (evaluated at every connected block)
/-- the first block height `≥ start` at which the monitor decides to broadcast the holder commitment
    because of ONE HTLC (`cltv`, direction, preimage known to the monitor from `start` on) -/
def goesOnchainAt (cltv : Nat) (outbound hasPreimage : Bool) (start fuel : Nat) : Option Nat :=
  firstHeight (fun h => shouldBroadcastFor h cltv outbound hasPreimage) start fuel

/-- an HTLC as should_broadcast_holder_commitment_txn sees it: (cltv_expiry, outbound, preimage known) -/
abbrev ScanHtlc := Nat × Bool × Bool

-- mirrors the scan_commitment! loops: ANY HTLC of the scanned commitments that passes the test triggers the broadcast
/-- the first block height `≥ start` at which the monitor broadcasts the holder commitment, given ALL pending HTLCs -/
def firstOnchain (htlcs : List ScanHtlc) (start fuel : Nat) : Option Nat :=
  firstHeight (fun h => htlcs.any fun x => shouldBroadcastFor h x.1 x.2.1 x.2.2) start fuel

-- mirrors OnchainTxHandler::update_claims_view_from_requests (park / release of timelocked packages)
/-- the height at which a claim REQUESTED at `cur` is first issued (broadcast / handed out as an event):
    at once, or — parked in `locktimed_packages` — at the first later block that releases its locktime -/
def requestIssueHeight (cur : Nat) (inputs : List PkgInput) (fuel : Nat) : Option Nat :=
  let lt := issueLocktime cur inputs
  if parksPackage lt cur then firstHeight (fun h => releasedFromPark lt h) (cur + 1) fuel else some cur

-- mirrors OnchainTxHandler::update_claims_view_from_matched_txn (bump candidates) + generate_claim's new_timer
/-- the heights at which a pending claim on `inputs` is (re-)issued while it stays unconfirmed, over the
    blocks `cur, cur+1, …, cur+fuel-1`, the stored timer being `timer` (first issue: `timer = cur`) -/
def issueHeights (csh : Nat) (inputs : List PkgInput) : Nat → Nat → Nat → List Nat
  | 0, _, _ => []
  | fuel + 1, cur, timer =>
    if timerFires cur timer then cur :: issueHeights csh inputs fuel (cur + 1) (issueTimer cur csh inputs)
    else issueHeights csh inputs fuel (cur + 1) timer

/-- the strategy/estimate calls behind a list of issue heights: the first issue, then timer-driven re-issues -/
def issueCalls (est : Nat → Nat) : List Nat → List (FeerateStrategy × Nat)
  | [] => []
  | h0 :: rest => (firstIssueStrategy, est h0) :: rest.map fun h => (timerBumpStrategy, est h)

/-- the target feerates of the successive issues of an externally funded claim never issued before
    (`Onchain.extTargets` = the caller's `set_feerate(result)` loop over `compute_package_feerate`) -/
def issueTargets (est : Nat → Nat) (hs : List Nat) : List Nat := extTargets 0 (issueCalls est hs)

/-- (height, target feerate) of every issue of a claim first issued at `start`, over `fuel` blocks -/
def issues (csh : Nat) (inputs : List PkgInput) (est : Nat → Nat) (start fuel : Nat) : List (Nat × Nat) :=
  let hs := issueHeights csh inputs fuel start start
  hs.zip (issueTargets est hs)

/-- THE CONFIRMATION HYPOTHESIS (never a fact of the model): `conf` is the height at which the claim confirms; every
    issue `(height, target feerate)` of the schedule whose target is at least the estimator's then-current (floor-bounded)
    answer confirms within `n` blocks of being issued -/
def ConfirmsWithin (n : Nat) (est : Nat → Nat) (iss : List (Nat × Nat)) (conf : Nat) : Prop :=
  ∀ hr ∈ iss, boundedSatPer1000Weight (est hr.1) ≤ hr.2 → conf ≤ hr.1 + n

/-- the same, but only for issues from height `t0` on (before `t0` anything may happen: a fee spike, censorship, …) -/
def ConfirmsWithinFrom (t0 n : Nat) (est : Nat → Nat) (iss : List (Nat × Nat)) (conf : Nat) : Prop :=
  ∀ hr ∈ iss, t0 ≤ hr.1 → boundedSatPer1000Weight (est hr.1) ≤ hr.2 → conf ≤ hr.1 + n

/-! ### The pre-confirmation view (`Balance::ClaimableOnChannelClose` + per-HTLC balances)

    Before any commitment has confirmed, get_claimable_balances walks the CURRENT HOLDER commitment.
    HTLCs are given with their msat amounts; `kind` says direction / preimage knowledge as in the ledger. -/

structure PreHtlc where
  kind : Kind
  amountMsat : Nat
  cltv : Nat
  deriving DecidableEq, Repr, Inhabited

structure PreView where
  /-- `ClaimableOnChannelClose.balance_candidates[confirmed].amount_satoshis` -/
  onClose : Nat
  /-- the `MaybeTimeoutClaimableHTLC` / `MaybePreimageClaimableHTLC` balances, in commitment order -/
  htlcs : List Bal
  deriving Repr, Inhabited

def PreHtlc.claimingSat (h : PreHtlc) : Nat := if h.kind = .inboundHtlcPreimage then preClaimingAmount h.amountMsat else 0

def PreHtlc.balance (h : PreHtlc) : Option Bal := match h.kind with
  | .outboundHtlc => some ⟨.maybeTimeout (preOfferedHeight h.cltv), preOfferedAmount h.amountMsat⟩
  | .inboundHtlcUnknown => some ⟨.maybePreimage (preUnknownHeight h.cltv), preUnknownAmount h.amountMsat⟩
  | _ => none

-- mirrors the `else` (no funding spend seen) arm of ChannelMonitor::get_claimable_balances, non-dust HTLCs
def preView (toSelfSat : Nat) (hs : List PreHtlc) : PreView :=
  { onClose := preOnCloseAmount toSelfSat (Onchain.sum (hs.map PreHtlc.claimingSat)),
    htlcs := hs.filterMap PreHtlc.balance }

/-- what the node owns according to the pre-confirmation view -/
def PreView.owned (v : PreView) : Nat := v.onClose + Onchain.sum (v.htlcs.map Bal.owned)

/-- the ledger item an HTLC of the holder's commitment becomes when that commitment confirms -/
def PreHtlc.item (h : PreHtlc) : Item :=
  { kind := h.kind, sat := h.amountMsat / 1000,
    claimableFrom := if h.kind = .outboundHtlc then h.cltv else 0,
    contestedFrom := if h.kind = .outboundHtlc then 0 else h.cltv, csv := none }

/-- the items of a HOLDER close: the balance output, then the HTLCs -/
def holderItems (toSelfSat : Nat) (hs : List PreHtlc) : List Item :=
  ⟨.toSelf, toSelfSat, 0, 0, none⟩ :: hs.map PreHtlc.item

end Ldk.ClaimTime
