/- Monitor-update gating monitor (C09): per (node, channel) the ids handed to chain::Watch, which of
   them are still in flight, and which peer messages may be released.  Events are what a
   chain::Watch / message observer sees.  No Mathlib. -/
import LdkModel.Generated.MonGate
import LdkModel.Generated.CloseGate
namespace Ldk.MonGate

inductive Kind where
  | holderCommitment      -- LatestHolderCommitment(TXInfo): produced by a received commitment_signed
  | counterpartyCommitment -- LatestCounterpartyCommitment(TXInfo): produced by signing the peer's commitment
  | commitmentSecret       -- produced by a received revoke_and_ack
  | preimage | forceClosed | other
  deriving DecidableEq, Repr, Inhabited

inductive Ev where
  /-- update `id` with the given step kinds is handed to Watch and reported Completed / InProgress -/
  | update (id : Nat) (kinds : List Kind) (inProgress : Bool)
  /-- the persister reports update `id` complete -/
  | done (id : Nat)
  /-- the node releases a commitment_signed (with its update_* batch) / a revoke_and_ack -/
  | releaseCs
  | releaseRaa
  deriving Repr, Inhabited

structure St where
  /-- id of the first update seen (ids before it belong to channel establishment) -/
  next : Option Nat
  inFlight : List Nat
  /-- id of the latest update carrying a counterparty commitment / a holder commitment -/
  lastCpCommit : Option Nat
  lastHolderCommit : Option Nat
  deriving Repr, Inhabited

def St.init : St := { next := none, inFlight := [], lastCpCommit := none, lastHolderCommit := none }

/-- all updates with id ≤ u are complete -/
def St.completeUpTo (s : St) (u : Nat) : Bool := s.inFlight.all (fun i => u < i)

/-- one step of the monitor; `none` = the observed event violates the gating rules -/
def step (s : St) : Ev → Option St
  | .update id kinds inProgress =>
      if (match s.next with | none => true | some n => id == n) then
        some { s with next := some (id + 1)
                      inFlight := if inProgress then s.inFlight ++ [id] else s.inFlight
                      lastCpCommit := if kinds.contains .counterpartyCommitment then some id else s.lastCpCommit
                      lastHolderCommit := if kinds.contains .holderCommitment then some id else s.lastHolderCommit }
      else none
  | .done id => if s.inFlight.contains id then some { s with inFlight := s.inFlight.erase id } else none
  | .releaseCs => match s.lastCpCommit with
      | none => none
      | some u => if s.completeUpTo u then some s else none
  | .releaseRaa => match s.lastHolderCommit with
      | none => none
      | some u => if s.completeUpTo u then some s else none

def run (s : St) : List Ev → Option St
  | [] => some s
  | e :: es => match step s e with
    | none => none
    | some s' => run s' es

end Ldk.MonGate

/-! ## Channel-side model of the monitor-update gate (C09, extension of Model/MonGate.lean): what a FundedChannel + its
   ChannelManager peer-state + the ChainMonitor do with a ChannelMonitorUpdate and with everything that must wait for it.
   Every DECISION is a call into Generated/MonGate.lean (re-translated from channel.rs / channelmanager.rs on every run);
   what is hand-mirrored here is the plumbing between them (which decision follows which) and the resend order — tied by
   the differential run (`gate` ops of driver `mongate`, compared with the hook dump of the real channel).  No Mathlib. -/
namespace Ldk.MonGate.Gate
open Ldk.MonGate

/-- what leaves the channel: an update handed to chain::Watch, or something released to the peer / the manager -/
inductive Out where
  | handed (id : Nat) (inProgress : Bool)
  | raa | cs | ready
  /-- channel_ready retransmitted by channel_reestablish in state ChannelReady: NOT gated in the code (KF-C09-1) -/
  | readyResent
  | adds (l : List Nat) | fwds (l : List Nat) | fails (l : List Nat) | fulfills (l : List Nat)
  deriving DecidableEq, Repr, Inhabited

/-- released items whose release the property ties to the completion of monitor updates -/
def Out.gated : Out → Bool
  | .handed _ _ => false
  | .readyResent => false
  | _ => true

structure Chan where
  /-- ChannelContext.latest_monitor_update_id -/
  latest : Nat
  /-- ids of ChannelContext.blocked_monitor_updates, in order -/
  blocked : List Nat
  /-- ids in PeerState.in_flight_monitor_updates, in order -/
  inFlight : List Nat
  /-- ids the ChainMonitor still reports as pending (Watch returned InProgress, not yet completed) -/
  cmPending : List Nat
  /-- ghost: the id the next update handed to chain::Watch must carry -/
  nextHand : Nat
  /-- ChannelState MONITOR_UPDATE_IN_PROGRESS -/
  paused : Bool
  pend : Gen.Pend
  /-- ChannelState PEER_DISCONNECTED -/
  disconnected : Bool
  /-- resend_order == CommitmentFirst -/
  csFirst : Bool
  deriving Repr, Inhabited, DecidableEq

/-- ChannelState::can_generate_new_commitment (TRANSLATED, Generated/CloseGate.lean) on the state the Gate model tracks: variant ChannelReady
    with the MONITOR_UPDATE_IN_PROGRESS and PEER_DISCONNECTED flags of the channel (the Gate scenarios have no quiescence / no send while
    awaiting the peer's revoke_and_ack is attempted: those flags are clear) -/
def Chan.canGenerateNewCommitment (c : Chan) : Bool :=
  Ldk.CloseGate.Gen.canGenerateNewCommitment 3
    { Ldk.CloseGate.Gen.Flags.none with monitorUpdateInProgress := c.paused, peerDisconnected := c.disconnected }

def Chan.init (k : Nat) : Chan :=
  { latest := k, blocked := [], inFlight := [], cmPending := [], nextHand := k + 1, paused := false,
    pend := Gen.Pend.empty, disconnected := false, csFirst := false }

inductive Op where
  /-- commitment_signed received (commitment_signed_update_monitor); `ip`: chain::Watch answers InProgress -/
  | csRecv (needCommit awaitingRevoke ip : Bool)
  /-- revoke_and_ack received; the vectors are what this RAA made irrevocable / forwardable -/
  | raaRecv (freed requireCommit hold : Bool) (adds fwds fails fulfills : List Nat) (ip : Bool)
  /-- claim_funds on an inbound HTLC of this channel (get_update_fulfill_htlc_and_commit) -/
  | claim (updateBlocked ip : Bool)
  /-- send_commitment (send_htlc_and_commit / holding cell / update_fee): only when not paused -/
  | send (ip : Bool)
  /-- any other non-preimage producer of the census (shutdown / get_shutdown: ShutdownScript update): paused, then queued -/
  | other (ip : Bool)
  /-- the persister reports update `id` complete (ChainMonitor::channel_monitor_updated) -/
  | complete (id : Nat)
  /-- the RAA blocker is gone (handle_monitor_update_release → unblock_next_blocked_monitor_update) -/
  | unblock (ip : Bool)
  /-- the funding reached its depth and a channel_ready is due (check_get_channel_ready) -/
  | confirm
  | disconnect
  /-- peer's channel_reestablish: it lost our revoke_and_ack / commitment_signed; `readyCase` 1 = state AwaitingChannelReady
      with OUR_CHANNEL_READY, 2 = state ChannelReady with both sides on the initial commitment number, else none -/
  | reestablish (needRaa needCs : Bool) (readyCase : Nat)
  deriving Repr, Inhabited

/-- messages / actions regenerated by monitor_updating_restored, in the order handle_channel_resumption emits them -/
def outsOf (r : Gen.Restored) (csFirst : Bool) : List Out :=
  (if r.ready then [.ready] else []) ++
  (if csFirst then (if r.cs then [.cs] else []) ++ (if r.raa then [.raa] else [])
   else (if r.raa then [.raa] else []) ++ (if r.cs then [.cs] else [])) ++
  (if r.adds.isEmpty then [] else [.adds r.adds]) ++ (if r.fwds.isEmpty then [] else [.fwds r.fwds]) ++
  (if r.fails.isEmpty then [] else [.fails r.fails]) ++ (if r.fulfills.isEmpty then [] else [.fulfills r.fulfills])

/-- mirrors ChannelManager::try_resume_channel_post_monitor_update -/
def resume (c : Chan) : Chan × List Out :=
  if Gen.resumeBlocked c.blocked.length then (c, [])
  else
    let pr := Gen.restored c.pend c.disconnected
    ({ c with pend := pr.1, paused := false }, outsOf pr.2 c.csFirst)

/-- mirrors ChannelManager::handle_new_monitor_update: hand `id` to chain::Watch, track it, resume when all complete -/
def handOver (c : Chan) (id : Nat) (ip : Bool) : Chan × List Out :=
  let m := Gen.mgrNewUpdate c.inFlight id (!ip)
  let c1 := { c with inFlight := m.1, cmPending := if ip then c.cmPending ++ [id] else c.cmPending, nextHand := id + 1 }
  if m.2 && c1.paused then
    let r := resume c1
    (r.1, .handed id ip :: r.2)
  else (c1, [.handed id ip])

def pauseWith (c : Chan) (flags : Bool × Bool × Bool) (v : List Nat × List Nat × List Nat) : Chan :=
  { c with pend := Gen.paused c.pend flags.1 flags.2.1 flags.2.2 v.1 v.2.1 v.2.2, paused := c.paused || Gen.pausedSetsInProgress }

/-- push_ret_blockable_mon_update, then ChannelManager::handle_new_monitor_update for what it hands back -/
def queueOrHand (c1 : Chan) (id : Nat) (ip : Bool) : Chan × List Out :=
  let pb := Gen.pushBlockable c1.blocked id
  match pb.2 with
  | none => ({ c1 with blocked := pb.1 }, [])
  | some i => handOver { c1 with blocked := pb.1 } i ip

/-- commitment_signed_update_monitor up to the point where the update is queued / handed over -/
def csPre (c : Chan) (nc ar : Bool) : Chan :=
  if c.paused then
    let r := Gen.csRecvWhilePaused c.pend nc ar
    { c with pend := r.1, latest := c.latest + 1, csFirst := !r.2 }
  else
    { pauseWith c (Gen.csRecvPauseArgs nc ar) ([], [], []) with latest := c.latest + 1, csFirst := !Gen.csRecvBuildsCs nc ar }

def step (c : Chan) : Op → Chan × List Out
  | .csRecv nc ar ip => queueOrHand (csPre c nc ar) (c.latest + 1) ip
  | .raaRecv freed rc hold adds fw fl ff ip =>
    let id := c.latest + 1
    let a := Gen.raaPauseArgs freed rc fw fl ff
    let c1 : Chan := { pauseWith { c with pend := Gen.raaAppendAdds c.pend adds } a.1 a.2 with
                       latest := id, csFirst := if freed || rc then false else c.csFirst }
    if Gen.raaReleaseMonitor c.blocked.isEmpty hold then handOver c1 id ip
    else ({ c1 with blocked := c1.blocked ++ [id] }, [])
  | .claim ub0 ip =>
    let ub := ub0 || !c.blocked.isEmpty
    let own := c.latest + 1
    let c1 : Chan := { pauseWith c (Gen.claimPauseArgs ub) ([], [], []) with latest := own, csFirst := if ub then c.csFirst else false }
    if Gen.claimBuildsCs c.blocked.isEmpty ub then handOver c1 own ip
    else
      let j := Gen.claimJump c.blocked own
      handOver { c1 with blocked := j.2 } j.1 ip
  | .send ip =>
    if !c.canGenerateNewCommitment then (c, [])
    else queueOrHand { pauseWith c (false, true, false) ([], [], []) with latest := c.latest + 1, csFirst := false } (c.latest + 1) ip
  | .other ip =>
    queueOrHand { pauseWith c Gen.otherPauseArgs ([], [], []) with latest := c.latest + 1 } (c.latest + 1) ip
  | .complete id =>
    if c.cmPending.contains id then
      let cm := c.cmPending.erase id
      if cm.isEmpty then
        let l := Gen.mgrRetain c.inFlight (c.nextHand - 1)
        let c1 := { c with cmPending := cm, inFlight := l }
        if Gen.mgrStillInFlight l.length then (c1, [])
        else if c1.paused then resume c1 else (c1, [])
      else ({ c with cmPending := cm }, [])
    else (c, [])
  | .unblock ip =>
    match Gen.unblockNext c.blocked with
    | none => (c, [])
    | some (i, b) => handOver { c with blocked := b } i ip
  | .confirm =>
    let r := Gen.checkReady c.paused c.disconnected
    ({ c with pend := { c.pend with ready := if r.1 then true else c.pend.ready } }, if r.2 then [.ready] else [])
  | .disconnect => ({ c with disconnected := true }, [])
  | .reestablish needRaa needCs readyCase =>
    let bn := !c.blocked.isEmpty
    let rr : Option Bool × Bool := if needRaa then Gen.reestRaa c.paused bn else (some false, false)
    let rc : Option Bool × Bool := if needCs then Gen.reestCs c.paused bn else (some false, false)
    let p := { c.pend with raa := rr.1.getD c.pend.raa, cs := rc.1.getD c.pend.cs }
    let rdy : List Out :=
      if readyCase == 1 then (if Gen.reestAwaitingReadyHeld true c.paused then [] else [.ready])
      else if readyCase == 2 then (if Gen.reestReadyResent true true true c.paused then [.readyResent] else [])
      else []
    let msgs : List Out :=
      if readyCase == 1 then []
      else if c.csFirst then (if rc.2 then [.cs] else []) ++ (if rr.2 then [.raa] else [])
      else (if rr.2 then [.raa] else []) ++ (if rc.2 then [.cs] else [])
    ({ c with pend := p, disconnected := false }, rdy ++ msgs)

/-- run an op list, collecting the outputs of every step -/
def run (c : Chan) : List Op → Chan × List Out
  | [] => (c, [])
  | op :: ops =>
    let r := step c op
    let r2 := run r.1 ops
    (r2.1, r.2 ++ r2.2)

/-- what a producer of the source census (`Gen.updateSites`) hands to chain::Watch ITSELF for the update `id` it just generated, by class —
    each class's decision is the translated one: "queued" = push_ret_blockable_mon_update, "raa-release-monitor" = revoke_and_ack's
    release_monitor, "preimage-jump" = the id get_update_fulfill_htlc_and_commit takes, "inner" = returned to a census caller (never handed by
    itself), "direct-close" = ChannelForceClosed of a channel that is gone -/
def siteHandsOver (cls : String) (blocked : List Nat) (hold : Bool) (id : Nat) : Option Nat :=
  if cls == "queued" then (Gen.pushBlockable blocked id).2
  else if cls == "raa-release-monitor" then (if Gen.raaReleaseMonitor blocked.isEmpty hold then some id else none)
  else if cls == "preimage-jump" then some (Gen.claimJump blocked id).1
  else if cls == "inner" then none
  else some id

end Ldk.MonGate.Gate
