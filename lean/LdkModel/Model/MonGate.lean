/- Monitor-update gating monitor (C09): per (node, channel) the ids handed to chain::Watch, which of
   them are still in flight, and which peer messages may be released.  Events are what a
   chain::Watch / message observer sees.  No Mathlib. -/
namespace Ldk.MonGate

inductive Kind where
  | holderCommitment      -- LatestHolderCommitment(TXInfo): produced by a received commitment_signed
  | counterpartyCommitment -- LatestCounterpartyCommitment(TXInfo): produced by signing the peer's commitment
  | commitmentSecret       -- produced by a received revoke_and_ack
  | preimage | forceClosed | other
  deriving DecidableEq, Repr, Inhabited

inductive Ev where
  /-- update `id` with the given step kinds is handed to Watch and reported Completed / InProgress -/
  | update (id : Nat) (kinds : List Kind) (inProgress : Bool)
  /-- the persister reports update `id` complete -/
  | done (id : Nat)
  /-- the node releases a commitment_signed (with its update_* batch) / a revoke_and_ack -/
  | releaseCs
  | releaseRaa
  deriving Repr, Inhabited

structure St where
  /-- id of the first update seen (ids before it belong to channel establishment) -/
  next : Option Nat
  inFlight : List Nat
  /-- id of the latest update carrying a counterparty commitment / a holder commitment -/
  lastCpCommit : Option Nat
  lastHolderCommit : Option Nat
  deriving Repr, Inhabited

def St.init : St := { next := none, inFlight := [], lastCpCommit := none, lastHolderCommit := none }

/-- all updates with id ≤ u are complete -/
def St.completeUpTo (s : St) (u : Nat) : Bool := s.inFlight.all (fun i => u < i)

/-- one step of the monitor; `none` = the observed event violates the gating rules -/
def step (s : St) : Ev → Option St
  | .update id kinds inProgress =>
      if (match s.next with | none => true | some n => id == n) then
        some { s with next := some (id + 1)
                      inFlight := if inProgress then s.inFlight ++ [id] else s.inFlight
                      lastCpCommit := if kinds.contains .counterpartyCommitment then some id else s.lastCpCommit
                      lastHolderCommit := if kinds.contains .holderCommitment then some id else s.lastHolderCommit }
      else none
  | .done id => if s.inFlight.contains id then some { s with inFlight := s.inFlight.erase id } else none
  | .releaseCs => match s.lastCpCommit with
      | none => none
      | some u => if s.completeUpTo u then some s else none
  | .releaseRaa => match s.lastHolderCommit with
      | none => none
      | some u => if s.completeUpTo u then some s else none

def run (s : St) : List Ev → Option St
  | [] => some s
  | e :: es => match step s e with
    | none => none
    | some s' => run s' es

end Ldk.MonGate
