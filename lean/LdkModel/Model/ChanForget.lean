import LdkModel.Generated.ChanForget
/-! C12: the "forget the peer's uncommitted updates" rules of `impl Writeable for FundedChannel` as a model over the TRANSLATED
    decision table (Generated/ChanForget.lean, tools/gen_chan_forget.py).  No Mathlib. -/
namespace Ldk.ChanForget
open Gen

/-- the fields of a funded channel the rules touch (HTLC payloads are irrelevant to the table: id + state variant) -/
structure Chan where
  outbound : Bool                    -- self.funding.is_outbound()
  inb : List (Nat × InSt)            -- context.pending_inbound_htlcs, vector order: (htlc_id, state)
  outb : List (Nat × OutSt)          -- context.pending_outbound_htlcs
  fee : Option (Nat × FeeSt)         -- context.pending_update_fee
  holdFee : Option Nat               -- context.holding_cell_update_fee (ours: kept)
  hold : List Nat                    -- context.holding_cell_htlc_updates (ours: kept; opaque codes)
  nextHolder : Nat                   -- context.next_holder_htlc_id
  nextCp : Nat                       -- context.next_counterparty_htlc_id
deriving DecidableEq, Repr

/-- what `FundedChannel::write` puts on the stream for these fields, in stream order -/
structure Written where
  inCount : Nat
  inb : List (Nat × Nat)             -- (htlc_id, state byte)
  outCount : Nat
  outb : List (Nat × Nat)
  hold : List Nat
  fee : Option Nat
  holdFee : Option Nat
  nextHolder : Nat
  nextCp : Nat
deriving DecidableEq, Repr

/-- mirrors FundedChannel::write, the `dropped_inbound_htlcs` loop -/
def dropped (l : List (Nat × InSt)) : Nat := (l.filter (fun h => wCounted h.2)).length

/-- mirrors FundedChannel::write (positional part, the fields above) -/
def writeChan (c : Chan) : Written where
  inCount := if wCountMinusDropped then c.inb.length - dropped c.inb else c.inb.length
  inb := c.inb.filterMap (fun h => (wInTag h.2).map (fun t => (h.1, t)))
  outCount := c.outb.length
  outb := c.outb.map (fun h => (h.1, wOutTag h.2))
  hold := c.hold
  fee := wFee c.outbound c.fee
  holdFee := c.holdFee
  nextHolder := c.nextHolder
  nextCp := if wNextIdMinusDropped then c.nextCp - dropped c.inb else c.nextCp

def mapOpt {α β : Type} (f : α → Option β) : List α → Option (List β)
  | [] => some []
  | a :: l => match f a, mapOpt f l with
    | some b, some bs => some (b :: bs)
    | _, _ => none

/-- mirrors FundedChannel::read of those fields.  The reader takes exactly `inCount` / `outCount` entries from the stream: a count
    that disagrees with the entries written misaligns everything behind it (modelled as a failed read). -/
def readChan (outbound : Bool) (w : Written) : Option Chan :=
  if w.inCount ≠ w.inb.length ∨ w.outCount ≠ w.outb.length then none else
  match mapOpt (fun h => (rInTag h.2).map (fun s => (h.1, s))) w.inb,
        mapOpt (fun h => (rOutTag h.2).map (fun s => (h.1, s))) w.outb with
  | some inb, some outb =>
    some { outbound := outbound, inb := inb, outb := outb, fee := rFee outbound w.fee, holdFee := w.holdFee, hold := w.hold,
           nextHolder := w.nextHolder, nextCp := w.nextCp }
  | _, _ => none

def forgetFee (fee : Option (Nat × FeeSt)) : Option (Nat × FeeSt) :=
  match fee with
  | some (f, s) => if mFeeDrop s then none else some (f, s)
  | none => none

/-- mirrors FundedChannel::remove_uncommitted_htlcs_and_mark_paused on these fields (what a peer disconnection does in memory) -/
def forget (c : Chan) : Chan :=
  { c with
    inb := c.inb.filter (fun h => mKeep h.2)
    nextCp := if mNextIdMinusDropped then c.nextCp - (c.inb.filter (fun h => mCounted h.2)).length else c.nextCp
    fee := forgetFee c.fee
    outb := c.outb.map (fun h => (h.1, mOutReset h.2)) }

/-- the peer's updates that no commitment_signed covers yet, which it sends again after channel_reestablish -/
inductive Msg
  | add (id : Nat)      -- update_add_htlc
  | fee (rate : Nat)    -- update_fee
deriving DecidableEq, Repr

/-- mirrors FundedChannel::update_add_htlc (`msg.htlc_id != next_counterparty_htlc_id` => "Remote skipped HTLC ID") and
    FundedChannel::update_fee ("Non-funding remote tried to update channel fee"; sets `(feerate, RemoteAnnounced)`) -/
def recv (c : Chan) : Msg → Option Chan
  | .add id => if id ≠ c.nextCp then none
               else some { c with inb := c.inb ++ [(id, .remoteAnnounced)], nextCp := c.nextCp + 1 }
  | .fee r => if c.outbound then none else some { c with fee := some (r, .remoteAnnounced) }

def recvAll (c : Chan) : List Msg → Option Chan
  | [] => some c
  | m :: ms => match recv c m with
    | some c' => recvAll c' ms
    | none => none

/-- what the peer retransmits for a channel that was in state `c` when the connection (or the process) went away: every
    RemoteAnnounced inbound HTLC in order, then the RemoteAnnounced fee update -/
def retransmit (c : Chan) : List Msg :=
  (c.inb.filter (fun h => h.2 = .remoteAnnounced)).map (fun h => Msg.add h.1) ++
  (match c.fee with | some (r, .remoteAnnounced) => [Msg.fee r] | _ => [])

/-- role / fee-state consistency: only the funder sends update_fee (`Outbound`), only the fundee receives one -/
def FeeWf (c : Chan) : Prop :=
  match c.fee with
  | some (_, s) => (c.outbound = true ↔ s = .outbound)
  | none => True

instance (c : Chan) : Decidable (FeeWf c) := by unfold FeeWf; split <;> infer_instance

/-- the RemoteAnnounced inbound HTLCs are the `k` most recent ones, with the ids `nextCp - k … nextCp - 1` (update_add_htlc
    appends with id = next_counterparty_htlc_id; commitment_signed moves ALL of them out of RemoteAnnounced) -/
def AnnWf (c : Chan) : Prop :=
  ∃ (pre : List (Nat × InSt)) (k : Nat), k ≤ c.nextCp ∧ (∀ h ∈ pre, h.2 ≠ .remoteAnnounced) ∧
    c.inb = pre ++ (List.range' (c.nextCp - k) k).map (fun i => (i, InSt.remoteAnnounced))

/-- mirrors FundedChannel::commitment_signed as far as the announced updates go: every RemoteAnnounced inbound HTLC and a
    RemoteAnnounced fee update move to AwaitingRemoteRevokeToAnnounce (hand-mirrored; only used to state reachability) -/
def commitSigned (c : Chan) : Chan :=
  { c with
    inb := c.inb.map (fun h => (h.1, if h.2 = .remoteAnnounced then .awaitingRemoteRevokeToAnnounce else h.2))
    fee := match c.fee with
      | some (r, .remoteAnnounced) => some (r, .awaitingRemoteRevokeToAnnounce)
      | f => f }

/-- the channel states reachable through the modelled transitions: a fresh channel of either role; an update received from the
    peer (`recv`); our own update_fee (funder only: `send_update_fee` panics on an inbound channel); the peer's commitment_signed;
    a disconnection; a write + read -/
inductive Reach : Chan → Prop
  | init (ob : Bool) : Reach ⟨ob, [], [], none, none, [], 0, 0⟩
  | recv {c c' : Chan} (m : Msg) : Reach c → recv c m = some c' → Reach c'
  | sendFee {c : Chan} (r : Nat) : Reach c → c.outbound = true → Reach { c with fee := some (r, .outbound) }
  | commit {c : Chan} : Reach c → Reach (commitSigned c)
  | disconnect {c : Chan} : Reach c → Reach (forget c)
  | reload {c c' : Chan} : Reach c → readChan c.outbound (writeChan c) = some c' → Reach c'

end Ldk.ChanForget
