/- C02 — the N-HTLC forwarding machine.  A forwarding node B with ONE upstream link and ONE downstream link carrying `n`
   forwarded HTLCs at once.  Per HTLC the state is the one-HTLC record of Model/Forward.lean (`Forward.St`); what makes
   this a machine of its own are the CHANNEL-LEVEL events that act on several HTLCs at once and the interference between
   HTLCs, both computed from the global state:
     * one `commitment_signed` / `revoke_and_ack` of the next hop covers every pending removal; one holder-commitment /
       commitment-secret `ChannelMonitorUpdate` completion covers them all;
     * one completion notice may cover the `PaymentPreimage` updates of several HTLCs (`completeUp ids`);
     * the upstream channel's completion actions run only when its WHOLE `in_flight_monitor_updates` list is empty: the
       preimage update of HTLC k is an "other in-flight update" for every j ≠ k (second pass, `secOps`);
     * `raa_monitor_updates_held` is per channel: the `RAAMonitorUpdateBlockingAction` of HTLC j parks the revocation
       update for every k ≠ j (third pass, `terOps`);
     * crash / restart / persistence-mode switches hit every HTLC;
     * the downstream MONITOR sees the transactions of a block (`chainSee`): every input that spends one of our outbound
       HTLC outputs with a preimage goes through the GENERATED de-duplication test of
       `ChannelMonitorImpl::is_resolving_htlc_output` (Generated/ChainClaim.lean) against the still un-drained
       `pending_monitor_events`; the manager later drains the events (`drainEvents`) and claims each event's SOURCE upstream.
   No Mathlib. -/
import LdkModel.Model.Forward
import LdkModel.Generated.ChainClaim
namespace Ldk.FwdMulti
open Ldk Ldk.Forward Ldk.ChainClaimGen

/-- one input of a confirmed transaction that spends one of B's outbound HTLC outputs on the downstream channel with a
    preimage; `accepted` = `HTLCClaim::AcceptedPreimage` (the next hop's HTLC-Success on ITS commitment), otherwise
    `OfferedPreimage` (its preimage spend of B's commitment).  `source` identifies the HTLC (`HTLCSource`), several
    HTLCs may share `hash`. -/
structure Claim where
  accepted : Bool
  source : Nat
  hash : Nat
  amountMsat : Nat
  preimage : Nat
  deriving DecidableEq, Repr

/-- mirrors the tail of `is_resolving_htlc_output` for one preimage claim: de-duplicate against the queued
    `MonitorEvent::HTLCEvent`s (`isDup`: GENERATED test of the arm), else queue `HTLCUpdate { source, Some(preimage), hash, amt/1000 }` -/
def isDup (c : Claim) (upd : HtlcEv) : Bool :=
  if c.accepted then acceptedPreimageDup upd c.source c.hash c.amountMsat
  else offeredPreimageDup upd c.source c.hash c.amountMsat

def resolveClaim (pending : List HtlcEv) (c : Claim) : List HtlcEv :=
  if pending.any (isDup c) then pending
  else pending ++ [⟨c.source, c.hash, some c.preimage, eventValueSat c.amountMsat⟩]

/-- all inputs of all transactions of one `transactions_confirmed` call, in order -/
def resolveBlock (pending : List HtlcEv) (claims : List Claim) : List HtlcEv := claims.foldl resolveClaim pending

structure MSt where
  n : Nat
  hs : Nat → St
  /-- `pending_monitor_events` of the downstream monitor (only `HTLCEvent`s) -/
  events : List HtlcEv := []
  /-- in-flight updates of the upstream channel that belong to none of the tracked HTLCs -/
  extra : Nat := 0

inductive MOp where
  | setSync (b : Bool)
  | recvFulfilDown (i : Nat)
  | recvFailDown (i : Nat)
  /-- ONE `commitment_signed` of the next hop: commits every pending removal -/
  | recvCsDown
  /-- ONE `revoke_and_ack` of the next hop -/
  | recvRaaDown
  /-- one `channel_monitor_updated` notice covering the `PaymentPreimage` updates of these HTLCs -/
  | completeUp (ids : List Nat)
  | completeDownCs
  | completeDownRaa
  /-- an update of the upstream channel unrelated to every tracked HTLC -/
  | handUpExtra
  | completeUpExtra
  | crash (lost : Bool)
  | restart (sync : Bool)
  /-- the downstream monitor processes the preimage spends of one block -/
  | chainSee (claims : List Claim)
  /-- the manager polls `release_pending_monitor_events` and handles every `HTLCEvent` carrying a preimage -/
  | drainEvents
  /-- B's timeout spends of these HTLCs are buried `d` deep (a force-close resolves many at once) -/
  | chainTimeout (ids : List Nat) (d : Nat)
  | sendFulfilUp (i : Nat)
  | sendFailUp (i : Nat)
  deriving Repr

/-- the HTLC's `PaymentPreimage` update sits in the upstream channel's `in_flight_monitor_updates` -/
def inflight (s : St) : Bool := s.upPreimageHandedToWatch && !s.upPreimageDurable

/-- first pass: what the event itself does to HTLC `i` -/
def priOps (m : MSt) (op : MOp) (i : Nat) : List Op :=
  match op with
  | .setSync b => [.setSync b]
  | .recvFulfilDown k => if i = k then [.recvFulfilDown] else []
  | .recvFailDown k => if i = k then [.recvFailDown] else []
  | .recvCsDown => [.recvCsDown]
  | .recvRaaDown => [.recvRaaDown]
  | .completeUp ids => if ids.contains i then [.complete .up] else []
  | .completeDownCs => [.complete .downCs]
  | .completeDownRaa => [.complete .downRaa]
  | .handUpExtra => [.handUpOther]
  | .completeUpExtra => if m.extra != 0 then [.completeUpOther] else []
  | .crash lost => [.crash lost]
  | .restart sy => [.restart sy]
  | .chainSee _ => []
  | .drainEvents => (m.events.filter (fun ev => ev.source == i && ev.preimage.isSome)).map (fun _ => Op.chainPreimage)
  | .chainTimeout ids d => if ids.contains i then [.chainTimeout d] else []
  | .sendFulfilUp k => if i = k then [.sendFulfilUp] else []
  | .sendFailUp k => if i = k then [.sendFailUp] else []

def countOthers (n : Nat) (i : Nat) (p : Nat → Bool) : Nat := ((List.range n).filter (fun k => k != i && p k)).length

/-- second pass: upstream in-flight updates of the OTHER HTLCs that appeared / completed in the first pass -/
def secOps (n : Nat) (before after : Nat → St) (i : Nat) : List Op :=
  List.replicate (countOthers n i fun k => !inflight (before k) && inflight (after k)) Op.handUpOther ++
  List.replicate (countOthers n i fun k => inflight (before k) && !inflight (after k)) Op.completeUpOther

/-- third pass: RAA blockers of the OTHER HTLCs that were registered / removed in the first two passes -/
def terOps (n : Nat) (before after : Nat → St) (i : Nat) : List Op :=
  List.replicate (countOthers n i fun k => !(before k).blocker && (after k).blocker) Op.addDownOther ++
  List.replicate (countOthers n i fun k => (before k).blocker && !(after k).blocker) Op.removeDownOther

/-- the specification of one step (see `mstep`) -/
def mstepSpec (m : MSt) (op : MOp) : MSt :=
  let hs1 := fun i => run (m.hs i) (priOps m op i)
  let hs2 := fun i => run (hs1 i) (secOps m.n m.hs hs1 i)
  let hs3 := fun i => run (hs2 i) (terOps m.n m.hs hs2 i)
  let ev := match op with
    | .chainSee claims => resolveBlock m.events claims
    | .drainEvents => []
    | _ => m.events
  let alive := (m.hs 0).alive
  let ex := match op with
    | .handUpExtra => if alive && !(m.hs 0).sync then m.extra + 1 else m.extra
    | .completeUpExtra => if alive then m.extra - 1 else m.extra
    | .crash lost => if alive && !lost then 0 else m.extra
    | .restart sy => if !alive && sy then 0 else m.extra
    | _ => m.extra
  { n := m.n, hs := hs3, events := ev, extra := ex }

/-- one step of the N-machine -/
def mstep (m : MSt) (op : MOp) : MSt := mstepSpec m op

/-- EXECUTION ONLY (driver): the same state with the records of HTLCs `0 … n-1` tabulated, so that a long run does not
    re-evaluate its whole history on every access (`mstep` reads only ids below `n` and the HTLC itself) -/
def retab (m : MSt) : MSt :=
  let arr := ((List.range m.n).map m.hs).toArray
  { m with hs := fun i => arr.getD i Forward.init }

def mrunTab (m : MSt) (ops : List MOp) : MSt := ops.foldl (fun m op => retab (mstep m op)) m

def minit (n : Nat) : MSt := { n := n, hs := fun _ => Forward.init }

def mrun (m : MSt) (ops : List MOp) : MSt := ops.foldl mstep m

/-- every FwdProto op the three passes apply to HTLC `i` for one event -/
def opsFor (m : MSt) (op : MOp) (i : Nat) : List Op :=
  let hs1 := fun i => run (m.hs i) (priOps m op i)
  let hs2 := fun i => run (hs1 i) (secOps m.n m.hs hs1 i)
  priOps m op i ++ secOps m.n m.hs hs1 i ++ terOps m.n m.hs hs2 i

/-! ### coherence of the per-HTLC interference counters with the global state (checked at run time by the driver) -/

def coherent (m : MSt) : Bool :=
  (List.range m.n).all fun i =>
    (m.hs i).alive == (m.hs 0).alive && (m.hs i).sync == (m.hs 0).sync &&
    (m.hs i).downOther == countOthers m.n i (fun k => (m.hs k).blocker) &&
    (m.hs i).upOther == m.extra + countOthers m.n i (fun k => inflight (m.hs k))

/-! ### money -/

/-- the next hop irrevocably has the downstream amount: the removal by fulfil is revoked and that revocation is durable, or
    its preimage spend is on chain -/
def paidDown (s : St) : Bool := (s.down == .removedByFulfil && s.downRaaUpdate == .durable) || s.down == .onchainPreimage

/-- the upstream amount is claimed, or durably claimable: `update_fulfill_htlc` went out, or a DURABLE monitor holds the
    preimage (upstream: `payment_preimages`; downstream: replayed by `pending_claims_to_replay`) -/
def securedUp (s : St) : Bool := s.up == .fulfilSent || s.upPreimageDurable || durDownKnowsPreimage s

def sumOver (ids : List Nat) (f : Nat → Nat) : Nat := (ids.map f).sum

end Ldk.FwdMulti
