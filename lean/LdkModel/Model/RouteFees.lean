/- C16 — the fee recurrence of a found payment path.
   `recompute` mirrors lightning/src/routing/router.rs PaymentPath::update_value_and_recompute_fees
   (as of /repo commit 2ea5edc: the upstream amounts include the final-hop raise)
   statement by statement (the loop runs payee → payer; here it is the evaluation order of a
   structural recursion over the hop list, payer side first).  The per-hop fee is the GENERATED
   `Ldk.Router.compute_fees` (Generated/RouterFees.lean, re-translated from the Rust source every run). -/
import LdkModel.Generated.RouterFees
namespace Ldk.RouteFees
open Ldk Ldk.Router

/-- what the recurrence reads of `PathBuildingHop.candidate`: `fees()` and `htlc_minimum_msat()` -/
structure FeeHop where
  base : Nat      -- candidate.fees().base_msat
  prop : Nat      -- candidate.fees().proportional_millionths
  htlcMin : Nat   -- candidate.htlc_minimum_msat()
  deriving DecidableEq, Repr, Inhabited

/-- loop-carried state after the hops `i+1 ..` have been processed -/
structure St where
  totalFeePaid : Nat   -- `total_fee_paid_msat`
  extra : Nat          -- `extra_contribution_msat`
  nextUseFee : Nat     -- `self.hops[i + 1].0.hop_use_fee_msat` (as just rewritten by iteration i+1)
  fees : List Nat      -- `fee_msat` of hops i+1 .. (hop order)
  amts : List Nat      -- `cur_hop_transferred_amount_msat` of hops i+1 .. (hop order)
  deriving Repr, Inhabited

def St.init : St := { totalFeePaid := 0, extra := 0, nextUseFee := 0, fees := [], amts := [] }

/-- result of one loop iteration up to (excluding) the `if i != 0` block -/
structure HopOut where
  amt : Nat            -- `cur_hop_transferred_amount_msat`
  fee : Nat            -- the new `cur_hop.fee_msat`
  totalFeePaid : Nat
  extra : Nat
  deriving Repr, Inhabited

/-- mirrors the loop body of update_value_and_recompute_fees for hop `h` (`lastHop = (i == len-1)`) -/
def hopStep (value : Nat) (h : FeeHop) (lastHop : Bool) (st : St) : HopOut :=
  -- let mut cur_hop_fees_msat = 0; if !last_hop { cur_hop_fees_msat = hops[i+1].hop_use_fee_msat; }
  let curHopFees := if lastHop then 0 else st.nextUseFee
  -- let mut cur_hop_transferred_amount_msat = total_fee_paid_msat + value_msat + extra_contribution_msat;
  -- (extra_contribution_msat is still 0 in the final hop's iteration; it is set there)
  -- GENERATED from that statement (Generated/RouterFees.lean), so a change of it changes this model
  let amt0 := cur_hop_transferred_amount_msat st.totalFeePaid value st.extra
  -- if let Some(extra_fees_msat) = htlc_minimum_msat().checked_sub(cur_hop_transferred_amount_msat)
  match chkSub h.htlcMin amt0 with
  | some extraFees =>
    if lastHop then
      -- extra_contribution_msat = extra_fees_msat;   cur_hop.fee_msat = cur_hop_transferred_amount_msat
      { amt := amt0 + extraFees, fee := amt0 + extraFees, totalFeePaid := st.totalFeePaid, extra := extraFees }
    else
      -- total_fee_paid_msat += extra_fees_msat; cur_hop_fees_msat += extra_fees_msat;  fee_msat = cur_hop_fees_msat
      { amt := amt0 + extraFees, fee := curHopFees + extraFees, totalFeePaid := st.totalFeePaid + extraFees, extra := st.extra }
  | none =>
    { amt := amt0, fee := if lastHop then amt0 else curHopFees, totalFeePaid := st.totalFeePaid, extra := st.extra }

/-- the iterations for hops that are not the first one (`i != 0`): they also recompute
    `hop_use_fee_msat` with `compute_fees`; `none` = the `unreachable!()` arm (fee overflow) -/
def go (value : Nat) : List FeeHop → Option St
  | [] => some St.init
  | h :: rest =>
    match go value rest with
    | none => none
    | some st =>
      let o := hopStep value h rest.isEmpty st
      match compute_fees o.amt h.base h.prop with
      | none => none
      | some newFee =>
        some { totalFeePaid := o.totalFeePaid + newFee, extra := o.extra, nextUseFee := newFee,
               fees := o.fee :: st.fees, amts := o.amt :: st.amts }

structure Result where
  fees : List Nat      -- the hops' `fee_msat` after the call (hop order; last = value delivered by the path)
  amts : List Nat      -- the amounts the function computed the fees on (`cur_hop_transferred_amount_msat`)
  ret : Nat            -- return value: `value_msat + extra_contribution_msat`
  deriving DecidableEq, Repr, Inhabited

/-- mirrors PaymentPath::update_value_and_recompute_fees(value_msat) -/
def recompute (value : Nat) : List FeeHop → Option Result
  | [] => some { fees := [], amts := [], ret := value }
  | h :: rest =>
    match go value rest with
    | none => none
    | some st =>
      let o := hopStep value h rest.isEmpty st    -- i == 0: `hop_use_fee_msat` is not recomputed
      some { fees := o.fee :: st.fees, amts := o.amt :: st.amts, ret := value + o.extra }

/-- the amount the HTLC over each hop carries, as the route encodes it: hop i forwards
    `fee_msat i + fee_msat (i+1) + …` (the last `fee_msat` is the value delivered) -/
def htlcAmounts : List Nat → List Nat
  | [] => []
  | f :: rest => (f + (htlcAmounts rest).headD 0) :: htlcAmounts rest

/-- "every forwarding node is paid its policy fee": for consecutive hops, the amount entering the
    node exceeds the amount leaving it by at least `compute_fees` of the amount it forwards -/
def MarginsOK : List FeeHop → List Nat → Prop
  | _ :: h' :: hs, a :: a' :: as =>
      (∃ f, compute_fees a' h'.base h'.prop = some f ∧ a' + f ≤ a) ∧ MarginsOK (h' :: hs) (a' :: as)
  | _, _ => True

/-- every hop carries at least its channel's `htlc_minimum_msat` -/
def MinsOK : List FeeHop → List Nat → Prop
  | h :: hs, a :: as => h.htlcMin ≤ a ∧ MinsOK hs as
  | _, _ => True

/-- exactness: each amount is exactly the larger of the hop's own minimum and what the next hop
    receives plus that hop's policy fee — so whatever an amount was raised by to meet a minimum is
    contained in the `fee_msat` of the hop (`a = fee_msat + a'`), i.e. reported as fee. -/
def ExactOK : List FeeHop → List Nat → Prop
  | h :: h' :: hs, a :: a' :: as =>
      (∃ f, compute_fees a' h'.base h'.prop = some f ∧ a = max h.htlcMin (a' + f)) ∧
      ExactOK (h' :: hs) (a' :: as)
  | _, _ => True

/-! ### PaymentPath::max_final_value_msat -/

/-- mirrors blinded_path/payment.rs compute_aggregated_base_prop_fee on the fees `(base, prop)` of a hop
    list given payer side first (the Rust loop runs `hops_fees.rev()`: the LAST hop is folded in first);
    the two update statements of the loop body are GENERATED (`agg_base_step`, `agg_prop_step`);
    `none` = `Err(())` (u64 overflow) -/
def aggregateFees : List (Nat × Nat) → Option (Nat × Nat)
  | [] => some (0, 0)
  | f :: rest =>
    match aggregateFees rest with
    | none => none
    | some (curBase, curProp) =>
      match agg_base_step curBase f.1 f.2, agg_prop_step curProp f.2 with
      | some nb, some np => some (nb, np)
      | _, _ => none

/-- what max_final_value_msat reads of a hop: candidate.fees(), effective_capacity(), the liquidity
    already used on the candidate -/
structure MHop where
  base : Nat
  prop : Nat
  cap : EffectiveCapacity
  used : Nat
  deriving Repr, Inhabited

inductive MaxFinal where
  | ok (idx value : Nat)    -- Ok((lowest_value_contrib_hop, max_path_contribution_msat))
  | err (idx : Nat)         -- Err(idx + 1): the aggregated fees of the hops after `idx` overflow
  | panic                   -- `debug_assert!(false)`: the aggregated base fee exceeds the hop's maximum
  deriving DecidableEq, Repr, Inhabited

/-- the bound of ONE hop given the hops after it: generated `hop_max_msat` and
    `hop_max_final_value_contribution`, clamped to u64 (`try_into().unwrap_or(u64::MAX)`) -/
def hopContribution (pow : Nat) (h : MHop) (rest : List MHop) : Option (Option Nat) :=
  match aggregateFees (rest.map fun r => (r.base, r.prop)) with
  | none => none
  | some (b, p) => some ((hop_max_final_value_contribution (hop_max_msat h.cap pow h.used) b p).map (Nat.min · U64_MAX))

/-- mirrors the loop of PaymentPath::max_final_value_msat (hop `idx` is the head of the remaining list) -/
def maxFinalGo (pow : Nat) : Nat → List MHop → Nat × Nat → MaxFinal
  | _, [], best => .ok best.1 best.2
  | idx, h :: rest, best =>
    match hopContribution pow h rest with
    | none => .err (idx + 1)
    | some none => .panic
    | some (some c) => maxFinalGo pow (idx + 1) rest (if c ≤ best.2 then (idx, c) else best)

def maxFinalValue (pow : Nat) (hops : List MHop) : MaxFinal := maxFinalGo pow 0 hops (0, U64_MAX)

end Ldk.RouteFees
