/- C16 — the fee recurrence of a found payment path.
   `recompute` mirrors lightning/src/routing/router.rs PaymentPath::update_value_and_recompute_fees
   (as of /repo commit 2ea5edc: the upstream amounts include the final-hop raise)
   statement by statement (the loop runs payee → payer; here it is the evaluation order of a
   structural recursion over the hop list, payer side first).  The per-hop fee is the GENERATED
   `Ldk.Router.compute_fees` (Generated/RouterFees.lean, re-translated from the Rust source every run). -/
import LdkModel.Generated.RouterFees
namespace Ldk.RouteFees
open Ldk Ldk.Router

/-- what the recurrence reads of `PathBuildingHop.candidate`: `fees()` and `htlc_minimum_msat()` -/
structure FeeHop where
  base : Nat      -- candidate.fees().base_msat
  prop : Nat      -- candidate.fees().proportional_millionths
  htlcMin : Nat   -- candidate.htlc_minimum_msat()
  deriving DecidableEq, Repr, Inhabited

/-- loop-carried state after the hops `i+1 ..` have been processed -/
structure St where
  totalFeePaid : Nat   -- `total_fee_paid_msat`
  extra : Nat          -- `extra_contribution_msat`
  nextUseFee : Nat     -- `self.hops[i + 1].0.hop_use_fee_msat` (as just rewritten by iteration i+1)
  fees : List Nat      -- `fee_msat` of hops i+1 .. (hop order)
  amts : List Nat      -- `cur_hop_transferred_amount_msat` of hops i+1 .. (hop order)
  deriving Repr, Inhabited

def St.init : St := { totalFeePaid := 0, extra := 0, nextUseFee := 0, fees := [], amts := [] }

/-- result of one loop iteration up to (excluding) the `if i != 0` block -/
structure HopOut where
  amt : Nat            -- `cur_hop_transferred_amount_msat`
  fee : Nat            -- the new `cur_hop.fee_msat`
  totalFeePaid : Nat
  extra : Nat
  deriving Repr, Inhabited

/-- mirrors the loop body of update_value_and_recompute_fees for hop `h` (`lastHop = (i == len-1)`) -/
def hopStep (value : Nat) (h : FeeHop) (lastHop : Bool) (st : St) : HopOut :=
  -- let mut cur_hop_fees_msat = 0; if !last_hop { cur_hop_fees_msat = hops[i+1].hop_use_fee_msat; }
  let curHopFees := if lastHop then 0 else st.nextUseFee
  -- let mut cur_hop_transferred_amount_msat = total_fee_paid_msat + value_msat + extra_contribution_msat;
  -- (extra_contribution_msat is still 0 in the final hop's iteration; it is set there)
  -- GENERATED from that statement (Generated/RouterFees.lean), so a change of it changes this model
  let amt0 := cur_hop_transferred_amount_msat st.totalFeePaid value st.extra
  -- if let Some(extra_fees_msat) = htlc_minimum_msat().checked_sub(cur_hop_transferred_amount_msat)
  match chkSub h.htlcMin amt0 with
  | some extraFees =>
    if lastHop then
      -- extra_contribution_msat = extra_fees_msat;   cur_hop.fee_msat = cur_hop_transferred_amount_msat
      { amt := amt0 + extraFees, fee := amt0 + extraFees, totalFeePaid := st.totalFeePaid, extra := extraFees }
    else
      -- total_fee_paid_msat += extra_fees_msat; cur_hop_fees_msat += extra_fees_msat;  fee_msat = cur_hop_fees_msat
      { amt := amt0 + extraFees, fee := curHopFees + extraFees, totalFeePaid := st.totalFeePaid + extraFees, extra := st.extra }
  | none =>
    { amt := amt0, fee := if lastHop then amt0 else curHopFees, totalFeePaid := st.totalFeePaid, extra := st.extra }

/-- the iterations for hops that are not the first one (`i != 0`): they also recompute
    `hop_use_fee_msat` with `compute_fees`; `none` = the `unreachable!()` arm (fee overflow) -/
def go (value : Nat) : List FeeHop → Option St
  | [] => some St.init
  | h :: rest =>
    match go value rest with
    | none => none
    | some st =>
      let o := hopStep value h rest.isEmpty st
      match compute_fees o.amt h.base h.prop with
      | none => none
      | some newFee =>
        some { totalFeePaid := o.totalFeePaid + newFee, extra := o.extra, nextUseFee := newFee,
               fees := o.fee :: st.fees, amts := o.amt :: st.amts }

structure Result where
  fees : List Nat      -- the hops' `fee_msat` after the call (hop order; last = value delivered by the path)
  amts : List Nat      -- the amounts the function computed the fees on (`cur_hop_transferred_amount_msat`)
  ret : Nat            -- return value: `value_msat + extra_contribution_msat`
  deriving DecidableEq, Repr, Inhabited

/-- mirrors PaymentPath::update_value_and_recompute_fees(value_msat) -/
def recompute (value : Nat) : List FeeHop → Option Result
  | [] => some { fees := [], amts := [], ret := value }
  | h :: rest =>
    match go value rest with
    | none => none
    | some st =>
      let o := hopStep value h rest.isEmpty st    -- i == 0: `hop_use_fee_msat` is not recomputed
      some { fees := o.fee :: st.fees, amts := o.amt :: st.amts, ret := value + o.extra }

/-- the amount the HTLC over each hop carries, as the route encodes it: hop i forwards
    `fee_msat i + fee_msat (i+1) + …` (the last `fee_msat` is the value delivered) -/
def htlcAmounts : List Nat → List Nat
  | [] => []
  | f :: rest => (f + (htlcAmounts rest).headD 0) :: htlcAmounts rest

/-- "every forwarding node is paid its policy fee": for consecutive hops, the amount entering the
    node exceeds the amount leaving it by at least `compute_fees` of the amount it forwards -/
def MarginsOK : List FeeHop → List Nat → Prop
  | _ :: h' :: hs, a :: a' :: as =>
      (∃ f, compute_fees a' h'.base h'.prop = some f ∧ a' + f ≤ a) ∧ MarginsOK (h' :: hs) (a' :: as)
  | _, _ => True

/-- every hop carries at least its channel's `htlc_minimum_msat` -/
def MinsOK : List FeeHop → List Nat → Prop
  | h :: hs, a :: as => h.htlcMin ≤ a ∧ MinsOK hs as
  | _, _ => True

/-- exactness: each amount is exactly the larger of the hop's own minimum and what the next hop
    receives plus that hop's policy fee — so whatever an amount was raised by to meet a minimum is
    contained in the `fee_msat` of the hop (`a = fee_msat + a'`), i.e. reported as fee. -/
def ExactOK : List FeeHop → List Nat → Prop
  | h :: h' :: hs, a :: a' :: as =>
      (∃ f, compute_fees a' h'.base h'.prop = some f ∧ a = max h.htlcMin (a' + f)) ∧
      ExactOK (h' :: hs) (a' :: as)
  | _, _ => True

end Ldk.RouteFees
