/- C03 — model of `lightning/src/ln/outbound_payment.rs`: the per-`PaymentId` state machine of
   `OutboundPayments` (`PendingOutboundPayment::{AwaitingInvoice.., Retryable, Fulfilled, Abandoned}`), the
   pending-event queue it pushes to, and a persisted snapshot for restarts.  No Mathlib (the driver links this).

   Abstractions (said once, here):
   * a part = one `session_priv` (one HTLC / path); `session_privs: HashSet` is a `List` used only through
     membership / filter / emptiness, so duplicates in the list are harmless;
   * amounts, fees, routes, preimages are not modelled (the harness oracles check them on the real code);
   * `is_auto_retryable_now()` and `payment_failed_permanently` are inputs of the op (`fail … auto perm`,
     `sweep autoIds`, `retry … now`): the theorems therefore hold for every retry strategy incl. `Retry::Timeout`;
   * BOLT12 pre-HTLC states (AwaitingInvoice / InvoiceReceived / StaticInvoiceReceived) are one coarse state
     `preHtlc ticksLeft`; `Legacy` (pre-0.0.102) and `AwaitingOffer` are not modelled;
   * `debug_assert!(false)` / `assert!` sites reached by an op (claim/fail of a pre-HTLC payment, finalize of a
     non-fulfilled one) are reported as `panic` with no other effect (the harness builds with debug assertions). -/
import LdkModel.Generated.Consts
namespace Ldk.OutboundPay

abbrev PayId := Nat
abbrev PartId := Nat

/-- `events::PaymentFailureReason` (the variants this module produces) -/
inductive Reason
  | recipientRejected | userAbandoned | retriesExhausted | paymentExpired | routeNotFound
  | unexpectedError | invoiceRequestExpired
  deriving DecidableEq, Repr, Inhabited

/-- mirrors `PendingOutboundPayment` (per payment id; `absent` = no map entry) -/
inductive PState
  | absent
  | preHtlc (ticksLeft : Nat)
  | retryable (parts : List PartId)
  | fulfilled (parts : List PartId) (ticksWithoutParts : Nat)
  | abandoned (parts : List PartId) (reason : Reason)
  deriving DecidableEq, Repr, Inhabited

/-- the four payment events of `events::Event` this module pushes -/
inductive Ev
  | sent (id : PayId)
  | failed (id : PayId) (r : Reason)
  | pathOk (id : PayId) (part : PartId)
  | pathFailed (id : PayId) (part : PartId)
  deriving DecidableEq, Repr, Inhabited

def Ev.id : Ev → PayId
  | .sent i | .failed i _ | .pathOk i _ | .pathFailed i _ => i

/-- what one call returns / pushes: events appended to `pending_events`, `Err(DuplicatePayment)`, and whether
    an assertion of the Rust code fired -/
structure Out where
  evs : List Ev := []
  dup : Bool := false
  panic : Bool := false
  deriving DecidableEq, Repr, Inhabited

/-- mirrors `PendingOutboundPayment::remaining_parts` (as a list) -/
def PState.parts : PState → List PartId
  | .retryable ps | .fulfilled ps _ | .abandoned ps _ => ps
  | _ => []

/-- mirrors `PendingOutboundPayment::is_fulfilled` -/
def PState.isFulfilled : PState → Bool
  | .fulfilled _ _ => true
  | _ => false

/-- states that own HTLCs (Retryable / Fulfilled / Abandoned) -/
def PState.hasHtlcState : PState → Bool
  | .retryable _ | .fulfilled _ _ | .abandoned _ _ => true
  | _ => false

/-- `session_privs.remove(p)` -/
def removePart (p : PartId) (ps : List PartId) : List PartId := ps.filter (· != p)

/-- one operation as seen by a single payment id -/
inductive POp
  | send (parts : List PartId)
  | await (ticks : Nat)
  | invoice (parts : List PartId)
  | claim (part : PartId) (fromOnchain : Bool)
  | finalize (part : PartId)
  | fail (part : PartId) (auto perm : Bool)
  | abandon (r : Reason)
  | retry (parts : List PartId) (now : Bool)
  | sweep (auto : Bool)
  | tick (pendingEv : Bool)
  | insert (part : PartId)
  deriving DecidableEq, Repr

/-- `mark_abandoned(reason)` followed by "`remaining_parts() == 0` ⇒ push `PaymentFailed`, remove the entry"
    (the shared tail of `fail_htlc`, `abandon_payment`, `abandon_with_entry!`, `check_retry_payments`) -/
def abandonNow (id : PayId) (ps : List PartId) (r : Reason) (pre : List Ev) : PState × Out :=
  if ps.isEmpty then (.absent, { evs := pre ++ [.failed id r] }) else (.abandoned ps r, { evs := pre })

/-- the per-payment transition function -/
def stepP (id : PayId) (st : PState) : POp → PState × Out
  -- mirrors OutboundPayments::add_new_pending_payment (Entry::Occupied ⇒ DuplicatePayment)
  | .send parts => match st with
    | .absent => (.retryable parts, {})
    | _ => (st, { dup := true })
  -- mirrors OutboundPayments::add_new_awaiting_invoice
  | .await t => match st with
    | .absent => (.preHtlc t, {})
    | _ => (st, { dup := true })
  -- coarse: send_payment_for_bolt12_invoice_internal (pre-HTLC state replaced by Retryable with the route's parts)
  | .invoice parts => match st with
    | .preHtlc _ => (.retryable parts, {})
    | _ => (st, { dup := true })
  -- mirrors OutboundPayments::claim_htlc
  | .claim p oc => match st with
    | .absent => (st, {})
    | .preHtlc _ => (st, { panic := true })
    | .retryable ps | .abandoned ps _ =>
      if oc && ps.contains p then (.fulfilled (removePart p ps) 0, { evs := [.sent id, .pathOk id p] })
      else (.fulfilled ps 0, { evs := [.sent id] })
    | .fulfilled ps t =>
      if oc && ps.contains p then (.fulfilled (removePart p ps) t, { evs := [.pathOk id p] }) else (st, {})
  -- mirrors OutboundPayments::finalize_claims (one source)
  | .finalize p => match st with
    | .absent => (st, {})
    | .fulfilled ps t => if ps.contains p then (.fulfilled (removePart p ps) t, { evs := [.pathOk id p] }) else (st, {})
    | _ => (st, { panic := true })
  -- mirrors OutboundPayments::fail_htlc (`auto` = is_auto_retryable_now(), `perm` = payment_failed_permanently)
  | .fail p auto perm => match st with
    | .absent => (st, {})
    | .preHtlc _ => (st, { panic := true })
    | .fulfilled ps t => (.fulfilled (removePart p ps) t, {})
    | .retryable ps =>
      if !ps.contains p then (st, {}) else
      if auto && !perm then (.retryable (removePart p ps), { evs := [.pathFailed id p] })
      else abandonNow id (removePart p ps) (if perm then .recipientRejected else .retriesExhausted) [.pathFailed id p]
    | .abandoned ps r =>
      if !ps.contains p then (st, {}) else abandonNow id (removePart p ps) r [.pathFailed id p]
  -- mirrors OutboundPayments::abandon_payment
  | .abandon r => match st with
    | .preHtlc _ => (.absent, { evs := [.failed id r] })
    | .retryable ps => abandonNow id ps r []
    | .abandoned ps r0 => abandonNow id ps r0 []
    | _ => (st, {})
  -- mirrors OutboundPayments::find_route_and_send_payment once a route was found (`now` = is_retryable_now())
  | .retry parts now => match st with
    | .retryable ps => if now then (.retryable (ps ++ parts), {}) else abandonNow id ps .retriesExhausted []
    | .preHtlc _ => (st, { panic := true })
    | _ => (st, {})
  -- mirrors the `retain` at the end of OutboundPayments::check_retry_payments
  | .sweep auto => match st with
    | .retryable ps => if !auto && ps.isEmpty then (.absent, { evs := [.failed id .retriesExhausted] }) else (st, {})
    | .abandoned ps r => if ps.isEmpty then (.absent, { evs := [.failed id r] }) else (st, {})
    | _ => (st, {})
  -- mirrors OutboundPayments::remove_stale_payments (`pendingEv` = a PaymentSent / PaymentPathSuccessful /
  -- PaymentPathFailed for this id is still in pending_events)
  | .tick pendingEv => match st with
    | .fulfilled ps t =>
      if ps.isEmpty && !pendingEv then
        (if t + 1 ≤ IDEMPOTENCY_TIMEOUT_TICKS then (.fulfilled ps (t + 1), {}) else (.absent, {}))
      else (.fulfilled ps 0, {})
    | .preHtlc t => if t > 0 then (.preHtlc (t - 1), {}) else (.absent, { evs := [.failed id .invoiceRequestExpired] })
    | _ => (st, {})
  -- mirrors OutboundPayments::insert_from_monitor_on_startup
  | .insert p => match st with
    | .absent | .preHtlc _ => (.retryable [p], {})
    | .retryable ps => if ps.contains p then (st, {}) else (.retryable (ps ++ [p]), {})
    | _ => (st, {})

/-! ### the whole map, the pending-event queue, the persisted snapshot -/

abbrev Store := List (PayId × PState)

def get (s : Store) (id : PayId) : PState := (s.lookup id).getD .absent
def set (s : Store) (id : PayId) (v : PState) : Store := (id, v) :: s.filter (·.1 != id)

/-- what the monitors report for one HTLC at start-up -/
inductive Res
  | pending | claimed | failed (auto perm : Bool)
  deriving DecidableEq, Repr

inductive Op
  | send (id : PayId) (parts : List PartId)
  | await (id : PayId) (ticks : Nat)
  | invoice (id : PayId) (parts : List PartId)
  | claim (id : PayId) (part : PartId) (fromOnchain : Bool)
  | finalize (id : PayId) (part : PartId)
  | fail (id : PayId) (part : PartId) (auto perm : Bool)
  | abandon (id : PayId) (r : Reason)
  | retry (id : PayId) (parts : List PartId) (now : Bool)
  | sweep (autoIds : List PayId)
  | tick
  | insert (id : PayId) (part : PartId)
  | handle      -- the user drained `pending_events`
  | persist     -- the ChannelManager (map + pending events) was written
  | restore     -- the process restarted from the last written ChannelManager
  deriving DecidableEq, Repr

structure State where
  cur : Store := []
  queue : List Ev := []
  snapCur : Store := []
  snapQueue : List Ev := []
  deriving Repr

def init : State := {}

/-- the scan of `pending_events` in remove_stale_payments -/
def pendingFor (id : PayId) (q : List Ev) : Bool :=
  q.any fun e => match e with
    | .sent i | .pathOk i _ | .pathFailed i _ => i == id
    | .failed _ _ => false

/-- what a global op means for payment `id` in state `s` (none: it does not touch that payment) -/
def proj (id : PayId) (s : State) : Op → Option POp
  | .send i ps => if i = id then some (.send ps) else none
  | .await i t => if i = id then some (.await t) else none
  | .invoice i ps => if i = id then some (.invoice ps) else none
  | .claim i p oc => if i = id then some (.claim p oc) else none
  | .finalize i p => if i = id then some (.finalize p) else none
  | .fail i p a pm => if i = id then some (.fail p a pm) else none
  | .abandon i r => if i = id then some (.abandon r) else none
  | .retry i ps n => if i = id then some (.retry ps n) else none
  | .sweep autoIds => some (.sweep (autoIds.contains id))
  | .tick => some (.tick (pendingFor id s.queue))
  | .insert i p => if i = id then some (.insert p) else none
  | .handle | .persist | .restore => none

def one (s : State) (id : PayId) (pop : POp) : State × Out :=
  let r := stepP id (get s.cur id) pop
  ({ s with cur := set s.cur id r.1, queue := s.queue ++ r.2.evs }, r.2)

/-- an op applied to every entry of the map (`retain`) -/
def all (s : State) (f : PayId → POp) : State × Out :=
  let evs := s.cur.flatMap fun e => (stepP e.1 e.2 (f e.1)).2.evs
  ({ s with cur := s.cur.map (fun e => (e.1, (stepP e.1 e.2 (f e.1)).1)), queue := s.queue ++ evs }, { evs := evs })

def step (s : State) : Op → State × Out
  | .send i ps => one s i (.send ps)
  | .await i t => one s i (.await t)
  | .invoice i ps => one s i (.invoice ps)
  | .claim i p oc => one s i (.claim p oc)
  | .finalize i p => one s i (.finalize p)
  | .fail i p a pm => one s i (.fail p a pm)
  | .abandon i r => one s i (.abandon r)
  | .retry i ps n => one s i (.retry ps n)
  | .insert i p => one s i (.insert p)
  | .sweep autoIds => all s fun k => .sweep (autoIds.contains k)
  | .tick => all s fun k => .tick (pendingFor k s.queue)
  | .handle => ({ s with queue := [] }, {})
  | .persist => ({ s with snapCur := s.cur, snapQueue := s.queue }, {})
  | .restore => ({ s with cur := s.snapCur, queue := s.snapQueue }, {})

/-- run an op list; all pushed events in order -/
def run (s : State) : List Op → State × List Ev
  | [] => (s, [])
  | op :: rest =>
    let r := step s op
    let r' := run r.1 rest
    (r'.1, r.2.evs ++ r'.2)

/-- start-up as done by ChannelManager::read: restore, then `insert_from_monitor_on_startup` for every HTLC the
    (closed-channel) monitors still list, then replay claims (`claim_htlc(.., from_onchain = true)`), then fails -/
def restartOps (view : List (PayId × PartId × Res)) : List Op :=
  .restore ::
  (view.map fun v => Op.insert v.1 v.2.1) ++
  (view.filterMap fun v => match v.2.2 with | .claimed => some (Op.claim v.1 v.2.1 true) | _ => none) ++
  (view.filterMap fun v => match v.2.2 with | .failed a pm => some (Op.fail v.1 v.2.1 a pm) | _ => none)

def nSent (id : PayId) (evs : List Ev) : Nat := (evs.filter (· == Ev.sent id)).length
def isFailedFor (id : PayId) : Ev → Bool
  | .failed i _ => i == id
  | _ => false
def nFailed (id : PayId) (evs : List Ev) : Nat := (evs.filter (isFailedFor id)).length

end Ldk.OutboundPay
