/- C03 — model of `lightning/src/ln/outbound_payment.rs`: the per-`PaymentId` state machine of
   `OutboundPayments` (`PendingOutboundPayment::{AwaitingInvoice.., Retryable, Fulfilled, Abandoned}`), the
   pending-event queue it pushes to, and a persisted snapshot for restarts.  No Mathlib (the driver links this).

   Abstractions (said once, here):
   * a part = one `session_priv` (one HTLC / path); `session_privs: HashSet` is a `List` used only through
     membership / filter / emptiness, so duplicates in the list are harmless;
   * a part's amount is `amt part` (`path.final_value_msat()`; `amt : PartId → Nat` is a field of the global state
     that no op changes) and a Retryable entry carries `pending_amt_msat` / `total_msat`; fees, routes, preimages
     are not modelled (the harness oracles check them on the real code);
   * one send / retry call is the op `sendR` / `retryR`: it carries, per path, what `send_payment_along_path`
     answers (`ok`, `mip` = Err(MonitorUpdateInProgress): the HTLC IS in flight, `err` = any other Err: never
     sent) or `bad` (the path fails pay_route_internal's parameter check: nothing is sent at all); what
     pay_route_internal / handle_pay_route_err make of the result vector is `Generated/OutboundSend.lean`
     (translated from the Rust text on every run); the follow-up `find_route_and_send_payment` of
     handle_pay_route_err is the NEXT op (`retryR` / `abandon .. routeNotFound`), announced by `Out.retryNext`;
   * `send` / `retry` are the all-paths-went-out special cases (`add_new_pending_payment` alone, and a retry whose
     paths all return Ok);
   * `is_auto_retryable_now()` and `payment_failed_permanently` are inputs of the op (`fail … auto perm`,
     `sweep autoIds`, `retry … now`): the theorems therefore hold for every retry strategy incl. `Retry::Timeout`;
   * BOLT12 pre-HTLC states (AwaitingInvoice / InvoiceReceived / StaticInvoiceReceived) are one coarse state
     `preHtlc ticksLeft`; `Legacy` (pre-0.0.102) and `AwaitingOffer` are not modelled;
   * the life-cycle decisions (`mark_fulfilled`, `mark_abandoned`, `remove`, `insert`, `remaining_parts`, `is_fulfilled`,
     `claim_htlc`, `finalize_claims`, `fail_htlc`, `abandon_payment`, `remove_stale_payments`, the final retain of
     `check_retry_payments`, `insert_from_monitor_on_startup`) are NOT written here by hand: `stepP` / `abandonP` /
     `removeSent` look every one of them up in the tables / tests of `Generated/OutboundSend.lean` (second half, translated
     from the Rust text on every run) through `PState.variant`; `Proofs/OutboundPayRefine.lean` proves the result equal to
     the hand-written transition function (`stepP_eq_H`).  Still hand-mirrored: `abandonNow` as used by `retry`/`retryR`
     (the `abandon_with_entry!` macro of find_route_and_send_payment), `send`/`await`/`invoice`, `pendingFor` (the event
     scan of remove_stale_payments; its three event kinds are checked by the translator);
   * `debug_assert!(false)` / `assert!` sites reached by an op (claim/fail of a pre-HTLC payment, finalize of a
     non-fulfilled one) are reported as `panic` with no other effect (the harness builds with debug assertions). -/
import LdkModel.Generated.Consts
import LdkModel.Generated.OutboundSend
namespace Ldk.OutboundPay
open Ldk.OutboundSendGen

abbrev PayId := Nat
abbrev PartId := Nat
/-- `path.final_value_msat()` of the path that belongs to a part (session priv) -/
abbrev Amt := PartId → Nat

/-- Σ of the path amounts of a list of parts -/
def sumAmt (amt : Amt) (ps : List PartId) : Nat := (ps.map amt).sum

/-- what happens to one path of a send / retry call: the answer of `send_payment_along_path` (`ok`; `mip` =
    Err(MonitorUpdateInProgress); `err` = any other Err), or `bad`: the path fails pay_route_internal's parameter
    check (then no path of the call is handed to `send_payment_along_path`) -/
inductive PathIn
  | ok | mip | err | bad
  deriving DecidableEq, Repr, Inhabited

/-- the `Result<(), APIError>` of the send loop -/
def PathIn.sendRes : PathIn → PathRes
  | .ok => .ok | .mip => .mip | _ => .err
/-- the entry of `path_errs` -/
def PathIn.checkRes : PathIn → PathRes
  | .bad => .err | _ => .ok
/-- GROUND TRUTH (not taken from outbound_payment.rs): after `send_payment_along_path` answered, is the HTLC
    committed to the first-hop channel?  `Ok`: yes.  `MonitorUpdateInProgress`: yes — ChannelManager returns it
    after `send_htlc_and_commit` succeeded, the update_add goes out when the monitor update completes.  Any other
    error: no. -/
def PathIn.inFlight : PathIn → Bool
  | .ok | .mip => true
  | _ => false

/-- `events::PaymentFailureReason` (the variants this module produces) -/
inductive Reason
  | recipientRejected | userAbandoned | retriesExhausted | paymentExpired | routeNotFound
  | unexpectedError | invoiceRequestExpired
  deriving DecidableEq, Repr, Inhabited

/-- mirrors `PendingOutboundPayment` (per payment id; `absent` = no map entry) -/
inductive PState
  | absent
  | preHtlc (ticksLeft : Nat)
  | retryable (parts : List PartId) (pend total : Nat)
  | fulfilled (parts : List PartId) (ticksWithoutParts : Nat)
  | abandoned (parts : List PartId) (reason : Reason)
  deriving DecidableEq, Repr, Inhabited

/-- the four payment events of `events::Event` this module pushes -/
inductive Ev
  | sent (id : PayId)
  | failed (id : PayId) (r : Reason)
  | pathOk (id : PayId) (part : PartId)
  | pathFailed (id : PayId) (part : PartId)
  deriving DecidableEq, Repr, Inhabited

def Ev.id : Ev → PayId
  | .sent i | .failed i _ | .pathOk i _ | .pathFailed i _ => i

/-- what one call returns / pushes: events appended to `pending_events`, `Err(DuplicatePayment)`, and whether
    an assertion of the Rust code fired -/
structure Out where
  evs : List Ev := []
  dup : Bool := false
  panic : Bool := false
  /-- the parts handed to `send_payment_along_path` by this call, in order -/
  tried : List PartId := []
  /-- handle_pay_route_err goes on with `find_route_and_send_payment` (the next op) -/
  retryNext : Bool := false
  deriving DecidableEq, Repr, Inhabited

/-- mirrors `PendingOutboundPayment::remaining_parts` (as a list) -/
def PState.parts : PState → List PartId
  | .retryable ps _ _ | .fulfilled ps _ | .abandoned ps _ => ps
  | _ => []

/-- mirrors `PendingOutboundPayment::is_fulfilled` -/
def PState.isFulfilled : PState → Bool
  | .fulfilled _ _ => true
  | _ => false

/-- states that own HTLCs (Retryable / Fulfilled / Abandoned) -/
def PState.hasHtlcState : PState → Bool
  | .retryable _ _ _ | .fulfilled _ _ | .abandoned _ _ => true
  | _ => false

/-- `session_privs.remove(p)` -/
def removePart (p : PartId) (ps : List PartId) : List PartId := ps.filter (· != p)

/-! ### the state seen through the GENERATED variant tables (`Generated/OutboundSend.lean`, second half): every decision of
    `mark_fulfilled` / `mark_abandoned` / `remove` / `insert` / `remaining_parts` is looked up there -/

/-- the `PendingOutboundPayment` variant of a state (`absent` = no map entry ⇒ none); the coarse `preHtlc` stands for
    `AwaitingInvoice` -/
def PState.variant : PState → Option Variant
  | .absent => none
  | .preHtlc _ => some .awaitingInvoice
  | .retryable _ _ _ => some .retryable
  | .fulfilled _ _ => some .fulfilled
  | .abandoned _ _ => some .abandoned

/-- the generated `PaymentFailureReason` names as model reasons -/
def Reason.ofGen : FailReason → Reason
  | .recipientRejected => .recipientRejected
  | .userAbandoned => .userAbandoned
  | .retriesExhausted => .retriesExhausted
  | .paymentExpired => .paymentExpired
  | .routeNotFound => .routeNotFound
  | .unexpectedError => .unexpectedError
  | .invoiceRequestExpired => .invoiceRequestExpired

/-- `remaining_parts()` through the generated table `holdsParts` (`session_privs.len()` vs `0`), as a list -/
def PState.remaining (st : PState) : List PartId :=
  match st.variant with
  | some v => if holdsParts v then st.parts else []
  | none => []

/-- is the entry `Abandoned` (generated table) -/
def PState.isAbandoned (st : PState) : Bool := (st.variant.map isAbandonedV).getD false

/-- replace the `session_privs` field -/
def PState.withParts (ps : List PartId) : PState → PState
  | .retryable _ pe to => .retryable ps pe to
  | .fulfilled _ t => .fulfilled ps t
  | .abandoned _ r => .abandoned ps r
  | st => st

/-- update the `pending_amt_msat` field (only `Retryable` has one) -/
def PState.mapPend (f : Nat → Nat) : PState → PState
  | .retryable ps pe to => .retryable ps (f pe) to
  | st => st

/-- the `reason` stored in an `Abandoned` entry (only read when `isAbandoned`) -/
def PState.storedReason : PState → Reason
  | .abandoned _ r => r
  | _ => .unexpectedError

/-- mirrors `PendingOutboundPayment::mark_fulfilled` via `markFulfilledTo` / `markFulfilledKeepsParts` / `markFulfilledTicks`;
    none = the `{ debug_assert!(false); return; }` arm -/
def markFulfilledP (st : PState) : Option PState :=
  match st.variant with
  | none => none
  | some v => match markFulfilledTo v with
    | some .fulfilled => some (.fulfilled (if markFulfilledKeepsParts then st.parts else []) markFulfilledTicks)
    | _ => none

/-- mirrors `PendingOutboundPayment::mark_abandoned(reason)` via `markAbandonedRewrites` / `markAbandonedTo` /
    `markAbandonedKeepsParts` -/
def markAbandonedP (st : PState) (r : Reason) : PState :=
  match st.variant with
  | none => st
  | some v =>
    if markAbandonedRewrites v then
      match markAbandonedTo v with
      | .abandoned => .abandoned (if markAbandonedKeepsParts v then st.parts else []) r
      | _ => st
    else st

/-- mirrors `PendingOutboundPayment::remove(session_priv, path)` via `removeHolds` / `removeAdjustsPending`: (the returned
    bool, the entry afterwards); none = the `{ debug_assert!(false); false }` arm -/
def removeP (amt : Amt) (p : PartId) (st : PState) : Option (Bool × PState) :=
  match st.variant with
  | none => some (false, st)
  | some v => match removeHolds v with
    | none => none
    | some false => some (false, st)
    | some true =>
      if st.parts.contains p then
        some (true, (st.withParts (removePart p st.parts)).mapPend fun pe => removeAdjustsPending (v == .retryable) pe (amt p))
      else some (false, st)

/-- mirrors `PendingOutboundPayment::insert(session_priv, path)` via `insertAccepts` / `insertAdjustsPending` -/
def insertP (amt : Amt) (p : PartId) (st : PState) : Option (Bool × PState) :=
  match st.variant with
  | none => some (false, st)
  | some v => match insertAccepts v with
    | none => none
    | some false => some (false, st)
    | some true =>
      if st.parts.contains p then some (false, st)
      else some (true, (st.withParts (st.parts ++ [p])).mapPend fun pe => insertAdjustsPending (v == .retryable) pe (amt p))

/-- one operation as seen by a single payment id -/
inductive POp
  | send (parts : List PartId)
  | await (ticks : Nat)
  | invoice (parts : List PartId)
  | claim (part : PartId) (fromOnchain : Bool)
  | finalize (part : PartId)
  | fail (part : PartId) (auto perm : Bool)
  | abandon (r : Reason)
  | retry (parts : List PartId) (now : Bool)
  | sweep (auto : Bool)
  | tick (pendingEv : Bool)
  | insert (part : PartId)
  | sendR (paths : List (PartId × PathIn)) (noSecret : Bool)
  | retryR (paths : List (PartId × PathIn)) (now : Bool) (noSecret : Bool)
  deriving DecidableEq, Repr

/-- `mark_abandoned(reason)` followed by "`remaining_parts() == 0` ⇒ push `PaymentFailed`, remove the entry"
    (the shared tail of `fail_htlc`, `abandon_payment`, `abandon_with_entry!`, `check_retry_payments`) -/
def abandonNow (id : PayId) (ps : List PartId) (r : Reason) (pre : List Ev) : PState × Out :=
  if ps.isEmpty then (.absent, { evs := pre ++ [.failed id r] }) else (.abandoned ps r, { evs := pre })

/-- mirrors OutboundPayments::abandon_payment (`pre` = events already pushed by the caller): `mark_abandoned(reason)`, then by
    the variant the entry has afterwards (generated `abandonArm`): `stored` ⇒ if `abandonStoredTest` push `PaymentFailed` with the
    stored reason and drop the entry; `argument` ⇒ push `PaymentFailed` with `r` and drop the entry; else nothing -/
def abandonP (id : PayId) (st : PState) (r : Reason) (pre : List Ev) : PState × Out :=
  match st.variant with
  | none => (st, { evs := pre })
  | some _ =>
    match (markAbandonedP st r).variant.map abandonArm with
    | some .stored =>
      if abandonStoredTest (markAbandonedP st r).remaining.length then
        (.absent, { evs := pre ++ [.failed id (markAbandonedP st r).storedReason] })
      else (markAbandonedP st r, { evs := pre })
    | some .argument => (.absent, { evs := pre ++ [.failed id r] })
    | _ => (markAbandonedP st r, { evs := pre })

/-- `assert!(payment.insert(session_priv, path))` for every path of a route (create_pending_payment,
    find_route_and_send_payment): the new session privs are pairwise distinct and none is in the set yet -/
def freshFor (ps parts : List PartId) : Bool := decide parts.Nodup && parts.all fun p => !ps.contains p

/-- mirrors `PendingOutboundPayment::remove(session_priv, Some(path))` as called by `remove_session_privs` (result ignored) -/
def removeSent (amt : Amt) (p : PartId) (st : PState) : PState :=
  match removeP amt p st with
  | some r => r.2
  | none => st

/-- mirrors OutboundPayments::handle_pay_route_err without its final `find_route_and_send_payment` (that is the
    next op, `retryNext`): `remove_session_privs` of the paths picked by the arm, `push_path_failed_evs_and_scids`,
    then retry / `abandon_payment(UnexpectedError)` / nothing.  `res` = the per-path results handed to the arm -/
def handleErr (amt : Amt) (id : PayId) (st : PState) (k : SendKind) (res : List (PartId × PathRes))
    (tried : List PartId) : PState × Out :=
  let st1 := (res.filter fun x => handleRemoves k x.2).foldl (fun s x => removeSent amt x.1 s) st
  let evs := if handlePushes k then
      res.filterMap fun x => if pathFailedPushed x.2 then some (Ev.pathFailed id x.1) else none
    else []
  match handleNext k with
  | .retry => (st1, { evs := evs, tried := tried, retryNext := true })
  | .abandonUnexpectedError =>
    ((abandonP id st1 .unexpectedError evs).1, { evs := (abandonP id st1 .unexpectedError evs).2.evs, tried := tried })
  | .none => (st1, { evs := evs, tried := tried })

/-- the fold of pay_route_internal's result loop -/
def flagsOf (amt : Amt) (res : List (PartId × PathRes)) : Flags :=
  res.foldl (fun f x => flagsStep x.2 (amt x.1) f) {}

/-- mirrors OutboundPayments::pay_route_internal followed by `if let Err(e) = res { handle_pay_route_err(e, ..) }`
    (both callers), on the entry `st` that already holds the session privs of `paths` -/
def payRoute (amt : Amt) (id : PayId) (st : PState) (paths : List (PartId × PathIn)) (noSecret : Bool) : PState × Out :=
  if paramError paths.length noSecret false then
    handleErr amt id st .parameterError (paths.map fun x => (x.1, PathRes.err)) []
  else if paths.any (fun x => x.2 == .bad) then
    handleErr amt id st .pathParameterError (paths.map fun x => (x.1, x.2.checkRes)) []
  else
    match sendKindOf (flagsOf amt (paths.map fun x => (x.1, x.2.sendRes))) with
    | .sentAll => (st, { tried := paths.map (·.1) })
    | k => handleErr amt id st k (paths.map fun x => (x.1, x.2.sendRes)) (paths.map (·.1))

/-- the tail of fail_htlc after the abandon decision (the payment is not a probe): `if remaining_parts() == 0 { if let Abandoned
    { reason, .. } { full_failure_ev = PaymentFailed (iff !probe); payment.remove() } }`, then `path_failure` is pushed first, the
    full failure second (generated failDrops / failPushesFailed / failPathEvent) -/
def failTail (id : PayId) (p : PartId) (perm : Bool) (st2 : PState) : PState × Out :=
  if failDrops st2.remaining.length st2.isAbandoned then
    (.absent, { evs := (match failPathEvent false perm with | .paymentPathFailed => [Ev.pathFailed id p] | _ => []) ++
                       (if failPushesFailed false then [Ev.failed id st2.storedReason] else []) })
  else (st2, { evs := match failPathEvent false perm with | .paymentPathFailed => [Ev.pathFailed id p] | _ => [] })

/-- the per-payment transition function -/
def stepP (amt : Amt) (id : PayId) (st : PState) : POp → PState × Out
  -- mirrors OutboundPayments::add_new_pending_payment (Entry::Occupied ⇒ DuplicatePayment)
  | .send parts => match st with
    | .absent =>
      if freshFor [] parts then (.retryable parts (sumAmt amt parts) (sumAmt amt parts), { tried := parts })
      else (st, { panic := true })
    | _ => (st, { dup := true })
  -- mirrors OutboundPayments::add_new_awaiting_invoice
  | .await t => match st with
    | .absent => (.preHtlc t, {})
    | _ => (st, { dup := true })
  -- coarse: send_payment_for_bolt12_invoice_internal (pre-HTLC state replaced by Retryable with the route's parts)
  | .invoice parts => match st with
    | .preHtlc _ =>
      if freshFor [] parts then (.retryable parts (sumAmt amt parts) (sumAmt amt parts), { tried := parts })
      else (st, { panic := true })
    | _ => (st, { dup := true })
  -- mirrors OutboundPayments::claim_htlc (decisions: generated claimSends / claimRemoves / claimPathOk, mark_fulfilled, remove)
  | .claim p oc => match st.variant with
    | none => (st, {})
    | some v =>
      match (if claimSends (isFulfilledV v) then markFulfilledP st else some st) with
      | none => (st, { panic := true })
      | some st1 =>
        if claimRemoves oc then
          match removeP amt p st1 with
          | none => (st, { panic := true })
          | some r => (r.2, { evs := (if claimSends (isFulfilledV v) then [Ev.sent id] else []) ++
                                      (if claimPathOk r.1 then [Ev.pathOk id p] else []) })
        else (st1, { evs := if claimSends (isFulfilledV v) then [Ev.sent id] else [] })
  -- mirrors OutboundPayments::finalize_claims (one source; generated finalizeAsserts / finalizePathOk, remove)
  | .finalize p => match st.variant with
    | none => (st, {})
    | some v =>
      if !finalizeAsserts (isFulfilledV v) then (st, { panic := true }) else
      match removeP amt p st with
      | none => (st, { panic := true })
      | some r => (r.2, { evs := if finalizePathOk r.1 then [Ev.pathOk id p] else [] })
  -- mirrors OutboundPayments::fail_htlc (`auto` = is_auto_retryable_now(), `perm` = payment_failed_permanently; the payment is
  -- not a probe): generated failReturnsNotRemoved / failReturnsFulfilled / failAbandons / failReason / failDrops /
  -- failPushesFailed / failPathEvent, remove, mark_abandoned
  | .fail p auto perm => match st.variant with
    | none => (st, {})
    | some v => match removeP amt p st with
      | none => (st, { panic := true })
      | some r =>
        if failReturnsNotRemoved r.1 then (r.2, {})
        else if failReturnsFulfilled (isFulfilledV v) then (r.2, {})
        else failTail id p perm (if failAbandons false (autoRetryableV v && auto) perm then markAbandonedP r.2 (Reason.ofGen (failReason perm)) else r.2)
  -- mirrors OutboundPayments::abandon_payment
  | .abandon r => abandonP id st r []
  -- mirrors OutboundPayments::find_route_and_send_payment once a route was found (`now` = is_retryable_now()),
  -- every path answering Ok
  | .retry parts now => match st with
    | .retryable ps pe to =>
      if retryOverflows (sumAmt amt parts) pe to then abandonNow id ps .unexpectedError []
      else if !now then abandonNow id ps .retriesExhausted []
      else if !freshFor ps parts then (st, { panic := true })
      else (.retryable (ps ++ parts) (pe + sumAmt amt parts) to, { tried := parts })
    | .preHtlc _ => (st, { panic := true })
    | _ => (st, {})
  -- mirrors the `retain` at the end of OutboundPayments::check_retry_payments (generated sweepAbandons / sweepReason,
  -- mark_abandoned; dropped + PaymentFailed only if the entry is Abandoned afterwards)
  | .sweep auto => match st.variant with
    | none => (st, {})
    | some v =>
      if sweepAbandons (autoRetryableV v && auto) st.remaining.length (isPreHtlcLockIn v) then
        (if (markAbandonedP st (Reason.ofGen sweepReason)).isAbandoned then
          (.absent, { evs := [.failed id (markAbandonedP st (Reason.ofGen sweepReason)).storedReason] })
        else (markAbandonedP st (Reason.ofGen sweepReason), {}))
      else (st, {})
  -- mirrors OutboundPayments::remove_stale_payments (`pendingEv` = a PaymentSent / PaymentPathSuccessful /
  -- PaymentPathFailed for this id is still in pending_events): generated staleArm / staleFulfilled / staleTimerTicks / staleReason
  | .tick pendingEv => match st.variant.map staleArm, st with
    | some .fulfilled, .fulfilled ps t =>
      if (staleFulfilled (ps.isEmpty && !pendingEv) t IDEMPOTENCY_TIMEOUT_TICKS).2 then
        (.fulfilled ps (staleFulfilled (ps.isEmpty && !pendingEv) t IDEMPOTENCY_TIMEOUT_TICKS).1, {})
      else (.absent, {})
    | some .expiration, .preHtlc t =>
      if (staleTimerTicks t).2 then (.absent, { evs := [.failed id (Reason.ofGen staleReason)] })
      else (.preHtlc (staleTimerTicks t).1, {})
    | _, _ => (st, {})
  -- mirrors OutboundPayments::insert_from_monitor_on_startup (generated startupArm / startupNewPending / startupNewTotal, insert)
  | .insert p => match st.variant.map startupArm with
    | none | some .replace => (.retryable [p] (startupNewPending (amt p)) (startupNewTotal (amt p)), {})
    | some .insert => match insertP amt p st with
      | some r => (r.2, {})
      | none => (st, { panic := true })
  -- mirrors OutboundPayments::send_payment_for_non_bolt12_invoice after the route was found:
  -- add_new_pending_payment, pay_route_internal, handle_pay_route_err (up to its find_route_and_send_payment)
  | .sendR paths noSecret => match st with
    | .absent =>
      if freshFor [] (paths.map (·.1)) then
        payRoute amt id (.retryable (paths.map (·.1)) (sumAmt amt (paths.map (·.1))) (sumAmt amt (paths.map (·.1)))) paths noSecret
      else (st, { panic := true })
    | _ => (st, { dup := true })
  -- mirrors OutboundPayments::find_route_and_send_payment once a route was found: overflow test, is_retryable_now,
  -- insertion of the new session privs, pay_route_internal, handle_pay_route_err (up to its retry)
  | .retryR paths now noSecret => match st with
    | .retryable ps pe to =>
      if retryOverflows (sumAmt amt (paths.map (·.1))) pe to then abandonNow id ps .unexpectedError []
      else if !now then abandonNow id ps .retriesExhausted []
      else if !freshFor ps (paths.map (·.1)) then (st, { panic := true })
      else payRoute amt id (.retryable (ps ++ paths.map (·.1)) (pe + sumAmt amt (paths.map (·.1))) to) paths noSecret
    | .preHtlc _ => (st, { panic := true })
    | _ => (st, {})

/-! ### the whole map, the pending-event queue, the persisted snapshot -/

abbrev Store := List (PayId × PState)

def get (s : Store) (id : PayId) : PState := (s.lookup id).getD .absent
def set (s : Store) (id : PayId) (v : PState) : Store := (id, v) :: s.filter (·.1 != id)

/-- what the monitors report for one HTLC at start-up -/
inductive Res
  | pending | claimed | failed (auto perm : Bool)
  deriving DecidableEq, Repr

inductive Op
  | send (id : PayId) (parts : List PartId)
  | await (id : PayId) (ticks : Nat)
  | invoice (id : PayId) (parts : List PartId)
  | claim (id : PayId) (part : PartId) (fromOnchain : Bool)
  | finalize (id : PayId) (part : PartId)
  | fail (id : PayId) (part : PartId) (auto perm : Bool)
  | abandon (id : PayId) (r : Reason)
  | retry (id : PayId) (parts : List PartId) (now : Bool)
  | sweep (autoIds : List PayId)
  | tick
  | insert (id : PayId) (part : PartId)
  | sendR (id : PayId) (paths : List (PartId × PathIn)) (noSecret : Bool)
  | retryR (id : PayId) (paths : List (PartId × PathIn)) (now : Bool) (noSecret : Bool)
  | handle      -- the user drained `pending_events`
  | persist     -- the ChannelManager (map + pending events) was written
  | restore     -- the process restarted from the last written ChannelManager
  deriving DecidableEq, Repr

structure State where
  cur : Store := []
  queue : List Ev := []
  snapCur : Store := []
  snapQueue : List Ev := []
  /-- the amount of each part's path; no op changes it -/
  amt : Amt := fun _ => 0

def init : State := {}

/-- the scan of `pending_events` in remove_stale_payments -/
def pendingFor (id : PayId) (q : List Ev) : Bool :=
  q.any fun e => match e with
    | .sent i | .pathOk i _ | .pathFailed i _ => i == id
    | .failed _ _ => false

/-- what a global op means for payment `id` in state `s` (none: it does not touch that payment) -/
def proj (id : PayId) (s : State) : Op → Option POp
  | .send i ps => if i = id then some (.send ps) else none
  | .await i t => if i = id then some (.await t) else none
  | .invoice i ps => if i = id then some (.invoice ps) else none
  | .claim i p oc => if i = id then some (.claim p oc) else none
  | .finalize i p => if i = id then some (.finalize p) else none
  | .fail i p a pm => if i = id then some (.fail p a pm) else none
  | .abandon i r => if i = id then some (.abandon r) else none
  | .retry i ps n => if i = id then some (.retry ps n) else none
  | .sweep autoIds => some (.sweep (autoIds.contains id))
  | .tick => some (.tick (pendingFor id s.queue))
  | .insert i p => if i = id then some (.insert p) else none
  | .sendR i ps ns => if i = id then some (.sendR ps ns) else none
  | .retryR i ps n ns => if i = id then some (.retryR ps n ns) else none
  | .handle | .persist | .restore => none

def one (s : State) (id : PayId) (pop : POp) : State × Out :=
  let r := stepP s.amt id (get s.cur id) pop
  ({ s with cur := set s.cur id r.1, queue := s.queue ++ r.2.evs }, r.2)

/-- an op applied to every entry of the map (`retain`) -/
def all (s : State) (f : PayId → POp) : State × Out :=
  let evs := s.cur.flatMap fun e => (stepP s.amt e.1 e.2 (f e.1)).2.evs
  ({ s with cur := s.cur.map (fun e => (e.1, (stepP s.amt e.1 e.2 (f e.1)).1)), queue := s.queue ++ evs }, { evs := evs })

def step (s : State) : Op → State × Out
  | .send i ps => one s i (.send ps)
  | .await i t => one s i (.await t)
  | .invoice i ps => one s i (.invoice ps)
  | .claim i p oc => one s i (.claim p oc)
  | .finalize i p => one s i (.finalize p)
  | .fail i p a pm => one s i (.fail p a pm)
  | .abandon i r => one s i (.abandon r)
  | .retry i ps n => one s i (.retry ps n)
  | .insert i p => one s i (.insert p)
  | .sendR i ps ns => one s i (.sendR ps ns)
  | .retryR i ps n ns => one s i (.retryR ps n ns)
  | .sweep autoIds => all s fun k => .sweep (autoIds.contains k)
  | .tick => all s fun k => .tick (pendingFor k s.queue)
  | .handle => ({ s with queue := [] }, {})
  | .persist => ({ s with snapCur := s.cur, snapQueue := s.queue }, {})
  | .restore => ({ s with cur := s.snapCur, queue := s.snapQueue }, {})

/-- run an op list; all pushed events in order -/
def run (s : State) : List Op → State × List Ev
  | [] => (s, [])
  | op :: rest =>
    let r := step s op
    let r' := run r.1 rest
    (r'.1, r.2.evs ++ r'.2)

/-- start-up as done by ChannelManager::read: restore, then `insert_from_monitor_on_startup` for every HTLC the
    (closed-channel) monitors still list, then replay claims (`claim_htlc(.., from_onchain = true)`), then fails -/
def restartOps (view : List (PayId × PartId × Res)) : List Op :=
  .restore ::
  (view.map fun v => Op.insert v.1 v.2.1) ++
  (view.filterMap fun v => match v.2.2 with | .claimed => some (Op.claim v.1 v.2.1 true) | _ => none) ++
  (view.filterMap fun v => match v.2.2 with | .failed a pm => some (Op.fail v.1 v.2.1 a pm) | _ => none)

/-! ### ground truth: which HTLCs of a payment are in flight (an observer of the two interfaces only)

    `flightP` does not look at the payment's entry: a part enters the in-flight set when the call handed it to
    `send_payment_along_path` (`Out.tried`) and the answer was `Ok` or `MonitorUpdateInProgress` (`PathIn.inFlight`);
    it leaves the set when its HTLC is resolved towards the payment: `fail_htlc`, `finalize_claims` (the RAA that
    removes a fulfilled HTLC), or `claim_htlc(.., from_onchain = true)`.  A call that panics has no effect. -/

/-- the parts of a call that are in flight afterwards -/
def accepted (tried : List PartId) (paths : List (PartId × PathIn)) : List PartId :=
  (paths.filter fun x => tried.contains x.1 && x.2.inFlight).map (·.1)

def flightP (fl : List PartId) (pop : POp) (out : Out) : List PartId :=
  if out.panic then fl else
  match pop with
  | .send _ | .invoice _ | .retry _ _ => fl ++ out.tried
  | .sendR paths _ | .retryR paths _ _ => fl ++ accepted out.tried paths
  | .claim p true | .finalize p | .fail p _ _ => removePart p fl
  | _ => fl

/-- the in-flight set of payment `id` after `ops`, starting from `fl` in state `s` -/
def flight (id : PayId) : State → List PartId → List Op → List PartId
  | _, fl, [] => fl
  | s, fl, op :: rest =>
    flight id (step s op).1
      (match proj id s op with
        | some pop => flightP fl pop (stepP s.amt id (get s.cur id) pop).2
        | none => fl) rest

def nSent (id : PayId) (evs : List Ev) : Nat := (evs.filter (· == Ev.sent id)).length
def isFailedFor (id : PayId) : Ev → Bool
  | .failed i _ => i == id
  | _ => false
def nFailed (id : PayId) (evs : List Ev) : Nat := (evs.filter (isFailedFor id)).length

end Ldk.OutboundPay
