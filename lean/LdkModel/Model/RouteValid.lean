/- C16 — "returned routes are valid for the graph and for the caller's constraints".
   Vocabulary (graph, request, route), the declarative specification `RouteOK` (the property's sentence,
   clause by clause), the executable checker `routeValid` (proved equivalent in Props/C16.lean), and the
   reference single-path search `singlePathExists`.  The router's search itself is NOT modelled: every
   route the real `find_route` returns is run through `routeValid` by the driver. -/
import LdkModel.Model.RouteFees
namespace Ldk.RouteValid
open Ldk Ldk.Router Ldk.RouteFees

/-- one direction of a channel as the `NetworkGraph` holds it (ChannelInfo + ChannelUpdateInfo of that
    direction). A direction without a `channel_update` is not in the list. -/
structure Chan where
  scid : Nat
  src : Nat              -- forwarding node (DirectedChannelInfo::source)
  dst : Nat              -- receiving node (DirectedChannelInfo::target)
  enabled : Bool
  htlcMin : Nat
  htlcMax : Nat
  cap : Option Nat       -- capacity_sats * 1000, if known
  base : Nat
  prop : Nat
  cltv : Nat             -- cltv_expiry_delta of the direction's policy
  deriving DecidableEq, Repr, Inhabited

abbrev Graph := List Chan

/-- the caller's request: RouteParameters / PaymentParameters (clear payee, no hints, no first hops) -/
structure Params where
  payer : Nat
  payee : Nat
  amount : Nat            -- final_value_msat
  maxFee : Option Nat     -- max_total_routing_fee_msat
  maxCltv : Nat           -- max_total_cltv_expiry_delta
  maxPaths : Nat          -- max_path_count
  maxLen : Nat            -- max_path_length
  finalCltv : Nat         -- payee.final_cltv_expiry_delta
  excluded : List Nat     -- previously_failed_channels
  deriving Repr, Inhabited

/-- router.rs `RouteHop`: the channel used to reach `node`, `fee_msat`, `cltv_expiry_delta` -/
structure RHop where
  scid : Nat
  node : Nat
  fee : Nat
  cltv : Nat
  deriving DecidableEq, Repr, Inhabited

abbrev RPath := List RHop
abbrev Route := List RPath

/-- the graph's entry for channel `scid` in direction `src → dst` -/
def lookup (g : Graph) (scid src dst : Nat) : Option Chan :=
  g.find? (fun c => c.scid == scid && c.src == src && c.dst == dst)

/-- mirrors routing/gossip.rs DirectedChannelInfo::effective_capacity -/
def Chan.effectiveCapacity (c : Chan) : EffectiveCapacity :=
  match c.cap with
  | some capacity_msat => .total capacity_msat (Nat.min c.htlcMax capacity_msat)
  | none => .advertisedMaxHTLC c.htlcMax

/-- what the channel can carry at most: the generated `max_htlc_from_capacity` at saturation power 0
    (= min(htlc_maximum_msat, capacity)) -/
def Chan.limit (c : Chan) : Nat := max_htlc_from_capacity c.effectiveCapacity 0

/-- amount of the HTLC over the first hop of a (sub)path: `fee_msat`s from there to the end -/
def pathAmount : RPath → Nat
  | [] => 0
  | h :: t => h.fee + pathAmount t

def pathDelivered (path : RPath) : Nat := (path.getLast?.map (·.fee)).getD 0   -- Path::final_value_msat
def pathFee (path : RPath) : Nat := (path.dropLast.map (·.fee)).sum             -- Path::fee_msat
def totalCltv (path : RPath) : Nat := (path.map (·.cltv)).sum                   -- Path::total_cltv_expiry_delta
def delivered (r : Route) : Nat := (r.map pathDelivered).sum                    -- Route::get_total_amount
def overpaid (p : Params) (r : Route) : Nat := delivered r - p.amount
/-- mirrors Route::get_total_fees: path fees plus the value delivered in excess of the request -/
def totalFees (p : Params) (r : Route) : Nat := overpaid p r + (r.map pathFee).sum

/-- the router only uses channels for which BOTH directions have announced a policy
    (gossip.rs ChannelInfo::as_directed_to / as_directed_from return `None` otherwise) -/
def twoWay (g : Graph) (c : Chan) : Bool := (lookup g c.scid c.dst c.src).isSome

/-- a hop may use channel direction `c` for `amt`: usable (both directions known), enabled, at least
    the minimum, not excluded -/
def HopOK (g : Graph) (p : Params) (c : Chan) (amt : Nat) : Prop :=
  twoWay g c = true ∧ c.enabled = true ∧ c.htlcMin ≤ amt ∧ c.scid ∉ p.excluded

/-- `path`, leaving node `src`, is a connected chain of existing, enabled channel directions ending at
    the payee; every hop carries at least its minimum; every forwarding node keeps at least the fee of
    the policy of the channel it forwards over, and at least that policy's CLTV delta. -/
inductive ChainOK (g : Graph) (p : Params) : Nat → RPath → Prop
  | last (src : Nat) (h : RHop) (c : Chan) :
      lookup g h.scid src h.node = some c → HopOK g p c h.fee →
      h.node = p.payee → p.finalCltv ≤ h.cltv →
      ChainOK g p src [h]
  | cons (src : Nat) (h h' : RHop) (t : RPath) (c c' : Chan) (f : Nat) :
      lookup g h.scid src h.node = some c → HopOK g p c (pathAmount (h :: h' :: t)) →
      lookup g h'.scid h.node h'.node = some c' →
      compute_fees (pathAmount (h' :: t)) c'.base c'.prop = some f → f ≤ h.fee →
      c'.cltv ≤ h.cltv →
      ChainOK g p h.node (h' :: t) →
      ChainOK g p src (h :: h' :: t)

/-- what `paid` exceeds the policy fee of `c` for forwarding `amt` by -/
def feeExcess (c : Chan) (amt paid : Nat) : Nat :=
  match compute_fees amt c.base c.prop with
  | some f => paid - f
  | none => 0

/-- The part of the amount over the first hop of `path` that exists only because a LATER hop was
    deliberately raised to its channel's `htlc_minimum_msat`: for every later hop sitting exactly at
    its minimum, the fee surplus the route reports at the node before it, and — for the final hop —
    also the value delivered beyond the request (`over`). -/
def raisesAfter (g : Graph) (over : Nat) : RPath → Nat
  | h :: h' :: t =>
    (match lookup g h'.scid h.node h'.node with
     | some c' =>
       if pathAmount (h' :: t) = c'.htlcMin then
         feeExcess c' (pathAmount (h' :: t)) h.fee + (if t.isEmpty then over else 0)
       else 0
     | none => 0) + raisesAfter g over (h' :: t)
  | _ => 0

/-- one use of a channel direction by a path, with the amount that counts against its limit -/
structure Use where
  scid : Nat
  src : Nat
  dst : Nat
  counted : Nat
  deriving Repr, Inhabited

def pathUses (g : Graph) (over : Nat) : Nat → RPath → List Use
  | _, [] => []
  | src, h :: t =>
    { scid := h.scid, src := src, dst := h.node,
      counted := pathAmount (h :: t) - raisesAfter g over (h :: t) } :: pathUses g over h.node t

/-- total counted amount all paths of the route put on channel direction `c` -/
def usageOn (g : Graph) (p : Params) (r : Route) (c : Chan) : Nat :=
  (((r.flatMap (pathUses g (overpaid p r) p.payer)).filter
      (fun u => u.scid == c.scid && u.src == c.src && u.dst == c.dst)).map (·.counted)).sum

/-- THE SPECIFICATION (C16, clause by clause). -/
structure RouteOK (g : Graph) (p : Params) (r : Route) : Prop where
  /-- at most the allowed number of paths -/
  paths : r.length ≤ p.maxPaths
  /-- each path: a connected chain payer → … → payee of usable channels, minimums met, nodes paid -/
  chain : ∀ path ∈ r, ChainOK g p p.payer path
  /-- path length within the limit -/
  len : ∀ path ∈ r, path.length ≤ p.maxLen
  /-- total CLTV delta of each path within the limit -/
  cltv : ∀ path ∈ r, totalCltv path ≤ p.maxCltv
  /-- no channel direction carries more than min(htlc_maximum, capacity), counted jointly over all
      paths sharing it (apart from deliberate raises to a later hop's minimum) -/
  capacity : ∀ c ∈ g, usageOn g p r c ≤ c.limit
  /-- the paths together deliver at least the requested amount … -/
  amount : p.amount ≤ delivered r
  /-- … without a superfluous part -/
  needed : ∀ path ∈ r, delivered r - pathDelivered path < p.amount
  /-- total fees (incl. overpayment) within the limit -/
  fee : ∀ m, p.maxFee = some m → totalFees p r ≤ m

/-! ### the executable checker -/

def hopOk (g : Graph) (p : Params) (c : Chan) (amt : Nat) : Bool :=
  twoWay g c && c.enabled && decide (c.htlcMin ≤ amt) && !(p.excluded.contains c.scid)

def chainOk (g : Graph) (p : Params) : Nat → RPath → Bool
  | _, [] => false
  | src, [h] =>
    match lookup g h.scid src h.node with
    | some c => hopOk g p c h.fee && decide (h.node = p.payee) && decide (p.finalCltv ≤ h.cltv)
    | none => false
  | src, h :: h' :: t =>
    match lookup g h.scid src h.node, lookup g h'.scid h.node h'.node with
    | some c, some c' =>
      hopOk g p c (pathAmount (h :: h' :: t)) &&
      (match compute_fees (pathAmount (h' :: t)) c'.base c'.prop with
       | some f => decide (f ≤ h.fee)
       | none => false) &&
      decide (c'.cltv ≤ h.cltv) && chainOk g p h.node (h' :: t)
    | _, _ => false

def chkPaths (p : Params) (r : Route) : Bool := decide (r.length ≤ p.maxPaths)
def chkChain (g : Graph) (p : Params) (r : Route) : Bool := r.all (chainOk g p p.payer)
def chkLen (p : Params) (r : Route) : Bool := r.all (fun path => decide (path.length ≤ p.maxLen))
def chkCltv (p : Params) (r : Route) : Bool := r.all (fun path => decide (totalCltv path ≤ p.maxCltv))
def chkCapacity (g : Graph) (p : Params) (r : Route) : Bool := g.all (fun c => decide (usageOn g p r c ≤ c.limit))
def chkAmount (p : Params) (r : Route) : Bool := decide (p.amount ≤ delivered r)
def chkNeeded (p : Params) (r : Route) : Bool := r.all (fun path => decide (delivered r - pathDelivered path < p.amount))
def chkFee (p : Params) (r : Route) : Bool :=
  match p.maxFee with
  | some m => decide (totalFees p r ≤ m)
  | none => true

/-- THE CHECKER the driver runs on every route the real router returns -/
def routeValid (g : Graph) (p : Params) (r : Route) : Bool :=
  chkPaths p r && chkChain g p r && chkLen p r && chkCltv p r && chkCapacity g p r &&
  chkAmount p r && chkNeeded p r && chkFee p r

/-- name of the first violated clause (driver diagnostics; `valid` iff `routeValid`) -/
def verdict (g : Graph) (p : Params) (r : Route) : String :=
  if !chkPaths p r then "invalid paths"
  else if !chkChain g p r then "invalid chain"
  else if !chkLen p r then "invalid length"
  else if !chkCltv p r then "invalid cltv"
  else if !chkCapacity g p r then "invalid capacity"
  else if !chkAmount p r then "invalid amount"
  else if !chkNeeded p r then "invalid superfluous"
  else if !chkFee p r then "invalid fee"
  else "valid"

/-! ### tie of the fee recurrence to returned routes -/

/-- the `FeeHop`s (policy fees and minimum) of the channels a path uses; `none` if one is unknown -/
def pathFeeHops (g : Graph) : Nat → RPath → Option (List FeeHop)
  | _, [] => some []
  | src, h :: t =>
    match lookup g h.scid src h.node, pathFeeHops g h.node t with
    | some c, some rest => some ({ base := c.base, prop := c.prop, htlcMin := c.htlcMin } :: rest)
    | _, _ => none

/-- `some true`: the path's `fee_msat`s are exactly what `recompute` yields for the value the path
    delivers (whether or not the final hop was raised to its minimum: the raised value is a fixed
    point of the recurrence); `some false` otherwise; `none` only for an empty path -/
def pathMatchesRecurrence (g : Graph) (p : Params) (path : RPath) : Option Bool :=
  if path.isEmpty then none else
  match pathFeeHops g p.payer path with
  | none => some false
  | some hops =>
    match recompute (pathDelivered path) hops with
    | some res => some (res.fees == path.map (·.fee))
    | none => some false

def recurrenceVerdict (g : Graph) (p : Params) (r : Route) : String :=
  let vs := r.map (pathMatchesRecurrence g p)
  if vs.any (· == some false) then "ne" else if vs.any (· == some true) then "eq" else "skip"

/-! ### reference single-path search (for router failures) -/

/-- channel direction usable for the bare requested amount -/
def usable (g : Graph) (p : Params) (c : Chan) : Bool :=
  twoWay g c && c.enabled && decide (c.htlcMin ≤ p.amount) && decide (p.amount ≤ c.limit) && !(p.excluded.contains c.scid)

/-- breadth-first reachability of the payee over usable directions (fees ignored) -/
def bfs (g : Graph) (p : Params) : Nat → List Nat → List Nat → Bool
  | 0, _, _ => false
  | fuel + 1, visited, frontier =>
    if frontier.contains p.payee then true else
    let next := ((g.filter (fun c => usable g p c && frontier.contains c.src && !(visited.contains c.dst))).map (·.dst)).eraseDups
    if next.isEmpty then false else bfs g p fuel (visited ++ next) next

def singlePathExists (g : Graph) (p : Params) : Bool :=
  bfs g p (g.length + 2) [p.payer] [p.payer]

end Ldk.RouteValid
