/- C16 — "returned routes are valid for the graph and for the caller's constraints".
   Vocabulary (graph, request, route), the declarative specification `RouteOK` (the property's sentence,
   clause by clause), the executable checker `routeValid` (proved equivalent in Props/C16.lean), and the
   reference single-path search `singlePathExists`.  The router's search itself is NOT modelled: every
   route the real `find_route` returns is run through `routeValid` by the driver.
   v2: the "graph" is the list of CANDIDATES the router may use (router.rs `CandidateRouteHop`): public
   channel directions, the caller's first hops (`ChannelDetails`), private hops of BOLT 11 route hints and
   blinded payment paths (ONE candidate per path, from the introduction node to the payee). -/
import LdkModel.Model.RouteFees
import LdkModel.Generated.RouterFirstHop
namespace Ldk.RouteValid
open Ldk Ldk.Router Ldk.RouteFees

/-- one candidate hop; `kind` is the GENERATED enumeration of router.rs `CandidateRouteHop`'s variants.
    `publicHop`: one direction of a channel as the `NetworkGraph` holds it (ChannelInfo +
    ChannelUpdateInfo of that direction; a direction without a `channel_update` is not in the list).
    `firstHop` (one of the caller's `first_hops`, payer → counterparty): `scid` =
    ChannelDetails::get_outbound_payment_scid() (the outbound alias if there is one), `alt` = the real
    `short_channel_id` when the channel is ALSO known under it, `htlcMin`/`htlcMax` =
    next_outbound_htlc_minimum_msat / next_outbound_htlc_limit_msat, `enabled` = is_usable.
    `privateHop`: the RouteHintHop's fields (`unbounded` = no htlc_maximum_msat).
    `blinded` / `oneHopBlinded`: a whole BlindedPaymentPath, introduction node → payee; `scid` = index of
    the path in the payee's blinded route hints, fees / CLTV / bounds = its BlindedPayInfo.
    The fields hold the RAW data; what the router reads of them per variant (no fees and no CLTV delta on a
    first hop, the payinfo of a one-hop blinded path ignored, …) is applied by the generated
    `candidate_*` tables through `Chan.feeBase`, `Chan.feeProp`, `Chan.cltvDelta`, `Chan.minMsat`,
    `Chan.effectiveCapacity`. -/
structure Chan where
  scid : Nat
  src : Nat              -- forwarding node (CandidateRouteHop::source)
  dst : Nat              -- receiving node (CandidateRouteHop::target; the payee for a blinded path)
  enabled : Bool
  htlcMin : Nat
  htlcMax : Nat
  cap : Option Nat       -- pub: capacity_sats * 1000, if known
  base : Nat
  prop : Nat
  cltv : Nat             -- cltv_expiry_delta of the direction's policy / hint / payinfo
  kind : CandidateKind := .publicHop
  alt : Option Nat := none
  unbounded : Bool := false
  deriving DecidableEq, Repr, Inhabited

abbrev Graph := List Chan

/-- the caller's request: RouteParameters / PaymentParameters (+ whether `first_hops` was supplied) -/
structure Params where
  payer : Nat
  payee : Nat
  amount : Nat            -- final_value_msat
  maxFee : Option Nat     -- max_total_routing_fee_msat
  maxCltv : Nat           -- max_total_cltv_expiry_delta
  maxPaths : Nat          -- max_path_count
  maxLen : Nat            -- max_path_length
  finalCltv : Nat         -- payee.final_cltv_expiry_delta
  excluded : List Nat     -- previously_failed_channels
  hasFirst : Bool := false         -- `first_hops.is_some()`: the payer's channels are the `first` candidates ONLY
  excludedBlinded : List Nat := [] -- previously_failed_blinded_path_idxs
  deriving Repr, Inhabited

/-- router.rs `RouteHop`: the channel used to reach `node`, `fee_msat`, `cltv_expiry_delta`.
    A path's `BlindedTail` is its last element with `blinded = true`: `scid` = index of the blinded
    path, `node` = the payee, `fee` = BlindedTail::final_value_msat, `cltv` = 0 (so that the hop BEFORE
    it — the one reaching the introduction node — carries the blinded path's aggregated fee and CLTV
    delta, exactly as get_route fills `fee_msat` / `cltv_expiry_delta` of the last unblinded RouteHop;
    BlindedTail::excess_final_cltv_expiry_delta is already part of that hop's `cltv_expiry_delta`:
    add_random_cltv_offset adds the shadow offset to both, Path::total_cltv_expiry_delta sums the
    RouteHops only). -/
structure RHop where
  scid : Nat
  node : Nat
  fee : Nat
  cltv : Nat
  blinded : Bool := false
  deriving DecidableEq, Repr, Inhabited

abbrev RPath := List RHop
abbrev Route := List RPath

/-- the graph's PUBLIC entry for channel `scid` in direction `src → dst` -/
def lookup (g : Graph) (scid src dst : Nat) : Option Chan :=
  g.find? (fun c => c.kind == .publicHop && c.scid == scid && c.src == src && c.dst == dst)

/-- the router only uses public channels for which BOTH directions have announced a policy
    (gossip.rs ChannelInfo::as_directed_to / as_directed_from return `None` otherwise) -/
def twoWay (g : Graph) (c : Chan) : Bool := (lookup g c.scid c.dst c.src).isSome

/-- a first-hop channel is known under its outbound alias AND under its real short_channel_id
    (get_route step (1) `matches_an_scid`; ChannelManager resolves either to the same channel) -/
def Chan.named (c : Chan) (scid : Nat) : Bool := c.scid == scid || c.alt == some scid

/-- the two ids of a first-hop channel from the raw ChannelDetails fields: (`scid`, `alt`) =
    (get_outbound_payment_scid() — generated —, the real short_channel_id if an alias hides it);
    `none` for a channel without any scid (get_route panics on such a first hop) -/
def firstHopIds (outbound_scid_alias short_channel_id : Option Nat) : Option (Nat × Option Nat) :=
  match get_outbound_payment_scid outbound_scid_alias short_channel_id with
  | none => none
  | some out => some (out, if outbound_scid_alias.isSome then short_channel_id else none)

/-- THE CANDIDATE a route hop `h` leaving `src` stands for.
    * a blinded tail: the blinded candidate with that index from `src` (the introduction node, never the
      payer itself);
    * a hop from the payer when `first_hops` was supplied: a first-hop channel to that peer, named by
      its alias or by its real scid (get_route skips the payer's graph channels: `first_hops.is_none() ||
      *source != our_node_id`, and ignores hints naming a direct channel of ours), or else the private hop
      of a ROUTE HINT whose source is the payer (the property's "through the supplied first hops, route
      hints or blinded tails"; get_route takes every hint hop as a last-hop candidate whatever its source —
      router tests `allow_us_being_first_hint`, `first_hop_preferred_over_hint`) — NEVER a channel of the
      graph;
    * otherwise: the usable public channel direction with that scid if there is one (a hint naming a
      channel of the graph becomes a PublicHop), else the private hop of a route hint. -/
def resolve (g : Graph) (p : Params) (src : Nat) (h : RHop) : Option Chan :=
  if h.blinded then
    -- a path has at least one RouteHop: a blinded path whose introduction node is the payer is skipped
    -- (`if our_node_id == *source_node_id { continue }`)
    if src == p.payer then none else
    g.find? (fun c => !candidate_has_scid c.kind && c.scid == h.scid && c.src == src && c.dst == h.node)
  else if !public_candidate_considered (!p.hasFirst) (src == p.payer) then
    match g.find? (fun c => c.kind == .firstHop && c.named h.scid && c.src == src && c.dst == h.node) with
    | some c => some c
    | none => g.find? (fun c => c.kind == .privateHop && c.scid == h.scid && c.src == src && c.dst == h.node)
  else
    match g.find? (fun c => c.kind == .publicHop && c.scid == h.scid && c.src == src && c.dst == h.node && twoWay g c) with
    | some c => some c
    | none => g.find? (fun c => c.kind == .privateHop && c.scid == h.scid && c.src == src && c.dst == h.node)

/-- mirrors routing/gossip.rs DirectedChannelInfo::effective_capacity -/
def Chan.pubCapacity (c : Chan) : EffectiveCapacity :=
  match c.cap with
  | some capacity_msat => .total capacity_msat (Nat.min c.htlcMax capacity_msat)
  | none => .advertisedMaxHTLC c.htlcMax

/-- mirrors router.rs CandidateRouteHop::effective_capacity; the variant → constructor table is
    GENERATED from that function (`candidate_capacity`, Generated/RouterFees.lean) -/
def Chan.effectiveCapacity (c : Chan) : EffectiveCapacity :=
  candidate_capacity c.kind c.pubCapacity c.htlcMax c.unbounded

/-- what the router charges / requires for the candidate (generated per-variant tables on the raw data) -/
def Chan.feeBase (c : Chan) : Nat := (candidate_fees c.kind c.base c.prop).1
def Chan.feeProp (c : Chan) : Nat := (candidate_fees c.kind c.base c.prop).2
def Chan.cltvDelta (c : Chan) : Nat := candidate_cltv_expiry_delta c.kind c.cltv
def Chan.minMsat (c : Chan) : Nat := candidate_htlc_minimum_msat c.kind c.htlcMin

/-- what the channel can carry at most: the generated `max_htlc_from_capacity` at saturation power 0
    (= min(htlc_maximum_msat, capacity)) -/
def Chan.limit (c : Chan) : Nat := max_htlc_from_capacity c.effectiveCapacity 0

/-- THE FirstHop CANDIDATE the router builds from one supplied `ChannelDetails` (get_route: `first_hop_targets` →
    `CandidateRouteHop::FirstHop(FirstHopCandidate { details, … })`), payer `src` → counterparty `dst`:
    ids by `firstHopIds` (generated get_outbound_payment_scid); the raw minimum / maximum are what the TRANSLATED
    FirstHop arms of CandidateRouteHop::htlc_minimum_msat / effective_capacity read from the record
    (Generated/RouterFirstHop.lean) — NOT a field picked by hand. `usable` = ChannelDetails::is_usable.
    `none` for a channel without any scid. The driver builds every `f` candidate of an op line with this function. -/
def firstHopChan (d : FirstHopDetails) (src dst : Nat) (usable : Bool) : Option Chan :=
  match firstHopIds d.outbound_scid_alias d.short_channel_id with
  | none => none
  | some (scid, alt) =>
    some { scid := scid, src := src, dst := dst, enabled := usable,
           htlcMin := first_hop_htlc_minimum_msat d,
           htlcMax := max_htlc_from_capacity (first_hop_effective_capacity d) 0,
           cap := none, base := 0, prop := 0, cltv := 0, kind := .firstHop, alt := alt, unbounded := false }

/-! ### get_route: booking of selected paths in `used_liquidities` (after update_value_and_recompute_fees), over the TRANSLATED
    `add_entry_amounts`, `contributes_sufficient_value`, `spent_on_hop_msat`, `book_used_liquidity` (Generated/RouterFirstHop.lean).
    Not executed by the driver (the statements live inside get_route); Props/C16 proves the aggregate bound over them. -/

/-- one selected path as seen from ONE candidate hop: the fees of the following hops and their value contribution when
    add_entry! admitted the hop (`fee`, `nvc`), the minimal contribution, and what the path was finally built with: value
    contribution `w` and following fees `fee'` after update_value_and_recompute_fees -/
structure Sel where
  fee : Nat
  nvc : Nat
  minimal : Nat
  w : Nat
  fee' : Nat

/-- the selected path was admitted by the translated add_entry! statements against the CURRENT used_liquidities entry, and was
    not built with more than it was admitted for -/
def Sel.ok (hmax : Nat) (used : Option Nat) (s : Sel) : Prop :=
  ∃ v a, add_entry_amounts hmax s.fee (used.getD 0) s.nvc = some (v, a) ∧ contributes_sufficient_value v s.minimal = true ∧
    0 < s.minimal ∧ s.w ≤ v ∧ s.fee' ≤ s.fee

/-- the entry after booking a list of selected paths, one after the other (translated `spent_on_hop_msat`, `book_used_liquidity`) -/
def bookAll : Option Nat → List Sel → Option Nat
  | u, [] => u
  | u, s :: t => bookAll (some (book_used_liquidity u (spent_on_hop_msat s.w s.fee'))) t

/-- every path of the list was admitted against the entry as the paths before it left it -/
inductive AllOK (hmax : Nat) : Option Nat → List Sel → Prop
  | nil (u : Option Nat) : AllOK hmax u []
  | cons (u : Option Nat) (s : Sel) (t : List Sel) : s.ok hmax u →
      AllOK hmax (some (book_used_liquidity u (spent_on_hop_msat s.w s.fee'))) t → AllOK hmax u (s :: t)

/-- amount of the HTLC over the first hop of a (sub)path: `fee_msat`s from there to the end -/
def pathAmount : RPath → Nat
  | [] => 0
  | h :: t => h.fee + pathAmount t

/-- `Path::hops.len()`: the unblinded hops (PaymentParameters::max_path_length is "the maximum number of
    Path::hops in any returned path"; Route::debug_assert_route_meets_params compares the same) -/
def pathLen (path : RPath) : Nat := (path.filter (fun h => !h.blinded)).length
def pathDelivered (path : RPath) : Nat := (path.getLast?.map (·.fee)).getD 0   -- Path::final_value_msat
def pathFee (path : RPath) : Nat := (path.dropLast.map (·.fee)).sum             -- Path::fee_msat
def totalCltv (path : RPath) : Nat := (path.map (·.cltv)).sum                   -- Path::total_cltv_expiry_delta
def delivered (r : Route) : Nat := (r.map pathDelivered).sum                    -- Route::get_total_amount
def overpaid (p : Params) (r : Route) : Nat := delivered r - p.amount
/-- mirrors Route::get_total_fees: path fees plus the value delivered in excess of the request -/
def totalFees (p : Params) (r : Route) : Nat := overpaid p r + (r.map pathFee).sum

/-- usable: a public channel needs both directions known; the other candidates are usable as given -/
def usableEdge (g : Graph) (c : Chan) : Bool := c.kind != .publicHop || twoWay g c

/-- the request excludes the candidate: previously_failed_channels holds the scid the router knows it
    under (`CandidateRouteHop::short_channel_id`), previously_failed_blinded_path_idxs the index of a
    blinded path -/
def excludes (p : Params) (c : Chan) : Bool :=
  if candidate_has_scid c.kind then p.excluded.contains c.scid else p.excludedBlinded.contains c.scid

/-- a hop may use candidate `c` for `amt`: usable (both directions known / is_usable), enabled, at least
    the minimum, not excluded -/
def HopOK (g : Graph) (p : Params) (c : Chan) (amt : Nat) : Prop :=
  usableEdge g c = true ∧ c.enabled = true ∧ c.minMsat ≤ amt ∧ excludes p c = false

/-- `path`, leaving node `src`, is a connected chain of existing, enabled candidates (first hop, public
    channel direction, hint hop, blinded tail) ending at the payee; every hop carries at least its
    minimum; every forwarding node keeps at least the fee of the policy of the channel it forwards over
    (for the introduction node of a blinded tail: the BlindedPayInfo fee on the value delivered), and at
    least that policy's CLTV delta. -/
inductive ChainOK (g : Graph) (p : Params) : Nat → RPath → Prop
  | last (src : Nat) (h : RHop) (c : Chan) :
      resolve g p src h = some c → HopOK g p c h.fee →
      h.node = p.payee → p.finalCltv ≤ h.cltv →
      ChainOK g p src [h]
  | cons (src : Nat) (h h' : RHop) (t : RPath) (c c' : Chan) (f : Nat) :
      h.blinded = false →   -- a blinded path is all-or-nothing and ends the path (its BlindedTail)
      resolve g p src h = some c → HopOK g p c (pathAmount (h :: h' :: t)) →
      resolve g p h.node h' = some c' →
      compute_fees (pathAmount (h' :: t)) c'.feeBase c'.feeProp = some f → f ≤ h.fee →
      c'.cltvDelta ≤ h.cltv →
      ChainOK g p h.node (h' :: t) →
      ChainOK g p src (h :: h' :: t)

/-- what `paid` exceeds the policy fee of `c` for forwarding `amt` by -/
def feeExcess (c : Chan) (amt paid : Nat) : Nat :=
  match compute_fees amt c.feeBase c.feeProp with
  | some f => paid - f
  | none => 0

/-- The part of the amount over the first hop of `path` that exists only because a LATER hop was
    deliberately raised to its channel's `htlc_minimum_msat`: for every later hop sitting exactly at
    its minimum, the fee surplus the route reports at the node before it, and — for the final hop —
    also the value delivered beyond the request (`over`). -/
def raisesAfter (g : Graph) (p : Params) (over : Nat) : RPath → Nat
  | h :: h' :: t =>
    (match resolve g p h.node h' with
     | some c' =>
       if pathAmount (h' :: t) = c'.minMsat then
         feeExcess c' (pathAmount (h' :: t)) h.fee + (if t.isEmpty then over else 0)
       else 0
     | none => 0) + raisesAfter g p over (h' :: t)
  | _ => 0

/-- one use of a candidate by a path, with the amount that counts against its limit.  The candidate is
    the RESOLVED one: a first-hop channel named by its alias in one path and by its real scid in another
    is the same channel (`resolve` / `Chan.named`), so the two uses are counted jointly. -/
structure Use where
  edge : Option Chan
  counted : Nat
  deriving Repr, Inhabited

def pathUses (g : Graph) (p : Params) (over : Nat) : Nat → RPath → List Use
  | _, [] => []
  | src, h :: t =>
    { edge := resolve g p src h,
      counted := pathAmount (h :: t) - raisesAfter g p over (h :: t) } :: pathUses g p over h.node t

/-- total counted amount all paths of the route put on candidate `c` -/
def usageOn (g : Graph) (p : Params) (r : Route) (c : Chan) : Nat :=
  (((r.flatMap (pathUses g p (overpaid p r) p.payer)).filter
      (fun u => u.edge == some c)).map (·.counted)).sum

/-- THE SPECIFICATION (C16, clause by clause). -/
structure RouteOK (g : Graph) (p : Params) (r : Route) : Prop where
  /-- at most the allowed number of paths -/
  paths : r.length ≤ p.maxPaths
  /-- each path: a connected chain payer → … → payee of usable channels, minimums met, nodes paid -/
  chain : ∀ path ∈ r, ChainOK g p p.payer path
  /-- path length (the number of `Path::hops`: a blinded tail is not a `RouteHop`) within the limit -/
  len : ∀ path ∈ r, pathLen path ≤ p.maxLen
  /-- total CLTV delta of each path within the limit -/
  cltv : ∀ path ∈ r, totalCltv path ≤ p.maxCltv
  /-- no channel direction carries more than min(htlc_maximum, capacity), counted jointly over all
      paths sharing it (apart from deliberate raises to a later hop's minimum) -/
  capacity : ∀ c ∈ g, usageOn g p r c ≤ c.limit
  /-- the paths together deliver at least the requested amount … -/
  amount : p.amount ≤ delivered r
  /-- … without a superfluous part -/
  needed : ∀ path ∈ r, delivered r - pathDelivered path < p.amount
  /-- total fees (incl. overpayment) within the limit -/
  fee : ∀ m, p.maxFee = some m → totalFees p r ≤ m

/-! ### the executable checker -/

def hopOk (g : Graph) (p : Params) (c : Chan) (amt : Nat) : Bool :=
  usableEdge g c && c.enabled && decide (c.minMsat ≤ amt) && !(excludes p c)

def chainOk (g : Graph) (p : Params) : Nat → RPath → Bool
  | _, [] => false
  | src, [h] =>
    match resolve g p src h with
    | some c => hopOk g p c h.fee && decide (h.node = p.payee) && decide (p.finalCltv ≤ h.cltv)
    | none => false
  | src, h :: h' :: t =>
    match resolve g p src h, resolve g p h.node h' with
    | some c, some c' =>
      !h.blinded && hopOk g p c (pathAmount (h :: h' :: t)) &&
      (match compute_fees (pathAmount (h' :: t)) c'.feeBase c'.feeProp with
       | some f => decide (f ≤ h.fee)
       | none => false) &&
      decide (c'.cltvDelta ≤ h.cltv) && chainOk g p h.node (h' :: t)
    | _, _ => false

def chkPaths (p : Params) (r : Route) : Bool := decide (r.length ≤ p.maxPaths)
def chkChain (g : Graph) (p : Params) (r : Route) : Bool := r.all (chainOk g p p.payer)
def chkLen (p : Params) (r : Route) : Bool := r.all (fun path => decide (pathLen path ≤ p.maxLen))
def chkCltv (p : Params) (r : Route) : Bool := r.all (fun path => decide (totalCltv path ≤ p.maxCltv))
def chkCapacity (g : Graph) (p : Params) (r : Route) : Bool := g.all (fun c => decide (usageOn g p r c ≤ c.limit))
def chkAmount (p : Params) (r : Route) : Bool := decide (p.amount ≤ delivered r)
def chkNeeded (p : Params) (r : Route) : Bool := r.all (fun path => decide (delivered r - pathDelivered path < p.amount))
def chkFee (p : Params) (r : Route) : Bool :=
  match p.maxFee with
  | some m => decide (totalFees p r ≤ m)
  | none => true

/-- THE CHECKER the driver runs on every route the real router returns -/
def routeValid (g : Graph) (p : Params) (r : Route) : Bool :=
  chkPaths p r && chkChain g p r && chkLen p r && chkCltv p r && chkCapacity g p r &&
  chkAmount p r && chkNeeded p r && chkFee p r

/-- name of the first violated clause (driver diagnostics; `valid` iff `routeValid`) -/
def verdict (g : Graph) (p : Params) (r : Route) : String :=
  if !chkPaths p r then "invalid paths"
  else if !chkChain g p r then "invalid chain"
  else if !chkLen p r then "invalid length"
  else if !chkCltv p r then "invalid cltv"
  else if !chkCapacity g p r then "invalid capacity"
  else if !chkAmount p r then "invalid amount"
  else if !chkNeeded p r then "invalid superfluous"
  else if !chkFee p r then "invalid fee"
  else "valid"

/-! ### tie of the fee recurrence to returned routes -/

/-- the `FeeHop`s (policy fees and minimum) of the channels a path uses; `none` if one is unknown -/
def pathFeeHops (g : Graph) (p : Params) : Nat → RPath → Option (List FeeHop)
  | _, [] => some []
  | src, h :: t =>
    match resolve g p src h, pathFeeHops g p h.node t with
    | some c, some rest => some ({ base := c.feeBase, prop := c.feeProp, htlcMin := c.minMsat } :: rest)
    | _, _ => none

/-- `some true`: the path's `fee_msat`s are exactly what `recompute` yields for the value the path
    delivers (whether or not the final hop was raised to its minimum: the raised value is a fixed
    point of the recurrence); `some false` otherwise; `none` only for an empty path -/
def pathMatchesRecurrence (g : Graph) (p : Params) (path : RPath) : Option Bool :=
  if path.isEmpty then none else
  match pathFeeHops g p p.payer path with
  | none => some false
  | some hops =>
    match recompute (pathDelivered path) hops with
    | some res => some (res.fees == path.map (·.fee))
    | none => some false

def recurrenceVerdict (g : Graph) (p : Params) (r : Route) : String :=
  let vs := r.map (pathMatchesRecurrence g p)
  if vs.any (· == some false) then "ne" else if vs.any (· == some true) then "eq" else "skip"

/-! ### reference single-path search (for router failures) -/

/-- candidate usable for the bare requested amount (from the payer: the first hops and hint hops only, if first hops were supplied) -/
def usable (g : Graph) (p : Params) (c : Chan) : Bool :=
  usableEdge g c && c.enabled && decide (c.minMsat ≤ p.amount) && decide (p.amount ≤ c.limit) && !(excludes p c) &&
  (if c.src == p.payer then
     (if p.hasFirst then
        (c.kind == .firstHop ||
         -- a hint hop starting at the payer, unless it names one of our channels to that peer (get_route ignores that hint)
         (c.kind == .privateHop && !(g.any (fun f => f.kind == .firstHop && f.named c.scid && f.src == c.src && f.dst == c.dst))))
      else (c.kind == .publicHop || c.kind == .privateHop))
   else c.kind != .firstHop)

/-- breadth-first reachability of the payee over usable directions (fees ignored) -/
def bfs (g : Graph) (p : Params) : Nat → List Nat → List Nat → Bool
  | 0, _, _ => false
  | fuel + 1, visited, frontier =>
    if frontier.contains p.payee then true else
    let next := ((g.filter (fun c => usable g p c && frontier.contains c.src && !(visited.contains c.dst))).map (·.dst)).eraseDups
    if next.isEmpty then false else bfs g p fuel (visited ++ next) next

def singlePathExists (g : Graph) (p : Params) : Bool :=
  bfs g p (g.length + 2) [p.payer] [p.payer]

end Ldk.RouteValid
