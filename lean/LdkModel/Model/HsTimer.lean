import LdkModel.Generated.PeerTimer
/- C15: the handshake-timeout branch of PeerManager::timer_tick_occurred (peer_handler.rs), decisions
   translated by tools/gen_peer_timer.py. No Mathlib. -/
namespace Ldk.HsTimer
/-- mirrors the `!peer.handshake_complete()` branch: `none` = pushed to descriptors_needing_disconnect,
    `some t'` = the new awaiting_pong_timer_tick_intervals -/
def hsTick (t : Int) : Option Int :=
  if PeerTimer.hsTickDisconnects t then none else some PeerTimer.HS_TICK_SET
/-- `n` timer ticks on a peer that does not complete its handshake -/
def hsTicks : Nat → Int → Option Int
  | 0, t => some t
  | n + 1, t => (hsTick t).bind (hsTicks n)
end Ldk.HsTimer
