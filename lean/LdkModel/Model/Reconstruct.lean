/- C10 — what `ChannelManager::from_channel_manager_data` REBUILDS after the stale / resume decision
   (Model/Restart.lean): which preimages found in monitors are replayed upstream (`pending_claims_to_replay`),
   which HTLCs are failed back (`failed_htlcs`), which own payments are re-inserted / claimed / failed, which queued
   forwards survive, and which BackgroundEvents wake a resumed channel.  Every decision is one of the GENERATED
   predicates of Generated/Reconstruct.lean (re-translated from the Rust text on every run); the composition (loops over
   monitors / channels, the OutboundPayments entry operations) is hand-written and tied by the differential run
   (`recon` / `bgev` ops of the c10 driver against the real read, before any message is exchanged).

   A *node world* = per channel the numeric world of Model/Restart.lean (or none: the manager copy no longer has the
   channel) + what the monitor copy lists + what the manager copy's channel lists; the manager copy's payments and
   queued forwards.  No Mathlib. -/
import LdkModel.Model.Restart
import LdkModel.Generated.Reconstruct
namespace Ldk.Restart

/-- an HTLCSource: a forwarded HTLC is identified by its inbound (channel, htlc id), a part of an own payment by
    (payment id, session key) -/
inductive Src where
  | prev (chan id : Nat)
  | route (pay priv : Nat)
  deriving DecidableEq, Repr, Inhabited

/-- one entry of `ChannelMonitor::get_all_current_outbound_htlcs` -/
structure MonHtlc where
  src : Src
  preimage : Bool
  deriving DecidableEq, Repr, Inhabited

structure ChanW where
  id : Nat
  /-- the numbers `reload` decides on; none: the manager copy has no such channel (closed before it was written) -/
  world : Option World
  /-- monitor copy: get_all_current_outbound_htlcs() -/
  monHtlcs : List MonHtlc
  /-- monitor copy: get_onchain_failed_outbound_htlcs() (its decision is Restart.failedOnReload) -/
  onchainFailed : List Src
  /-- monitor copy: get_claimable_balances().is_empty() -/
  balancesEmpty : Bool
  /-- manager copy's channel: pending_outbound_htlcs (= inflight_htlc_sources() once force_shutdown drained the holding cell) -/
  mgrPending : List Src
  /-- manager copy's channel: what force_shutdown puts in dropped_outbound_htlcs (holding-cell adds, LocalAnnounced HTLCs of a blocked commitment) -/
  mgrDropped : List Src
  deriving DecidableEq, Repr, Inhabited

/-- closed as OutdatedChannelManager by this read -/
def ChanW.stale (c : ChanW) : Bool := match c.world with | some w => w.stale | none => false
/-- `peer_state.channel_by_id.contains_key(channel_id)` once the channel loop is done -/
def ChanW.managerHas (c : ChanW) : Bool := match c.world with | some w => !w.stale | none => false
def ChanW.closed (c : ChanW) : Bool := isChannelClosed c.managerHas

inductive PayState where
  | retryable | fulfilled | abandoned
  deriving DecidableEq, Repr, Inhabited

/-- a PendingOutboundPayment as far as the start-up touches it -/
structure PayRec where
  state : PayState
  privs : List Nat
  /-- is_auto_retryable_now() (never for an entry created on start-up) -/
  autoRetry : Bool
  deriving DecidableEq, Repr, Inhabited

structure NodeW where
  chans : List ChanW
  /-- forward_htlcs / pending_intercepted_htlcs adds of the manager copy, by previous hop -/
  queue : List HtlcRef
  /-- pending_outbound_payments of the manager copy -/
  pays : Nat → Option PayRec

def NodeW.chan? (n : NodeW) (id : Nat) : Option ChanW := n.chans.find? (fun c => c.id == id)

/-! ## pending_claims_to_replay -/

structure Claim where
  src : Src
  downstream : Nat
  downstreamClosed : Bool
  deriving DecidableEq, Repr, Inhabited

-- mirrors the filter_map `outbound_claimed_htlcs_iter` (per monitor entry): `previous_hop_data()` has one element for a
-- forwarded HTLC and none for an own payment (trampoline forwards are not modelled)
def claimDecision (n : NodeW) (h : MonHtlc) : Bool :=
  match h.src with
  | .prev ic _ =>
    match n.chan? ic with
    | some i => claimReplayed h.preimage 1 true i.balancesEmpty
    | none => claimReplayed h.preimage 1 false true
  | .route _ _ => claimReplayed h.preimage 0 false true

def claimsOf (n : NodeW) (c : ChanW) : List Claim :=
  (c.monHtlcs.filter (claimDecision n)).map (fun h => ⟨h.src, c.id, c.closed⟩)

/-- pending_claims_to_replay (every monitor, whether its channel is closed or not) -/
def claims (n : NodeW) : List Claim := n.chans.flatMap (claimsOf n)

/-! ## failed_htlcs -/

inductive FailReason where
  | channelClosed | onChainTimeout
  deriving DecidableEq, Repr, Inhabited

/-- `monitor.get_all_current_outbound_htlcs().contains_key(&source)` / the `found_htlc` search: some entry of the monitor copy has this source -/
def ChanW.monLists (c : ChanW) (s : Src) : Bool := c.monHtlcs.any (fun h => h.src == s)

-- mirrors the stale branch of the channel loop: the dropped_outbound_htlcs that pass the (GENERATED) droppedHtlcFailed test, then every
-- source of inflight_htlc_sources() that no entry of the monitor carries (GENERATED staleHtlcFailed)
def staleFailsOf (c : ChanW) : List (Src × FailReason) :=
  if c.stale then
    (c.mgrDropped.filter (fun s => droppedHtlcFailed (c.monLists s)) ++
     c.mgrPending.filter (fun s => staleHtlcFailed (c.monLists s))).map (fun s => (s, .channelClosed))
  else []

-- mirrors the get_onchain_failed_outbound_htlcs loop of the closed-channel block
def onchainFailsOf (c : ChanW) : List (Src × FailReason) :=
  if closedBlock c.closed then c.onchainFailed.map (fun s => (s, .onChainTimeout)) else []

/-- failed_htlcs, in the order they are carried out -/
def fails (n : NodeW) : List (Src × FailReason) := n.chans.flatMap staleFailsOf ++ n.chans.flatMap onchainFailsOf

/-- the fail-backs that take effect upstream: the fails are QUEUED first, the claims are applied during the read, and a channel
    refuses to fail an HTLC it has already claimed (Generated: claimWinsOverQueuedFail) -/
def effectiveFails (n : NodeW) : List (Src × FailReason) :=
  (fails n).filter (fun f => !(claimWinsOverQueuedFail && (claims n).any (fun cl => cl.src == f.1)))

/-! ## queued forwards -/

def prevHops (c : ChanW) : List HtlcRef :=
  c.monHtlcs.filterMap (fun h => match h.src with | .prev ch id => some ⟨ch, id⟩ | .route _ _ => none)

/-- forward_htlcs after the read: reconcile_pending_htlcs_with_monitor for every forwarded HTLC of every closed channel's monitor -/
def queueAfter (n : NodeW) : List HtlcRef :=
  reconcile n.queue ((n.chans.filter (fun c => closedBlock c.closed)).flatMap prevHops)

/-! ## own payments: insert_from_monitor_on_startup, claim_htlc(from_onchain = true), fail_htlc -/

inductive PEv where
  | sent (pay : Nat)
  | failed (pay : Nat)
  deriving DecidableEq, Repr, Inhabited

structure PSt where
  get : Nat → Option PayRec
  evs : List PEv

def PSt.set (st : PSt) (pay : Nat) (r : Option PayRec) : PSt := { st with get := fun i => if i = pay then r else st.get i }

-- mirrors outbound_payment.rs insert_from_monitor_on_startup + PendingOutboundPayment::insert
def insertPay (st : PSt) (x : Nat × Nat) : PSt :=
  match st.get x.1 with
  | none => st.set x.1 (some ⟨.retryable, [x.2], false⟩)
  | some p =>
    if p.state == .retryable && !p.privs.contains x.2 then st.set x.1 (some { p with privs := p.privs ++ [x.2] }) else st

-- mirrors outbound_payment.rs claim_htlc with from_onchain = true
def claimPay (st : PSt) (x : Nat × Nat) : PSt :=
  match st.get x.1 with
  | none => st
  | some p =>
    { (st.set x.1 (some { p with state := .fulfilled, privs := p.privs.filter (fun q => q != x.2) })) with
      evs := if p.state == .fulfilled then st.evs else st.evs ++ [.sent x.1] }

-- mirrors outbound_payment.rs fail_htlc (no probe, not permanent)
def failPay (st : PSt) (x : Nat × Nat) : PSt :=
  match st.get x.1 with
  | none => st
  | some p =>
    if !p.privs.contains x.2 then st
    else
      let privs' := p.privs.filter (fun q => q != x.2)
      if p.state == .fulfilled then st.set x.1 (some { p with privs := privs' })
      else
        let keep := p.state == .retryable && p.autoRetry
        if privs'.isEmpty && !keep then { (st.set x.1 none) with evs := st.evs ++ [.failed x.1] }
        else st.set x.1 (some { p with privs := privs', state := if keep then p.state else .abandoned })

def routesOf (l : List Src) : List (Nat × Nat) :=
  l.filterMap (fun s => match s with | .route p k => some (p, k) | .prev _ _ => none)

/-- parts handed to insert_from_monitor_on_startup -/
def routeInserts (n : NodeW) : List (Nat × Nat) :=
  (n.chans.filter (fun c => insertOnStartup c.closed true)).flatMap (fun c => routesOf (c.monHtlcs.map (·.src)))

/-- parts handed to claim_htlc in the closed-channel block -/
def routeClaims (n : NodeW) : List (Nat × Nat) :=
  (n.chans.filter (fun c => closedBlock c.closed)).flatMap (fun c => routesOf ((c.monHtlcs.filter (·.preimage)).map (·.src)))

/-- parts handed to fail_htlc at the end of the read -/
def routeFails (n : NodeW) : List (Nat × Nat) := routesOf ((fails n).map (·.1))

/-- pending_outbound_payments and the payment events generated by the read -/
def paysAfter (n : NodeW) : PSt :=
  (routeFails n).foldl failPay ((routeClaims n).foldl claimPay ((routeInserts n).foldl insertPay ⟨n.pays, []⟩))

/-! ## BackgroundEvents of a resumed channel -/

inductive BgEv where
  | regenerated (id : Nat)
  | updatesComplete (highest : Nat)
  | attemptUnblock
  deriving DecidableEq, Repr, Inhabited

def allInFlightCompleted (m : Mgr) (monId : Nat) : Bool :=
  allCompleted ((m.inFlight.filter (fun id => inFlightCompleted id monId)).length) m.inFlight.length

-- mirrors the channel loop after the channel was resumed: handle_in_flight_updates! (only when the manager copy has an in-flight
-- entry: the writer omits empty ones) and the AttemptUnblockMonitorUpdates test
def bgEvents (w : World) : List BgEv :=
  (if inFlightEntryWritten w.mgr.inFlight.length then
     (if mucQueued true (allInFlightCompleted w.mgr w.mon.id) then [.updatesComplete (maxInFlight w.mgr.inFlight)]
      else (replayList w.mgr.inFlight w.mon.id).map .regenerated)
   else []) ++
  (if attemptUnblockQueued (blockedAfter w.mgr w.mon.id).length then [.attemptUnblock] else [])

/-- the manager copy's channel held blocked updates or had updates in flight: it was written with MONITOR_UPDATE_IN_PROGRESS
    set and sends nothing until a completion wakes it -/
def Mgr.paused (m : Mgr) : Bool := !m.inFlight.isEmpty || decide (m.unblockedId < m.latestId)

end Ldk.Restart
