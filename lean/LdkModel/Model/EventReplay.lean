/- C10 — persistent-event re-delivery for an outbound HTLC that is failed from the ChannelMonitor of a CLOSED channel
   (on-chain timeout buried ANTI_REORG_DELAY deep).  `OutboundPayments::fail_htlc` queues `PaymentPathFailed` (+ `PaymentFailed`
   when it was the payment's last part) and attaches the `ReleasePaymentCompleteChannelMonitorUpdate` completion action to ONE
   of them (GENERATED `failHtlcPushes`); once the event carrying it was handled, a `ReleasePaymentComplete` monitor update puts
   the HTLC into `htlcs_resolved_to_user` and the monitor never reports it to a (re)starting ChannelManager again (GENERATED
   `listedAsCurrent` / `listedAsOnchainFailed`).  The application's handler may handle any PREFIX of the pending events and
   ask for the rest to be replayed (`Err(ReplayEvent)`); the node may crash anywhere and restart from ANY manager copy it wrote
   earlier plus the monitor.  The model follows ONE single-part, not auto-retryable payment over the closed channel (the
   duplicative-fail branch of fail_htlc_backwards_internal — completion action released at once — is not reachable then and is
   not modelled).  The table of pushes is a parameter so that Props/C10 can also state what goes wrong for another attachment.
   No Mathlib. -/
import LdkModel.Generated.EventReplay
import LdkModel.Generated.Reconstruct
namespace Ldk.Restart

/-- an entry of `ChannelManager::pending_events` for the payment: is it `Event::PaymentFailed` (else `PaymentPathFailed`), and does
    it carry the completion action that releases the HTLC in the monitor -/
structure QEv where
  terminal : Bool
  release : Bool
  deriving DecidableEq, Repr, Inhabited

/-- what a ChannelManager (live or a written copy) knows -/
structure EMgr where
  /-- the payment is in pending_outbound_payments with its part in flight -/
  part : Bool
  /-- pending_events -/
  queue : List QEv
  /-- the manager has processed the channel's closure (the channel is not in channel_by_id) -/
  knows : Bool
  deriving DecidableEq, Repr, Inhabited

structure ESt where
  live : EMgr
  /-- the last ChannelManager written to disk -/
  disk : EMgr
  /-- monitor (durable): the channel is closed (ChannelForceClosed applied / funding spent) -/
  closed : Bool
  /-- monitor (durable): the HTLC's timeout is buried (an unfiltered candidate of get_onchain_failed_outbound_htlcs) -/
  failedOnchain : Bool
  /-- monitor (durable): the HTLC is in htlcs_resolved_to_user -/
  resolved : Bool
  /-- the application's handler returned Ok for Event::PaymentFailed at some point -/
  handledTerminal : Bool
  deriving DecidableEq, Repr, Inhabited

abbrev Pushes := Bool → List (Bool × Bool)

-- mirrors OutboundPayments::fail_htlc for the payment's only part (full failure) + the caller's completion action
def EMgr.fail (T : Pushes) (m : EMgr) (withAction : Bool) : EMgr :=
  if m.part then { m with part := false, queue := m.queue ++ (T true).map (fun p => ⟨p.1, p.2 && withAction⟩) } else m

/-- `ChannelManager::from_channel_manager_data` for this payment: manager copy `d`, monitor flags.  While the channel is open nothing changes for the payment.  A copy that does not know of
    the closure is stale (the monitor holds at least the ChannelForceClosed update): the channel is closed as OutdatedChannelManager
    and its HTLC failed WITHOUT completion action iff the monitor does not list it (GENERATED staleHtlcFailed); then, the channel
    being closed, insert_from_monitor_on_startup re-creates the part if the monitor lists it, and a listed on-chain-failed HTLC is
    failed WITH the completion action (failed_htlcs are carried out at the end of the read, in this order). -/
def reloadE (T : Pushes) (d : EMgr) (closed failedOnchain resolved : Bool) : EMgr :=
  if !closed then d else
  let cur := listedAsCurrent resolved
  let onf := failedOnchain && listedAsOnchainFailed resolved
  let staleFail := !d.knows && d.part && staleHtlcFailed cur
  let m1 : EMgr := { part := d.part || (insertOnStartup true true && cur), queue := d.queue, knows := true }
  let m2 := if staleFail then m1.fail T false else m1
  if closedBlock true && onf then m2.fail T true else m2

inductive EOp where
  /-- the channel is closed and the live manager processes it -/
  | close
  /-- the HTLC-timeout reaches ANTI_REORG_DELAY in the monitor and the live manager processes the MonitorEvent::HTLCEvent -/
  | timeout
  /-- process_pending_events: the handler returns Ok for the first k pending events and Err(ReplayEvent) for the next -/
  | handle (k : Nat)
  /-- the ChannelManager is written -/
  | persist
  /-- crash; restart from the last written manager and the monitor -/
  | crash
  deriving DecidableEq, Repr, Inhabited

def estep (T : Pushes) (s : ESt) : EOp → ESt
  | .close => { s with closed := true, live := { s.live with knows := true } }
  | .timeout =>
    if s.live.knows && !s.failedOnchain then { s with failedOnchain := true, live := s.live.fail T true } else s
  | .handle k =>
    let h := s.live.queue.take k
    { s with live := { s.live with queue := s.live.queue.drop k },
             handledTerminal := s.handledTerminal || h.any (·.terminal),
             resolved := s.resolved || (actionsOfHandledPrefixOnly && h.any (·.release)) }
  | .persist => { s with disk := s.live }
  | .crash => { s with live := reloadE T s.disk s.closed s.failedOnchain s.resolved }

def ESt.init : ESt := { live := ⟨true, [], false⟩, disk := ⟨true, [], false⟩, closed := false, failedOnchain := false, resolved := false, handledTerminal := false }

def erun (T : Pushes) (ops : List EOp) : ESt := ops.foldl (estep T) ESt.init

/-- Event::PaymentFailed is pending in this manager (it is re-delivered until the handler accepts it) -/
def EMgr.terminalPending (m : EMgr) : Bool := m.queue.any (·.terminal)

end Ldk.Restart
