/- Hand-written part of the commitment builder model (C01): the HTLC trimming / balance computation of
   `SpecTxBuilder::build_commitment_transaction` and the output list of `CommitmentTransaction::new`.
   Everything arithmetic it calls (`commit_tx_fee_sat`, weights, anchors, `saturating_sub_from_funder`) is
   the GENERATED translation in Generated/TxBuilder.lean. -/
import LdkModel.Generated.TxBuilder
namespace Ldk.TxB
open Ldk

/-- the fields of `HTLCOutputInCommitment` that the arithmetic reads -/
structure HtlcIn where
  offered : Bool
  amount_msat : Nat
  deriving DecidableEq, Repr, Inhabited

/-- mirrors the `is_dust` closure inside SpecTxBuilder::build_commitment_transaction -/
def buildIsDust (ty : ChanType) (feerate dustLimit : Nat) (h : HtlcIn) : Bool :=
  let htlc_tx_fee_sat :=
    if ty.anchors then 0
    else feerate * (if h.offered then htlc_timeout_tx_weight ty else htlc_success_tx_weight ty) / 1000
  decide (h.amount_msat / 1000 < dustLimit + htlc_tx_fee_sat)

structure Built where
  toBroadcaster : Nat
  toCountersignatory : Nat
  nondust : List HtlcIn
  dust : List HtlcIn            -- ghost: the trimmed HTLCs
  commitTxFeeSat : Nat
  localBeforeFeeMsat : Nat
  remoteBeforeFeeMsat : Nat
  selfAfterHtlcsMsat : Nat      -- ghost: holder balance after HTLCs, before anchors/fee
  remoteAfterHtlcsMsat : Nat    -- ghost
  deriving Repr

def sumMsat (l : List HtlcIn) : Nat := (l.map (·.amount_msat)).sum

/-- mirrors SpecTxBuilder::build_commitment_transaction; `none` = the Rust `checked_sub(..).unwrap()` panics -/
def buildCommitment (local_ funder : Bool) (chanValueSat valueToSelfMsat : Nat) (htlcs : List HtlcIn)
    (feerate dustLimit : Nat) (ty : ChanType) : Option Built :=
  let localHtlcTotal := sumMsat (htlcs.filter (fun h => h.offered == local_))
  let remoteHtlcTotal := sumMsat (htlcs.filter (fun h => !(h.offered == local_)))
  let nondust := htlcs.filter (fun h => !(buildIsDust ty feerate dustLimit h))
  let dust := htlcs.filter (fun h => buildIsDust ty feerate dustLimit h)
  let fee := commit_tx_fee_sat feerate nondust.length ty
  match chkSub valueToSelfMsat localHtlcTotal with
  | none => none
  | some selfAfter =>
    match chkSub (chanValueSat * 1000) valueToSelfMsat with
    | none => none
    | some remote =>
      match chkSub remote remoteHtlcTotal with
      | none => none
      | some remoteAfter =>
        let anchors := total_anchors_sat ty
        let (localBefore, remoteBefore) := saturating_sub_from_funder funder selfAfter remoteAfter (satMul64 anchors 1000)
        let (valueToSelf, valueToRemote) := saturating_sub_from_funder funder (localBefore / 1000) (remoteBefore / 1000) fee
        let toB := if local_ then valueToSelf else valueToRemote
        let toC := if local_ then valueToRemote else valueToSelf
        some { toBroadcaster := if toB ≥ dustLimit then toB else 0
               toCountersignatory := if toC ≥ dustLimit then toC else 0
               nondust := nondust, dust := dust, commitTxFeeSat := fee
               localBeforeFeeMsat := localBefore, remoteBeforeFeeMsat := remoteBefore
               selfAfterHtlcsMsat := selfAfter, remoteAfterHtlcsMsat := remoteAfter }

def htlcSat (h : HtlcIn) : Nat := h.amount_msat / 1000
def sumSat (l : List HtlcIn) : Nat := (l.map htlcSat).sum

/-- anchor / P2A outputs added by CommitmentTransaction::insert_non_htlc_outputs -/
def anchorOutputs (ty : ChanType) (chanValueSat : Nat) (b : Built) : List Nat :=
  let hasHtlc := decide (sumSat b.nondust ≠ 0)
  (if ty.anchors then
    (if decide (b.toBroadcaster > 0) || hasHtlc then [ANCHOR_OUTPUT_VALUE_SATOSHI] else []) ++
    (if decide (b.toCountersignatory > 0) || hasHtlc then [ANCHOR_OUTPUT_VALUE_SATOSHI] else [])
   else []) ++
  (if ty.zeroFee then [Nat.min P2A_MAX_VALUE (chanValueSat - sumSat b.nondust - b.toBroadcaster - b.toCountersignatory)] else [])

/-- all output values of the built transaction (as a list; the real transaction sorts them) -/
def outputValues (ty : ChanType) (chanValueSat : Nat) (b : Built) : List Nat :=
  (if b.toCountersignatory > 0 then [b.toCountersignatory] else []) ++
  (if b.toBroadcaster > 0 then [b.toBroadcaster] else []) ++
  anchorOutputs ty chanValueSat b ++ b.nondust.map htlcSat

end Ldk.TxB
