import LdkModel.Model.Codec
import LdkModel.Model.MsgSchemasHand
import LdkModel.Generated.BtcConsensus
/-!
  Model/MsgBitcoin.lean — the three peer messages whose codec embeds a *bitcoin consensus* encoding or a blinded path (C13):

    TxSignatures  (impl_writeable_msg!: channel_id, tx_hash, witnesses: `Vec<Witness>`; TLV 0 shared_input_signature)
    TxAddInput    (hand-written: channel_id, serial_id, u16 prevtx_len, `bitcoin::Transaction` inside
                   `FixedLengthReader::new(r, prevtx_len)`, prevtx_out, sequence; TLV 0 shared_input_txid)
    RevokeAndACK  (impl_writeable_msg!: channel_id, per_commitment_secret, next_per_commitment_point;
                   TLV 75537 release_htlc_message_paths: `optional_vec` of `(u64, BlindedMessagePath)`)

  What is mirrored:
    bitcoin-0.32.x  src/consensus/encode.rs   VarInt (CompactSize: little-endian, non-minimal ⇒ NonMinimalVarInt), u8/u32/u64/i32
                                              little-endian, `Vec<u8>` (CompactSize length + bytes), impl_vec! (CompactSize count +
                                              elements), MAX_VEC_SIZE
                    src/blockdata/transaction.rs  OutPoint, TxIn, TxOut, Transaction (version, segwit marker 00 / flag 01, inputs,
                                              outputs, one witness per input, "witness flag set but no witnesses present",
                                              UnsupportedSegwitFlag, lock_time; `uses_segwit_serialization`)
                    src/blockdata/witness.rs  Witness (element count > MAX_VEC_SIZE ⇒ OversizedVectorAllocation; the running content size
                                              + element size + its CompactSize width > MAX_VEC_SIZE ⇒ OversizedVectorAllocation — tested
                                              BEFORE the element bytes are read), `Witness::size`
    lightning/src/util/ser.rs   impl_consensus_ser! (UnexpectedEof ⇒ ShortRead, every other consensus error ⇒ InvalidValue),
                                `impl Readable/Writeable for Vec<Witness>` (u16 count; per witness a u16 length that must equal
                                `witness.size()` else BadLengthDescriptor), FixedLengthReader, `WithoutLength<Vec<T>>` (elements until the
                                reader is exhausted; EOF before the first byte of an element ends the list)
    lightning/src/ln/msgs.rs    `impl Writeable / LengthReadable for TxAddInput`
    lightning/src/blinded_path/mod.rs  `impl Writeable / Readable for BlindedPath`, `impl_writeable!(BlindedHop, …)`
    lightning/src/util/ser_macros.rs   `_decode_tlv_stream_range!` specialised to the single declared field (75537, optional_vec)

  Tie to the source: tools/gen_btc_consensus.py (every run) extracts MAX_VEC_SIZE and the CompactSize thresholds from the `bitcoin` crate
  the harness is locked to, the TLV type / field lists of the three messages from msgs.rs, and pins the whitespace-normalised text of
  every reader / writer body listed above (TRANSLATE-ERROR on any change) into `Generated/BtcConsensus.lean`; the definitions below
  CALL those constants.  Everything else is tied by the differential run (harness/src/bin/c13.rs).
-/
namespace Ldk.Codec.Btc
open Ldk.Codec Ldk.Codec.Gen

/-! ## little-endian integers, CompactSize -/

/-- `n` little-endian bytes of `x`. mirrors consensus/encode.rs `impl_int_encodable!` (`emit_u32` … = `to_le_bytes`) -/
def leEncode (n x : Nat) : Bytes := (beEncode n x).reverse

/-- mirrors `ReadExt::read_u8/u16/u32/u64` (`read_exact` ⇒ UnexpectedEof ⇒ ShortRead, `from_le_bytes`) -/
def readLE (n : Nat) (b : Bytes) : Res (Nat × Bytes) :=
  if b.length < n then .error .ShortRead else .ok (beDecode (b.take n).reverse, b.drop n)

/-- mirrors consensus/encode.rs `impl Encodable for VarInt` -/
def CompactSize.encode (n : Nat) : Bytes :=
  if n ≤ btcCs1Max then [UInt8.ofNat n]
  else if n ≤ btcCs2Max then 0xFD :: leEncode 2 n
  else if n ≤ btcCs4Max then 0xFE :: leEncode 4 n
  else 0xFF :: leEncode 8 n

/-- mirrors `VarInt::size` -/
def CompactSize.size (n : Nat) : Nat :=
  if n ≤ btcCs1Max then 1 else if n ≤ btcCs2Max then 3 else if n ≤ btcCs4Max then 5 else 9

/-- mirrors consensus/encode.rs `impl Decodable for VarInt`: a value below the range of its width is NonMinimalVarInt
    (⇒ InvalidValue through impl_consensus_ser!), truncation is ShortRead -/
def CompactSize.decode : Bytes → Res (Nat × Bytes)
  | [] => .error .ShortRead
  | b :: rest =>
    if b.toNat = 0xFF then
      match readLE 8 rest with
      | .error e => .error e
      | .ok (x, r) => if x < btcCs8Min then .error .InvalidValue else .ok (x, r)
    else if b.toNat = 0xFE then
      match readLE 4 rest with
      | .error e => .error e
      | .ok (x, r) => if x < btcCs4Min then .error .InvalidValue else .ok (x, r)
    else if b.toNat = 0xFD then
      match readLE 2 rest with
      | .error e => .error e
      | .ok (x, r) => if x < btcCs2Min then .error .InvalidValue else .ok (x, r)
    else .ok (b.toNat, rest)

/-! ## byte strings, vectors -/

/-- mirrors `impl Decodable for Vec<u8>` / `ScriptBuf`: CompactSize length, `read_bytes_from_finite_reader` (chunked `read_slice`:
    ShortRead when fewer bytes are left, whatever the declared length) -/
def decodeVarBytes (b : Bytes) : Res (Bytes × Bytes) :=
  match CompactSize.decode b with
  | .error e => .error e
  | .ok (len, r) => if r.length < len then .error .ShortRead else .ok (r.take len, r.drop len)

/-- mirrors `consensus_encode_with_size` -/
def encodeVarBytes (x : Bytes) : Bytes := CompactSize.encode x.length ++ x

/-- read `n` elements in sequence (the `for _ in 0..len` loop of impl_vec!; the first error wins) -/
def decList {α : Type} (dec : Bytes → Res (α × Bytes)) : Nat → Bytes → Res (List α × Bytes)
  | 0, b => .ok ([], b)
  | n + 1, b =>
    match dec b with
    | .error e => .error e
    | .ok (x, b1) =>
      match decList dec n b1 with
      | .error e => .error e
      | .ok (xs, b2) => .ok (x :: xs, b2)

def encList' {α : Type} (enc : α → Bytes) : List α → Bytes
  | [] => []
  | x :: xs => enc x ++ encList' enc xs

/-- mirrors consensus/encode.rs impl_vec!: CompactSize count (NOT range-checked: OOM protection is the reader running dry), elements -/
def decodeVec {α : Type} (dec : Bytes → Res (α × Bytes)) (b : Bytes) : Res (List α × Bytes) :=
  match CompactSize.decode b with
  | .error e => .error e
  | .ok (n, r) => decList dec n r

def encodeVec {α : Type} (enc : α → Bytes) (l : List α) : Bytes := CompactSize.encode l.length ++ encList' enc l

/-! ## transaction parts -/

/-- `TxIn` without its witness: previous_output (txid: 32 raw bytes, vout: u32 LE), script_sig, sequence (u32 LE) -/
structure TxIn where
  txid : Bytes
  vout : Nat
  script : Bytes
  sequence : Nat
  deriving DecidableEq, Repr

/-- `TxOut`: value (u64 LE), script_pubkey -/
structure TxOut where
  value : Nat
  script : Bytes
  deriving DecidableEq, Repr

/-- mirrors `impl Decodable for TxIn` (witness = default) + `impl Decodable for OutPoint` -/
def decodeTxIn (b : Bytes) : Res (TxIn × Bytes) :=
  if b.length < 32 then .error .ShortRead
  else
    match readLE 4 (b.drop 32) with
    | .error e => .error e
    | .ok (vout, b1) =>
      match decodeVarBytes b1 with
      | .error e => .error e
      | .ok (script, b2) =>
        match readLE 4 b2 with
        | .error e => .error e
        | .ok (sequence, b3) => .ok (⟨b.take 32, vout, script, sequence⟩, b3)

def encodeTxIn (i : TxIn) : Bytes := i.txid ++ (leEncode 4 i.vout ++ (encodeVarBytes i.script ++ leEncode 4 i.sequence))

def TxIn.wf (i : TxIn) : Bool :=
  i.txid.length == 32 && decide (i.vout < 2 ^ 32) && decide (i.script.length < 2 ^ 64) && decide (i.sequence < 2 ^ 32)

/-- mirrors `impl Decodable for TxOut` -/
def decodeTxOut (b : Bytes) : Res (TxOut × Bytes) :=
  match readLE 8 b with
  | .error e => .error e
  | .ok (value, b1) =>
    match decodeVarBytes b1 with
    | .error e => .error e
    | .ok (script, b2) => .ok (⟨value, script⟩, b2)

def encodeTxOut (o : TxOut) : Bytes := leEncode 8 o.value ++ encodeVarBytes o.script

def TxOut.wf (o : TxOut) : Bool := decide (o.value < 2 ^ 64) && decide (o.script.length < 2 ^ 64)

/-! ## Witness -/

/-- bytes one element occupies: its CompactSize length prefix and its content -/
def itemSize (x : Bytes) : Nat := CompactSize.size x.length + x.length

/-- bytes the elements occupy (without the count) -/
def itemsSize : List Bytes → Nat
  | [] => 0
  | x :: xs => itemSize x + itemsSize xs

/-- mirrors blockdata/witness.rs `Witness::size` -/
def witnessSize (w : List Bytes) : Nat := CompactSize.size w.length + itemsSize w

/-- mirrors the `for i in 0..witness_elements` loop of `impl Decodable for Witness`; `used` = `cursor - witness_index_space`, the
    content bytes so far.  `required_len > MAX_VEC_SIZE + witness_index_space` ⇔ `used + element_size + varint_len > MAX_VEC_SIZE`
    (OversizedVectorAllocation ⇒ InvalidValue; also covers the `checked_add` overflows), tested before `read_exact`. -/
def decodeWitnessItems : Nat → Nat → Bytes → Res (List Bytes × Bytes)
  | 0, _, b => .ok ([], b)
  | n + 1, used, b =>
    match CompactSize.decode b with
    | .error e => .error e
    | .ok (sz, b1) =>
      if btcWitnessOversized (used + sz + CompactSize.size sz) then .error .InvalidValue
      else if b1.length < sz then .error .ShortRead
      else
        match decodeWitnessItems n (used + CompactSize.size sz + sz) (b1.drop sz) with
        | .error e => .error e
        | .ok (xs, b2) => .ok (b1.take sz :: xs, b2)

/-- mirrors `impl Decodable for Witness`: element count (`> MAX_VEC_SIZE` ⇒ OversizedVectorAllocation), then the elements -/
def decodeWitness (b : Bytes) : Res (List Bytes × Bytes) :=
  match CompactSize.decode b with
  | .error e => .error e
  | .ok (n, r) => if btcWitnessOversized n then .error .InvalidValue else decodeWitnessItems n 0 r

/-- mirrors `impl Encodable for Witness`: count, then every element with its CompactSize length -/
def encodeWitness (w : List Bytes) : Bytes := CompactSize.encode w.length ++ encList' encodeVarBytes w

/-- the witnesses the decoder can return / the limits the crate enforces: at most MAX_VEC_SIZE elements and content bytes -/
def witnessWf (w : List Bytes) : Bool := !btcWitnessOversized w.length && !btcWitnessOversized (itemsSize w)

/-! ## Transaction -/

/-- `bitcoin::Transaction`: version (the i32's 32-bit pattern), inputs (each with its witness), outputs, lock_time -/
structure Tx where
  version : Nat
  inputs : List (TxIn × List Bytes)
  outputs : List TxOut
  lockTime : Nat
  deriving DecidableEq, Repr

/-- one `Witness` per input, in input order (`for txin in input.iter_mut() { txin.witness = … }`) -/
def decodeWitnesses : Nat → Bytes → Res (List (List Bytes) × Bytes) := decList decodeWitness

/-- mirrors `impl Decodable for Transaction::consensus_decode_from_finite_reader` (the outer `take(MAX_VEC_SIZE)` never binds for
    inputs of at most 65535 bytes, the only ones a u16-delimited reader hands out):
    version · inputs · if there are none: segwit flag (≠ 1 ⇒ UnsupportedSegwitFlag ⇒ InvalidValue), inputs, outputs, one witness per
    input, "witness flag set but no witnesses present" (⇒ InvalidValue — BEFORE lock_time is read), lock_time · else outputs, lock_time -/
def decodeTx (b : Bytes) : Res (Tx × Bytes) :=
  match readLE 4 b with
  | .error e => .error e
  | .ok (version, b1) =>
    match decodeVec decodeTxIn b1 with
    | .error e => .error e
    | .ok (ins0, b2) =>
      if ins0.isEmpty then
        match readLE 1 b2 with
        | .error e => .error e
        | .ok (flag, b3) =>
          if flag = 1 then
            match decodeVec decodeTxIn b3 with
            | .error e => .error e
            | .ok (ins, b4) =>
              match decodeVec decodeTxOut b4 with
              | .error e => .error e
              | .ok (outs, b5) =>
                match decodeWitnesses ins.length b5 with
                | .error e => .error e
                | .ok (wits, b6) =>
                  if !ins.isEmpty && wits.all (·.isEmpty) then .error .InvalidValue
                  else
                    match readLE 4 b6 with
                    | .error e => .error e
                    | .ok (lock, b7) => .ok (⟨version, ins.zip wits, outs, lock⟩, b7)
          else .error .InvalidValue
      else
        match decodeVec decodeTxOut b2 with
        | .error e => .error e
        | .ok (outs, b3) =>
          match readLE 4 b3 with
          | .error e => .error e
          | .ok (lock, b4) => .ok (⟨version, ins0.map (·, []), outs, lock⟩, b4)

/-- mirrors `Transaction::uses_segwit_serialization`: some input has a non-empty witness, or there is no input -/
def Tx.usesSegwit (t : Tx) : Bool := t.inputs.any (fun p => !p.2.isEmpty) || t.inputs.isEmpty

/-- mirrors `impl Encodable for Transaction` -/
def encodeTx (t : Tx) : Bytes :=
  leEncode 4 t.version ++
    (if t.usesSegwit then
      [0x00, 0x01] ++ (encodeVec encodeTxIn (t.inputs.map (·.1)) ++ (encodeVec encodeTxOut t.outputs ++
        (encList' encodeWitness (t.inputs.map (·.2)) ++ leEncode 4 t.lockTime)))
    else encodeVec encodeTxIn (t.inputs.map (·.1)) ++ (encodeVec encodeTxOut t.outputs ++ leEncode 4 t.lockTime))

def Tx.wf (t : Tx) : Bool :=
  decide (t.version < 2 ^ 32) && decide (t.lockTime < 2 ^ 32) &&
  decide (t.inputs.length < 2 ^ 64) && decide (t.outputs.length < 2 ^ 64) &&
  t.inputs.all (fun p => p.1.wf && witnessWf p.2) && t.outputs.all (·.wf)

/-! ## TxAddInput -/

def txAddInputHeaderNames : List String := ["channel_id", "serial_id"]
def txAddInputHeader : List FieldTy := [Hand.h32, Hand.u64]

/-- what follows the prevtx is an ordinary message schema: prevtx_out, sequence, `decode_tlv_stream!(r, {(0, shared_input_txid, option)})` —
    every generic theorem of Props/C13 about well-formed schemas applies to it (`tx_add_input_rest_wf`) -/
def txAddInputRest : Schema :=
  ⟨"TxAddInput", ["prevtx_out", "sequence"], [Hand.u32, Hand.u32], [⟨btcTxAddInputTlv, "shared_input_txid", Hand.h32, .option⟩]⟩

structure TxAddInput where
  hdr : List Val
  prevtx : Option Tx
  rest : MsgVal
  deriving DecidableEq, Repr

/-- mirrors the `prevtx` block of `impl LengthReadable for TxAddInput`: `prevtx_len > 0` ⇒ the transaction is read through
    `FixedLengthReader::new(r, prevtx_len)` (it sees at most `prevtx_len` bytes of what is left: `b.take len`; running dry inside is the
    transaction decoder's ShortRead), then `tx_reader.bytes_remain()` — declared bytes the transaction did not consume, or that the
    message does not have — ⇒ BadLengthDescriptor.  Result: the transaction and the input after the declared region. -/
def decodePrevtx (len : Nat) (b : Bytes) : Res (Option Tx × Bytes) :=
  if btcPrevtxPresent len then
    match decodeTx (b.take len) with
    | .error e => .error e
    | .ok (tx, rem) => if rem.isEmpty && len ≤ b.length then .ok (some tx, b.drop len) else .error .BadLengthDescriptor
  else .ok (none, b)

/-- mirrors `impl LengthReadable for TxAddInput` -/
def decodeTxAddInput (b : Bytes) : Res TxAddInput :=
  match decodeFixed txAddInputHeader b with
  | .error e => .error e
  | .ok (hv, b1) =>
    match readUint 2 b1 with
    | .error e => .error e
    | .ok (len, b2) =>
      match decodePrevtx len b2 with
      | .error e => .error e
      | .ok (ptx, b3) =>
        match txAddInputRest.decode b3 with
        | .error e => .error e
        | .ok rest => .ok ⟨hv, ptx, rest⟩

def encodePrevtx : Option Tx → Bytes
  | some tx => beEncode 2 (encodeTx tx).length ++ encodeTx tx
  | none => beEncode 2 0

/-- mirrors `impl Writeable for TxAddInput`: `(tx.serialized_length() as u16)`, the transaction / `0u16` -/
def encodeTxAddInput (m : TxAddInput) : Bytes :=
  encodeFixed txAddInputHeader m.hdr ++ (encodePrevtx m.prevtx ++ txAddInputRest.encode m.rest)

/-- header and tail values in range; the transaction well-formed and its encoding fits the u16 length -/
def TxAddInput.wf (m : TxAddInput) : Bool :=
  validFixed txAddInputHeader m.hdr && m.rest.valid txAddInputRest &&
  (match m.prevtx with
   | some tx => tx.wf && decide ((encodeTx tx).length < 2 ^ 16)
   | none => true)

/-! ## TxSignatures -/

def txSignaturesHeaderNames : List String := ["channel_id", "tx_hash"]
def txSignaturesHeader : List FieldTy := [Hand.h32, Hand.h32]

/-- the TLV stream after `witnesses` as a schema without fixed fields: `(0, shared_input_signature, option)` -/
def txSignaturesRest : Schema := ⟨"TxSignatures", [], [], [⟨btcTxSignaturesTlv, "shared_input_signature", Hand.sig, .option⟩]⟩

/-- mirrors one iteration of `impl Readable for Vec<Witness>`: u16 `witness_len`, the witness (consensus decoding — it is NOT confined
    to `witness_len` bytes), `witness.size() != witness_len` ⇒ BadLengthDescriptor -/
def decodeSizedWitness (b : Bytes) : Res (List Bytes × Bytes) :=
  match readUint 2 b with
  | .error e => .error e
  | .ok (wlen, b1) =>
    match decodeWitness b1 with
    | .error e => .error e
    | .ok (w, b2) => if btcWitnessLenBad (witnessSize w) wlen then .error .BadLengthDescriptor else .ok (w, b2)

/-- mirrors `impl Writeable for Vec<Witness>`, one element: `(witness.size() as u16)`, the witness -/
def encodeSizedWitness (w : List Bytes) : Bytes := beEncode 2 (witnessSize w) ++ encodeWitness w

/-- mirrors `impl Readable for Vec<Witness>`: u16 count, then the sized witnesses -/
def decodeWitnessVec (b : Bytes) : Res (List (List Bytes) × Bytes) :=
  match readUint 2 b with
  | .error e => .error e
  | .ok (n, r) => decList decodeSizedWitness n r

def encodeWitnessVec (ws : List (List Bytes)) : Bytes := beEncode 2 ws.length ++ encList' encodeSizedWitness ws

structure TxSignatures where
  hdr : List Val
  witnesses : List (List Bytes)
  rest : MsgVal
  deriving DecidableEq, Repr

/-- mirrors the impl_writeable_msg! reader of TxSignatures: channel_id, tx_hash, witnesses, then the TLV stream -/
def decodeTxSignatures (b : Bytes) : Res TxSignatures :=
  match decodeFixed txSignaturesHeader b with
  | .error e => .error e
  | .ok (hv, b1) =>
    match decodeWitnessVec b1 with
    | .error e => .error e
    | .ok (ws, b2) =>
      match txSignaturesRest.decode b2 with
      | .error e => .error e
      | .ok rest => .ok ⟨hv, ws, rest⟩

def encodeTxSignatures (m : TxSignatures) : Bytes :=
  encodeFixed txSignaturesHeader m.hdr ++ (encodeWitnessVec m.witnesses ++ txSignaturesRest.encode m.rest)

/-- fewer than 2^16 witnesses, each well-formed and of a size that fits its u16 length -/
def TxSignatures.wf (m : TxSignatures) : Bool :=
  validFixed txSignaturesHeader m.hdr && m.rest.valid txSignaturesRest && decide (m.witnesses.length < 2 ^ 16) &&
  m.witnesses.all (fun w => witnessWf w && decide (witnessSize w < 2 ^ 16))

/-! ## BlindedMessagePath, RevokeAndACK -/

/-- `BlindedHop` (impl_writeable!): blinded_node_id (validated point), encrypted_payload (`Vec<u8>`: CollectionLength + bytes) -/
def hopTy : FieldTy := .pair Hand.point .varBytes

/-- one entry of `release_htlc_message_paths`: the u64, the introduction node AS ITS WIRE BYTES (9 bytes `00|01 ‖ scid`, or a 33-byte
    compressed point `02|03 ‖ x`), the blinding point, the hops (a vector value of `hopTy`) -/
structure PathEntry where
  htlcId : Nat
  intro : Bytes
  blinding : Val
  hops : Val
  deriving DecidableEq, Repr

/-- mirrors the `first_byte` match of `impl Readable for BlindedPath`: 0 / 1 ⇒ a u64 scid follows; 2 / 3 ⇒ 32 more bytes
    (`read_exact` ⇒ ShortRead), the 33 bytes must be a valid point (else InvalidValue); any other byte ⇒ InvalidValue at once -/
def decodeIntro : Bytes → Res (Bytes × Bytes)
  | [] => .error .ShortRead
  | t :: r =>
    if btcIntroScid t.toNat then
      (if r.length < 8 then .error .ShortRead else .ok (t :: r.take 8, r.drop 8))
    else if btcIntroNode t.toNat then
      (if r.length < 32 then .error .ShortRead
       else if validPoint (t :: r.take 32) then .ok (t :: r.take 32, r.drop 32) else .error .InvalidValue)
    else .error .InvalidValue

def introWf : Bytes → Bool
  | [] => false
  | t :: r => (btcIntroScid t.toNat && r.length == 8) || (btcIntroNode t.toNat && !btcIntroScid t.toNat && validPoint (t :: r))

/-- mirrors `impl Readable for (u64, BlindedMessagePath)` = the tuple impl over `impl Readable for BlindedPath`: u64, introduction
    node, blinding_point, `num_hops: u8` (0 ⇒ InvalidValue), that many hops -/
def decodePathEntry (b : Bytes) : Res (PathEntry × Bytes) :=
  match readUint 8 b with
  | .error e => .error e
  | .ok (htlcId, b1) =>
    match decodeIntro b1 with
    | .error e => .error e
    | .ok (intro, b2) =>
      match Hand.point.decode b2 with
      | .error e => .error e
      | .ok (bp, b3) =>
        match readUint 1 b3 with
        | .error e => .error e
        | .ok (n, b4) =>
          if btcNoHops n then .error .InvalidValue
          else
            match decN hopTy.decode n b4 with
            | .error e => .error e
            | .ok (hops, b5) => .ok (⟨htlcId, intro, bp, hops⟩, b5)

/-- mirrors `impl Writeable for BlindedPath` behind the tuple writer: `(self.blinded_hops.len() as u8)` -/
def encodePathEntry (p : PathEntry) : Bytes :=
  beEncode 8 p.htlcId ++ (p.intro ++ (Hand.point.encode p.blinding ++ (beEncode 1 p.hops.len ++ encList hopTy.encode p.hops)))

def PathEntry.wf (p : PathEntry) : Bool :=
  decide (p.htlcId < 2 ^ 64) && introWf p.intro && Hand.point.valid p.blinding &&
  decide (0 < p.hops.len) && decide (p.hops.len < 256) && p.hops.allElems hopTy.valid

/-- mirrors `impl LengthReadable for WithoutLength<Vec<T>>`: an element is read as long as a byte is left (EOF before the first byte
    of an element ends the list; EOF inside one is its ShortRead).  One element per unit of fuel; every element consumes ≥ 8 bytes. -/
def decodePaths : Nat → Bytes → Res (List PathEntry)
  | 0, _ => .error .Io   -- out of fuel: unreachable with fuel > input length
  | fuel + 1, b =>
    if b.isEmpty then .ok []
    else
      match decodePathEntry b with
      | .error e => .error e
      | .ok (p, r) =>
        match decodePaths fuel r with
        | .error e => .error e
        | .ok ps => .ok (p :: ps)

def encodePaths : List PathEntry → Bytes
  | [] => []
  | p :: ps => encodePathEntry p ++ encodePaths ps

def revokeAndAckHeaderNames : List String := ["channel_id", "per_commitment_secret", "next_per_commitment_point"]
def revokeAndAckHeader : List FieldTy := [Hand.h32, Hand.h32, Hand.point]

/-- mirrors util/ser_macros.rs::_decode_tlv_stream_range! for the TLV list `{(75537, release_htlc_message_paths, optional_vec)}`
    (one declared field, not required: `_check_decoded_tlv_order!` / `_check_missing_tlv!` are no-ops), one iteration per unit of fuel;
    `cur` = the field so far.  Same line-by-line structure as `Codec.tlvLoop`; the record of the declared type is decoded by
    `decodePaths` from `FixedLengthReader::new(stream, length)` (`b2.take len`; it reads to the end of that reader, so the only way for
    `bytes_remain()` to hold afterwards is a stream shorter than `length` ⇒ `eat_remaining()` ⇒ ShortRead). -/
def raaLoop : Nat → Option Nat → Option (List PathEntry) → Bytes → Res (Option (List PathEntry))
  | 0, _, _, _ => .error .Io   -- out of fuel: unreachable with fuel > input length
  | fuel + 1, last, cur, b =>
    if b.isEmpty then .ok cur
    else
      match BigSize.decode b with
      | .error e => .error e
      | .ok (typ, b1) =>
        if !(lastLt last typ) then .error .InvalidValue
        else
          match BigSize.decode b1 with
          | .error e => .error e
          | .ok (len, b2) =>
            if typ = btcRevokeAndAckTlv then
              match decodePaths ((b2.take len).length + 1) (b2.take len) with
              | .error e => .error e
              | .ok ps => if len ≤ b2.length then raaLoop fuel (some typ) (some ps) (b2.drop len) else .error .ShortRead
            else if typ % 2 == 0 then .error .UnknownRequiredFeature
            else if b2.length < len then .error .ShortRead
            else raaLoop fuel (some typ) cur (b2.drop len)

structure RevokeAndAck where
  hdr : List Val
  paths : List PathEntry
  deriving DecidableEq, Repr

/-- mirrors the impl_writeable_msg! reader of RevokeAndACK: the three fixed fields, the TLV stream; an absent record is the empty
    vector (`optional_vec`: `$field.unwrap_or(Vec::new())`) -/
def decodeRevokeAndAck (b : Bytes) : Res RevokeAndAck :=
  match decodeFixed revokeAndAckHeader b with
  | .error e => .error e
  | .ok (hv, b1) =>
    match raaLoop (b1.length + 1) none none b1 with
    | .error e => .error e
    | .ok cur => .ok ⟨hv, cur.getD []⟩

/-- mirrors the impl_writeable_msg! writer: `optional_vec` writes the record only for a non-empty vector -/
def encodeRevokeAndAck (m : RevokeAndAck) : Bytes :=
  encodeFixed revokeAndAckHeader m.hdr ++
    (if m.paths.isEmpty then []
     else BigSize.encode btcRevokeAndAckTlv ++ (BigSize.encode (encodePaths m.paths).length ++ encodePaths m.paths))

def RevokeAndAck.wf (m : RevokeAndAck) : Bool :=
  validFixed revokeAndAckHeader m.hdr && m.paths.all (·.wf) && decide ((encodePaths m.paths).length < 2 ^ 64)

/-- names of the messages handled by the decoders above -/
def btcNames : List String := ["TxAddInput", "TxSignatures", "RevokeAndACK"]

end Ldk.Codec.Btc
