/-! State variants the persistence decision table of `FundedChannel::write` ranges over (C12).  No payloads: the table only looks
    at the variant.  -- mirrors lightning/src/ln/channel.rs enum InboundHTLCState / OutboundHTLCState / FeeUpdateState -/
namespace Ldk.ChanForget

/-- mirrors channel.rs `enum InboundHTLCState` -/
inductive InSt | remoteAnnounced | awaitingRemoteRevokeToAnnounce | awaitingAnnouncedRemoteRevoke | committed | localRemoved
deriving DecidableEq, Repr, Inhabited

/-- mirrors channel.rs `enum OutboundHTLCState` -/
inductive OutSt | localAnnounced | committed | remoteRemoved | awaitingRemoteRevokeToRemove | awaitingRemovedRemoteRevoke
deriving DecidableEq, Repr, Inhabited

/-- mirrors channel.rs `enum FeeUpdateState` -/
inductive FeeSt | remoteAnnounced | awaitingRemoteRevokeToAnnounce | outbound
deriving DecidableEq, Repr, Inhabited

end Ldk.ChanForget
