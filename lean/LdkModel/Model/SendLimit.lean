/- The send-side admission check of the REAL node, run on the node state of the two-party channel model (C01):
   `send_htlc` → `get_available_balances` → `get_next_remote_commitment_stats` → `SpecTxBuilder::get_channel_stats`.
   The arithmetic is the translated `get_next_commitment_stats` / `get_available_balances` (Generated/TxBuilder.lean); which HTLCs
   and which balance they are given comes from the generated filters (`inNextStats`: Generated/HtlcTables.lean; `claimedInNext`,
   `nextCommitmentValueToSelf`, `sendAmountOk` and the pinned argument shapes: Generated/SendLimit.lean).
   `stepChecked` is the protocol step guarded by THIS check (instead of the abstract balance guard (G2) of `evOk`).  Core only. -/
import LdkModel.Proofs.Channel.Guarded
import LdkModel.Generated.SendLimit
import LdkModel.Generated.TxBuilder
namespace Ldk.Chan
open Ldk

/-- the channel parameters of the check that the protocol model does not carry -/
structure SendCfg where
  chanValueSat : Nat
  limitingFeerate : Option Nat        -- get_dust_exposure_limiting_feerate
  maxDustExposureMsat : Nat           -- get_max_dust_htlc_exposure_msat
  cons : TxB.ChannelConstraints       -- get_channel_constraints
  ty : TxB.ChanType
  deriving Inhabited

/-- mirrors `get_next_commitment_htlcs(local = false, None, include_counterparty_unknown_htlcs = true)` on the model's HTLC lists
    (the model has no holding cell: HTLCs waiting there are the earlier adds of the same batch, see `Node.sendAllOk`) -/
def Node.statsHtlcs (n : Node) : List TxB.HTLCAmountDirection :=
  (n.inb.filter (fun h => h.st.inNextStats sendStatsLocal sendStatsIncludeUnknown)).map (fun h => { outbound := false, amount_msat := h.amt }) ++
  (n.outb.filter (fun h => h.st.inNextStats sendStatsLocal sendStatsIncludeUnknown)).map (fun h => { outbound := true, amount_msat := h.amt })

/-- mirrors `get_next_commitment_value_to_self_msat(local = false)` -/
def Node.statsValueToSelf (n : Node) : Nat :=
  nextCommitmentValueToSelf n.valueToSelf
    ((n.outb.filter (fun h => h.st.claimedInNext sendStatsLocal)).map (·.amt)).sum
    ((n.inb.filter (fun h => h.st.claimedInNext sendStatsLocal)).map (·.amt)).sum

/-- mirrors `get_available_balances_for_scope`: `Err` when `get_next_commitment_stats` of the next remote commitment fails -/
def Node.availableBalances (c : SendCfg) (n : Node) : Option TxB.AvailableBalances :=
  match TxB.get_next_commitment_stats sendStatsLocal n.isFunder c.chanValueSat n.statsValueToSelf n.statsHtlcs sendStatsAddlHtlcs
      n.feerate sendStatsFeeSpike c.limitingFeerate c.cons.counterparty_dust_limit_satoshis c.ty with
  | none => none
  | some _ => some (TxB.get_available_balances n.isFunder c.chanValueSat n.statsValueToSelf n.statsHtlcs n.feerate c.limitingFeerate
      c.maxDustExposureMsat c.cons c.ty)

/-- `send_htlc`: is this amount admitted now? -/
def Node.sendOk (c : SendCfg) (n : Node) (amt : Nat) : Bool :=
  match n.availableBalances c with
  | none => false
  | some a => sendAmountOk amt a.next_outbound_htlc_minimum_msat a.next_outbound_htlc_limit_msat

/-- what a successful `send_htlc` leaves behind: one more LocalAnnounced HTLC -/
def Node.announce (n : Node) (amt : Nat) : Node :=
  { n with outb := n.outb ++ [{ id := n.nextOutId, amt := amt, st := .localAnnounced }], nextOutId := n.nextOutId + 1 }

/-- the adds of one batch are admitted one after the other, each against the state that already contains the earlier ones
    (directly, or when the holding cell is freed: `free_holding_cell_htlcs` calls `send_htlc` again for every queued add) -/
def Node.sendAllOk (c : SendCfg) : Node → List Nat → Bool
  | _, [] => true
  | n, amt :: rest => n.sendOk c amt && Node.sendAllOk c (n.announce amt) rest

/-- the enabling conditions (G1), (G3), (G4) of `evOk`, WITHOUT the balance guard (G2) -/
def evOkBase (s : Sys) : Ev → Bool
  | .sendRaa true => decide (s.pendA = []) || decide (s.a.raaSent < s.needRaaA)
  | .sendRaa false => decide (s.pendB = []) || decide (s.b.raaSent < s.needRaaB)
  | .commit _ _ fu fa => decide ((fu ++ fa).Nodup)
  | .recv true => !(headIsFee s.qba && s.a.feeToAnnounce)
  | .recv false => !(headIsFee s.qab && s.b.feeToAnnounce)
  | _ => true

/-- the REAL admission check on the adds of a batch -/
def evChecked (ca cb : SendCfg) (s : Sys) : Ev → Bool
  | .commit true adds _ _ => s.a.sendAllOk ca adds
  | .commit false adds _ _ => s.b.sendAllOk cb adds
  | _ => true

/-- the protocol step of a node that admits new HTLCs by the real check -/
def stepChecked (ca cb : SendCfg) (s : Sys) (e : Ev) : Option Sys :=
  if evOkBase s e && evChecked ca cb s e then step s e else none

def runChecked (ca cb : SendCfg) (s : Sys) : List Ev → Option Sys
  | [] => some s
  | e :: es => match stepChecked ca cb s e with
    | none => none
    | some s' => runChecked ca cb s' es

end Ldk.Chan
