/- C16 (round 6) — get_route steps (5)-(8) on the VALUES of the collected paths, and the order of `sort_first_hop_channels`.
   All deciding expressions are the GENERATED translations (Generated/RouterSelect.lean, tools/gen_router_select.py); the
   functions here only thread them through the lists the way the pinned statement shapes do. -/
import LdkModel.Generated.RouterSelect
namespace Ldk.RouteSelect
open Ldk.Router

/-- mirrors get_route step (6) `selected_route.retain(|path| …)`: the closure (translated `overpay_retain_step`) called on the
    paths in order, threading `paths_left` and `overpaid_value_msat`; result: the values kept, and the overpayment left -/
def retainOverpaid : Nat → Nat → List Nat → List Nat × Nat
  | _, over, [] => ([], over)
  | left, over, v :: vs =>
    let r := overpay_retain_step left over v
    let rest := retainOverpaid r.2.1 r.2.2 vs
    (if r.1 then v :: rest.1 else rest.1, rest.2)

/-- mirrors get_route steps (5) + (6) on the values of `payment_paths` (in step (6)'s order, cost per msat descending):
    the two failures, else `paths_left = len`, `overpaid = collected - final`, retain -/
def selectPaths (final : Nat) (vals : List Nat) : Except String (List Nat × Nat) :=
  if no_path_found vals.length then .error "no-path"
  else if insufficient_value_collected vals.sum final then .error "insufficient"
  else .ok (retainOverpaid vals.length (initial_overpaid_value_msat vals.sum final) vals)

/-- mirrors get_route step (7) on the kept values in step (7)'s order: the FIRST path is reduced by what is still overpaid.
    `none` = `selected_route.first_mut().unwrap()` on an empty list or a u64 underflow of the subtraction (a panic) -/
def reduceFirst (kept : List Nat) (over : Nat) : Option (List Nat) :=
  if has_remaining_overpayment over then
    match kept with
    | [] => none
    | v :: vs => if v < over then none else some (expensive_path_new_value_msat v over :: vs)
  else some kept

/-- mirrors get_route step (8)'s loop over the paths sorted by key: path idx and idx + 1 with the same key (candidate ids and
    targets) become ONE path of value `merged_path_value_msat`; the loop then moves on to the path AFTER the merged one -/
def mergeAdjacent {κ : Type} [DecidableEq κ] : List (κ × Nat) → List (κ × Nat)
  | [] => []
  | [a] => [a]
  | a :: b :: rest =>
    if a.1 = b.1 then (a.1, merged_path_value_msat a.2 b.2) :: mergeAdjacent rest
    else a :: mergeAdjacent (b :: rest)

/-- `sort_first_hop_channels`: chan_a may stand before chan_b (the translated comparator does not answer Greater) -/
def firstHopLe (recommended : Nat) (a b : Nat) : Bool := first_hop_channel_order a b recommended != .gt

/-- the used_liquidities entry `CandidateHopId::Clear((scid, direction))` of a channel, 0 if none (`unwrap_or(&0)`) -/
def usedOf (used : List (Nat × Bool × Nat)) (scid : Nat) (dir : Bool) : Nat :=
  match used.find? (fun e => e.1 == scid && e.2.1 == dir) with
  | some e => e.2.2
  | none => 0

/-- mirrors `sort_first_hop_channels` on (payment scid, direction, next_outbound_htlc_limit_msat) triples: the remaining
    limits (translated `first_hop_outbound_limit_msat`) in the order of the translated comparator. `sort_unstable_by` may
    order equal limits either way, so the answer is the list of the LIMITS -/
def sortFirstHops (recommended : Nat) (used : List (Nat × Bool × Nat)) (chans : List (Nat × Bool × Nat)) : List Nat :=
  (chans.map fun c => first_hop_outbound_limit_msat c.2.2 (usedOf used c.1 c.2.1)).mergeSort (firstHopLe recommended)

end Ldk.RouteSelect
