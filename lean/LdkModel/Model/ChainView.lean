/- C11 — the ChannelMonitor's view of the chain: not-yet-final on-chain events
   (`onchain_events_awaiting_threshold_conf`), irrevocable conclusions, and the five notifications of
   the `chain::Listen` / `chain::Confirm` contracts.  Hand-written mirror of
   lightning/src/chain/channelmonitor.rs (ChannelMonitorImpl::{transactions_confirmed,
   best_block_updated, block_connected, block_confirmed, blocks_disconnected, transaction_unconfirmed});
   maturity uses the GENERATED `Ldk.confirmationThreshold` / `Ldk.hasReachedConfirmationThreshold`
   (Generated/Timing.lean, translated from OnchainEventEntry::confirmation_threshold on every run).

   Abstractions (checked by the c11 correspondence, see tools/cfg/C11.py):
   * a transaction is a small integer id; what the monitor queues when it first sees transaction `t`
     confirmed is a fixed list `cat t` of events (kind + optional CSV delay) — the *catalog*.  In the
     real code this list is computed from the channel state (check_spend_*_transaction,
     is_resolving_htlc_output, check_tx_and_push_spendable_outputs); the harness learns it from one
     reference delivery and the correspondence checks it is the same under every other delivery;
   * block hashes are not modelled: `best_block_updated` with `height ≤ best` is the "re-orged"
     branch (for `height = best` and an unchanged hash the real code does nothing, which coincides
     with the re-org branch whenever every awaiting entry has `height ≤ best` — `Proofs.ChainView.
     heights_le_best`); the `assert_eq!(header.block_hash(), conf_hash)` panic on a re-confirmation
     in a different block without a prior unconfirm is a contract violation and is not modelled
     (the model skips the transaction as already known);
   * `outputs_to_watch` / `filter_block` (which transactions are relevant at all) are not modelled;
   * the OnchainTxHandler is modelled at the level of its reorg bookkeeping only (section "claims
     layer" at the end of this file): which outpoints have a claim registered, each with its CREATION
     HEIGHT, the handler's own awaiting entries, and what connect / disconnect / unconfirm / preimage
     do to them; claim transactions, aggregation, bumping and time-locked packages are not modelled. -/
import LdkModel.Generated.Timing
import LdkModel.Generated.ClaimHeights
namespace Ldk.ChainView
open Ldk

/-- kind of an `OnchainEvent` (channelmonitor.rs `enum OnchainEvent`) and its CSV delay, if any -/
structure Ev where
  /-- 0 HTLCUpdate, 1 MaturingOutput, 2 FundingSpendConfirmation, 3 HTLCSpendConfirmation,
      4 AlternativeFundingConfirmation -/
  kind : Nat
  /-- `Some csv` for MaturingOutput(DelayedPaymentOutput), FundingSpendConfirmation{on_local_output_csv},
      HTLCSpendConfirmation{on_to_local_output_csv} -/
  csv : Option Nat
  deriving DecidableEq, Repr, Inhabited

/-- mirrors channelmonitor.rs `struct OnchainEventEntry` (txid, height, event) -/
structure Entry where
  txid : Nat
  height : Nat
  ev : Ev
  deriving DecidableEq, Repr, Inhabited

/-- a block as far as one monitor is concerned: its height and the relevant transactions in it -/
structure Block where
  height : Nat
  txs : List Nat
  deriving DecidableEq, Repr, Inhabited

abbrev Chain := List Block

/-- what the monitor queues when it first sees transaction `t` confirmed -/
abbrev Catalog := Nat → List Ev

/-- monitor-side state: `best_block.height`, `onchain_events_awaiting_threshold_conf`, and the
    entries that reached their threshold (their txids are what `funding_spend_confirmed`,
    `htlcs_resolved_on_chain[..].resolving_txid` and `spendable_txids_confirmed` remember) -/
structure St where
  best : Nat
  awaiting : List Entry
  matured : List Entry
  deriving DecidableEq, Repr, Inhabited

def init (best : Nat) : St := { best := best, awaiting := [], matured := [] }

inductive Op where
  /-- `Listen::block_connected` / `filtered_block_connected` -/
  | blockConnected (h : Nat) (txs : List Nat)
  /-- `Confirm::transactions_confirmed` -/
  | txsConfirmed (h : Nat) (txs : List Nat)
  /-- `Confirm::best_block_updated` -/
  | bestBlock (h : Nat)
  /-- `Listen::blocks_disconnected(fork_point)` -/
  | blocksDisconnected (toHeight : Nat)
  /-- `Confirm::transaction_unconfirmed` -/
  | txUnconfirmed (txid : Nat)
  deriving DecidableEq, Repr, Inhabited

/-- mirrors OnchainEventEntry::confirmation_threshold (generated) -/
def Entry.threshold (e : Entry) : Nat := confirmationThreshold e.height e.ev.csv

/-- mirrors OnchainEventEntry::has_reached_confirmation_threshold (generated) -/
def Entry.reached (best : Nat) (e : Entry) : Bool :=
  hasReachedConfirmationThreshold best e.height e.ev.csv

/-- the `continue 'tx_iter` filters at the top of transactions_confirmed: the txid is already in
    onchain_events_awaiting_threshold_conf, or is funding_spend_confirmed / a resolving_txid of
    htlcs_resolved_on_chain / in spendable_txids_confirmed -/
def known (s : St) (t : Nat) : Bool :=
  s.awaiting.any (fun e => e.txid == t) || s.matured.any (fun e => e.txid == t)

/-- one iteration of `'tx_iter` in transactions_confirmed: queue the events of a not-yet-known
    transaction at the confirmation height -/
def addTx (cat : Catalog) (h : Nat) (s : St) (t : Nat) : St :=
  if known s t then s
  else { s with awaiting := s.awaiting ++ (cat t).map (fun ev => { txid := t, height := h, ev := ev }) }

/-- mirrors the partition at the start of block_confirmed: entries that reached their threshold
    with respect to the *current* best block become irrevocable -/
def mature (s : St) : St :=
  { s with
    awaiting := s.awaiting.filter (fun e => !e.reached s.best)
    matured := s.matured ++ s.awaiting.filter (fun e => e.reached s.best) }

/-- mirrors ChannelMonitorImpl::transactions_confirmed: process the transactions, then
    `if height > best { best = height }`, then block_confirmed -/
def txsConfirmed (cat : Catalog) (s : St) (h : Nat) (txs : List Nat) : St :=
  let s1 := txs.foldl (addTx cat h) s
  mature { s1 with best := max s1.best h }

/-- the effect shared by blocks_disconnected and the re-org branch of best_block_updated:
    `onchain_events_awaiting_threshold_conf.retain(|e| e.height <= height)`, best := height -/
def rewindTo (s : St) (h : Nat) : St :=
  { s with best := h, awaiting := s.awaiting.filter (fun e => e.height ≤ h) }

/-- mirrors ChannelMonitorImpl::best_block_updated -/
def bestBlock (s : St) (h : Nat) : St :=
  if h > s.best then mature { s with best := h } else rewindTo s h

/-- mirrors ChannelMonitorImpl::blocks_disconnected (`assert!(best.height > fork_point.height)`:
    a call that violates the assertion is a no-op in the model) -/
def blocksDisconnected (s : St) (h : Nat) : St :=
  if h < s.best then rewindTo s h else s

/-- mirrors ChannelMonitorImpl::transaction_unconfirmed: if the txid is awaiting at height `rh`,
    drop every awaiting entry with `height ≥ rh`; best is not touched -/
def txUnconfirmed (s : St) (t : Nat) : St :=
  match s.awaiting.find? (fun e => e.txid == t) with
  | some e => { s with awaiting := s.awaiting.filter (fun x => x.height < e.height) }
  | none => s

def step (cat : Catalog) (s : St) : Op → St
  | .blockConnected h txs => txsConfirmed cat s h txs   -- block_connected calls transactions_confirmed
  | .txsConfirmed h txs => txsConfirmed cat s h txs
  | .bestBlock h => bestBlock s h
  | .blocksDisconnected h => blocksDisconnected s h
  | .txUnconfirmed t => txUnconfirmed s t

def run (cat : Catalog) (s : St) (ops : List Op) : St := ops.foldl (step cat) s

/-! ### chains and the canonical conclusion -/

/-- transaction `t` is in the block at height `h` of chain `c` -/
def inChain (c : Chain) (h t : Nat) : Prop := ∃ b ∈ c, b.height = h ∧ t ∈ b.txs

/-- height of the tip of `c` above the monitor's birthday `b0` -/
def tip (b0 : Nat) (c : Chain) : Nat := c.foldl (fun m b => max m b.height) b0

/-- the chain up to and including height `h` -/
def truncate (c : Chain) (h : Nat) : Chain := c.filter (fun b => b.height ≤ h)

/-- every entry the chain gives rise to -/
def chainEntries (cat : Catalog) (c : Chain) : List Entry :=
  c.flatMap (fun b => b.txs.flatMap (fun t => (cat t).map (fun ev => { txid := t, height := b.height, ev := ev })))

/-- the conclusion that depends only on the chain: best = tip, every entry of the chain is either
    awaiting (threshold above the tip) or matured (threshold reached) -/
def canon (cat : Catalog) (b0 : Nat) (c : Chain) : St :=
  let t := tip b0 c
  { best := t
    awaiting := (chainEntries cat c).filter (fun e => !e.reached t)
    matured := (chainEntries cat c).filter (fun e => e.reached t) }

/-! ### delivery styles (one final chain, many admissible presentations) -/

/-- How one block is presented.  `dupTx` extra copies of the transactions_confirmed call,
    `emptyFirst`: a filtered_block_connected with no transactions first (the "replayed" Listen
    client), `dupBest` extra copies of best_block_updated. -/
structure BlockStyle where
  listen : Bool := false
  bestFirst : Bool := false
  dupTx : Nat := 0
  dupBest : Nat := 0
  emptyFirst : Bool := false
  deriving DecidableEq, Repr, Inhabited

def presentBlock (st : BlockStyle) (b : Block) : List Op :=
  if st.listen then
    (if st.emptyFirst then [Op.blockConnected b.height []] else []) ++
      List.replicate (st.dupTx + 1) (Op.blockConnected b.height b.txs)
  else
    let confs := List.replicate (st.dupTx + 1) (Op.txsConfirmed b.height b.txs)
    let bests := List.replicate (st.dupBest + 1) (Op.bestBlock b.height)
    if st.bestFirst then bests ++ confs else confs ++ bests

/-- every block in chain order, each in its own style (styles may be mixed along the chain) -/
def presents (style : Block → BlockStyle) (c : Chain) : List Op :=
  c.flatMap (fun b => presentBlock (style b) b)

/-- as `presents`, but blocks without relevant transactions are not announced at all unless they
    are the last one (`best_block_updated` "may be skipped for intermediary blocks") -/
def presentsSkipping (style : Block → BlockStyle) : Chain → List Op
  | [] => []
  | [b] => presentBlock (style b) b
  | b :: rest => (if b.txs.isEmpty then [] else presentBlock (style b) b) ++ presentsSkipping style rest

/-- the "highly redundant" Confirm client: before every block, every earlier non-empty block's
    transactions are confirmed again -/
def presentsRedundant (style : Block → BlockStyle) : List Block → Chain → List Op
  | _, [] => []
  | done, b :: rest =>
    (done.filter (fun p => !p.txs.isEmpty)).map (fun p => Op.txsConfirmed p.height p.txs)
      ++ presentBlock (style b) b ++ presentsRedundant style (done ++ [b]) rest

/-- how a fork of the blocks above `h` is taken back -/
inductive Rewind where
  /-- one `blocks_disconnected(fork point)` -/
  | listenOnce
  /-- `blocks_disconnected` per block, walking backwards -/
  | listenEach
  /-- one `best_block_updated(fork point)` -/
  | bestOnce
  /-- `best_block_updated(previous block)` per block, walking backwards -/
  | bestEach
  /-- only `transaction_unconfirmed` for the transactions of the removed blocks (tip first) -/
  | unconfirmOnly
  deriving DecidableEq, Repr, Inhabited

/-- heights `hi-1, hi-2, …, lo` -/
def downFrom (hi lo : Nat) : List Nat := (List.range (hi - lo)).reverse.map (fun i => lo + i)

def rewindOps (r : Rewind) (fork : Chain) (tipH h : Nat) : List Op :=
  match r with
  | .listenOnce => [Op.blocksDisconnected h]
  | .listenEach => (downFrom tipH h).map Op.blocksDisconnected
  | .bestOnce => [Op.bestBlock h]
  | .bestEach => (downFrom tipH h).map Op.bestBlock
  | .unconfirmOnly => (fork.filter (fun b => h < b.height)).reverse.flatMap (fun b => b.txs.map Op.txUnconfirmed)

/-- a connected-then-disconnected fork: present `pre ++ forkBlocks`, take the fork back to the
    height `h` of the fork point, present `final` (the blocks of the final chain above `h`) -/
def presentsFork (style : Block → BlockStyle) (r : Rewind) (pre forkBlocks final : Chain) (b0 h : Nat) : List Op :=
  presents style (pre ++ forkBlocks) ++ rewindOps r forkBlocks (tip b0 (pre ++ forkBlocks)) h ++ presents style final

/-! ### admissible presentations (the part of the Listen / Confirm contracts the model needs) -/

/-- a transaction id occurs at one height only -/
def WF (c : Chain) : Prop := ∀ h₁ h₂ t, inChain c h₁ t → inChain c h₂ t → h₁ = h₂

/-- two states draw the same conclusions: same best height, same awaiting and matured *sets* -/
def Equiv (a b : St) : Prop :=
  a.best = b.best ∧ (∀ e, e ∈ a.awaiting ↔ e ∈ b.awaiting) ∧ (∀ e, e ∈ a.matured ↔ e ∈ b.matured)

/-- transaction ids announced as confirmed by an op list -/
def delivered : List Op → List Nat
  | [] => []
  | .blockConnected _ txs :: r => txs ++ delivered r
  | .txsConfirmed _ txs :: r => txs ++ delivered r
  | _ :: r => delivered r

/-- highest height announced by the connecting ops of an op list, starting from `b` -/
def topHeight (b : Nat) : List Op → Nat
  | [] => b
  | .blockConnected h _ :: r => topHeight (max b h) r
  | .txsConfirmed h _ :: r => topHeight (max b h) r
  | .bestBlock h :: r => topHeight (max b h) r
  | _ :: r => topHeight b r

/-- `Adm c b ops`: starting with best height `b`, `ops` only connects, every transaction is
    announced at the height it has in `c` (any subset of a block, any number of times, before or
    after the corresponding best_block_updated, later blocks' transactions even before earlier
    ones'), and best_block_updated never goes backwards (it may repeat and may skip heights). -/
inductive Adm (c : Chain) : Nat → List Op → Prop
  | nil (b : Nat) : Adm c b []
  | block (b h : Nat) (txs : List Nat) (r : List Op) :
      (∀ t ∈ txs, inChain c h t) → Adm c (max b h) r → Adm c b (.blockConnected h txs :: r)
  | conf (b h : Nat) (txs : List Nat) (r : List Op) :
      (∀ t ∈ txs, inChain c h t) → Adm c (max b h) r → Adm c b (.txsConfirmed h txs :: r)
  | best (b h : Nat) (r : List Op) : b ≤ h → Adm c h r → Adm c b (.bestBlock h :: r)

/-- `ops` is an admissible fork-free presentation of chain `c` to a monitor born at height `b0` -/
structure Presents (b0 : Nat) (c : Chain) (ops : List Op) : Prop where
  adm : Adm c b0 ops
  /-- every relevant transaction of the chain is announced at least once -/
  complete : ∀ h t, inChain c h t → t ∈ delivered ops
  /-- the tip is announced (by a best_block_updated or by a confirmation in the tip block) -/
  reaches : topHeight b0 ops = tip b0 c

/-- blocks in strictly increasing height order, all above the monitor's birthday -/
def Sorted (b0 : Nat) : Chain → Prop
  | [] => True
  | b :: r => b0 < b.height ∧ Sorted b.height r

/-! ### claims layer: `OnchainTxHandler::claimable_outpoints` with creation heights

Mirrors, for a set of *tracked* outputs (the HTLC outputs of a commitment transaction that this monitor
claims with a preimage), lightning/src/chain/onchaintx.rs `claimable_outpoints :
HashMap<OutPoint, (ClaimId, u32 /* creation height */)>` and the handler's own
`onchain_events_awaiting_threshold_conf`, driven by ChannelMonitorImpl::{transactions_confirmed,
best_block_updated, blocks_disconnected, transaction_unconfirmed, provide_payment_preimage}.  Every
height decision is a GENERATED function of `Ldk.ClaimHeights` (tools/gen_claims.py, translated from the
Rust text on every run). -/

open Ldk.ClaimHeights

/-- a tracked output: the transaction that creates it, the preimage its claim needs (if any), and
    whether it sits on OUR commitment (`HolderHTLCOutput`) or on the counterparty's
    (`CounterpartyOfferedHTLCOutput`) -/
structure OutInfo where
  parent : Nat
  needs : Option Nat
  holder : Bool
  deriving DecidableEq, Repr, Inhabited

/-- the claim catalog: tracked outputs, which outputs each transaction spends, and the outputs
    (with their parent transaction) whose claim is time-locked and malleable
    (`CounterpartyReceivedHTLCOutput`): they sit in `locktimed_packages`, not in `claimable_outpoints`,
    but a confirmed spend of one still makes the handler split the package off into an awaiting
    entry.  (Time-locked `HolderHTLCOutput` packages are untractable: `split_package` refuses, no
    entry; they may be listed in `CSt.locked` but never in `ClaimCat.locked`.) -/
structure ClaimCat where
  outs : List (Nat × OutInfo)
  spends : Nat → List Nat
  locked : List (Nat × Nat) := []

/-- an entry of `claimable_outpoints` (with a `pending_claim_requests` entry behind it) -/
structure Claim where
  out : Nat
  creation : Nat
  deriving DecidableEq, Repr, Inhabited

/-- an entry of the OnchainTxHandler's own `onchain_events_awaiting_threshold_conf`
    (`Claim` / `ContentiousOutpoint`): transaction `txid`, confirmed at `height`, spends tracked output `out` -/
structure HEntry where
  txid : Nat
  height : Nat
  out : Nat
  deriving DecidableEq, Repr, Inhabited

structure CSt where
  st : St
  claims : List Claim
  hAw : List HEntry
  /-- `payment_preimages` (ids of the preimages the monitor knows) -/
  pre : List Nat
  /-- outputs currently in `locktimed_packages` (their locktime is never reached in the model) -/
  locked : List Nat := []
  deriving DecidableEq, Repr, Inhabited

def cinit (best : Nat) : CSt := { st := init best, claims := [], hAw := [], pre := [], locked := [] }

inductive COp where
  | chain (op : Op)
  /-- `ChannelMonitorUpdateStep::PaymentPreimage` → provide_payment_preimage -/
  | preimage (p : Nat)
  deriving DecidableEq, Repr, Inhabited

def hasClaim (cl : List Claim) (o : Nat) : Bool := cl.any (fun c => c.out == o)

/-- mirrors update_claims_view_from_requests for one single-outpoint request: ignored when the
    outpoint is already in `claimable_outpoints`, otherwise registered with
    `creation_height = outpoint_confirmation_height.unwrap_or(conf_height)` (generated) -/
def register (confHeight : Nat) (cl : List Claim) (req : Nat × Option Nat) : List Claim :=
  if hasClaim cl req.1 then cl else cl ++ [{ out := req.1, creation := claimCreationHeight req.2 confHeight }]

def registerAll (confHeight : Nat) (cl : List Claim) (reqs : List (Nat × Option Nat)) : List Claim :=
  reqs.foldl (register confHeight) cl

def preKnown (pre : List Nat) : Option Nat → Bool
  | none => true
  | some p => pre.contains p

/-- the requests check_spend_counterparty_transaction / check_spend_holder_transaction build when
    transaction `t` is first seen confirmed at `h`: one per tracked output of `t` whose preimage is
    known, carrying the generated outpoint confirmation height -/
def confirmRequests (K : ClaimCat) (pre : List Nat) (h t : Nat) : List (Nat × Option Nat) :=
  K.outs.filterMap (fun oi =>
    if oi.2.parent == t && preKnown pre oi.2.needs then
      some (oi.1, if oi.2.holder then holderStoredHeight (holderConfirmOutpointHeight h) else counterpartyConfirmOutpointHeight h)
    else none)

/-- mirrors the first half of update_claims_view_from_matched_txn: a confirmed transaction that
    spends an outpoint with a registered claim gets a handler-side awaiting entry (once) -/
def noteSpends (K : ClaimCat) (cl : List Claim) (lk : List Nat) (h : Nat) (hAw : List HEntry) (t : Nat) : List HEntry :=
  (K.spends t).foldl (fun acc o =>
    let e : HEntry := { txid := t, height := h, out := o }
    if (hasClaim cl o || (lk.contains o && K.locked.any (fun op => op.1 == o))) && !acc.contains e then acc ++ [e] else acc) hAw

/-- mirrors the second half: entries that reached the (generated) handler threshold remove the claim
    they resolve -/
def handlerMature (cur : Nat) (cl : List Claim) (hAw : List HEntry) : List Claim × List HEntry :=
  let done := hAw.filter (fun e => handlerReached cur e.height)
  (cl.filter (fun c => !done.any (fun e => e.out == c.out)), hAw.filter (fun e => !handlerReached cur e.height))

/-- mirrors OnchainTxHandler::blocks_disconnected(new_best_height) on the bookkeeping -/
def handlerDisconnect (newBest : Nat) (cl : List Claim) (hAw : List HEntry) : List Claim × List HEntry :=
  (cl.filter (fun c => !claimDropped c.creation newBest), hAw.filter (fun e => !handlerEntryDropped e.height newBest))

/-- transactions_confirmed → block_confirmed: requests of the newly seen transactions
    (`update_claims_view_from_requests(.., conf_height = h, cur = best)`), then
    `update_claims_view_from_matched_txn` for all announced transactions -/
def cTxsConfirmed (cat : Catalog) (K : ClaimCat) (s : CSt) (h : Nat) (txs : List Nat) : CSt :=
  let st' := txsConfirmed cat s.st h txs
  let reqs := (txs.filter (fun t => !known s.st t)).flatMap (confirmRequests K s.pre h)
  let cl1 := registerAll h s.claims reqs
  -- time-locked requests of the newly seen transactions go to `locktimed_packages` (once)
  let lk1 := (K.locked.filter (fun op => txs.any (fun t => t == op.2 && !known s.st t))).foldl
    (fun acc op => if acc.contains op.1 then acc else acc ++ [op.1]) s.locked
  let aw1 := txs.foldl (noteSpends K cl1 lk1 h) s.hAw
  -- a spent time-locked package is split off into its ContentiousOutpoint entry
  let lk2 := lk1.filter (fun o => !aw1.any (fun e => e.out == o))
  let r := handlerMature st'.best cl1 aw1
  { s with st := st', claims := r.1, hAw := r.2, locked := lk2 }

/-- the time-locked packages of dropped ContentiousOutpoint entries go back to `locktimed_packages` -/
def relock (K : ClaimCat) (newBest : Nat) (hAw : List HEntry) (lk : List Nat) : List Nat :=
  (hAw.filter (fun e => handlerEntryDropped e.height newBest && K.locked.any (fun op => op.1 == e.out))).foldl
    (fun acc e => if acc.contains e.out then acc else acc ++ [e.out]) lk

def cRewind (K : ClaimCat) (s : CSt) (h : Nat) : CSt :=
  let r := handlerDisconnect h s.claims s.hAw
  { s with st := rewindTo s.st h, claims := r.1, hAw := r.2, locked := relock K h s.hAw s.locked }

/-- best_block_updated: a higher block runs block_confirmed with nothing new (handler maturity at
    the new height); otherwise the re-org branch -/
def cBestBlock (K : ClaimCat) (s : CSt) (h : Nat) : CSt :=
  if h > s.st.best then
    let r := handlerMature h s.claims s.hAw
    { s with st := bestBlock s.st h, claims := r.1, hAw := r.2 }
  else cRewind K s h

def cBlocksDisconnected (K : ClaimCat) (s : CSt) (h : Nat) : CSt := if h < s.st.best then cRewind K s h else s

/-- transaction_unconfirmed: the monitor part, then OnchainTxHandler::transaction_unconfirmed, which
    looks the txid up in the HANDLER's awaiting entries and rewinds to `height - 1` (generated) -/
def cTxUnconfirmed (K : ClaimCat) (s : CSt) (t : Nat) : CSt :=
  let st' := txUnconfirmed s.st t
  match s.hAw.find? (fun e => e.txid == t) with
  | some e =>
    let r := handlerDisconnect (unconfirmedRewind e.height) s.claims s.hAw
    { s with st := st', claims := r.1, hAw := r.2, locked := relock K (unconfirmedRewind e.height) s.hAw s.locked }
  | none => { s with st := st' }

/-- `funding_spend_confirmed` / the first awaiting FundingSpendConfirmation, as provide_payment_preimage
    looks them up: (txid, irrevocable?, height of the awaiting entry) -/
def fundingSpend (st : St) : Option (Nat × Bool × Option Nat) :=
  match st.matured.find? (fun e => e.ev.kind == 2) with
  | some e => some (e.txid, true, none)
  | none =>
    match st.awaiting.find? (fun e => e.ev.kind == 2) with
    | some e => some (e.txid, false, some e.height)
    | none => none

/-- `payment_preimages.entry(hash).or_insert(..)` -/
def addPre (pre : List Nat) (p : Nat) : List Nat := if pre.contains p then pre else pre ++ [p]

/-- the claim requests provide_payment_preimage builds for preimage `p` (`pre'` = the preimages known
    including `p`): none unless a commitment transaction is confirmed (the early `return`).
    Counterparty commitment: the outputs needing exactly this preimage, dated by the generated
    `preimageSpendHeight`; holder commitment: every output whose preimage is known, dated by the
    generated `holderPreimageOutpointHeight` of that same spend height
    (`confirmed_spend_height.unwrap_or(best)` since repo commit 0461f57; before it: `best`). -/
def preimageRequests (K : ClaimCat) (st : St) (pre' : List Nat) (p : Nat) : List (Nat × Option Nat) :=
  match fundingSpend st with
  | none => []
  | some (txid, final, awH) =>
    match preimageSpendHeight final awH st.best with
    | none => []
    | some spendHeight =>
      K.outs.filterMap (fun oi =>
        if oi.2.parent == txid then
          if oi.2.holder then
            (if preKnown pre' oi.2.needs then some (oi.1, holderStoredHeight (holderPreimageOutpointHeight spendHeight st.best)) else none)
          else (if oi.2.needs == some p then some (oi.1, spendHeight) else none)
        else none)

/-- the `conf_height` provide_payment_preimage hands to update_claims_view_from_requests (generated;
    both branches pass the best height) -/
def preimageRegisterHeight (K : ClaimCat) (st : St) : Nat :=
  if K.outs.any (fun oi => oi.2.holder) then holderPreimageConfHeight st.best else preimageConfHeight st.best

/-- mirrors provide_payment_preimage: remember the preimage, register the requests it makes possible -/
def cPreimage (K : ClaimCat) (s : CSt) (p : Nat) : CSt :=
  let pre' := addPre s.pre p
  { s with pre := pre', claims := registerAll (preimageRegisterHeight K s.st) s.claims (preimageRequests K s.st pre' p) }

def cstep (cat : Catalog) (K : ClaimCat) (s : CSt) : COp → CSt
  | .chain (.blockConnected h txs) => cTxsConfirmed cat K s h txs
  | .chain (.txsConfirmed h txs) => cTxsConfirmed cat K s h txs
  | .chain (.bestBlock h) => cBestBlock K s h
  | .chain (.blocksDisconnected h) => cBlocksDisconnected K s h
  | .chain (.txUnconfirmed t) => cTxUnconfirmed K s t
  | .preimage p => cPreimage K s p

def crun (cat : Catalog) (K : ClaimCat) (s : CSt) (ops : List COp) : CSt := ops.foldl (cstep cat K) s

/-- the chain notifications of a history (preimage updates erased) -/
def chainOps : List COp → List Op
  | [] => []
  | .chain op :: r => op :: chainOps r
  | .preimage _ :: r => chainOps r

/-- the preimages a history provides -/
def preimagesOf : List COp → List Nat
  | [] => []
  | .chain _ :: r => preimagesOf r
  | .preimage p :: r => p :: preimagesOf r

/-! ### the `transaction_unconfirmed`-only rewind (the Confirm client that reports a re-org by naming the
removed transactions, in ANY order, and never announces a lower best block) -/

/-- the calls `transaction_unconfirmed(t)` for `t ∈ us`, in list order -/
def unconfOps (us : List Nat) : List Op := us.map Op.txUnconfirmed

/-- what the monitor-side state is after ALL removed transactions have been reported (Proofs/Unconfirm.lean,
    `run_unconfOps`): the awaiting entries above the fork point are gone, the best height is NOT touched -/
def unconfirmedTo (s : St) (h : Nat) : St := { s with awaiting := s.awaiting.filter (fun e => e.height ≤ h) }

/-- the claims-layer history of the same calls -/
def cUnconfOps (us : List Nat) : List COp := us.map (fun t => COp.chain (.txUnconfirmed t))

/-- the claims that survive an unconfirm-only rewind of everything above `h` (Proofs/Unconfirm.lean,
    `crun_cUnconfOps`): a claim is dropped iff some handler entry above the fork point sits at or below the
    claim's creation height — `OnchainTxHandler::transaction_unconfirmed` rewinds to `height - 1` of an entry
    the HANDLER has; a claim whose parent has no handler entry (the counterparty's commitment) lingers -/
def unconfirmedClaims (claims : List Claim) (hAw : List HEntry) (h : Nat) : List Claim :=
  claims.filter (fun c => hAw.all (fun e => decide (e.height ≤ h) || decide (c.creation < e.height)))

/-- no `transaction_unconfirmed` in the history (the Confirm client that reports re-orgs only that
    way is covered by the correspondence, see Props/C11.lean) -/
def NoUnconf : List COp → Prop
  | [] => True
  | .chain (.txUnconfirmed _) :: _ => False
  | _ :: r => NoUnconf r

end Ldk.ChainView
