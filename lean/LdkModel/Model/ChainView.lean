/- C11 — the ChannelMonitor's view of the chain: not-yet-final on-chain events
   (`onchain_events_awaiting_threshold_conf`), irrevocable conclusions, and the five notifications of
   the `chain::Listen` / `chain::Confirm` contracts.  Hand-written mirror of
   lightning/src/chain/channelmonitor.rs (ChannelMonitorImpl::{transactions_confirmed,
   best_block_updated, block_connected, block_confirmed, blocks_disconnected, transaction_unconfirmed});
   maturity uses the GENERATED `Ldk.confirmationThreshold` / `Ldk.hasReachedConfirmationThreshold`
   (Generated/Timing.lean, translated from OnchainEventEntry::confirmation_threshold on every run).

   Abstractions (checked by the c11 correspondence, see tools/cfg/C11.py):
   * a transaction is a small integer id; what the monitor queues when it first sees transaction `t`
     confirmed is a fixed list `cat t` of events (kind + optional CSV delay) — the *catalog*.  In the
     real code this list is computed from the channel state (check_spend_*_transaction,
     is_resolving_htlc_output, check_tx_and_push_spendable_outputs); the harness learns it from one
     reference delivery and the correspondence checks it is the same under every other delivery;
   * block hashes are not modelled: `best_block_updated` with `height ≤ best` is the "re-orged"
     branch (for `height = best` and an unchanged hash the real code does nothing, which coincides
     with the re-org branch whenever every awaiting entry has `height ≤ best` — `Proofs.ChainView.
     heights_le_best`); the `assert_eq!(header.block_hash(), conf_hash)` panic on a re-confirmation
     in a different block without a prior unconfirm is a contract violation and is not modelled
     (the model skips the transaction as already known);
   * `outputs_to_watch` / `filter_block` (which transactions are relevant at all) and the
     OnchainTxHandler (claim generation / bumping) are not modelled. -/
import LdkModel.Generated.Timing
namespace Ldk.ChainView
open Ldk

/-- kind of an `OnchainEvent` (channelmonitor.rs `enum OnchainEvent`) and its CSV delay, if any -/
structure Ev where
  /-- 0 HTLCUpdate, 1 MaturingOutput, 2 FundingSpendConfirmation, 3 HTLCSpendConfirmation,
      4 AlternativeFundingConfirmation -/
  kind : Nat
  /-- `Some csv` for MaturingOutput(DelayedPaymentOutput), FundingSpendConfirmation{on_local_output_csv},
      HTLCSpendConfirmation{on_to_local_output_csv} -/
  csv : Option Nat
  deriving DecidableEq, Repr, Inhabited

/-- mirrors channelmonitor.rs `struct OnchainEventEntry` (txid, height, event) -/
structure Entry where
  txid : Nat
  height : Nat
  ev : Ev
  deriving DecidableEq, Repr, Inhabited

/-- a block as far as one monitor is concerned: its height and the relevant transactions in it -/
structure Block where
  height : Nat
  txs : List Nat
  deriving DecidableEq, Repr, Inhabited

abbrev Chain := List Block

/-- what the monitor queues when it first sees transaction `t` confirmed -/
abbrev Catalog := Nat → List Ev

/-- monitor-side state: `best_block.height`, `onchain_events_awaiting_threshold_conf`, and the
    entries that reached their threshold (their txids are what `funding_spend_confirmed`,
    `htlcs_resolved_on_chain[..].resolving_txid` and `spendable_txids_confirmed` remember) -/
structure St where
  best : Nat
  awaiting : List Entry
  matured : List Entry
  deriving DecidableEq, Repr, Inhabited

def init (best : Nat) : St := { best := best, awaiting := [], matured := [] }

inductive Op where
  /-- `Listen::block_connected` / `filtered_block_connected` -/
  | blockConnected (h : Nat) (txs : List Nat)
  /-- `Confirm::transactions_confirmed` -/
  | txsConfirmed (h : Nat) (txs : List Nat)
  /-- `Confirm::best_block_updated` -/
  | bestBlock (h : Nat)
  /-- `Listen::blocks_disconnected(fork_point)` -/
  | blocksDisconnected (toHeight : Nat)
  /-- `Confirm::transaction_unconfirmed` -/
  | txUnconfirmed (txid : Nat)
  deriving DecidableEq, Repr, Inhabited

/-- mirrors OnchainEventEntry::confirmation_threshold (generated) -/
def Entry.threshold (e : Entry) : Nat := confirmationThreshold e.height e.ev.csv

/-- mirrors OnchainEventEntry::has_reached_confirmation_threshold (generated) -/
def Entry.reached (best : Nat) (e : Entry) : Bool :=
  hasReachedConfirmationThreshold best e.height e.ev.csv

/-- the `continue 'tx_iter` filters at the top of transactions_confirmed: the txid is already in
    onchain_events_awaiting_threshold_conf, or is funding_spend_confirmed / a resolving_txid of
    htlcs_resolved_on_chain / in spendable_txids_confirmed -/
def known (s : St) (t : Nat) : Bool :=
  s.awaiting.any (fun e => e.txid == t) || s.matured.any (fun e => e.txid == t)

/-- one iteration of `'tx_iter` in transactions_confirmed: queue the events of a not-yet-known
    transaction at the confirmation height -/
def addTx (cat : Catalog) (h : Nat) (s : St) (t : Nat) : St :=
  if known s t then s
  else { s with awaiting := s.awaiting ++ (cat t).map (fun ev => { txid := t, height := h, ev := ev }) }

/-- mirrors the partition at the start of block_confirmed: entries that reached their threshold
    with respect to the *current* best block become irrevocable -/
def mature (s : St) : St :=
  { s with
    awaiting := s.awaiting.filter (fun e => !e.reached s.best)
    matured := s.matured ++ s.awaiting.filter (fun e => e.reached s.best) }

/-- mirrors ChannelMonitorImpl::transactions_confirmed: process the transactions, then
    `if height > best { best = height }`, then block_confirmed -/
def txsConfirmed (cat : Catalog) (s : St) (h : Nat) (txs : List Nat) : St :=
  let s1 := txs.foldl (addTx cat h) s
  mature { s1 with best := max s1.best h }

/-- the effect shared by blocks_disconnected and the re-org branch of best_block_updated:
    `onchain_events_awaiting_threshold_conf.retain(|e| e.height <= height)`, best := height -/
def rewindTo (s : St) (h : Nat) : St :=
  { s with best := h, awaiting := s.awaiting.filter (fun e => e.height ≤ h) }

/-- mirrors ChannelMonitorImpl::best_block_updated -/
def bestBlock (s : St) (h : Nat) : St :=
  if h > s.best then mature { s with best := h } else rewindTo s h

/-- mirrors ChannelMonitorImpl::blocks_disconnected (`assert!(best.height > fork_point.height)`:
    a call that violates the assertion is a no-op in the model) -/
def blocksDisconnected (s : St) (h : Nat) : St :=
  if h < s.best then rewindTo s h else s

/-- mirrors ChannelMonitorImpl::transaction_unconfirmed: if the txid is awaiting at height `rh`,
    drop every awaiting entry with `height ≥ rh`; best is not touched -/
def txUnconfirmed (s : St) (t : Nat) : St :=
  match s.awaiting.find? (fun e => e.txid == t) with
  | some e => { s with awaiting := s.awaiting.filter (fun x => x.height < e.height) }
  | none => s

def step (cat : Catalog) (s : St) : Op → St
  | .blockConnected h txs => txsConfirmed cat s h txs   -- block_connected calls transactions_confirmed
  | .txsConfirmed h txs => txsConfirmed cat s h txs
  | .bestBlock h => bestBlock s h
  | .blocksDisconnected h => blocksDisconnected s h
  | .txUnconfirmed t => txUnconfirmed s t

def run (cat : Catalog) (s : St) (ops : List Op) : St := ops.foldl (step cat) s

/-! ### chains and the canonical conclusion -/

/-- transaction `t` is in the block at height `h` of chain `c` -/
def inChain (c : Chain) (h t : Nat) : Prop := ∃ b ∈ c, b.height = h ∧ t ∈ b.txs

/-- height of the tip of `c` above the monitor's birthday `b0` -/
def tip (b0 : Nat) (c : Chain) : Nat := c.foldl (fun m b => max m b.height) b0

/-- the chain up to and including height `h` -/
def truncate (c : Chain) (h : Nat) : Chain := c.filter (fun b => b.height ≤ h)

/-- every entry the chain gives rise to -/
def chainEntries (cat : Catalog) (c : Chain) : List Entry :=
  c.flatMap (fun b => b.txs.flatMap (fun t => (cat t).map (fun ev => { txid := t, height := b.height, ev := ev })))

/-- the conclusion that depends only on the chain: best = tip, every entry of the chain is either
    awaiting (threshold above the tip) or matured (threshold reached) -/
def canon (cat : Catalog) (b0 : Nat) (c : Chain) : St :=
  let t := tip b0 c
  { best := t
    awaiting := (chainEntries cat c).filter (fun e => !e.reached t)
    matured := (chainEntries cat c).filter (fun e => e.reached t) }

/-! ### delivery styles (one final chain, many admissible presentations) -/

/-- How one block is presented.  `dupTx` extra copies of the transactions_confirmed call,
    `emptyFirst`: a filtered_block_connected with no transactions first (the "replayed" Listen
    client), `dupBest` extra copies of best_block_updated. -/
structure BlockStyle where
  listen : Bool := false
  bestFirst : Bool := false
  dupTx : Nat := 0
  dupBest : Nat := 0
  emptyFirst : Bool := false
  deriving DecidableEq, Repr, Inhabited

def presentBlock (st : BlockStyle) (b : Block) : List Op :=
  if st.listen then
    (if st.emptyFirst then [Op.blockConnected b.height []] else []) ++
      List.replicate (st.dupTx + 1) (Op.blockConnected b.height b.txs)
  else
    let confs := List.replicate (st.dupTx + 1) (Op.txsConfirmed b.height b.txs)
    let bests := List.replicate (st.dupBest + 1) (Op.bestBlock b.height)
    if st.bestFirst then bests ++ confs else confs ++ bests

/-- every block in chain order, each in its own style (styles may be mixed along the chain) -/
def presents (style : Block → BlockStyle) (c : Chain) : List Op :=
  c.flatMap (fun b => presentBlock (style b) b)

/-- as `presents`, but blocks without relevant transactions are not announced at all unless they
    are the last one (`best_block_updated` "may be skipped for intermediary blocks") -/
def presentsSkipping (style : Block → BlockStyle) : Chain → List Op
  | [] => []
  | [b] => presentBlock (style b) b
  | b :: rest => (if b.txs.isEmpty then [] else presentBlock (style b) b) ++ presentsSkipping style rest

/-- the "highly redundant" Confirm client: before every block, every earlier non-empty block's
    transactions are confirmed again -/
def presentsRedundant (style : Block → BlockStyle) : List Block → Chain → List Op
  | _, [] => []
  | done, b :: rest =>
    (done.filter (fun p => !p.txs.isEmpty)).map (fun p => Op.txsConfirmed p.height p.txs)
      ++ presentBlock (style b) b ++ presentsRedundant style (done ++ [b]) rest

/-- how a fork of the blocks above `h` is taken back -/
inductive Rewind where
  /-- one `blocks_disconnected(fork point)` -/
  | listenOnce
  /-- `blocks_disconnected` per block, walking backwards -/
  | listenEach
  /-- one `best_block_updated(fork point)` -/
  | bestOnce
  /-- `best_block_updated(previous block)` per block, walking backwards -/
  | bestEach
  /-- only `transaction_unconfirmed` for the transactions of the removed blocks (tip first) -/
  | unconfirmOnly
  deriving DecidableEq, Repr, Inhabited

/-- heights `hi-1, hi-2, …, lo` -/
def downFrom (hi lo : Nat) : List Nat := (List.range (hi - lo)).reverse.map (fun i => lo + i)

def rewindOps (r : Rewind) (fork : Chain) (tipH h : Nat) : List Op :=
  match r with
  | .listenOnce => [Op.blocksDisconnected h]
  | .listenEach => (downFrom tipH h).map Op.blocksDisconnected
  | .bestOnce => [Op.bestBlock h]
  | .bestEach => (downFrom tipH h).map Op.bestBlock
  | .unconfirmOnly => (fork.filter (fun b => h < b.height)).reverse.flatMap (fun b => b.txs.map Op.txUnconfirmed)

/-- a connected-then-disconnected fork: present `pre ++ forkBlocks`, take the fork back to the
    height `h` of the fork point, present `final` (the blocks of the final chain above `h`) -/
def presentsFork (style : Block → BlockStyle) (r : Rewind) (pre forkBlocks final : Chain) (b0 h : Nat) : List Op :=
  presents style (pre ++ forkBlocks) ++ rewindOps r forkBlocks (tip b0 (pre ++ forkBlocks)) h ++ presents style final

/-! ### admissible presentations (the part of the Listen / Confirm contracts the model needs) -/

/-- a transaction id occurs at one height only -/
def WF (c : Chain) : Prop := ∀ h₁ h₂ t, inChain c h₁ t → inChain c h₂ t → h₁ = h₂

/-- two states draw the same conclusions: same best height, same awaiting and matured *sets* -/
def Equiv (a b : St) : Prop :=
  a.best = b.best ∧ (∀ e, e ∈ a.awaiting ↔ e ∈ b.awaiting) ∧ (∀ e, e ∈ a.matured ↔ e ∈ b.matured)

/-- transaction ids announced as confirmed by an op list -/
def delivered : List Op → List Nat
  | [] => []
  | .blockConnected _ txs :: r => txs ++ delivered r
  | .txsConfirmed _ txs :: r => txs ++ delivered r
  | _ :: r => delivered r

/-- highest height announced by the connecting ops of an op list, starting from `b` -/
def topHeight (b : Nat) : List Op → Nat
  | [] => b
  | .blockConnected h _ :: r => topHeight (max b h) r
  | .txsConfirmed h _ :: r => topHeight (max b h) r
  | .bestBlock h :: r => topHeight (max b h) r
  | _ :: r => topHeight b r

/-- `Adm c b ops`: starting with best height `b`, `ops` only connects, every transaction is
    announced at the height it has in `c` (any subset of a block, any number of times, before or
    after the corresponding best_block_updated, later blocks' transactions even before earlier
    ones'), and best_block_updated never goes backwards (it may repeat and may skip heights). -/
inductive Adm (c : Chain) : Nat → List Op → Prop
  | nil (b : Nat) : Adm c b []
  | block (b h : Nat) (txs : List Nat) (r : List Op) :
      (∀ t ∈ txs, inChain c h t) → Adm c (max b h) r → Adm c b (.blockConnected h txs :: r)
  | conf (b h : Nat) (txs : List Nat) (r : List Op) :
      (∀ t ∈ txs, inChain c h t) → Adm c (max b h) r → Adm c b (.txsConfirmed h txs :: r)
  | best (b h : Nat) (r : List Op) : b ≤ h → Adm c h r → Adm c b (.bestBlock h :: r)

/-- `ops` is an admissible fork-free presentation of chain `c` to a monitor born at height `b0` -/
structure Presents (b0 : Nat) (c : Chain) (ops : List Op) : Prop where
  adm : Adm c b0 ops
  /-- every relevant transaction of the chain is announced at least once -/
  complete : ∀ h t, inChain c h t → t ∈ delivered ops
  /-- the tip is announced (by a best_block_updated or by a confirmation in the tip block) -/
  reaches : topHeight b0 ops = tip b0 c

/-- blocks in strictly increasing height order, all above the monitor's birthday -/
def Sorted (b0 : Nat) : Chain → Prop
  | [] => True
  | b :: r => b0 < b.height ∧ Sorted b.height r

end Ldk.ChainView
