/- C02 — forwarding.  (a) `admitFwd`: the forward-admission decision, composed from the GENERATED
   translations of `FundedChannel::internal_htlc_satisfies_config` and `check_incoming_htlc_cltv`
   (Generated/Timing.lean) in the order `ChannelManager::can_forward_htlc_should_intercept` runs them.
   (b) `FwdProto`: a small machine for ONE forwarded HTLC at node B (upstream A–B, downstream B–C):
   what B has been told by C / the chain, which `ChannelMonitorUpdate`s B has handed to `chain::Watch`
   and which of them are durable, and B's own upstream actions (guarded).
   (c) `outcome`: the admission decision for EVERY next-hop kind (real channel / phantom SCID / intercept SCID /
   unknown SCID), composed from the GENERATED translations of can_forward_htlc_should_intercept and its callees
   (Generated/Forward.lean), and what the node then offers downstream (directly, or when an intercepted HTLC is
   released at its `expected_outbound_amount_msat`).
   No Mathlib; everything is a total computable function (the driver links natively). -/
import LdkModel.Generated.Timing
import LdkModel.Generated.Forward
namespace Ldk.Forward
open Ldk

/-! ## (a) admission -/

/-- the forwarding part of `ChannelConfig` of the OUTGOING channel
    (`forwarding_fee_base_msat`, `forwarding_fee_proportional_millionths`, `cltv_expiry_delta`) -/
structure FwdCfg where
  feeBase : Nat
  feeProp : Nat
  cltvDelta : Nat
  deriving Repr, DecidableEq

/-- the fee `internal_htlc_satisfies_config` demands for forwarding `outAmt`
    (`amt.checked_mul(prop).and_then(|p| (p / 1000000).checked_add(base))`; `none` = u64 overflow) -/
def requiredFee (cfg : FwdCfg) (outAmt : Nat) : Option Nat :=
  (chkMul64 outAmt cfg.feeProp).bind fun p => chkAdd64 (p / 1000000) cfg.feeBase

/-- mirrors lightning/src/ln/channelmanager.rs::can_forward_htlc_should_intercept for a forward to a known,
    live, public channel: `can_forward_htlc_to_outgoing_channel` ends in `chan.htlc_satisfies_config(msg,
    outgoing_amt_msat, outgoing_cltv_value)` (generated `htlcSatisfiesConfig`; no `prev_config` fallback: the
    config is never changed after channel creation), then `check_incoming_htlc_cltv(cur_height,
    outgoing_cltv_value, msg.cltv_expiry, MIN_CLTV_EXPIRY_DELTA)` (generated `checkIncomingHtlcCltv`).
    `height` is `cur_height = best_block.height + 1`. -/
def admitFwd (cfg : FwdCfg) (height inAmt inCltv outAmt outCltv : Nat) : Except FailReason Unit :=
  match htlcSatisfiesConfig inAmt inCltv outAmt outCltv cfg.feeProp cfg.feeBase cfg.cltvDelta with
  | .error e => .error e
  | .ok _ => checkIncomingHtlcCltv height outCltv inCltv MIN_CLTV_EXPIRY_DELTA

/-- coarse class of a rejection reason (what the end-to-end harness can tell apart reliably) -/
def reasonClass : FailReason → String
  | .feeInsufficient => "fee"
  | .incorrectCLTVExpiry => "cltv"
  | .cLTVExpiryTooSoon => "cltv"
  | .cLTVExpiryTooFar => "cltv"
  | .outgoingCLTVTooSoon => "cltv"
  | _ => "other"

/-! ## (b) the forwarding protocol for one HTLC -/

/-- what B's downstream channel / monitor knows about the HTLC it offered to C -/
inductive Down where
  /-- committed on B–C, nothing heard back -/
  | offered
  /-- `update_fulfill_htlc` received (channel.rs `update_fulfill_htlc`: `RemoteRemoved(Success)`); B knows the preimage -/
  | fulfilSeen
  /-- `update_fail_htlc` received (`RemoteRemoved(Failure)`), not yet irrevocable -/
  | failSeen
  /-- C's `revoke_and_ack` processed after the fulfil: the HTLC left the channel object -/
  | removedByFulfil
  /-- C's `revoke_and_ack` processed after the fail: the HTLC is in `revoked_htlcs` -/
  | removedByFail
  /-- the downstream monitor saw the preimage on chain (`MonitorEvent::HTLCEvent` with a preimage) -/
  | onchainPreimage
  /-- the downstream monitor's `OnchainEvent::HTLCUpdate` matured (B's timeout spend buried) -/
  | onchainTimeoutBuried
  deriving DecidableEq, Repr, Inhabited

/-- life cycle of a `ChannelMonitorUpdate` that is never held back -/
inductive Upd where
  | notYet | handedToWatch | durable
  deriving DecidableEq, Repr, Inhabited

/-- life cycle of the downstream channel's `revoke_and_ack` monitor update (the `CommitmentSecret` step that
    makes the removal irrevocable); `blocked` = parked in `blocked_monitor_updates` by an
    `RAAMonitorUpdateBlockingAction` -/
inductive Raa where
  | notYet | blocked | handedToWatch | durable
  deriving DecidableEq, Repr, Inhabited

/-- what B has done on the upstream link -/
inductive Up where
  | pending | fulfilSent | failSent
  deriving DecidableEq, Repr, Inhabited

inductive Which where
  | up | downCs | downRaa
  deriving DecidableEq, Repr

structure St where
  /-- the process is running (false between `crash` and `restart`) -/
  alive : Bool := true
  /-- B's `Persist` returns `Completed` (true) or `InProgress` (false) -/
  sync : Bool := true
  down : Down := .offered
  /-- the `PaymentPreimage` update of the UPSTREAM monitor was given to `chain::Watch` (the in-memory monitor has it) -/
  upPreimageHandedToWatch : Bool := false
  /-- ... and its persistence completed (the durable copy of the upstream monitor knows the preimage) -/
  upPreimageDurable : Bool := false
  /-- downstream update for C's `commitment_signed` after the fulfil/fail (`LatestHolderCommitmentTXInfo`, which
      carries `claimed_htlcs`, i.e. the preimage, into the downstream monitor) -/
  downCsUpdate : Upd := .notYet
  downRaaUpdate : Raa := .notYet
  /-- `actions_blocking_raa_monitor_updates` of the downstream channel holds the `RAAMonitorUpdateBlockingAction`
      for this HTLC (pushed by every processed `update_fulfill_htlc`, removed by the upstream completion action) -/
  blocker : Bool := false
  /-- number of OTHER updates of the upstream channel that are in flight (the completion actions of the upstream
      channel run only when its whole `in_flight_monitor_updates` list is empty) -/
  upOther : Nat := 0
  up : Up := .pending
  /-- confirmations of B's downstream timeout spend when `onchainTimeoutBuried` was entered -/
  timeoutDepth : Nat := 0
  /-- number of `RAAMonitorUpdateBlockingAction`s OTHER forwarded HTLCs hold on the downstream channel
      (`raa_monitor_updates_held` is per channel: the `revoke_and_ack` update is parked while ANY blocker is registered) -/
  downOther : Nat := 0
  deriving DecidableEq, Repr, Inhabited

inductive Op where
  /-- B's persister switches between `Completed` and `InProgress` -/
  | setSync (b : Bool)
  | recvFulfilDown
  | recvFailDown
  /-- C's `commitment_signed` that commits the removal -/
  | recvCsDown
  /-- C's `revoke_and_ack` that revokes the last commitment containing the HTLC -/
  | recvRaaDown
  /-- `ChainMonitor::channel_monitor_updated` for the named update -/
  | complete (w : Which)
  /-- an unrelated update of the upstream channel is handed to `chain::Watch` and stays `InProgress` -/
  | handUpOther
  /-- ... and completes -/
  | completeUpOther
  /-- the process dies; `lost = true`: updates still `InProgress` never reached the disk,
      `lost = false`: they had been written (the manager was just not told) -/
  | crash (lost : Bool)
  /-- reload from the persisted manager and the durable monitors, with the given persistence mode -/
  | restart (sync : Bool)
  /-- the downstream channel is on chain and C's preimage spend is seen by the monitor -/
  | chainPreimage
  /-- the downstream channel is on chain and B's timeout spend has `depth` confirmations -/
  | chainTimeout (depth : Nat)
  /-- another HTLC's `update_fulfill_htlc` registers its RAA blocker on the downstream channel -/
  | addDownOther
  /-- ... and that blocker is removed by its own completion action (`handle_monitor_update_release`) -/
  | removeDownOther
  /-- B releases `update_fulfill_htlc` to A -/
  | sendFulfilUp
  /-- B releases `update_fail_htlc` to A -/
  | sendFailUp
  deriving DecidableEq, Repr

/-- durable copy of the upstream monitor: `payment_preimages` contains the preimage -/
def durUpKnowsPreimage (s : St) : Bool := s.upPreimageDurable

/-- durable copy of the downstream monitor, as `from_channel_manager_data` reads it for
    `pending_claims_to_replay`: the HTLC is still in `get_all_current_outbound_htlcs()` (C's revocation is not
    durable) with a preimage (`counterparty_fulfilled_htlcs`, filled by the durable holder-commitment update),
    or the monitor recorded the preimage from the chain. -/
def durDownKnowsPreimage (s : St) : Bool :=
  ((s.down == .fulfilSeen || s.down == .removedByFulfil) && s.downCsUpdate == .durable && s.downRaaUpdate != .durable)
  || s.down == .onchainPreimage

/-- B has learned the preimage from the downstream side (message or chain) -/
def knowsPreimage (s : St) : Bool :=
  s.down == .fulfilSeen || s.down == .removedByFulfil || s.down == .onchainPreimage

/-- hand the (so far blocked / new) `revoke_and_ack` update of the downstream channel to `chain::Watch` -/
def handRaa (s : St) : St :=
  { s with downRaaUpdate := if s.sync then .durable else .handedToWatch }

/-- the upstream channel's `in_flight_monitor_updates` is non-empty -/
def upBusy (s : St) : Bool :=
  (s.upPreimageHandedToWatch && !s.upPreimageDurable) || s.upOther != 0

/-- mirrors `handle_monitor_update_release`: with no blocker left the parked downstream update flies -/
def releaseBlocked (s : St) : St :=
  if s.downRaaUpdate == .blocked && !s.blocker && s.downOther == 0 then handRaa s else s

/-- mirrors `handle_monitor_update_completion_actions` (`EmitEventOptionAndFreeOtherChannel` /
    `FreeDuplicateClaimImmediately`): the completion actions of the upstream channel run when ALL its in-flight
    updates are complete; they remove the blocker and release the downstream channel -/
def runUpActions (s : St) : St :=
  if upBusy s then s else releaseBlocked { s with blocker := false }

/-- mirrors `claim_funds_internal` → `claim_funds_from_htlc_forward_hop` → `claim_mpp_part`:
    `NewClaim` gives the `PaymentPreimage` update to the upstream monitor with the release as its completion
    action; `DuplicateClaim` frees the (re-added) blocker at once, or — if upstream updates are in flight — once
    they are complete -/
def claimUpstream (s : St) : St :=
  if s.upPreimageHandedToWatch then runUpActions s
  else runUpActions { s with upPreimageHandedToWatch := true, upPreimageDurable := s.sync }

/-- mirrors `fail_htlc_backwards_internal`'s only callers for a forwarded HTLC: the `revoked_htlcs` of a
    `revoke_and_ack` whose monitor update completed, or the monitor's `HTLCUpdate` after `ANTI_REORG_DELAY` -/
def failAllowed (s : St) : Bool :=
  (s.down == .removedByFail && s.downRaaUpdate == .durable)
  || (s.down == .onchainTimeoutBuried && decide (ANTI_REORG_DELAY ≤ s.timeoutDepth))

/-- `update_fulfill_htlc` upstream is released only by the completion of the upstream preimage update -/
def fulfilAllowed (s : St) : Bool := s.upPreimageDurable

/-- all updates that are in flight complete (a restart with a synchronous persister replays
    `in_flight_monitor_updates` and each returns `Completed`) -/
def completeAll (s : St) : St :=
  let s1 := { s with upPreimageDurable := s.upPreimageHandedToWatch, upOther := 0,
                     downCsUpdate := if s.downCsUpdate == .handedToWatch then .durable else s.downCsUpdate }
  let s2 := runUpActions s1
  { s2 with downRaaUpdate := if s2.downRaaUpdate == .handedToWatch then .durable else s2.downRaaUpdate }

/-- mirrors the `pending_claims_to_replay` pass of `from_channel_manager_data`: every preimage a durable monitor
    knows for a still-pending inbound HTLC is claimed upstream again -/
def replayClaims (s : St) : St :=
  if (durDownKnowsPreimage s || durUpKnowsPreimage s) && s.up == .pending then claimUpstream s else s

def step (s : St) : Op → St
  | .setSync b => if s.alive then { s with sync := b } else s
  -- mirrors internal_update_fulfill_htlc: channel marks the HTLC, RAA blocker registered, claim goes upstream
  -- (a retransmitted update_fulfill_htlc after a reconnect is processed again: DuplicateClaim)
  | .recvFulfilDown =>
    if s.alive && (s.down == .offered || s.down == .fulfilSeen) then
      claimUpstream { s with down := .fulfilSeen, blocker := true }
    else s
  | .recvFailDown =>
    if s.alive && s.down == .offered then { s with down := .failSeen } else s
  | .recvCsDown =>
    if s.alive && (s.down == .fulfilSeen || s.down == .failSeen) && s.downCsUpdate == .notYet then
      { s with downCsUpdate := if s.sync then .durable else .handedToWatch }
    else s
  -- mirrors internal_revoke_and_ack: `raa_monitor_updates_held` ⇒ the update is parked
  | .recvRaaDown =>
    if s.alive && s.downCsUpdate == .durable && s.downRaaUpdate == .notYet then
      match s.down with
      | .fulfilSeen =>
        if s.blocker || s.downOther != 0 then { s with down := .removedByFulfil, downRaaUpdate := .blocked }
        else handRaa { s with down := .removedByFulfil }
      | .failSeen =>
        if s.downOther != 0 then { s with down := .removedByFail, downRaaUpdate := .blocked }
        else handRaa { s with down := .removedByFail }
      | _ => s
    else s
  | .complete .up =>
    if s.alive && s.upPreimageHandedToWatch then runUpActions { s with upPreimageDurable := true } else s
  | .complete .downCs =>
    if s.alive && s.downCsUpdate == .handedToWatch then { s with downCsUpdate := .durable } else s
  | .complete .downRaa =>
    if s.alive && s.downRaaUpdate == .handedToWatch then { s with downRaaUpdate := .durable } else s
  | .handUpOther =>
    if s.alive && !s.sync then { s with upOther := s.upOther + 1 } else s
  | .completeUpOther =>
    if s.alive && s.upOther != 0 then runUpActions { s with upOther := s.upOther - 1 } else s
  | .crash lost =>
    if s.alive then
      if lost then { s with alive := false }
      else { s with alive := false, upPreimageDurable := s.upPreimageHandedToWatch, upOther := 0,
                    downCsUpdate := if s.downCsUpdate == .handedToWatch then .durable else s.downCsUpdate,
                    downRaaUpdate := if s.downRaaUpdate == .handedToWatch then .durable else s.downRaaUpdate }
    else s
  -- mirrors from_channel_manager_data: claims recomputed from the durable monitors (`pending_claims_to_replay`),
  -- in-flight updates replayed, completion actions of updates that are durable run (the blocker itself is
  -- rebuilt from the persisted `monitor_update_blocked_actions`)
  | .restart sy =>
    if s.alive then s else
      let s2 := replayClaims { s with alive := true, sync := sy }
      runUpActions (if sy then completeAll s2 else s2)
  | .chainPreimage =>
    if s.alive && (s.down == .offered || s.down == .fulfilSeen || s.down == .failSeen) then
      claimUpstream { s with down := .onchainPreimage }
    else s
  | .chainTimeout d =>
    if s.alive && (s.down == .offered || s.down == .fulfilSeen || s.down == .failSeen) && decide (ANTI_REORG_DELAY ≤ d) then
      { s with down := .onchainTimeoutBuried, timeoutDepth := d }
    else s
  -- bookkeeping of the OTHER HTLCs' blockers (manager state that survives a crash): applied whenever another HTLC's record changes
  | .addDownOther => { s with downOther := s.downOther + 1 }
  | .removeDownOther =>
    if s.downOther != 0 then releaseBlocked { s with downOther := s.downOther - 1 } else s
  | .sendFulfilUp =>
    if s.alive && s.up == .pending && fulfilAllowed s then { s with up := .fulfilSent } else s
  | .sendFailUp =>
    if s.alive && s.up == .pending && failAllowed s then { s with up := .failSent } else s

def init : St := {}

def run (s : St) (ops : List Op) : St := ops.foldl step s

/-! ### balances -/

/-- C has, or can still irrevocably obtain, the downstream amount -/
def downClaimable (s : St) : Bool :=
  s.down == .fulfilSeen || s.down == .removedByFulfil || s.down == .onchainPreimage

/-- B's worst-case change of combined balance once the upstream side is resolved: it receives `inAmt` iff it
    fulfilled upstream, it pays `outAmt` iff C claimed (or still can) -/
def deltaWorst (inAmt outAmt : Nat) (s : St) : Int :=
  (if s.up == .fulfilSent then (inAmt : Int) else 0) - (if downClaimable s then (outAmt : Int) else 0)

/-! ## (c) admission for every next-hop kind -/
open Ldk.FwdGen

/-- what the onion's outgoing SCID resolves to at the forwarding node -/
inductive NextHop where
  /-- one of our funded channels (`short_to_chan_info` has the SCID): `do_funded_channel_callback` finds it -/
  | chan (c : ChanView)
  /-- not ours, `fake_scid::is_valid_phantom` -/
  | phantom
  /-- not ours, `fake_scid::is_valid_intercept` (from `get_intercept_scid`) -/
  | interceptScid
  /-- not ours and in neither namespace -/
  | unknown
  deriving Repr, DecidableEq

def NextHop.chan? : NextHop → Option ChanView
  | .chan c => some c
  | _ => none
def NextHop.isPhantom : NextHop → Bool
  | .phantom => true
  | _ => false
def NextHop.isIntercept : NextHop → Bool
  | .interceptScid => true
  | _ => false

/-- the node-wide settings the admission code reads (`UserConfig::htlc_interception_flags`,
    `UserConfig::accept_forwards_to_priv_channels`) -/
structure NodeCfg where
  interceptFlags : Nat
  acceptPriv : Bool
  deriving Repr, DecidableEq

/-- the inbound `update_add_htlc` (`amount_msat`, `cltv_expiry`, whether its channel is announced) and the forward
    payload of its onion (`short_channel_id`, `amt_to_forward`, `outgoing_cltv_value`) -/
structure Htlc where
  prevPublic : Bool
  scid : Nat
  inAmt : Nat
  inCltv : Nat
  outAmt : Nat
  outCltv : Nat
  deriving Repr, DecidableEq

/-- mirrors `can_forward_htlc_should_intercept(msg, prev_chan_public, next_hop)` (generated) for the given resolution
    of the SCID; `best` is `best_block.height`.  `ok true` = surface as `HTLCIntercepted`. -/
def admitHop (n : NodeCfg) (best : Nat) (hop : NextHop) (h : Htlc) : Except FailReason Bool :=
  canForwardHtlcShouldIntercept n.interceptFlags n.acceptPriv best hop.chan? hop.isIntercept hop.isPhantom
    h.prevPublic h.scid h.inAmt h.inCltv h.outAmt h.outCltv

inductive Outcome where
  /-- failed back with this reason (`HTLCHandlingFailed`) -/
  | reject (r : FailReason)
  /-- queued for the outgoing channel: `update_add_htlc` of (amt, cltv) is offered downstream -/
  | forward (amt cltv : Nat)
  /-- `Event::HTLCIntercepted { inbound_amount_msat, expected_outbound_amount_msat, outgoing_htlc_expiry_block_height }` -/
  | intercepted (inbound expected expiry : Nat)
  /-- handed to the receive pipeline as a payment to our phantom node: credited (amt, cltv) -/
  | phantomRecv (amt cltv : Nat)
  deriving Repr, DecidableEq

/-- mirrors `process_pending_update_add_htlcs` for a `Hop::Forward` after `can_accept_incoming_htlc`: admission, then
    `get_pending_htlc_info` → `create_fwd_pending_htlc_info` (generated `fwdPendingInfo`), then intercept
    (`create_htlc_intercepted_event`, generated) or `forward_htlcs`; a forward to a phantom SCID is decoded in
    `process_pending_htlc_forwards` and goes through `create_recv_pending_htlc_info(.., outgoing_amt_msat,
    outgoing_cltv_value, .., best_block.height)` whose expiry test is the generated `finalExpiryTooSoon` (the inner
    phantom payload is taken to repeat the forward payload's amount and expiry). -/
def outcome (n : NodeCfg) (best : Nat) (hop : NextHop) (h : Htlc) : Outcome :=
  match admitHop n best hop h with
  | .error r => .reject r
  | .ok intercept =>
    match fwdPendingInfo h.inAmt h.outAmt h.outCltv with
    | (incomingAmt, outgoingAmt, outgoingCltv) =>
      if intercept then
        match interceptedEvent incomingAmt outgoingAmt outgoingCltv with
        | (inbound, expected, expiry) => .intercepted inbound expected expiry
      else match hop with
        | .chan _ => .forward outgoingAmt outgoingCltv
        | .phantom =>
          match finalExpiryTooSoon best outgoingCltv with
          | true => .reject .paymentClaimBuffer
          | false => .phantomRecv outgoingAmt outgoingCltv
        | _ => .reject .unknownNextPeer

/-- what the node offers downstream when an intercepted HTLC is released by
    `forward_intercepted_htlc(intercept_id, .., amt_to_forward_msat)` (generated `forwardIntercepted`; the expiry is
    the event's) -/
def releaseIntercepted (o : Outcome) (amtToForward : Nat) : Option (Nat × Nat) :=
  match o with
  | .intercepted _ e x => some ((forwardIntercepted e amtToForward).1, x)
  | _ => none

/-- the downstream offer (amount, expiry) of an outcome; an intercepted HTLC is released at its
    `expected_outbound_amount_msat` (what LSPS2 and every caller that does not take an extra fee does) -/
def downstreamOffer (o : Outcome) : Option (Nat × Nat) :=
  match o with
  | .forward a c => some (a, c)
  | .intercepted _ e _ => releaseIntercepted o e
  | _ => none

/-- one `ChannelConfig` the channel accepts forwards under: the current one or `prev_config` -/
def _root_.Ldk.FwdGen.ChanView.accepts (c : ChanView) (cfg : Cfg) : Prop := cfg = c.cfg ∨ c.prev = some cfg

/-- `requiredFee` for a generated `Cfg` -/
def _root_.Ldk.FwdGen.Cfg.fee (cfg : Cfg) (outAmt : Nat) : Option Nat := requiredFee ⟨cfg.feeBase, cfg.feeProp, cfg.cltvDelta⟩ outAmt

end Ldk.Forward
