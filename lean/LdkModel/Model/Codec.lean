/-
  Model/Codec.lean — one generic wire codec (C13; reused by C12/C18).

  bytes = `List UInt8`.  Everything here is a small total computable function (core only, no Mathlib)
  so that the driver links natively and the theorems of Props/C13.lean talk about exactly the
  functions the driver runs.

  What is mirrored (rust-lightning, paths relative to lightning/src):
    util/ser.rs        BigSize, CollectionLength, impl_writeable_primitive! (big-endian ints,
                       HighZeroBytesDroppedBigSize), bool, [u8; N], Vec<u8>, ScriptBuf, PublicKey,
                       ecdsa::Signature, impl_for_vec!, FixedLengthReader, ReadTrackingReader
    util/ser_macros.rs _decode_tlv_stream_range! / decode_tlv_stream!, _check_decoded_tlv_order!,
                       _check_missing_tlv!, _decode_tlv!, encode_tlv_stream!, impl_writeable_msg!
    ln/msgs.rs         DecodeError, OnionPacket, AccountableBool
    ln/wire.rs         read / do_read (type-id dispatch);  ln/peer_handler.rs Message::Unknown arms
-/
namespace Ldk.Codec

abbrev Bytes := List UInt8

/-- mirrors lightning/src/ln/msgs.rs::DecodeError (`Io(kind)` collapsed to `Io`) -/
inductive DecodeError
  | UnknownVersion | UnknownRequiredFeature | InvalidValue | ShortRead | BadLengthDescriptor
  | Io | UnsupportedCompression | DangerousValue
  deriving DecidableEq, Repr, Inhabited

def DecodeError.name : DecodeError → String
  | .UnknownVersion => "UnknownVersion" | .UnknownRequiredFeature => "UnknownRequiredFeature"
  | .InvalidValue => "InvalidValue" | .ShortRead => "ShortRead"
  | .BadLengthDescriptor => "BadLengthDescriptor" | .Io => "Io"
  | .UnsupportedCompression => "UnsupportedCompression" | .DangerousValue => "DangerousValue"

abbrev Res (α : Type) := Except DecodeError α

deriving instance DecidableEq for Except

/-! ## big-endian fixed-width integers -/

/-- `n` big-endian bytes of `x` (the low `n` bytes). mirrors util/ser.rs::impl_writeable_primitive! `to_be_bytes` -/
def beEncode : Nat → Nat → Bytes
  | 0, _ => []
  | n + 1, x => beEncode n (x / 256) ++ [UInt8.ofNat (x % 256)]

/-- big-endian value of a byte string. mirrors `from_be_bytes` -/
def beDecode (b : Bytes) : Nat := b.foldl (fun acc x => acc * 256 + x.toNat) 0

/-- read an `n`-byte big-endian integer (`read_exact` of `n` bytes ⇒ ShortRead on EOF).
    mirrors util/ser.rs::impl_writeable_primitive! `Readable::read`, and `u8` -/
def readUint (n : Nat) (b : Bytes) : Res (Nat × Bytes) :=
  if b.length < n then .error .ShortRead else .ok (beDecode (b.take n), b.drop n)

/-- `readUint` without the O(input) `length` (what the compiled driver runs: `@[csimp]`, proved equal) -/
def readUintFast (n : Nat) (b : Bytes) : Res (Nat × Bytes) :=
  if (b.take n).length < n then .error .ShortRead else .ok (beDecode (b.take n), b.drop n)

@[csimp] theorem readUint_eq_fast : @readUint = @readUintFast := by
  funext n b
  have h : ((b.take n).length < n) = (b.length < n) := by
    rw [List.length_take]; exact propext ⟨fun h => by omega, fun h => by omega⟩
  simp only [readUint, readUintFast, h]

/-! ## BigSize -/

/-- mirrors util/ser.rs `impl Writeable for BigSize` -/
def BigSize.encode (n : Nat) : Bytes :=
  if n ≤ 0xFC then [UInt8.ofNat n]
  else if n ≤ 0xFFFF then 0xFD :: beEncode 2 n
  else if n ≤ 0xFFFFFFFF then 0xFE :: beEncode 4 n
  else 0xFF :: beEncode 8 n

/-- mirrors util/ser.rs `impl Readable for BigSize`: non-minimal encodings are `InvalidValue`,
    truncation is `ShortRead` -/
def BigSize.decode : Bytes → Res (Nat × Bytes)
  | [] => .error .ShortRead
  | b :: rest =>
    if b.toNat = 0xFF then
      match readUint 8 rest with
      | .error e => .error e
      | .ok (x, r) => if x < 0x100000000 then .error .InvalidValue else .ok (x, r)
    else if b.toNat = 0xFE then
      match readUint 4 rest with
      | .error e => .error e
      | .ok (x, r) => if x < 0x10000 then .error .InvalidValue else .ok (x, r)
    else if b.toNat = 0xFD then
      match readUint 2 rest with
      | .error e => .error e
      | .ok (x, r) => if x < 0xFD then .error .InvalidValue else .ok (x, r)
    else .ok (b.toNat, rest)

/-! ## CollectionLength (the length prefix of `Vec<u8>` and `impl_for_vec!` vectors) -/

/-- mirrors util/ser.rs `impl Writeable for CollectionLength` -/
def CollLen.encode (n : Nat) : Bytes :=
  if n < 0xffff then beEncode 2 n else beEncode 2 0xffff ++ beEncode 8 (n - 0xffff)

/-- mirrors util/ser.rs `impl Readable for CollectionLength` (`checked_add` overflow ⇒ InvalidValue) -/
def CollLen.decode (b : Bytes) : Res (Nat × Bytes) :=
  match readUint 2 b with
  | .error e => .error e
  | .ok (v, r) =>
    if v = 0xffff then
      match readUint 8 r with
      | .error e => .error e
      | .ok (w, r') => if w + 0xffff < 2 ^ 64 then .ok (w + 0xffff, r') else .error .InvalidValue
    else .ok (v, r)

/-! ## secp256k1 encodings that the decoders validate (only *validity*, no group law) -/

def secpP : Nat := 2 ^ 256 - 2 ^ 32 - 977
def secpN : Nat := 0xFFFFFFFFFFFFFFFFFFFFFFFFFFFFFFFEBAAEDCE6AF48A03BBFD25E8CD0364141

/-- square-and-multiply, `fuel` = number of exponent bits processed -/
def powModAux : Nat → Nat → Nat → Nat → Nat → Nat
  | 0, _, _, _, acc => acc
  | fuel + 1, b, e, m, acc =>
    if e = 0 then acc
    else powModAux fuel (b * b % m) (e / 2) m (if e % 2 = 1 then acc * b % m else acc)

def powMod (b e m : Nat) : Nat := powModAux 260 (b % m) e m (1 % m)

/-- a 33-byte string is a valid compressed point: tag 02/03, `x < p`, `x³+7` a square mod `p`
    (Euler's criterion). mirrors secp256k1 `PublicKey::from_slice` on 33 bytes
    (secp256k1_eckey_pubkey_parse: tag check, fe_set_b32_limit, ge_set_xo_var) -/
def validPoint (b : Bytes) : Bool :=
  match b with
  | [] => false
  | t :: xs =>
    (t == 2 || t == 3) && (xs.length == 32 &&
      (let x := beDecode xs
       x < secpP &&
        (let c := (x * x % secpP * x + 7) % secpP
         c == 0 || powMod c ((secpP - 1) / 2) secpP == 1)))

/-- a 64-byte compact ECDSA signature parses: `r < n` and `s < n` (zero is accepted by the parser).
    mirrors `ecdsa::Signature::from_compact` (secp256k1_ecdsa_signature_parse_compact) -/
def validSig (b : Bytes) : Bool :=
  b.length == 64 && (beDecode (b.take 32) < secpN && beDecode (b.drop 32) < secpN)

/-! ## field types and values -/

/-- validation / canonicalisation applied to a fixed-width byte field after it was read -/
inductive Check
  | any          -- [u8; N], ChannelId, Txid, hashes, …: every byte string is accepted
  | bool         -- util/ser.rs `impl Readable for bool`: 0 or 1, else InvalidValue
  | point        -- util/ser.rs `impl Readable for PublicKey`
  | sig          -- util/ser.rs `impl Readable for ecdsa::Signature`
  | onionKey     -- ln/msgs.rs `impl Readable for OnionPacket`: an invalid key is kept as `Err(_)` and
                 -- re-written as 33 zero bytes
  | accountable  -- ln/msgs.rs AccountableBool: any byte is read, `== 7` is true; written as 7 / 0
  deriving DecidableEq, Repr

/-- `none` = the decoder returns InvalidValue; `some v` = the bytes the value re-encodes to -/
def Check.canon : Check → Bytes → Option Bytes
  | .any, b => some b
  | .bool, b => if b = [0] ∨ b = [1] then some b else none
  | .point, b => if validPoint b then some b else none
  | .sig, b => if validSig b then some b else none
  | .onionKey, b => if validPoint b then some b else some (List.replicate 33 0)
  | .accountable, b => if b = [7] then some [7] else some [0]

/-- one component of an address descriptor -/
inductive AddrPart
  | bytes (n : Nat)   -- `[u8; n]`: n raw bytes (`read_exact`)
  | u16               -- big-endian u16 (ports, the onion-v3 checksum)
  | u8                -- one byte (the onion-v3 version)
  | hostname          -- util/ser.rs `Hostname`: u8 length, that many bytes, every byte one of [A-Za-z0-9._-]
  deriving DecidableEq, Repr

/-- one variant of `SocketAddress` as the source declares it -/
structure AddrKind where
  id : Nat                 -- descriptor type byte: writer literal = reader match arm = `get_id`
  name : String            -- enum variant
  parts : List AddrPart    -- fields in reader order (= writer order, checked by the translator)
  lenConst : Nat           -- `SocketAddress::len`: the constant of this variant's arm ("1-byte type not recorded")
  lenHost : Bool           -- `SocketAddress::len`: the arm adds `hostname.len()`
  deriving DecidableEq, Repr

inductive FieldTy
  | uint (n : Nat)               -- n-byte big-endian unsigned integer (u8/u16/u32/u64; i64 as its bit pattern)
  | fixed (n : Nat) (c : Check)  -- exactly n bytes, then `c`
  | unit                         -- `()`: no bytes
  | bigsize                      -- BigSize
  | hzd (n : Nat)                -- HighZeroBytesDroppedBigSize<u{8n}>: reads up to n bytes to the end of its reader
  | varBytes                     -- Vec<u8>: CollectionLength-prefixed bytes
  | bytes16                      -- ScriptBuf: u16-prefixed bytes
  | restBytes                    -- WithoutLength<Vec<u8>>: everything up to the end of the reader
  | pair (a b : FieldTy)         -- two fields in sequence (impl_writeable! structs are nested pairs)
  | vec (e : FieldTy)            -- impl_for_vec!: CollectionLength count, then the elements
  | sockAddr (kinds : List AddrKind)  -- ln/msgs.rs SocketAddress (`impl Readable for SocketAddress`: unknown type ⇒ UnknownVersion)
  | chunks (n : Nat)             -- WithoutLength<Vec<T>> for a T of n raw bytes (ChainHash): n-byte elements up to the end of the reader
  deriving DecidableEq, Repr

/-- untyped values; a vector is a right-nested `pair` chain ending in `unit` -/
inductive Val
  | nat (n : Nat) | bytes (b : Bytes) | unit | pair (a b : Val)
  deriving DecidableEq, Repr, Inhabited

def Val.len : Val → Nat
  | .pair _ xs => xs.len + 1
  | _ => 0

/-- the value is a proper vector (`pair … (pair … unit)`) whose elements satisfy `p` -/
def Val.allElems (p : Val → Bool) : Val → Bool
  | .pair x xs => p x && xs.allElems p
  | .unit => true
  | _ => false

/-- a list as a vector value (`pair … (pair … unit)`) and back -/
def Val.ofList : List Val → Val
  | [] => .unit
  | x :: xs => .pair x (Val.ofList xs)

def Val.toList : Val → List Val
  | .pair x xs => x :: xs.toList
  | _ => []

/-- element codec of `FieldTy.chunks n`: raw bytes, exactly n of them -/
def chunkEnc : Val → Bytes
  | .bytes b => b
  | _ => []
def chunkOk (n : Nat) : Val → Bool
  | .bytes b => b.length == n
  | _ => false

def encList (enc : Val → Bytes) : Val → Bytes
  | .pair x xs => enc x ++ encList enc xs
  | _ => []

/-! ## SocketAddress (ln/msgs.rs `enum SocketAddress`), table-driven

  The table of descriptor kinds (`Generated/MsgSchemas.lean::sockAddrKinds`) is EXTRACTED from the enum
  declaration, the reader arms of `impl Readable for Result<SocketAddress, u8>`, the writer arms of
  `impl Writeable for SocketAddress`, `SocketAddress::get_id` and `SocketAddress::len` on every run. -/

/-- an address value: descriptor type and one value per part -/
structure SockAddr where
  id : Nat
  vals : List Val
  deriving DecidableEq, Repr

/-- mirrors util/ser.rs `Hostname::str_is_valid_hostname` on bytes: `c.is_ascii_alphanumeric() || c == '.' || c == '_' || c == '-'`
    (a byte ≥ 0x80 is either invalid UTF-8 or part of a non-ASCII char: rejected both ways) -/
def isHostChar (b : UInt8) : Bool :=
  let x := b.toNat
  (48 ≤ x && x ≤ 57) || (65 ≤ x && x ≤ 90) || (97 ≤ x && x ≤ 122) || x == 46 || x == 95 || x == 45

/-- mirrors the `Readable` impls of `[u8; N]`, `u16`, `u8`, and util/ser.rs `impl Readable for Hostname`
    (length byte, `read_exact` ⇒ ShortRead, then `Hostname::try_from` ⇒ InvalidValue) -/
def AddrPart.decode : AddrPart → Bytes → Res (Val × Bytes)
  | .bytes n, b => if b.length < n then .error .ShortRead else .ok (.bytes (b.take n), b.drop n)
  | .u16, b =>
    match readUint 2 b with
    | .error e => .error e
    | .ok (x, r) => .ok (.nat x, r)
  | .u8, b =>
    match readUint 1 b with
    | .error e => .error e
    | .ok (x, r) => .ok (.nat x, r)
  | .hostname, b =>
    match readUint 1 b with
    | .error e => .error e
    | .ok (len, r) =>
      if r.length < len then .error .ShortRead
      else if (r.take len).all isHostChar then .ok (.bytes (r.take len), r.drop len)
      else .error .InvalidValue

/-- mirrors the `Writeable` impls; `Hostname::write`: `self.len().write(w)?; w.write_all(self.as_bytes())` -/
def AddrPart.encode : AddrPart → Val → Bytes
  | .bytes _, .bytes b => b
  | .u16, .nat x => beEncode 2 x
  | .u8, .nat x => beEncode 1 x
  | .hostname, .bytes b => beEncode 1 b.length ++ b
  | _, _ => []

def AddrPart.valid : AddrPart → Val → Bool
  | .bytes n, .bytes b => b.length == n
  | .u16, .nat x => x < 65536
  | .u8, .nat x => x < 256
  | .hostname, .bytes b => b.length < 256 && b.all isHostChar
  | _, _ => false

/-- the fields of one reader arm, in order; the first error wins -/
def decodeParts : List AddrPart → Bytes → Res (List Val × Bytes)
  | [], b => .ok ([], b)
  | p :: ps, b =>
    match p.decode b with
    | .error e => .error e
    | .ok (v, r) =>
      match decodeParts ps r with
      | .error e => .error e
      | .ok (vs, r') => .ok (v :: vs, r')

def encodeParts : List AddrPart → List Val → Bytes
  | p :: ps, v :: vs => p.encode v ++ encodeParts ps vs
  | _, _ => []

def validParts : List AddrPart → List Val → Bool
  | [], [] => true
  | p :: ps, v :: vs => p.valid v && validParts ps vs
  | _, _ => false

/-- number of bytes of a part that do not depend on the value (hostname: its length byte) -/
def AddrPart.staticLen : AddrPart → Nat
  | .bytes n => n
  | .u16 => 2
  | .u8 => 1
  | .hostname => 1

def staticLen (ps : List AddrPart) : Nat := (ps.map (·.staticLen)).sum

/-- `hostname.len()` summed over the hostname parts of a descriptor -/
def hostLen : List AddrPart → List Val → Nat
  | .hostname :: ps, .bytes b :: vs => b.length + hostLen ps vs
  | _ :: ps, _ :: vs => hostLen ps vs
  | _, _ => 0

def findKind (kinds : List AddrKind) (id : Nat) : Option AddrKind := kinds.find? (fun k => k.id == id)

/-- mirrors ln/msgs.rs `SocketAddress::len`: "Strict byte-length of address descriptor, 1-byte type not recorded" —
    the constant of the variant's arm, plus `hostname.len()` where the arm says so.  NOT derived from the encoding: that the
    two agree is Props/C13 `sockaddr_len_is_encoded_length`. -/
def SockAddr.len (kinds : List AddrKind) (a : SockAddr) : Nat :=
  match findKind kinds a.id with
  | some k => k.lenConst + (if k.lenHost then hostLen k.parts a.vals else 0)
  | none => 0

/-- mirrors ln/msgs.rs `impl Writeable for SocketAddress`: the type byte, then the fields -/
def SockAddr.encode (kinds : List AddrKind) (a : SockAddr) : Bytes :=
  match findKind kinds a.id with
  | some k => UInt8.ofNat a.id :: encodeParts k.parts a.vals
  | none => []

def SockAddr.valid (kinds : List AddrKind) (a : SockAddr) : Bool :=
  match findKind kinds a.id with
  | some k => validParts k.parts a.vals
  | none => false

/-- mirrors ln/msgs.rs `impl Readable for Result<SocketAddress, u8>`: the type byte; a known type ⇒ its fields
    (`inl address`); any other byte ⇒ `Ok(Err(byte))` (`inr byte`, nothing else consumed) -/
def decodeAddrResult (kinds : List AddrKind) : Bytes → Res ((SockAddr ⊕ UInt8) × Bytes)
  | [] => .error .ShortRead
  | t :: r =>
    match findKind kinds t.toNat with
    | some k =>
      match decodeParts k.parts r with
      | .error e => .error e
      | .ok (vs, r') => .ok (.inl ⟨k.id, vs⟩, r')
    | none => .ok (.inr t, r)

/-- mirrors ln/msgs.rs `impl Readable for SocketAddress`: an unknown descriptor type is `UnknownVersion` -/
def decodeAddr (kinds : List AddrKind) (b : Bytes) : Res (SockAddr × Bytes) :=
  match decodeAddrResult kinds b with
  | .error e => .error e
  | .ok (.inl a, r) => .ok (a, r)
  | .ok (.inr _, _) => .error .UnknownVersion

/-- decidable well-formedness of the extracted table: type bytes fit a byte and are pairwise distinct; the constant of every
    `SocketAddress::len` arm is the number of value-independent bytes of the variant's fields, and the arm adds `hostname.len()`
    exactly when the variant has a hostname.  Breaks (Props/C13 `sockaddr_kinds_wf`, by `decide`) when a `len` constant, a
    field width or a type byte changes inconsistently. -/
def kindsWf (kinds : List AddrKind) : Bool :=
  kinds.all (fun k => k.id < 256 && k.lenConst == staticLen k.parts && k.lenHost == k.parts.contains .hostname) &&
  (kinds.map (·.id)).Nodup

/-- the arithmetic of an "encoded short_channel_id list" (QueryShortChannelIds / ReplyChannelRange) as the source states it,
    translated by tools/gen_msg_schemas.py: reader `encoding_len == 0 || (encoding_len - 1) % 8 != 0` ⇒ InvalidValue, element count,
    writer `encoding_len`, the `EncodingType` the reader accepts and the one the writer emits -/
structure ScidRules where
  badLen : Nat → Bool
  count : Nat → Nat
  encLen : Nat → Nat
  accepted : Nat
  written : Nat

/-- what the translated arithmetic of a reader / writer pair has to say for the theorems to hold (each instance is `rfl` on the
    generated definitions: it stops being so when the source changes the arithmetic) -/
structure ScidRules.Spec (rules : ScidRules) : Prop where
  badLen : ∀ n, rules.badLen n = (decide (n = 0) || decide ((n - 1) % 8 ≠ 0))
  count : ∀ n, rules.count n = (n - 1) / 8
  encLen : ∀ n, rules.encLen n = 1 + n * 8
  same : rules.accepted = rules.written
  byte : rules.written < 256

/-- mirrors the `Writeable` impls listed at each constructor of `FieldTy` -/
def FieldTy.encode : FieldTy → Val → Bytes
  | .uint n, .nat x => beEncode n x
  | .fixed _ _, .bytes b => b
  | .bigsize, .nat x => BigSize.encode x
  | .hzd n, .nat x => (beEncode n x).dropWhile (· == 0)
  | .varBytes, .bytes b => CollLen.encode b.length ++ b
  | .bytes16, .bytes b => beEncode 2 b.length ++ b
  | .restBytes, .bytes b => b
  | .pair a b, .pair x y => a.encode x ++ b.encode y
  | .vec e, v => CollLen.encode v.len ++ encList e.encode v
  | .sockAddr kinds, .pair (.nat id) vs => SockAddr.encode kinds ⟨id, vs.toList⟩
  | .chunks _, v => encList chunkEnc v
  | _, _ => []

/-- the first `k` chunks of `n` bytes as a vector value -/
def chunkVals (n : Nat) : Nat → Bytes → Val
  | 0, _ => .unit
  | k + 1, b => .pair (.bytes (b.take n)) (chunkVals n k (b.drop n))

/-- read `n` elements in sequence. mirrors the `for _ in 0..len.0` loop of impl_readable_for_vec! -/
def decN (dec : Bytes → Res (Val × Bytes)) : Nat → Bytes → Res (Val × Bytes)
  | 0, b => .ok (.unit, b)
  | n + 1, b =>
    match dec b with
    | .error e => .error e
    | .ok (x, b1) =>
      match decN dec n b1 with
      | .error e => .error e
      | .ok (xs, b2) => .ok (.pair x xs, b2)

/-- mirrors the `Readable` impls listed at each constructor of `FieldTy`; returns the unread rest -/
def FieldTy.decode : FieldTy → Bytes → Res (Val × Bytes)
  | .uint n, b =>
    match readUint n b with
    | .error e => .error e
    | .ok (x, r) => .ok (.nat x, r)
  | .fixed n c, b =>
    if b.length < n then .error .ShortRead
    else match c.canon (b.take n) with
      | none => .error .InvalidValue
      | some v => .ok (.bytes v, b.drop n)
  | .unit, b => .ok (.unit, b)
  | .bigsize, b =>
    match BigSize.decode b with
    | .error e => .error e
    | .ok (x, r) => .ok (.nat x, r)
  | .hzd n, b =>
    -- reads min(n, available) bytes; nothing read ⇒ 0; a leading zero byte ⇒ InvalidValue
    let k := min n b.length
    if k = 0 then .ok (.nat 0, b)
    else if b.head? = some 0 then .error .InvalidValue
    else .ok (.nat (beDecode (b.take k)), b.drop k)
  | .varBytes, b =>
    match CollLen.decode b with
    | .error e => .error e
    | .ok (len, r) => if r.length < len then .error .ShortRead else .ok (.bytes (r.take len), r.drop len)
  | .bytes16, b =>
    match readUint 2 b with
    | .error e => .error e
    | .ok (len, r) => if r.length < len then .error .ShortRead else .ok (.bytes (r.take len), r.drop len)
  | .restBytes, b => .ok (.bytes b, [])
  | .pair x y, b =>
    match x.decode b with
    | .error e => .error e
    | .ok (v, r) =>
      match y.decode r with
      | .error e => .error e
      | .ok (w, r') => .ok (.pair v w, r')
  | .vec e, b =>
    match CollLen.decode b with
    | .error e => .error e
    | .ok (n, r) => decN e.decode n r
  | .sockAddr kinds, b =>
    match decodeAddr kinds b with
    | .error e => .error e
    | .ok (a, r) => .ok (.pair (.nat a.id) (Val.ofList a.vals), r)
  | .chunks n, b =>
    -- util/ser.rs `impl LengthReadable for WithoutLength<Vec<T>>`: elements until nothing is left; a partial element is the
    -- element reader's ShortRead
    if b.length % n = 0 then .ok (chunkVals n (b.length / n) b, []) else .error .ShortRead

/-- the values a decoder can produce / an encoder accepts -/
def FieldTy.valid : FieldTy → Val → Bool
  | .uint n, .nat x => x < 256 ^ n
  | .fixed n c, .bytes b => b.length == n && c.canon b == some b
  | .unit, .unit => true
  | .bigsize, .nat x => x < 2 ^ 64
  | .hzd n, .nat x => x < 256 ^ n
  | .varBytes, .bytes b => b.length < 2 ^ 64
  | .bytes16, .bytes b => b.length < 2 ^ 16
  | .restBytes, .bytes _ => true
  | .pair a b, .pair x y => a.valid x && b.valid y
  | .vec e, v => v.len < 2 ^ 64 && v.allElems e.valid
  | .sockAddr kinds, .pair (.nat id) vs => vs.allElems (fun _ => true) && SockAddr.valid kinds ⟨id, vs.toList⟩
  | .chunks n, v => v.allElems (chunkOk n)
  | _, _ => false

/-- the encoding determines its own end (can be followed by more data) -/
def FieldTy.selfDelim : FieldTy → Bool
  | .hzd _ => false
  | .restBytes => false
  | .chunks _ => false
  | .pair a b => a.selfDelim && b.selfDelim
  | _ => true

/-- shape conditions under which the field-level theorems hold: inside a `pair` only the last
    component may read to the end; vector elements are self-delimiting; canonicalising checks have
    the width of their canonical form -/
def Check.widthOk : Check → Nat → Bool
  | .onionKey, n => n == 33
  | .accountable, n => n == 1
  | _, _ => true

def FieldTy.wf : FieldTy → Bool
  | .fixed n c => c.widthOk n
  | .pair a b => a.wf && a.selfDelim && b.wf
  | .vec e => e.wf && e.selfDelim
  | .sockAddr kinds => kindsWf kinds
  | .chunks n => decide (0 < n)
  | _ => true

/-- no HighZeroBytesDroppedBigSize inside (the re-encode-stability proof covers these types) -/
def FieldTy.plain : FieldTy → Bool
  | .hzd _ => false
  | .pair a b => a.plain && b.plain
  | .vec e => e.plain
  | _ => true

/-! ## TLV streams and message schemas -/

inductive TlvKind | required | option
  deriving DecidableEq, Repr

structure TlvField where
  typ : Nat
  name : String
  ty : FieldTy
  kind : TlvKind
  deriving DecidableEq, Repr

/-- `impl_writeable_msg!(Name, { fixed… }, { (type, field, kind)… })` -/
structure Schema where
  name : String
  fixedNames : List String
  fixed : List FieldTy
  tlvs : List TlvField
  deriving DecidableEq, Repr

/-- field layout of a hand-written codec as extracted from its Rust impls by tools/gen_msg_schemas.py (compared with the
    hand-written schemas of Model/MsgSchemasHand.lean by Props/C13 `hand_schemas_match_source`): fixed field names and types in
    order, TLVs (type, payload type), ends with `read_to_end` excess data, index of the u8 field whose low bit is checked -/
structure HandLayout where
  name : String
  names : List String
  fixed : List FieldTy
  tlvs : List (Nat × FieldTy)
  tail : Bool
  lowBit : Option Nat
  deriving DecidableEq, Repr

/-- a message value: one value per fixed field, one optional value per declared TLV -/
structure MsgVal where
  fixed : List Val
  tlvs : List (Option Val)
  deriving DecidableEq, Repr

def lastLt (last : Option Nat) (t : Nat) : Bool :=
  match last with
  | none => true
  | some l => l < t

/-- mirrors `_check_decoded_tlv_order!` (the `required` arm), folded over all declared fields:
    some required type lies strictly between the last seen type and the one just read -/
def reqSkipped (tlvs : List TlvField) (last : Option Nat) (typ : Nat) : Bool :=
  tlvs.any fun f => f.kind == .required && lastLt last f.typ && f.typ < typ

/-- mirrors `_check_missing_tlv!` (the `required` arm) after the loop -/
def reqMissing (tlvs : List TlvField) (last : Option Nat) : Bool :=
  tlvs.any fun f => f.kind == .required && lastLt last f.typ

/-- mirrors util/ser_macros.rs::_decode_tlv_stream_range! (as used by decode_tlv_stream!, range `..`,
    no custom decoder), one loop iteration per unit of `fuel`.  `acc` collects the values of the
    known records in stream order.

    line by line:  ReadTrackingReader + BigSize::read  (no byte available ⇒ `break`; EOF inside the
    type ⇒ ShortRead; non-minimal ⇒ InvalidValue) · `typ <= last_seen` ⇒ InvalidValue ·
    `_check_decoded_tlv_order!` · length BigSize · `FixedLengthReader::new(stream, length)` (the
    sub-reader hands out at most `length` bytes of what is left: `b2.take len`) · known type ⇒
    `_decode_tlv!` then `bytes_remain()` ⇒ `eat_remaining()?` (ShortRead when the stream has fewer
    than `length` bytes) and InvalidValue · unknown even ⇒ UnknownRequiredFeature · unknown odd ⇒
    `eat_remaining()?` · after the loop `_check_missing_tlv!`. -/
def tlvLoop (tlvs : List TlvField) : Nat → Option Nat → List (Nat × Val) → Bytes → Res (List (Nat × Val))
  | 0, _, _, _ => .error .Io   -- out of fuel; unreachable with fuel > input length (Props.C13.decode_total)
  | fuel + 1, last, acc, b =>
    if b.isEmpty then
      if reqMissing tlvs last then .error .InvalidValue else .ok acc
    else
      match BigSize.decode b with
      | .error e => .error e
      | .ok (typ, b1) =>
        if !(lastLt last typ) then .error .InvalidValue
        else if reqSkipped tlvs last typ then .error .InvalidValue
        else
          match BigSize.decode b1 with
          | .error e => .error e
          | .ok (len, b2) =>
            match tlvs.find? (fun f => f.typ == typ) with
            | some f =>
              match f.ty.decode (b2.take len) with
              | .error e => .error e
              | .ok (v, rem) =>
                if rem.isEmpty && len ≤ b2.length then
                  tlvLoop tlvs fuel (some typ) (acc ++ [(typ, v)]) (b2.drop len)
                else if b2.length < len then .error .ShortRead
                else .error .InvalidValue
            | none =>
              if typ % 2 == 0 then .error .UnknownRequiredFeature
              else if b2.length < len then .error .ShortRead
              else tlvLoop tlvs fuel (some typ) acc (b2.drop len)

/-- decode a whole TLV stream (the rest of a message) -/
def decodeTlvStream (tlvs : List TlvField) (b : Bytes) : Res (List (Nat × Val)) :=
  tlvLoop tlvs (b.length + 1) none [] b

/-- mirrors `encode_tlv_stream!`: fields in declaration order, `None` options are not written -/
def encodeTlvs : List TlvField → List (Option Val) → Bytes
  | f :: fs, some v :: vs =>
    BigSize.encode f.typ ++ (BigSize.encode (f.ty.encode v).length ++ (f.ty.encode v ++ encodeTlvs fs vs))
  | _ :: fs, none :: vs => encodeTlvs fs vs
  | _, _ => []

def encodeFixed : List FieldTy → List Val → Bytes
  | t :: ts, v :: vs => t.encode v ++ encodeFixed ts vs
  | _, _ => []

def decodeFixed : List FieldTy → Bytes → Res (List Val × Bytes)
  | [], b => .ok ([], b)
  | t :: ts, b =>
    match t.decode b with
    | .error e => .error e
    | .ok (v, r) =>
      match decodeFixed ts r with
      | .error e => .error e
      | .ok (vs, r') => .ok (v :: vs, r')

/-- mirrors the `Writeable` impl generated by impl_writeable_msg! -/
def Schema.encode (s : Schema) (v : MsgVal) : Bytes :=
  encodeFixed s.fixed v.fixed ++ encodeTlvs s.tlvs v.tlvs

/-- mirrors the `LengthReadable` impl generated by impl_writeable_msg!: the fixed fields in order, then
    the TLV stream up to the end of the buffer -/
def Schema.decode (s : Schema) (b : Bytes) : Res MsgVal :=
  match decodeFixed s.fixed b with
  | .error e => .error e
  | .ok (fx, r) =>
    match decodeTlvStream s.tlvs r with
    | .error e => .error e
    | .ok acc => .ok ⟨fx, s.tlvs.map fun f => acc.lookup f.typ⟩

/-- strictly increasing -/
def strictInc : List Nat → Bool
  | a :: b :: rest => a < b && strictInc (b :: rest)
  | _ => true

/-- decidable well-formedness of a schema: fixed fields self-delimiting; TLV types strictly
    increasing (sorted, no reuse), below 2^64; a `required` TLV has an even type ("it's OK to be odd") -/
def Schema.wf (s : Schema) : Bool :=
  s.fixed.all (fun t => t.wf && t.selfDelim) &&
  s.tlvs.all (fun f => f.ty.wf && f.typ < 2 ^ 64 && (f.kind == .option || f.typ % 2 == 0)) &&
  strictInc (s.tlvs.map (·.typ))

/-- every type of the schema is HighZeroBytesDropped-free -/
def Schema.plain (s : Schema) : Bool := s.fixed.all (·.plain) && s.tlvs.all (·.ty.plain)

def validFixed : List FieldTy → List Val → Bool
  | [], [] => true
  | t :: ts, v :: vs => t.valid v && validFixed ts vs
  | _, _ => false

def validTlvs : List TlvField → List (Option Val) → Bool
  | [], [] => true
  | f :: fs, some v :: vs => f.ty.valid v && (f.ty.encode v).length < 2 ^ 64 && validTlvs fs vs
  | f :: fs, none :: vs => f.kind == .option && validTlvs fs vs
  | _, _ => false

/-- the message values of a schema (what the Rust struct can hold) -/
def MsgVal.valid (s : Schema) (v : MsgVal) : Bool :=
  validFixed s.fixed v.fixed && validTlvs s.tlvs v.tlvs

/-! ## raw TLV records (used to state the stream-level theorems) -/

/-- the wire form of a list of raw records `(type, value bytes)` -/
def rawEncode : List (Nat × Bytes) → Bytes
  | [] => []
  | (t, val) :: rest => BigSize.encode t ++ (BigSize.encode val.length ++ (val ++ rawEncode rest))

/-- what `tlvLoop` does on a well-framed stream, record by record -/
def procRecs (tlvs : List TlvField) : Option Nat → List (Nat × Val) → List (Nat × Bytes) → Res (List (Nat × Val))
  | last, acc, [] => if reqMissing tlvs last then .error .InvalidValue else .ok acc
  | last, acc, (typ, val) :: rest =>
    if !(lastLt last typ) then .error .InvalidValue
    else if reqSkipped tlvs last typ then .error .InvalidValue
    else
      match tlvs.find? (fun f => f.typ == typ) with
      | some f =>
        match f.ty.decode val with
        | .error e => .error e
        | .ok (v, rem) =>
          if rem.isEmpty then procRecs tlvs (some typ) (acc ++ [(typ, v)]) rest
          else .error .InvalidValue
      | none =>
        if typ % 2 == 0 then .error .UnknownRequiredFeature
        else procRecs tlvs (some typ) acc rest

/-! ## wire level -/

/-- result of `wire::read` restricted to what the model covers -/
inductive WireMsg
  | known (typeId : Nat) (name : String) (v : MsgVal)
  | unknown (typeId : Nat)
  deriving Repr

/-- what peer_handler does with a decoded message as far as unknown types are concerned.
    mirrors ln/peer_handler.rs: `wire::Message::Unknown(type_id) if message.is_even()` ⇒ error +
    disconnect; `wire::Message::Unknown(_)` ⇒ ignored (exercised end-to-end under C15) -/
inductive PeerAction | handle | ignore | disconnect
  deriving DecidableEq, Repr

def peerDispatch : WireMsg → PeerAction
  | .known .. => .handle
  | .unknown t => if t % 2 == 0 then .disconnect else .ignore

/-- mirrors ln/wire.rs::read + do_read over a dispatch table `(type id, schema)`:
    2-byte type, then the payload decoder of that type; an id not in the table ⇒ `Message::Unknown` -/
def wireRead (table : List (Nat × Schema)) (b : Bytes) : Res WireMsg :=
  match readUint 2 b with
  | .error e => .error e
  | .ok (t, r) =>
    match table.lookup t with
    | some s =>
      match s.decode r with
      | .error e => .error e
      | .ok v => .ok (.known t s.name v)
    | none => .ok (.unknown t)

/-- mirrors ln/wire.rs::write: type id, then the payload -/
def wireWrite (t : Nat) (s : Schema) (v : MsgVal) : Bytes := beEncode 2 t ++ s.encode v

end Ldk.Codec
