/- BOLT-11 raw invoice codec: bech32 string ↔ (HRP, timestamp, tagged fields, signature symbols).
   Hand-written model of lightning-invoice/src/{de.rs,ser.rs,lib.rs} at the level of
   `SignedRawBolt11Invoice` (`FromStr` / `Display`), including the per-tag conversions of
   `TaggedField::from_base32` (which decide between "known", "unknown/skipped" and a hard parse
   error) and the signed preimage of `RawBolt11Invoice::hash_from_parts`.  No Mathlib.
   ECDSA itself (signature verification / key recovery) is NOT modelled: it is a trusted dependency;
   only the range checks of `RecoverableSignature::from_compact` / `PublicKey::from_slice` are.
   The numeric bounds and field-width decisions (timestamp range, length rules per tag, overflow checks,
   `assert!`/`expect`/`unreachable!` sites) are NOT literals of this file: they are the definitions of
   `Generated/C18Bounds.lean`, translated from the Rust text on every run (tools/gen_c18_bounds.py). -/
import LdkModel.Prim.Bech32
import LdkModel.Prim.Sha256
import LdkModel.Generated.C18Bounds
namespace Ldk.Bolt11
open Ldk.Prim.Bech32

abbrev Bytes := List UInt8

/-- mirrors lightning-invoice/src/lib.rs::Bolt11ParseError (variant names) -/
inductive Err
  | bech32Error | parseAmountError | malformedSignature | descriptionDecodeError
  | unknownCurrency | unknownSiPrefix | malformedHRP | tooShortDataPart
  | unexpectedEndOfTaggedFields | integerOverflowError | invalidSegWitProgramLength
  | invalidPubKeyHashLength | invalidScriptHashLength | invalidSliceLength
  /-- not a `Bolt11ParseError`: the parser PANICKED (`expect` / `unreachable!()` / `assert!` reached) -/
  | panicked
  deriving DecidableEq, Repr

def Err.name : Err → String
  | .bech32Error => "Bech32Error" | .parseAmountError => "ParseAmountError"
  | .malformedSignature => "MalformedSignature" | .descriptionDecodeError => "DescriptionDecodeError"
  | .unknownCurrency => "UnknownCurrency" | .unknownSiPrefix => "UnknownSiPrefix"
  | .malformedHRP => "MalformedHRP" | .tooShortDataPart => "TooShortDataPart"
  | .unexpectedEndOfTaggedFields => "UnexpectedEndOfTaggedFields"
  | .integerOverflowError => "IntegerOverflowError"
  | .invalidSegWitProgramLength => "InvalidSegWitProgramLength"
  | .invalidPubKeyHashLength => "InvalidPubKeyHashLength"
  | .invalidScriptHashLength => "InvalidScriptHashLength"
  | .invalidSliceLength => "InvalidSliceLength"
  | .panicked => "PANIC"

/-! ### constants (each is tied to the Rust source by `Ldk.C18.model_constants_match_source`) -/

def tagPaymentHash : U5 := 1
def tagDescription : U5 := 13
def tagPayeePubKey : U5 := 19
def tagDescriptionHash : U5 := 23
def tagExpiryTime : U5 := 6
def tagMinFinalCltvExpiryDelta : U5 := 24
def tagFallback : U5 := 9
def tagPrivateRoute : U5 := 3
def tagPaymentSecret : U5 := 16
def tagPaymentMetadata : U5 := 27
def tagFeatures : U5 := 5
/-- de.rs::SIGNATURE_LEN_5 -/
def sigLen5 : Nat := 104
/-- lib.rs::MAX_LENGTH -/
def maxLength : Nat := 7089
/-- the unit of an amount without SI prefix, in pico-BTC (lib.rs::amount_pico_btc) -/
def noPrefixUnit : Nat := 1000000000000

/-! ### human-readable part -/

inductive Currency | bitcoin | testnet | regtest | simnet | signet
  deriving DecidableEq, Repr

/-- mirrors ser.rs::Display for Currency -/
def Currency.code : Currency → List Char
  | .bitcoin => ['b', 'c'] | .testnet => ['t', 'b'] | .regtest => ['b', 'c', 'r', 't']
  | .simnet => ['s', 'b'] | .signet => ['t', 'b', 's']

/-- mirrors de.rs::FromStr for Currency -/
def Currency.ofCode (s : List Char) : Option Currency :=
  if s = ['b', 'c'] then some .bitcoin else if s = ['t', 'b'] then some .testnet
  else if s = ['b', 'c', 'r', 't'] then some .regtest else if s = ['s', 'b'] then some .simnet
  else if s = ['t', 'b', 's'] then some .signet else none

inductive SiPrefix | milli | micro | nano | pico
  deriving DecidableEq, Repr

/-- pico-BTC per unit -- mirrors lib.rs::SiPrefix::multiplier -/
def SiPrefix.multiplier : SiPrefix → Nat
  | .milli => 1000000000 | .micro => 1000000 | .nano => 1000 | .pico => 1

def SiPrefix.letter : SiPrefix → Char
  | .milli => 'm' | .micro => 'u' | .nano => 'n' | .pico => 'p'

def SiPrefix.ofLetter (c : Char) : Option SiPrefix :=
  if c = 'm' then some .milli else if c = 'u' then some .micro
  else if c = 'n' then some .nano else if c = 'p' then some .pico else none

/-- mirrors lib.rs::RawHrp -/
structure RawHrp where
  currency : Currency
  rawAmount : Option Nat
  si : Option SiPrefix
  deriving DecidableEq, Repr

def isDigit (c : Char) : Bool := '0' ≤ c ∧ c ≤ '9'

def digitChar : Nat → Char
  | 0 => '0' | 1 => '1' | 2 => '2' | 3 => '3' | 4 => '4' | 5 => '5' | 6 => '6' | 7 => '7' | 8 => '8' | _ => '9'

/-- decimal digits, most significant first (`u64::to_string`) -/
def natDigitsAux : Nat → Nat → List Char → List Char
  | 0, _, acc => acc
  | fuel + 1, n, acc =>
    let acc' := digitChar (n % 10) :: acc
    if n < 10 then acc' else natDigitsAux fuel (n / 10) acc'

def natDigits (n : Nat) : List Char := natDigitsAux (n + 1) n []

def parseDigits (cs : List Char) : Nat := cs.foldl (fun a c => 10 * a + (c.toNat - 48)) 0

/-- mirrors ser.rs::Display for RawHrp: `ln{currency}{amount}{si}` -/
def RawHrp.toChars (h : RawHrp) : List Char :=
  ['l', 'n'] ++ h.currency.code ++ (match h.rawAmount with | some a => natDigits a | none => []) ++
    (match h.si with | some s => [s.letter] | none => [])

def u64Max : Nat := 2 ^ 64 - 1

/-- mirrors de.rs::hrp_sm::parse_hrp + FromStr for RawHrp.  The state machine: `l`, `n`, then a run
    of non-digits (currency), a run of digits (amount), at most one of `m u n p`; nothing may follow.
    Error order: state machine errors, unknown currency, amount does not fit u64, amount × multiplier
    does not fit u64 (checked ONLY when an SI prefix is present). -/
def parseHrp (s : List Char) : Except Err RawHrp :=
  match s with
  | [] => .error .unknownCurrency          -- empty: machine stays in `Start` (final), currency ""
  | c0 :: r0 =>
    if c0 ≠ 'l' then .error .malformedHRP else
    match r0 with
    | [] => .error .malformedHRP           -- state ParseL is not final
    | c1 :: r1 =>
      if c1 ≠ 'n' then .error .malformedHRP else
      if r1.isEmpty then .error .malformedHRP else   -- state ParseN is not final
      let cur := r1.takeWhile (fun c => !isDigit c)
      let r2 := r1.dropWhile (fun c => !isDigit c)
      let num := r2.takeWhile isDigit
      let r3 := r2.dropWhile isDigit
      -- after the digits: nothing, or exactly one SI letter
      let siRes : Except Err (Option SiPrefix) :=
        match r3 with
        | [] => .ok none
        | c :: rest =>
          if num.isEmpty then .ok none   -- unreachable: r3 starts with a non-digit only after digits
          else match SiPrefix.ofLetter c with
            | none => .error .unknownSiPrefix
            | some p => if rest.isEmpty then .ok (some p) else .error .malformedHRP
      match siRes with
      | .error e => .error e
      | .ok si =>
        match Currency.ofCode cur with
        | none => .error .unknownCurrency
        | some currency =>
          let amount : Option Nat := if num.isEmpty then none else some (parseDigits num)
          match amount with
          | some a =>
            if a > u64Max then .error .parseAmountError else
            match si with
            | some p => if a * p.multiplier > u64Max then .error .integerOverflowError
                        else .ok { currency, rawAmount := some a, si := some p }
            | none => .ok { currency, rawAmount := some a, si := none }
          | none => .ok { currency, rawAmount := none, si }

/-- mirrors lib.rs::RawBolt11Invoice::amount_pico_btc (`checked_mul`; without an SI prefix the unit is
    1 BTC = 10^12 pico-BTC, and an overflow there silently reads as "no amount") -/
def RawHrp.amountPico (h : RawHrp) : Option Nat :=
  match h.rawAmount with
  | none => none
  | some v =>
    let p := v * (match h.si with | some s => s.multiplier | none => noPrefixUnit)
    if p > u64Max then none else some p

/-- mirrors lib.rs::Bolt11Invoice::check_amount: a pico-BTC amount that is not a whole number of
    millisatoshi is rejected (`ImpreciseAmount`) — the "`p` amount must end in 0" rule -/
def RawHrp.amountOk (h : RawHrp) : Bool :=
  match h.amountPico with | some p => p % 10 == 0 | none => true

/-- mirrors lib.rs::Bolt11Invoice::amount_milli_satoshis -/
def RawHrp.amountMsat (h : RawHrp) : Option Nat := h.amountPico.map (· / 10)

/-- mirrors lib.rs::InvoiceBuilder::amount_milli_satoshis: the biggest SI prefix that divides the
    pico-BTC amount (`none` when `amount_msat * 10` overflows u64: `CreationError::InvalidAmount`) -/
def hrpOfAmount (currency : Currency) (msat : Option Nat) : Option RawHrp :=
  match msat with
  | none => some { currency, rawAmount := none, si := none }
  | some m =>
    let a := m * 10
    if a > u64Max then none else
    let p : SiPrefix := if a % 1000000000 = 0 then .milli else if a % 1000000 = 0 then .micro
                        else if a % 1000 = 0 then .nano else .pico
    some { currency, rawAmount := some (a / p.multiplier), si := some p }

/-! ### integers and framing over 5-bit symbols -/

/-- big-endian base-32 value -- mirrors de.rs::parse_u64_be / parse_u16_be (overflow checked by caller) -/
def parseIntBe (d : List U5) : Nat := d.foldl (fun a b => a * 32 + b.toNat) 0

/-- minimal big-endian base-32 digits -- mirrors ser.rs::encode_int_be_base32 (0 ↦ empty) -/
def encodeIntBeAux : Nat → Nat → List U5 → List U5
  | 0, _, acc => acc
  | fuel + 1, n, acc => if n = 0 then acc else encodeIntBeAux fuel (n / 32) (UInt8.ofNat (n % 32) :: acc)

def encodeIntBe (n : Nat) : List U5 := encodeIntBeAux (n + 1) n []

/-- mirrors ser.rs::Base32Iterable for PositiveTimestamp: left-padded to 7 symbols -/
def encodeTimestamp (t : Nat) : List U5 :=
  let d := encodeIntBe t
  List.replicate (7 - d.length) 0 ++ d

/-- mirrors de.rs::parse_u64_be (`define_parse_int_be!`): fold with `checked_mul(32)` / `checked_add`
    in u64, `none` as soon as an intermediate value leaves the u64 range.  Closed form:
    `Ldk.C18.parseU64Be_eq` (`some (parseIntBe d)` iff `parseIntBe d < 2^64`). -/
def parseU64Be (d : List U5) : Option Nat :=
  d.foldl (fun acc b => acc.bind fun x => (chkMul64 x C18Bounds.PARSE_INT_BASE).bind fun y => chkAdd64 y b.toNat) (some 0)

/-- mirrors lib.rs::PositiveTimestamp::from_unix_timestamp (= from_duration_since_epoch on whole
    seconds = what InvoiceBuilder::duration_since_epoch accepts); the comparison is the translated
    `C18Bounds.fromUnixTimestampOk`.  `none` = `CreationError::TimestampOutOfBounds` -/
def positiveTimestamp (unixSeconds : Nat) : Option Nat :=
  if C18Bounds.fromUnixTimestampOk unixSeconds then some unixSeconds else none

/-- outcome of de.rs::FromBase32 for PositiveTimestamp -/
inductive TsDecode
  | ok (t : Nat)
  | invalidSliceLength
  /-- `parse_u64_be(b32).expect("7*5bit < 64bit, no overflow possible")` failed -/
  | overflowPanic
  /-- `from_unix_timestamp` refused the decoded value: `Err(_) => unreachable!()` -/
  | unreachablePanic
  deriving DecidableEq, Repr

/-- mirrors de.rs::FromBase32 for PositiveTimestamp, including its two panic sites -/
def timestampFromBase32 (b32 : List U5) : TsDecode :=
  if C18Bounds.timestampWrongLen b32.length then .invalidSliceLength else
  match parseU64Be b32 with
  | none => .overflowPanic
  | some t =>
    match positiveTimestamp t with
    | some t => .ok t
    | none => .unreachablePanic

/-- the serialiser side of the same field: ser.rs::Base32Iterable for PositiveTimestamp computes
    `to_pad = 7 - fes.len()` in usize — an underflow (PANIC) unless the digits fit -/
def timestampSerializable (t : Nat) : Bool := (encodeIntBe t).length ≤ C18Bounds.TIMESTAMP_PAD_TO

/-- bit length of a u64: `64 - int.leading_zeros()` -/
def bitLen (n : Nat) : Nat := if n = 0 then 0 else Nat.log2 n + 1

/-- mirrors ser.rs::encoded_int_be_base32_size (`Base32Len` of ExpiryTime / MinFinalCltvExpiryDelta:
    the value written into the 10-bit length of an `x` / `c` field) -/
def encodedIntBeBase32Size (n : Nat) : Nat := C18Bounds.encodedIntSizeOfBitLen (bitLen n)

/-- mirrors lib.rs::Description::new on the byte length; `false` = `CreationError::DescriptionTooLong` -/
def descriptionLenOk (bytes : Nat) : Bool := !C18Bounds.descriptionTooLong bytes

/-- mirrors lib.rs::InvoiceBuilder::optional_payment_metadata; `false` = `PaymentMetadataTooLong` -/
def paymentMetadataLenOk (bytes : Nat) : Bool := !C18Bounds.paymentMetadataTooLong bytes

/-- one tagged field on the wire: tag, 10-bit length, payload -- mirrors ser.rs::write_tagged_field -/
def encodeField (f : U5 × List U5) : List U5 :=
  f.1 :: UInt8.ofNat (f.2.length / 32) :: UInt8.ofNat (f.2.length % 32) :: f.2

def encodeFields (fs : List (U5 × List U5)) : List U5 := fs.flatMap encodeField

/-- framing of de.rs::parse_tagged_parts: (tag, payload) slices; fuel = input length -/
def splitTagged : Nat → List U5 → Except Err (List (U5 × List U5))
  | 0, d => if d.isEmpty then .ok [] else .error .unexpectedEndOfTaggedFields
  | fuel + 1, d =>
    match d with
    | [] => .ok []
    | tag :: l1 :: l2 :: rest =>
      let len := l1.toNat * 32 + l2.toNat
      if rest.length < len then .error .unexpectedEndOfTaggedFields else
      match splitTagged fuel (rest.drop len) with
      | .ok fs => .ok ((tag, rest.take len) :: fs)
      | .error e => .error e
    | _ => .error .unexpectedEndOfTaggedFields

/-- data part without signature ↔ (timestamp, raw tagged fields)
    -- mirrors de.rs::FromBase32 for RawDataPart (framing only) -/
def parseData (d : List U5) : Except Err (Nat × List (U5 × List U5)) :=
  if d.length < 7 then .error .tooShortDataPart else
  match splitTagged d.length (d.drop 7) with
  | .ok fs => .ok (parseIntBe (d.take 7), fs)
  | .error e => .error e

def serializeData (ts : Nat) (fs : List (U5 × List U5)) : List U5 := encodeTimestamp ts ++ encodeFields fs

/-! ### per-tag interpretation -/

def secpP : Nat := 2 ^ 256 - 2 ^ 32 - 977
def secpN : Nat := 0xFFFFFFFFFFFFFFFFFFFFFFFFFFFFFFFEBAAEDCE6AF48A03BBFD25E8CD0364141

def powModAux : Nat → Nat → Nat → Nat → Nat → Nat
  | 0, _, _, _, acc => acc
  | fuel + 1, b, e, m, acc =>
    if e = 0 then acc else
    powModAux fuel (b * b % m) (e / 2) m (if e % 2 = 1 then acc * b % m else acc)

def powMod (b e m : Nat) : Nat := powModAux 260 (b % m) e m (1 % m)

def beNat (b : Bytes) : Nat := b.foldl (fun a x => a * 256 + x.toNat) 0

/-- a 33-byte compressed secp256k1 point accepted by `PublicKey::from_slice`: prefix 02/03, x < p,
    x³+7 a quadratic residue (Euler criterion) -/
def validPubkey (b : Bytes) : Bool :=
  match b with
  | pfx :: xb =>
    let x := beNat xb
    b.length == 33 && (pfx == 2 || pfx == 3) && x < secpP &&
      powMod ((x * x % secpP * x + 7) % secpP) ((secpP - 1) / 2) secpP == 1
  | [] => false

/-- strict UTF-8 (`String::from_utf8`): no overlong forms, no surrogates, ≤ U+10FFFF; fuel = length -/
def validUtf8 : Nat → Bytes → Bool
  | 0, b => b.isEmpty
  | fuel + 1, b =>
    let cont (x : UInt8) : Bool := 0x80 ≤ x && x ≤ 0xBF
    match b with
    | [] => true
    | a :: r =>
      if a ≤ 0x7F then validUtf8 fuel r
      else if 0xC2 ≤ a && a ≤ 0xDF then
        match r with | x :: r' => cont x && validUtf8 fuel r' | _ => false
      else if 0xE0 ≤ a && a ≤ 0xEF then
        match r with
        | x :: y :: r' =>
          (if a == 0xE0 then 0xA0 ≤ x && x ≤ 0xBF else if a == 0xED then 0x80 ≤ x && x ≤ 0x9F else cont x)
            && cont y && validUtf8 fuel r'
        | _ => false
      else if 0xF0 ≤ a && a ≤ 0xF4 then
        match r with
        | x :: y :: z :: r' =>
          (if a == 0xF0 then 0x90 ≤ x && x ≤ 0xBF else if a == 0xF4 then 0x80 ≤ x && x ≤ 0x8F else cont x)
            && cont y && cont z && validUtf8 fuel r'
        | _ => false
      else false

def allChunks (n : Nat) (p : Bytes → Bool) : Nat → Bytes → Bool
  | 0, _ => true
  | fuel + 1, b => if b.isEmpty then true else p (b.take n) && allChunks n p fuel (b.drop n)

/-- result of interpreting one framed field: `known` with the payload as it is RE-SERIALISED by
    ser.rs (canonical form), or `unknown` (kept verbatim: `RawTaggedField::UnknownSemantics`) -/
inductive Interp | known (payload : List U5) | unknown

/-- bytes ↔ symbols through a byte vector: what `Vec<u8>::from_base32` then `fe_iter` produce -/
def viaBytes (p : List U5) : List U5 := bytesToFes (fesToBytes p)

/-- mirrors de.rs::FromBase32 for PaymentHash / Sha256 / PaymentSecret: a payload that is not 52
    symbols long is "not this field" (`InvalidSliceLength` / `Skip` ⇒ kept as unknown) -/
def interpHash32 (wrongLen : Bool) (p : List U5) : Except Err Interp :=
  if wrongLen then .ok .unknown else .ok (.known (viaBytes p))

/-- mirrors de.rs::FromBase32 for Description:
    `Description::new(String::from_utf8(bytes)?).expect("Max len is 639=floor(1023*5/8) ...")` -/
def interpDescription (p : List U5) : Except Err Interp :=
  let b := fesToBytes p
  if validUtf8 b.length b then
    if descriptionLenOk b.length then .ok (.known (bytesToFes b)) else .error .panicked
  else .error .descriptionDecodeError

/-- mirrors de.rs::FromBase32 for PayeePubKey -/
def interpPayeePubKey (p : List U5) : Except Err Interp :=
  if C18Bounds.payeePubKeyWrongLen p.length then .ok .unknown else
  let b := fesToBytes p
  if validPubkey b then .ok (.known (bytesToFes b)) else .error .malformedSignature

/-- mirrors de.rs::FromBase32 for ExpiryTime / MinFinalCltvExpiryDelta: every u64 is accepted, a
    value beyond u64 is `IntegerOverflowError`; re-serialised without leading zero symbols -/
def interpU64 (p : List U5) : Except Err Interp :=
  match parseU64Be p with
  | none => .error .integerOverflowError
  | some v => .ok (.known (encodeIntBe v))

/-- mirrors de.rs::FromBase32 for Fallback -/
def interpFallback (p : List U5) : Except Err Interp :=
  match p with
  | [] => .error .unexpectedEndOfTaggedFields
  | ver :: rest =>
    let b := fesToBytes rest
    if C18Bounds.FALLBACK_SEGWIT_VERSION_LO ≤ ver.toNat && ver.toNat ≤ C18Bounds.FALLBACK_SEGWIT_VERSION_HI then
      if C18Bounds.fallbackProgramLenBad b.length then .error .invalidSegWitProgramLength
      else .ok (.known (ver :: bytesToFes b))
    else if ver.toNat == C18Bounds.FALLBACK_P2PKH_VERSION then
      if b.length != 20 then .error .invalidPubKeyHashLength else .ok (.known (ver :: bytesToFes b))
    else if ver.toNat == C18Bounds.FALLBACK_P2SH_VERSION then
      if b.length != 20 then .error .invalidScriptHashLength else .ok (.known (ver :: bytesToFes b))
    else .ok .unknown

/-- mirrors de.rs::FromBase32 for PrivateRoute -/
def interpPrivateRoute (p : List U5) : Except Err Interp :=
  let b := fesToBytes p
  if C18Bounds.privateRouteBadLen b.length then .error .unexpectedEndOfTaggedFields
  else if allChunks C18Bounds.ROUTE_HOP_BYTES (fun hop => validPubkey (hop.take 33)) b.length b then .ok (.known (bytesToFes b))
  else .error .malformedSignature

/-- mirrors de.rs::FromBase32 for TaggedField and the error routing in parse_tagged_parts
    (`Skip`, `InvalidSliceLength`, `Bech32Error` ⇒ unknown; every other error aborts the parse).
    All length rules are the translated predicates of `Generated/C18Bounds.lean`. -/
def interpField (tag : U5) (p : List U5) : Except Err Interp :=
  if tag == tagPaymentHash then interpHash32 (C18Bounds.paymentHashWrongLen p.length) p            -- p
  else if tag == tagDescription then interpDescription p                                           -- d
  else if tag == tagPayeePubKey then interpPayeePubKey p                                           -- n
  else if tag == tagDescriptionHash then interpHash32 (C18Bounds.sha256WrongLen p.length) p        -- h
  else if tag == tagExpiryTime || tag == tagMinFinalCltvExpiryDelta then interpU64 p               -- x, c
  else if tag == tagFallback then interpFallback p                                                 -- f
  else if tag == tagPrivateRoute then interpPrivateRoute p                                         -- r
  else if tag == tagPaymentSecret then interpHash32 (C18Bounds.paymentSecretWrongLen p.length) p   -- s
  else if tag == tagPaymentMetadata then .ok (.known (viaBytes p))                                 -- m
  else if tag == tagFeatures then .ok (.known (p.dropWhile (· == 0)))   -- 9: leading zero symbols are trimmed
  else .ok .unknown

/-- a parsed field: tag, whether the library knows its semantics, payload (canonical when known) -/
structure Field where
  tag : U5
  known : Bool
  payload : List U5
  deriving DecidableEq, Repr

def mkField (tag : U5) (p : List U5) : Interp → Field
  | .known q => ⟨tag, true, q⟩
  | .unknown => ⟨tag, false, p⟩

def interpFields : List (U5 × List U5) → Except Err (List Field)
  | [] => .ok []
  | (tag, p) :: rest =>
    match interpField tag p with
    | .error e => .error e
    | .ok i =>
      match interpFields rest with
      | .error e => .error e
      | .ok fs => .ok (mkField tag p i :: fs)

/-- mirrors de.rs::parse_tagged_parts in its real order: each field is sliced AND interpreted before
    the next one is looked at (so an interpretation error of an earlier field wins over a framing
    error of a later one).  When it succeeds it is `splitTagged` followed by `interpFields`
    (`Ldk.C18.parseTagged_eq_split_interp`).  fuel = input length -/
def parseTagged : Nat → List U5 → Except Err (List Field)
  | 0, d => if d.isEmpty then .ok [] else .error .unexpectedEndOfTaggedFields
  | fuel + 1, d =>
    match d with
    | [] => .ok []
    | tag :: l1 :: l2 :: rest =>
      let len := l1.toNat * 32 + l2.toNat
      if rest.length < len then .error .unexpectedEndOfTaggedFields else
      match interpField tag (rest.take len) with
      | .error e => .error e
      | .ok i =>
        match parseTagged fuel (rest.drop len) with
        | .error e => .error e
        | .ok fs => .ok (mkField tag (rest.take len) i :: fs)
    | _ => .error .unexpectedEndOfTaggedFields

/-- mirrors lib.rs::SignedRawBolt11Invoice -/
structure SignedRaw where
  hrp : RawHrp
  timestamp : Nat
  fields : List Field
  sig : List U5        -- 104 symbols = 64-byte compact signature + recovery id
  deriving Repr

/-- mirrors de.rs::FromBase32 for Bolt11InvoiceSignature: recovery id 0..3, r and s below the group
    order (`secp256k1_ecdsa_recoverable_signature_parse_compact`) -/
def sigOk (sig : List U5) : Bool :=
  let b := fesToBytes sig
  b.length == 65 && beNat (b.take 32) < secpN && beNat ((b.drop 32).take 32) < secpN && b.getD 64 0 ≤ 3

def isUpper (c : UInt8) : Bool := 65 ≤ c && c ≤ 90
def isLower (c : UInt8) : Bool := 97 ≤ c && c ≤ 122
def toLower (c : UInt8) : UInt8 := if isUpper c then c + 32 else c

/-- position of the last `'1'` -/
def lastSep (s : Bytes) : Option Nat :=
  (s.zipIdx.foldl (fun acc (p : UInt8 × Nat) => if p.1 == 49 then some p.2 else acc) none)

/-- the checks of bech32 `CheckedHrpstring::new::<Bolt11Bech32>`: characters, case, separator, HRP
    length 1..=83 and byte range 33..=126, total length ≤ 7089, ≥ 6 data symbols, checksum.
    Returns the lower-cased HRP bytes and the data symbols WITHOUT the checksum. -/
def bech32Decode (s : Bytes) : Option (Bytes × List U5) :=
  if s.any (· ≥ 128) then none else
  if s.any isUpper && s.any isLower then none else
  match lastSep s with
  | none => none
  | some pos =>
    let hrp := s.take pos
    let dataAscii := s.drop (pos + 1)
    let syms := dataAscii.filterMap (fun c => charToSym (Char.ofNat c.toNat))
    if syms.length != dataAscii.length then none else
    if hrp.isEmpty || hrp.length > 83 || hrp.any (fun b => b < 33 || b > 126) then none else
    if s.length > maxLength then none else
    if syms.length < 6 then none else
    let hrpL := hrp.map toLower
    if verifyChecksum hrpL syms then some (hrpL, syms.take (syms.length - 6)) else none

/-- mirrors de.rs::FromStr for SignedRawBolt11Invoice -/
def parseSigned (s : Bytes) : Except Err SignedRaw :=
  match bech32Decode s with
  | none => .error .bech32Error
  | some (hrpBytes, data) =>
    if data.length < sigLen5 then .error .tooShortDataPart else
    match parseHrp (hrpBytes.map (fun b => Char.ofNat b.toNat)) with
    | .error e => .error e
    | .ok hrp =>
      let d := data.take (data.length - sigLen5)
      if d.length < 7 then .error .tooShortDataPart else
      -- RawDataPart::from_base32: the timestamp is decoded BEFORE the tagged fields are looked at
      match timestampFromBase32 (d.take 7) with
      | .invalidSliceLength => .error .invalidSliceLength   -- `?`; cannot happen while the slice has 7 symbols
      | .overflowPanic | .unreachablePanic => .error .panicked
      | .ok timestamp =>
        match parseTagged d.length (d.drop 7) with
        | .error e => .error e
        | .ok fields =>
          let sig := data.drop (data.length - sigLen5)
          if sigOk sig then .ok { hrp, timestamp, fields, sig }
          else .error .malformedSignature

/-- data part without signature as re-serialised -- mirrors ser.rs::Base32Iterable for RawDataPart -/
def SignedRaw.dataSyms (i : SignedRaw) : List U5 :=
  serializeData i.timestamp (i.fields.map (fun f => (f.tag, f.payload)))

def SignedRaw.hrpBytes (i : SignedRaw) : Bytes := i.hrp.toChars.map (fun c => UInt8.ofNat c.toNat)

/-- mirrors ser.rs::Display for SignedRawBolt11Invoice -/
def SignedRaw.toBytes (i : SignedRaw) : Bytes :=
  let d := i.dataSyms ++ i.sig
  i.hrpBytes ++ [49] ++ (d ++ createChecksum i.hrpBytes d).map (fun v => UInt8.ofNat (symToChar v).toNat)

/-- the bytes that are hashed and signed: HRP bytes, then the data symbols regrouped into bytes after
    zero-padding to a byte boundary -- mirrors lib.rs::RawBolt11Invoice::hash_from_parts -/
def signedPreimage (hrp : Bytes) (data : List U5) : Bytes :=
  let overhang := (data.length * 5) % 8
  let padded := if overhang = 0 then data else if overhang < 3 then data ++ [0, 0] else data ++ [0]
  hrp ++ fesToBytes padded

/-- mirrors lib.rs::RawBolt11Invoice::signable_hash over a hash function `H` (SHA-256 in the driver) -/
def SignedRaw.signableHash (H : Bytes → Bytes) (i : SignedRaw) : Bytes :=
  H (signedPreimage i.hrpBytes i.dataSyms)

/-! ### semantic checks of `Bolt11Invoice::from_signed` -/

/-- mirrors lib.rs::Bolt11SemanticError (the variants `from_signed` can return) -/
inductive SemErr
  | noPaymentHash | multiplePaymentHashes | noDescription | multipleDescriptions
  | noPaymentSecret | multiplePaymentSecrets | invalidFeatures | invalidSignature | impreciseAmount
  deriving DecidableEq, Repr

def SemErr.name : SemErr → String
  | .noPaymentHash => "NoPaymentHash" | .multiplePaymentHashes => "MultiplePaymentHashes"
  | .noDescription => "NoDescription" | .multipleDescriptions => "MultipleDescriptions"
  | .noPaymentSecret => "NoPaymentSecret" | .multiplePaymentSecrets => "MultiplePaymentSecrets"
  | .invalidFeatures => "InvalidFeatures" | .invalidSignature => "InvalidSignature"
  | .impreciseAmount => "ImpreciseAmount"

def countKnown (fs : List Field) (tags : List U5) : Nat :=
  (fs.filter (fun f => f.known && tags.contains f.tag)).length

/-- even (required) bits the library knows in `Bolt11InvoiceContext`: var_onion 8, payment_secret 14,
    basic_mpp 16, payment_metadata 48, trampoline 56 -- mirrors lightning-types features.rs -/
def knownEvenBits : List Nat := [8, 14, 16, 48, 56]

/-- mirrors features.rs::requires_unknown_bits on the feature bit field read as a number -/
def requiresUnknownBits (n : Nat) (nbits : Nat) : Bool :=
  (List.range nbits).any (fun i => i % 2 == 0 && n.testBit i && !knownEvenBits.contains i)

/-- mirrors lib.rs::check_payment_secret -/
def checkPaymentSecret (fs : List Field) : Except SemErr Unit :=
  let n := countKnown fs [tagPaymentSecret]
  if n < 1 then .error .noPaymentSecret else if n > 1 then .error .multiplePaymentSecrets else .ok ()

/-- mirrors lib.rs::Bolt11Invoice::from_signed: check_field_counts, check_feature_bits,
    check_signature (ECDSA is a trusted dependency: its verdict is the parameter `sigValid`),
    check_amount — in this order -/
def fromSigned (sigValid : Bool) (i : SignedRaw) : Except SemErr Unit :=
  let np := countKnown i.fields [tagPaymentHash]
  if np < 1 then .error .noPaymentHash else if np > 1 then .error .multiplePaymentHashes else
  let nd := countKnown i.fields [tagDescription, tagDescriptionHash]
  if nd < 1 then .error .noDescription else if nd > 1 then .error .multipleDescriptions else
  match checkPaymentSecret i.fields with
  | .error e => .error e
  | .ok _ =>
    match i.fields.find? (fun f => f.known && f.tag == tagFeatures) with
    | none => .error .invalidFeatures
    | some f =>
      let n := parseIntBe f.payload
      if requiresUnknownBits n (5 * f.payload.length) then .error .invalidFeatures
      else if !(n.testBit 14 || n.testBit 15) then .error .invalidFeatures
      else if !sigValid then .error .invalidSignature
      else if !i.hrp.amountOk then .error .impreciseAmount
      else .ok ()

end Ldk.Bolt11
