import LdkModel.Model.RouteValid
namespace Ldk.C16S
open Ldk Ldk.Router Ldk.RouteFees
theorem aggregate_single (b p : Nat) (hb : b < 2 ^ 64) (hp : p < 2 ^ 32) : aggregateFees [(b, p)] = some (b, p) := by
  have e1 : agg_base_step 0 b p = some b := by
    unfold agg_base_step chkMul64 chkAdd64
    simp [Nat.zero_mul, hb]
  have e2 : agg_prop_step 0 p = some p := by
    unfold agg_prop_step chkMul64 chkAdd64 chkSub
    have h4 : p + 1000000 < 2 ^ 64 := by omega
    have h5 : (p + 1000000) * 1000000 < 2 ^ 64 := by omega
    have h6 : (p + 1000000) * 1000000 + 999999 < 2 ^ 64 := by omega
    have h7 : ((p + 1000000) * 1000000 + 999999) / 1000000 = p + 1000000 := by omega
    simp [h4, h5, h6, h7]
  simp [aggregateFees, e1, e2]
end Ldk.C16S
