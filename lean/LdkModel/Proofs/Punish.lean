/- Helper lemmas for C06: the monitor invariant along a channel history (secret store invariant of
   Proofs/Secrets.lean + retention of every commitment's HTLC list), and the shape of the claim set.
   Core only. -/
import LdkModel.Model.Punish
import LdkModel.Proofs.Secrets
namespace Ldk.Punish
open Ldk.Secrets

variable {S : Type}

/-! ### the claimable map -/

/-- the HTLC list stored for commitment `k`, sources forgotten -/
def htlcsOf (m : Claimable) (k : Nat) : Option (List Htlc) := (m.get k).map (List.map (·.1))

theorem lookup_filter_ne (m : Claimable) (k k' : Nat) (h : k' ≠ k) :
    (m.filter (fun e => e.1 != k)).lookup k' = m.lookup k' := by
  induction m with
  | nil => rfl
  | cons e rest ih =>
    obtain ⟨a, v⟩ := e
    by_cases hak : a = k
    · subst hak
      have : (k' == a) = false := by simp [h]
      simp [List.lookup_cons, this, ih]
    · by_cases hk : k' = a
      · simp [hak, hk]
      · have : (k' == a) = false := by simp [hk]
        simp [hak, List.lookup_cons, this, ih]

theorem htlcsOf_insert (m : Claimable) (k k' : Nat) (hs : List Htlc) :
    htlcsOf (m.insert k (hs.map fun h => (h, true))) k' = if k' = k then some hs else htlcsOf m k' := by
  unfold htlcsOf Claimable.get Claimable.insert
  by_cases h : k' = k
  · subst h
    simp [List.lookup, List.map_map, Function.comp_def]
  · have : (k' == k) = false := by simp [h]
    simp only [List.lookup, this, h, if_false]
    rw [lookup_filter_ne m k k' h]

theorem htlcsOf_prune (m : Claimable) (p k' : Nat) :
    htlcsOf (m.pruneSources p) k' = htlcsOf m k' := by
  unfold htlcsOf Claimable.get Claimable.pruneSources
  induction m with
  | nil => rfl
  | cons e rest ih =>
    obtain ⟨a, v⟩ := e
    by_cases hk : k' = a
    · subst hk
      by_cases hap : k' = p
      · simp [hap, List.map_map, Function.comp_def]
      · simp [hap]
    · have hk' : (k' == a) = false := by simp [hk]
      by_cases hap : a = p
      · subst hap
        simpa [List.lookup_cons, hk'] using ih
      · have : (a == p) = false := by simp [hap]
        simpa [List.lookup_cons, hk', hap] using ih

/-! ### commitment numbers -/

theorem numberOf_inj (P : Params S) (i j : Nat) (hi : i < 2 ^ P.B) (hj : j < 2 ^ P.B)
    (h : numberOf P i = numberOf P j) : i = j := by
  unfold numberOf at h; omega

theorem numberOf_lt (P : Params S) (i : Nat) : numberOf P i < 2 ^ P.B := by
  unfold numberOf
  have := Nat.two_pow_pos P.B
  omega

/-! ### the monitor invariant along a history -/

/-- after commitments `0 … i−1` of `all` were provided and `0 … i−2` revoked -/
structure MonInv [DecidableEq S] (P : Params S) (seed : S) (all : List Body) (i : Nat) (m : Mon S) : Prop where
  /-- the store holds exactly the secrets of the revoked numbers `[2^B − (i−1), 2^B)` -/
  store : Secrets.Inv P seed (2 ^ P.B - (i - 1)) m.store
  cur : m.cur = some (numberOf P (i - 1))
  prev : m.prev = none
  /-- every commitment provided so far still has its full HTLC list -/
  kept : ∀ j, j < i → htlcsOf m.claimable (numberOf P j) = (all[j]?).map (·.htlcs)

theorem opsFrom_inv [DecidableEq S] (P : Params S) (seed : S) (all : List Body) :
    ∀ (rest : List Body) (i : Nat) (m : Mon S), 1 ≤ i → i + rest.length ≤ 2 ^ P.B →
      all.drop i = rest → MonInv P seed all i m →
      MonInv P seed all (i + rest.length) (run P m (opsFrom P seed i rest)) := by
  intro rest
  induction rest with
  | nil => intro i m _ _ _ h; simpa [opsFrom, run] using h
  | cons b rest ih =>
    intro i m hi hlen hdrop h
    simp only [List.length_cons] at hlen
    have hib : i < 2 ^ P.B := by omega
    have hall : all[i]? = some b := by
      have := congrArg List.head? hdrop
      simpa [List.head?_drop] using this
    have hdrop' : all.drop (i + 1) = rest := by
      have : all.drop (i + 1) = (all.drop i).drop 1 := by rw [List.drop_drop]
      rw [this, hdrop]; rfl
    -- the two events of this round
    simp only [opsFrom, run, List.foldl_cons]
    -- commitment i
    let m1 := provideCommitment m (numberOf P i) b.htlcs
    have hm1 : step P m (.commit (numberOf P i) b.htlcs) = m1 := rfl
    rw [hm1]
    -- secret i-1
    have hnum : numberOf P (i - 1) = 2 ^ P.B - i := by unfold numberOf; omega
    have hst : Secrets.Inv P seed ((2 ^ P.B - i) + 1) m1.store := by
      have : 2 ^ P.B - (i - 1) = (2 ^ P.B - i) + 1 := by omega
      rw [← this]; exact h.store
    have hstep := hst.step (by omega)
    have hprev1 : m1.prev = some (numberOf P (i - 1)) := by simp [m1, provideCommitment, h.cur]
    have hcur1 : m1.cur = some (numberOf P i) := rfl
    have hne : (m1.cur != some (numberOf P (i - 1))) = true := by
      rw [hcur1]
      simp only [bne_iff_ne, ne_eq, Option.some.injEq]
      intro e
      have := numberOf_inj P i (i - 1) hib (by omega) e
      omega
    have hm2 : step P m1 (.secret (numberOf P (i - 1)) (secretOf P seed (numberOf P (i - 1)))) =
        { m1 with store := m1.store.set (placeSecret P.B (2 ^ P.B - i)) (buildCommitmentSecret P seed (2 ^ P.B - i), 2 ^ P.B - i),
                  prev := none, claimable := m1.claimable.pruneSources (numberOf P (i - 1)) } := by
      simp only [step, provideSecret, secretOf, hnum]
      rw [hstep.1]
      simp only [hprev1, hnum] at hne ⊢
      rw [hnum] at hprev1
      simp [hne]
    rw [hm2]
    have hinv' : MonInv P seed all (i + 1)
        { m1 with store := m1.store.set (placeSecret P.B (2 ^ P.B - i)) (buildCommitmentSecret P seed (2 ^ P.B - i), 2 ^ P.B - i),
                  prev := none, claimable := m1.claimable.pruneSources (numberOf P (i - 1)) } := by
      refine ⟨?_, ?_, rfl, ?_⟩
      · have : 2 ^ P.B - (i + 1 - 1) = 2 ^ P.B - i := by omega
        rw [this]; exact hstep.2
      · simp [hcur1]
      · intro j hj
        simp only
        rw [htlcsOf_prune]
        simp only [m1, provideCommitment]
        rw [htlcsOf_insert]
        by_cases hji : j = i
        · subst hji; simp [hall]
        · have hne2 : numberOf P j ≠ numberOf P i := by
            intro e; exact hji (numberOf_inj P j i (by omega) hib e)
          simp only [hne2, if_false]
          exact h.kept j (by omega)
    have := ih (i + 1) _ (by omega) (by omega) hdrop' hinv'
    have e : i + 1 + rest.length = i + (rest.length + 1) := by omega
    rw [e] at this
    exact this

/-- the invariant holds after every non-empty history that fits the commitment-number space -/
theorem chanOps_inv [DecidableEq S] (P : Params S) (seed : S) (bodies : List Body)
    (hne : bodies ≠ []) (hlen : bodies.length ≤ 2 ^ P.B) :
    MonInv P seed bodies bodies.length (run P (Mon.new P) (chanOps P seed bodies)) := by
  cases bodies with
  | nil => exact absurd rfl hne
  | cons b rest =>
    simp only [chanOps, run, List.foldl_cons]
    have h1 : MonInv P seed (b :: rest) 1 (step P (Mon.new P) (.commit (numberOf P 0) b.htlcs)) := by
      refine ⟨?_, rfl, rfl, ?_⟩
      · have : 2 ^ P.B - (1 - 1) = 2 ^ P.B := by omega
        rw [this]; exact Inv_new P seed
      · intro j hj
        have : j = 0 := by omega
        subst this
        simp only [step, provideCommitment, Mon.new]
        rw [htlcsOf_insert]; simp
    have := opsFrom_inv P seed (b :: rest) rest 1 _ (Nat.le_refl _) (by simp at hlen; omega) rfl h1
    simpa [List.length_cons, Nat.add_comm, run] using this

/-! ### the claim set -/

/-- with consistent indices every stored HTLC that has an output yields its claim -/
theorem htlcClaims_eq (tx : List (TxOut S)) (hs : List Htlc)
    (hwf : ∀ h ∈ hs, ∀ i, h.outIdx = some i → ∃ o, tx[i]? = some o ∧ o.sat = h.sat) :
    htlcClaims tx hs = hs.filterMap (fun h => h.outIdx.map Outpoint.commit) := by
  induction hs with
  | nil => rfl
  | cons h rest ih =>
    have ih' := ih (fun h' hm => hwf h' (List.mem_cons_of_mem _ hm))
    simp only [htlcClaims, List.filterMap_cons]
    cases ho : h.outIdx with
    | none => simpa using ih'
    | some i =>
      obtain ⟨o, htx, hsat⟩ := hwf h (List.mem_cons_self) i ho
      simp [htx, hsat, ih']

theorem mem_toLocalClaims [DecidableEq S] (sec : S) (tx : List (TxOut S)) (o : Outpoint) :
    o ∈ toLocalClaims sec tx ↔ ∃ i out, o = .commit i ∧ tx[i]? = some out ∧ out.spk = .revokeable sec := by
  unfold toLocalClaims
  simp only [List.mem_map, List.mem_filter, List.mem_range]
  constructor
  · rintro ⟨i, ⟨hi, hb⟩, rfl⟩
    have hget : tx[i]? = some tx[i] := List.getElem?_eq_getElem hi
    rw [hget] at hb
    refine ⟨i, tx[i], rfl, hget, ?_⟩
    simpa using hb
  · rintro ⟨i, out, rfl, hget, hspk⟩
    have hi : i < tx.length := by
      rcases Nat.lt_or_ge i tx.length with h | h
      · exact h
      · rw [List.getElem?_eq_none h] at hget; cases hget
    exact ⟨i, ⟨hi, by rw [hget]; simp [hspk]⟩, rfl⟩

theorem Body.tx_get (b : Body) (sec : S) (i : Nat) :
    (b.tx sec)[i]? = (b.outputs[i]?).map fun (sat, k) =>
      ({ sat := sat, spk := match k with
          | .toLocal => .revokeable sec | .htlc => .htlc | .toRemote => .toRemote | .anchor => .anchor } : TxOut S) := by
  unfold Body.tx
  rw [List.getElem?_map]
  rfl

end Ldk.Punish

namespace Ldk.Punish
open Ldk.Secrets
variable {S : Type}

theorem mem_allSecondClaims (k0 : Nat) (second : List (List Nat)) (o : Outpoint) :
    o ∈ allSecondClaims k0 second ↔
      ∃ k p t, o = .second (k0 + k) p ∧ second[k]? = some t ∧ p < t.length := by
  induction second generalizing k0 with
  | nil => simp [allSecondClaims]
  | cons t rest ih =>
    simp only [allSecondClaims, List.mem_append, secondStageClaims, List.mem_map, List.mem_range]
    rw [ih]
    constructor
    · rintro (⟨p, hp, rfl⟩ | ⟨k, p, t', rfl, hget, hp⟩)
      · exact ⟨0, p, t, rfl, rfl, hp⟩
      · exact ⟨k + 1, p, t', by rw [Nat.add_assoc, Nat.add_comm 1 k], by simpa using hget, hp⟩
    · rintro ⟨k, p, t', rfl, hget, hp⟩
      cases k with
      | zero =>
        left
        simp only [List.getElem?_cons_zero, Option.some.injEq] at hget
        subst hget
        exact ⟨p, hp, rfl⟩
      | succ k =>
        right
        exact ⟨k, p, t', by rw [Nat.add_assoc, Nat.add_comm 1 k], by simpa using hget, hp⟩

theorem commit_not_mem_allSecondClaims (k0 : Nat) (second : List (List Nat)) (v : Nat) :
    Outpoint.commit v ∉ allSecondClaims k0 second := by
  rw [mem_allSecondClaims]
  rintro ⟨k, p, t, h, _⟩
  cases h

/-- the `to_local` claims on the cheater's own transaction: exactly the `toLocal` outputs -/
theorem mem_toLocalClaims_tx [DecidableEq S] (b : Body) (sec : S) (o : Outpoint) :
    o ∈ toLocalClaims sec (b.tx sec) ↔ ∃ i sat, o = .commit i ∧ b.outputs[i]? = some (sat, .toLocal) := by
  rw [mem_toLocalClaims]
  constructor
  · rintro ⟨i, out, rfl, hget, hspk⟩
    rw [Body.tx_get] at hget
    cases hb : b.outputs[i]? with
    | none => rw [hb] at hget; cases hget
    | some e =>
      obtain ⟨sat, k⟩ := e
      rw [hb] at hget
      simp only [Option.map_some, Option.some.injEq] at hget
      subst hget
      cases k <;> simp at hspk
      exact ⟨i, sat, rfl, hb⟩
  · rintro ⟨i, sat, rfl, hget⟩
    refine ⟨i, ({ sat := sat, spk := .revokeable sec } : TxOut S), rfl, ?_, rfl⟩
    rw [Body.tx_get, hget]; rfl

end Ldk.Punish

namespace Ldk.Punish

/-! ### the layout `Spec.body` is well-formed -/

theorem assignIdx_get (hs : List HtlcSpec) : ∀ (base : Nat) (post : List (Nat × OutKind)) (h : Htlc),
    h ∈ assignIdx base hs → ∀ i, h.outIdx = some i →
      base ≤ i ∧ (htlcOuts hs ++ post)[i - base]? = some (h.sat, .htlc) := by
  induction hs with
  | nil => intro base post h hm; cases hm
  | cons x rest ih =>
    intro base post h hm i hi
    simp only [assignIdx] at hm
    by_cases hnd : x.nondust
    · simp only [hnd, if_true, List.mem_cons] at hm
      rcases hm with rfl | hm
      · simp only [Option.some.injEq] at hi
        subst hi
        simp [htlcOuts, hnd, Htlc.sat]
      · obtain ⟨h1, h2⟩ := ih (base + 1) post h hm i hi
        refine ⟨by omega, ?_⟩
        have e : i - base = (i - (base + 1)) + 1 := by omega
        simp only [htlcOuts, hnd, if_true, List.cons_append]
        rw [e, List.getElem?_cons_succ]
        exact h2
    · simp only [hnd, Bool.false_eq_true, if_false, List.mem_cons] at hm
      rcases hm with rfl | hm
      · cases hi
      · have := ih base post h hm i hi
        simpa [htlcOuts, hnd] using this

theorem htlcOuts_covered (hs : List HtlcSpec) : ∀ (base : Nat) (post : List (Nat × OutKind)),
    (∀ e ∈ post, e.2 ≠ .htlc) → ∀ j sat, (htlcOuts hs ++ post)[j]? = some (sat, .htlc) →
      ∃ h ∈ assignIdx base hs, h.outIdx = some (base + j) := by
  induction hs with
  | nil =>
    intro base post hpost j sat hget
    simp only [htlcOuts, List.nil_append] at hget
    have := List.mem_of_getElem? hget
    exact absurd rfl (hpost _ this)
  | cons x rest ih =>
    intro base post hpost j sat hget
    by_cases hnd : x.nondust
    · simp only [htlcOuts, hnd, if_true, List.cons_append] at hget
      cases j with
      | zero => exact ⟨⟨x.amtMsat, x.offered, x.cltv, some base⟩, by simp [assignIdx, hnd], rfl⟩
      | succ j' =>
        rw [List.getElem?_cons_succ] at hget
        obtain ⟨h, hm, hi⟩ := ih (base + 1) post hpost j' sat hget
        refine ⟨h, by simp [assignIdx, hnd, hm], ?_⟩
        rw [hi]; congr 1; omega
    · simp only [htlcOuts, hnd, Bool.false_eq_true, if_false] at hget
      obtain ⟨h, hm, hi⟩ := ih base post hpost j sat hget
      exact ⟨h, by simp [assignIdx, hnd, hm], hi⟩

theorem Spec.body_wf (s : Spec) : s.body.WF := by
  have hpre : ∀ e ∈ s.pre, e.2 ≠ .htlc := by
    intro e he
    unfold Spec.pre at he
    cases hr : s.toRemoteSat <;> cases ha : s.anchors <;> simp [hr, ha] at he
    all_goals (rcases he with rfl | rfl | rfl) <;> simp
  have hpost : ∀ e ∈ s.post, e.2 ≠ .htlc := by
    intro e he
    unfold Spec.post at he
    cases hl : s.toLocalSat <;> simp [hl] at he
    subst he; simp
  constructor
  · intro h hm i hi
    obtain ⟨h1, h2⟩ := assignIdx_get s.htlcs s.pre.length s.post h hm i hi
    simp only [Spec.body]
    rw [List.getElem?_append_right h1]
    exact h2
  · intro i sat hget
    simp only [Spec.body] at hget ⊢
    by_cases hi : i < s.pre.length
    · rw [List.getElem?_append_left hi] at hget
      exact absurd rfl (hpre _ (List.mem_of_getElem? hget))
    · rw [List.getElem?_append_right (by omega)] at hget
      obtain ⟨h, hm, ho⟩ := htlcOuts_covered s.htlcs s.pre.length s.post hpost _ sat hget
      exact ⟨h, hm, by rw [ho]; congr 1; omega⟩

end Ldk.Punish
