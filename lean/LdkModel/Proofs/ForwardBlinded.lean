/- Helper lemmas for blinded forwards (C02): the arithmetic of the GENERATED `amtToForwardMsat`. -/
import LdkModel.Generated.Blinded
namespace Ldk.BlindedGen
open Ldk

/-- the fee the node's `payment_relay` promises it for forwarding `a` -/
def relayFee (r : PaymentRelay) (a : Nat) : Nat := a * r.fee_proportional_millionths / 1000000 + r.fee_base_msat

theorem amt_to_forward_sound (inAmt : Nat) (r : PaymentRelay) (a : Nat) (h : amtToForwardMsat inAmt r = some a) :
    0 < a ∧ a + relayFee r a ≤ inAmt := by
  obtain ⟨delta, prop, base⟩ := r
  unfold amtToForwardMsat at h
  simp only [relayFee]
  by_cases hb : base ≤ inAmt
  · simp only [chkSub, hb, if_true] at h
    generalize ha0 : (inAmt - base) * 1000000 / (prop + 1000000) = a0 at h
    have key : a0 * (prop + 1000000) ≤ (inAmt - base) * 1000000 := by
      rw [← ha0]; exact Nat.div_mul_le_self _ _
    have q := Nat.div_mul_le_self (a0 * prop) 1000000
    rw [Nat.mul_add] at key
    by_cases h1 : inAmt ≥ a0 + 1 + ((a0 + 1) * prop / 1000000 + base)
    · simp [h1] at h
      subst h
      exact ⟨by omega, by omega⟩
    · simp [h1] at h
      obtain ⟨hz, rfl⟩ := h
      exact ⟨by omega, by omega⟩
  · simp [chkSub, hb] at h

/-- maximality: forwarding one msat more would not leave the node the fee its `payment_relay` promises -/
theorem amt_to_forward_maximal (inAmt : Nat) (r : PaymentRelay) (a : Nat) (h : amtToForwardMsat inAmt r = some a) :
    ¬ (a + 1 + relayFee r (a + 1) ≤ inAmt) := by
  obtain ⟨delta, prop, base⟩ := r
  unfold amtToForwardMsat at h
  simp only [relayFee]
  by_cases hb : base ≤ inAmt
  · simp only [chkSub, hb, if_true] at h
    generalize ha0 : (inAmt - base) * 1000000 / (prop + 1000000) = a0 at h
    have key : (inAmt - base) * 1000000 < (prop + 1000000) * (a0 + 1) := by
      rw [← ha0]; exact Nat.lt_mul_div_succ _ (by omega)
    rw [Nat.add_mul, Nat.mul_comm prop (a0 + 1)] at key
    by_cases h1 : inAmt ≥ a0 + 1 + ((a0 + 1) * prop / 1000000 + base)
    · simp [h1] at h
      subst h
      intro hsup
      have q2 := Nat.lt_mul_div_succ ((a0 + 1 + 1) * prop) (show 0 < 1000000 by omega)
      have mono : (a0 + 1) * prop ≤ (a0 + 1 + 1) * prop := Nat.mul_le_mul_right _ (by omega)
      generalize (a0 + 1 + 1) * prop / 1000000 = q at hsup q2
      generalize (a0 + 1 + 1) * prop = p2 at q2 mono
      generalize (a0 + 1) * prop = p1 at key mono h1
      omega
    · simp [h1] at h
      obtain ⟨hz, rfl⟩ := h
      intro hsup; exact h1 (by omega)
  · simp [chkSub, hb] at h

end Ldk.BlindedGen
