/- Lemmas about the cooperative-close model (Model/Closing.lean over Generated/Closing.lean). -/
import LdkModel.Model.Closing
namespace Ldk.Closing

/-! ### build_closing_transaction, in closed form -/

/-- value to the holder before the dust test -/
def holderPre (v : View) (fee : Nat) : Nat := v.valueToSelfMsat / 1000 - (if v.isFunder then fee else 0)
/-- value to the counterparty before the dust test -/
def cpPre (v : View) (fee : Nat) : Nat := (v.chanValueSat * 1000 - v.valueToSelfMsat) / 1000 - (if v.isFunder then 0 else fee)
/-- the funder's balance in whole satoshis, as this view computes it -/
def funderBal (v : View) : Nat := if v.isFunder then v.valueToSelfMsat / 1000 else (v.chanValueSat * 1000 - v.valueToSelfMsat) / 1000
/-- the dust test of build_closing_transaction: `if value <= holder_dust_limit_satoshis { value = 0 }` -/
def cut (d x : Nat) : Nat := if x ≤ d then 0 else x

theorem build_eq (vts chan dust fee : Nat) (funder skip : Bool) (hv : vts ≤ chan * 1000) :
    (build_closing_transaction vts chan dust funder fee skip).map (fun r => (r.1.toNat, r.2.1.toNat, r.2.2.toNat)) =
    if (if funder then vts / 1000 else (chan * 1000 - vts) / 1000) < fee then none
    else some (cut dust (vts / 1000 - (if funder then fee else 0)),
               (if skip then 0 else cut dust ((chan * 1000 - vts) / 1000 - (if funder then 0 else fee))), fee) := by
  unfold build_closing_transaction cut
  cases funder <;> cases skip <;> simp only [Bool.false_eq_true, if_false, if_true, Bool.false_or, Bool.true_or, decide_eq_true_eq] <;>
    ((repeat' split) <;> first | rfl | omega | (simp only [Option.map_some, Option.some.injEq, Prod.mk.injEq]; omega) | (exfalso; omega))

/-- closed form of `closingTx` for a view whose balance does not exceed the channel value -/
theorem closingTx_eq (v : View) (fee : Nat) (skip : Bool) (hv : v.valueToSelfMsat ≤ v.chanValueSat * 1000) :
    closingTx v fee skip =
    if funderBal v < fee then none
    else some (cut v.dust (holderPre v fee), (if skip then 0 else cut v.dust (cpPre v fee)), fee) := by
  unfold closingTx funderBal holderPre cpPre
  exact build_eq _ _ _ _ _ _ hv

/-- whenever `build_closing_transaction` succeeds the fee it reports is the fee it was asked for (for ALL inputs) -/
theorem build_used (vts chan dust fee : Int) (funder skip : Bool) (r : Int × Int × Int)
    (h : build_closing_transaction vts chan dust funder fee skip = some r) : r.2.2 = fee := by
  unfold build_closing_transaction at h
  cases funder <;> simp only [Bool.false_eq_true, if_false, if_true, decide_eq_true_eq] at h <;>
    (repeat' (split at h)) <;> cases h <;> first | rfl | (simp only []; omega)

theorem closingTx_used {v : View} {fee : Nat} {skip : Bool} {h c u : Nat} (e : closingTx v fee skip = some (h, c, u)) : u = fee := by
  unfold closingTx at e
  cases hb : build_closing_transaction v.valueToSelfMsat v.chanValueSat v.dust v.isFunder fee skip with
  | none => rw [hb] at e; cases e
  | some r =>
    rw [hb] at e
    have := build_used _ _ _ _ _ _ r hb
    simp only [Option.map_some, Option.some.injEq, Prod.mk.injEq] at e
    omega

theorem flip_flip (t : Tx) : flip (flip t) = t := rfl
theorem flip_inj {a b : Tx} (h : flip a = flip b) : a = b := by
  have := congrArg flip h; simpa [flip_flip] using this


/-! ### one `closing_signed` -/

theorem verified_sound {v : View} {m : CsMsg} {t : Tx} (h : verified v m = some t) :
    flip t = m.tx ∧ (closingTx v m.fee false = some (t.1, t.2, m.fee) ∨ closingTx v m.fee true = some (t.1, t.2, m.fee)) := by
  unfold verified at h
  split at h
  · cases h
  · rename_i h0 c0 u0 e0
    have hu := closingTx_used e0
    split at h
    · rename_i hb
      injection h with h; subst h
      exact ⟨by simpa using hb, Or.inl (by rw [e0, hu])⟩
    · split at h
      · cases h
      · rename_i h1 c1 u1 e1
        have hu1 := closingTx_used e1
        split at h
        · rename_i hb
          injection h with h; subst h
          exact ⟨by simpa using hb, Or.inr (by rw [e1, hu1])⟩
        · cases h

/-- a transaction we built ourselves at this fee, signed by the peer, passes our check -/
theorem verified_own {v : View} {m : CsMsg} {h c : Nat} (e : closingTx v m.fee false = some (h, c, m.fee))
    (ht : m.tx = flip (h, c)) : verified v m = some (h, c) := by
  unfold verified
  rw [e]
  simp [ht]

theorem on_eq (v : View) (last : Option Nat) (m : CsMsg) :
    onClosingSigned v last m =
    match verified v m with
    | none => .err .close
    | some closing_tx =>
      if (match last with | some lf => completes_on_echo lf m.fee | none => false) then .done m.fee closing_tx else
      match closing_signed_fee_decision v.isFunder m.fee m.range last v.minFee v.maxFee with
      | .error e => .err e
      | .ok newFee =>
        if accepts_peer_fee newFee m.fee then
          .reply { fee := newFee, range := some (v.minFee, v.maxFee), tx := closing_tx } (some (m.fee, closing_tx))
        else match closingTx v newFee false with
          | none => .err .close
          | some (h2, c2, used2) => .reply { fee := used2, range := some (v.minFee, v.maxFee), tx := (h2, c2) } none := by
  unfold onClosingSigned
  cases e0 : closingTx v m.fee false with
  | none => simp only [verified, e0]
  | some r =>
    obtain ⟨h, c, u⟩ := r
    have hu := closingTx_used e0
    subst hu
    simp only [used_fee_ok, ne_eq, not_true_eq_false, decide_false, Bool.not_false, Bool.not_true, Bool.false_eq_true, if_false]
    rfl

/-- everything `closing_signed` can answer, and what each answer implies -/
theorem on_cases (v : View) (last : Option Nat) (m : CsMsg) :
    match onClosingSigned v last m with
    | .err _ => True
    | .done f t => last = some m.fee ∧ f = m.fee ∧ verified v m = some t
    | .reply m' (some (f, t)) => f = m.fee ∧ m'.fee = m.fee ∧ m'.tx = t ∧ verified v m = some t ∧ m'.range = some (v.minFee, v.maxFee) ∧
        closing_signed_fee_decision v.isFunder m.fee m.range last v.minFee v.maxFee = .ok m.fee
    | .reply m' none => m'.fee ≠ m.fee ∧ closingTx v m'.fee false = some (m'.tx.1, m'.tx.2, m'.fee) ∧ m'.range = some (v.minFee, v.maxFee) ∧
        (∃ t, verified v m = some t) ∧ last ≠ some m.fee ∧
        closing_signed_fee_decision v.isFunder m.fee m.range last v.minFee v.maxFee = .ok m'.fee := by
  rw [on_eq]
  cases hv : verified v m with
  | none => trivial
  | some t =>
    simp only
    by_cases he : (match last with | some lf => completes_on_echo lf m.fee | none => false) = true
    · rw [if_pos he]
      cases last with
      | none => simp at he
      | some lf => simp only [completes_on_echo, decide_eq_true_eq] at he; subst he; exact ⟨rfl, rfl, rfl⟩
    · rw [if_neg he]
      have hl : last ≠ some m.fee := by
        intro hl; subst hl; simp [completes_on_echo] at he
      cases hd : closing_signed_fee_decision v.isFunder m.fee m.range last v.minFee v.maxFee with
      | error e => trivial
      | ok nf =>
        simp only
        by_cases ha : accepts_peer_fee nf m.fee = true
        · rw [if_pos ha]
          simp only [accepts_peer_fee, decide_eq_true_eq] at ha
          subst ha
          exact ⟨rfl, rfl, rfl, rfl, rfl, rfl⟩
        · rw [if_neg ha]
          simp only [accepts_peer_fee, decide_eq_true_eq] at ha
          cases e2 : closingTx v nf false with
          | none => trivial
          | some r =>
            obtain ⟨h2, c2, u2⟩ := r
            have hu := closingTx_used e2
            subst hu
            exact ⟨ha, e2, rfl, ⟨t, rfl⟩, hl, rfl⟩


/-! ### the fee decision with fee ranges -/

theorem decision_fundee {fee pmin pmax omin omax nf : Nat} {last : Option Nat}
    (h : closing_signed_fee_decision false fee (some (pmin, pmax)) last omin omax = .ok nf) :
    pmin ≤ fee ∧ fee ≤ pmax ∧ omin ≤ pmax ∧ pmin ≤ omax ∧ nf = Nat.min pmax omax := by
  unfold closing_signed_fee_decision at h
  simp only [Bool.or_eq_true, decide_eq_true_eq, Bool.not_false, if_true] at h
  (repeat' (split at h)) <;> cases h <;> (refine ⟨?_, ?_, ?_, ?_, rfl⟩ <;> omega)

theorem decision_funder {fee pmin pmax omin omax nf : Nat} {last : Option Nat}
    (h : closing_signed_fee_decision true fee (some (pmin, pmax)) last omin omax = .ok nf) :
    nf = fee ∧ pmin ≤ fee ∧ fee ≤ pmax ∧ omin ≤ fee ∧ fee ≤ omax := by
  unfold closing_signed_fee_decision at h
  simp only [Bool.or_eq_true, decide_eq_true_eq, Bool.not_true, Bool.false_eq_true, if_false] at h
  (repeat' (split at h)) <;> cases h <;> (refine ⟨rfl, ?_, ?_, ?_, ?_⟩ <;> omega)

/-! ### the whole negotiation -/

theorem propose_some {F : View} {m1 : CsMsg} (hp : propose F = some m1) :
    m1.fee = F.minFee ∧ m1.range = some (F.minFee, F.maxFee) ∧ closingTx F m1.fee false = some (m1.tx.1, m1.tx.2, m1.fee) := by
  unfold propose at hp
  cases e : closingTx F F.minFee false with
  | none => rw [e] at hp; cases hp
  | some r =>
    obtain ⟨h, c, u⟩ := r
    have hu := closingTx_used e
    subst hu
    rw [e] at hp
    injection hp with hp
    subst hp
    exact ⟨rfl, rfl, e⟩

/-- what a successful negotiation guarantees about the fee -/
def FeeOk (F N : View) (fee : Nat) : Prop :=
  F.minFee ≤ fee ∧ fee ≤ F.maxFee ∧ fee ≤ N.maxFee ∧ (N.minFee ≤ fee ∨ (fee = F.minFee ∧ fee = N.maxFee ∧ N.maxFee < N.minFee))

theorem negotiate_spec (F N : View) (hF : F.isFunder = true) (hN : N.isFunder = false) :
    ((negotiate F N).err ≠ none → (negotiate F N).bF = none ∧ (negotiate F N).bN = none) ∧
    ((negotiate F N).err = none → ∃ fee t, (negotiate F N).bF = some (fee, t) ∧ (negotiate F N).bN = some (fee, t) ∧
        (closingTx F fee false = some (t.1, t.2, fee) ∨ closingTx F fee true = some (t.1, t.2, fee)) ∧
        (closingTx N fee false = some (t.2, t.1, fee) ∨ closingTx N fee true = some (t.2, t.1, fee)) ∧ FeeOk F N fee) ∧
    (negotiate F N).msgs.length ≤ 3 := by
  unfold negotiate
  cases hp : propose F with
  | none => simp
  | some m1 =>
    simp only
    obtain ⟨hm1f, hm1r, hm1t⟩ := propose_some hp
    have c2 := on_cases N none m1
    cases h2 : onClosingSigned N none m1 with
    | err e => simp
    | done f t => simp
    | reply m2 b2 =>
      rw [h2] at c2
      simp only
      cases b2 with
      | some ft =>
        obtain ⟨f, t⟩ := ft
        simp only at c2
        obtain ⟨hf, hfee, htx, hver, hrange, hdec⟩ := c2
        obtain ⟨hfl, hNb⟩ := verified_sound hver
        have hown : verified F m2 = some m1.tx :=
          verified_own (by rw [hfee]; exact hm1t) (by rw [htx]; exact flip_inj (hfl.trans rfl))
        have h3 : onClosingSigned F (some m1.fee) m2 = .done m2.fee m1.tx := by
          rw [on_eq, hown]; simp [completes_on_echo, hfee]
        rw [h3]
        rw [hN, hm1r] at hdec
        obtain ⟨d1, d2, d3, d4, d5⟩ := decision_fundee hdec
        have ht : t = (m1.tx.2, m1.tx.1) := flip_inj (hfl.trans rfl)
        have hNb' : closingTx N m1.fee false = some (m1.tx.2, m1.tx.1, m1.fee) ∨ closingTx N m1.fee true = some (m1.tx.2, m1.tx.1, m1.fee) := by
          rw [ht] at hNb; exact hNb
        refine ⟨by simp, fun _ => ⟨m1.fee, m1.tx, ?_, ?_, Or.inl hm1t, hNb', ?_⟩, by simp⟩
        · simp [hfee]
        · simp only [absN, Option.map_some, hf]
          rw [← hfl]
        · unfold FeeOk
          rw [hm1f] at d1 d2 d5 ⊢
          have : Nat.min F.maxFee N.maxFee ≤ F.maxFee ∧ Nat.min F.maxFee N.maxFee ≤ N.maxFee ∧
              (Nat.min F.maxFee N.maxFee = F.maxFee ∨ Nat.min F.maxFee N.maxFee = N.maxFee) := by
            refine ⟨Nat.min_le_left _ _, Nat.min_le_right _ _, ?_⟩
            rcases Nat.le_total F.maxFee N.maxFee with h | h
            · exact Or.inl (Nat.min_eq_left h)
            · exact Or.inr (Nat.min_eq_right h)
          omega
      | none =>
        simp only at c2
        obtain ⟨hne, hb2, hrange, _, _, hdec⟩ := c2
        rw [hN, hm1r] at hdec
        obtain ⟨d1, d2, d3, d4, d5⟩ := decision_fundee hdec
        have c3 := on_cases F (some m1.fee) m2
        cases h3 : onClosingSigned F (some m1.fee) m2 with
        | err e => simp [absN]
        | done f t =>
          rw [h3] at c3
          simp only at c3
          exact absurd (Option.some.inj c3.1).symm hne
        | reply m3 b3 =>
          rw [h3] at c3
          simp only
          cases b3 with
          | none =>
            simp only at c3
            obtain ⟨hne3, _, _, _, _, hdec3⟩ := c3
            rw [hF, hrange] at hdec3
            exact absurd (decision_funder hdec3).1 hne3
          | some ft =>
            obtain ⟨f, t⟩ := ft
            simp only at c3
            obtain ⟨hf, hfee3, htx3, hver3, hrange3, hdec3⟩ := c3
            rw [hF, hrange] at hdec3
            obtain ⟨_, e1, e2, e3, e4⟩ := decision_funder hdec3
            obtain ⟨hfl3, hFb⟩ := verified_sound hver3
            have hown : verified N m3 = some m2.tx :=
              verified_own (by rw [hfee3]; exact hb2) (by rw [htx3]; exact flip_inj (hfl3.trans rfl))
            have h4 : onClosingSigned N (some m2.fee) m3 = .done m3.fee m2.tx := by
              rw [on_eq, hown]; simp [completes_on_echo, hfee3]
            rw [h4]
            refine ⟨by simp, fun _ => ⟨m2.fee, t, ?_, ?_, hFb, ?_, ?_⟩, by simp⟩
            · simp [hf]
            · simp only [absN, Option.map_some, hfee3]
              rw [← hfl3]; rfl
            · have : m2.tx = (t.2, t.1) := hfl3.symm
              rw [this] at hb2; exact Or.inl hb2
            · unfold FeeOk; omega

end Ldk.Closing
