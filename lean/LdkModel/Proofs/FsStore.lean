/- C19 — helper lemmas for the file-level store model (Model/FsStore.lean). -/
import LdkModel.Proofs.MonPersister
import LdkModel.Model.FsStore
namespace Ldk.Fs
open Ldk.Kv Ldk.Persist Ldk.FsConsts

/-! ### names -/

theorem takeWhile_all {α : Type} (p : α → Bool) : ∀ (l : List α), (∀ x ∈ l, p x = true) → l.takeWhile p = l
  | [], _ => rfl
  | a :: r, h => by
    simp only [List.takeWhile, h a (List.mem_cons_self ..)]
    rw [takeWhile_all p r (fun x hx => h x (List.mem_cons_of_mem _ hx))]

theorem extChars_no_dot {cs : List Char} (h : '.' ∉ cs) : extChars cs = none := by
  have : cs.reverse.takeWhile (fun c => c != '.') = cs.reverse := by
    apply takeWhile_all
    intro x hx
    have hx' : x ∈ cs := List.mem_reverse.mp hx
    simp only [bne_iff_ne, ne_eq]
    intro he; exact h (he ▸ hx')
  simp [extChars, this]

theorem alphabet_no_special : ∀ c ∈ ['.', '[', ']'], KVSTORE_NAMESPACE_KEY_ALPHABET.toList.contains c = false := by decide

theorem validStr_chars {s : String} (h : validStr s = true) : ∀ c ∈ s.toList, KVSTORE_NAMESPACE_KEY_ALPHABET.toList.contains c = true := by
  simp only [validStr, Bool.and_eq_true, List.all_eq_true] at h
  exact h.2

theorem validStr_no_dot {s : String} (h : validStr s = true) : '.' ∉ s.toList := by
  intro hc
  have := validStr_chars h '.' hc
  rw [alphabet_no_special '.' (by simp)] at this
  exact Bool.noConfusion this

theorem isArtifact_valid {n : String} (h : validStr n = true) : isArtifact n = false := by
  simp [isArtifact, extChars_no_dot (validStr_no_dot h)]

/-- a name ending in `.tmp` (whatever precedes it, provided something does) has extension `tmp` -/
theorem extChars_suffix (pre : List Char) (hpre : pre ≠ []) (e : List Char) (he : '.' ∉ e) :
    extChars (pre ++ '.' :: e) = some e := by
  have h1 : (pre ++ '.' :: e).reverse = e.reverse ++ '.' :: pre.reverse := by simp
  have h2 : (e.reverse ++ '.' :: pre.reverse).takeWhile (fun c => c != '.') = e.reverse := by
    rw [List.takeWhile_append]
    have : e.reverse.takeWhile (fun c => c != '.') = e.reverse := by
      apply takeWhile_all
      intro x hx
      simp only [bne_iff_ne, ne_eq]
      intro hx'; exact he (hx' ▸ List.mem_reverse.mp hx)
    simp [this]
  unfold extChars
  simp only [h1, h2]
  have h3 : ¬ (e.reverse.length = (e.reverse ++ '.' :: pre.reverse).length) := by simp
  have h4 : (e.reverse ++ '.' :: pre.reverse).drop (e.reverse.length + 1) = pre.reverse := by
    rw [List.drop_append]; simp
  simp [h3, h4, hpre]

theorem isArtifact_tmp (n : String) (c : Nat) : isArtifact (setExt n (tmpExtOf c)) = true := by
  have : (setExt n (tmpExtOf c)).toList = (stemChars n.toList ++ '.' :: (toString c).toList) ++ '.' :: ['t', 'm', 'p'] := by
    simp [setExt, tmpExtOf, String.toList_append]
  unfold isArtifact
  rw [this, extChars_suffix _ (by simp) _ (by decide)]
  decide


/-! ### layout -/

theorem empty_dir_invalid : validStr EMPTY_NAMESPACE_DIR = false := by decide

theorem nsDir_inj {ue : Bool} {a b : String} (ha : validStr a = true) (hb : validStr b = true)
    (h : nsDir ue a = nsDir ue b) : a = b := by
  unfold nsDir at h
  cases ue
  · simpa using h
  · simp only [Bool.true_and] at h
    by_cases h1 : a.isEmpty = true <;> by_cases h2 : b.isEmpty = true
    · rw [String.isEmpty_iff] at h1 h2; rw [h1, h2]
    · simp only [h1, h2, if_true, Bool.false_eq_true, if_false] at h
      rw [← h, empty_dir_invalid] at hb; exact Bool.noConfusion hb
    · simp only [h1, h2, if_true, Bool.false_eq_true, if_false] at h
      rw [h, empty_dir_invalid] at ha; exact Bool.noConfusion ha
    · simpa [h1, h2] using h

theorem validKey_strs {k : Key} (h : validKey k = true) :
    validStr k.1 = true ∧ validStr k.2.1 = true ∧ validStr k.2.2 = true := by
  unfold validKey checkKey at h
  by_cases h1 : k.2.2.isEmpty = true
  · simp [h1] at h
  · by_cases h2 : (k.1.isEmpty && !k.2.1.isEmpty) = true
    · simp [h1, h2] at h
    · by_cases h3 : (!validStr k.1 || !validStr k.2.1 || !validStr k.2.2) = true
      · simp [h1, h2, h3] at h
      · simp only [Bool.or_eq_true, not_or, Bool.not_eq_true', Bool.not_eq_false'] at h3
        simp only [Bool.not_eq_true, Bool.not_eq_false] at h3
        exact ⟨h3.1.1, h3.1.2, h3.2⟩

theorem destPath_inj {ue : Bool} {k k' : Key} (hk : validKey k = true) (hk' : validKey k' = true)
    (h : destPath ue k = destPath ue k') : k = k' := by
  obtain ⟨a1, a2, a3⟩ := validKey_strs hk
  obtain ⟨b1, b2, b3⟩ := validKey_strs hk'
  obtain ⟨p, s, n⟩ := k
  obtain ⟨p', s', n'⟩ := k'
  simp only [destPath, Prod.mk.injEq] at h
  obtain ⟨h1, h2, h3⟩ := h
  simp only at a1 a2 b1 b2
  rw [nsDir_inj a1 b1 h1, nsDir_inj a2 b2 h2, h3]

theorem dest_not_artifact {ue : Bool} {k : Key} (hk : validKey k = true) : isArtifact (destPath ue k).2.2 = false :=
  isArtifact_valid (validKey_strs hk).2.2

theorem tmp_artifact (d : Key) (c : Nat) : isArtifact (tmpPath d c).2.2 = true := isArtifact_tmp _ _

theorem ne_of_artifact {p q : Key} (hp : isArtifact p.2.2 = false) (hq : isArtifact q.2.2 = true) : p ≠ q := by
  intro h; rw [h, hq] at hp; exact Bool.noConfusion hp

/-! ### effect of one body on the file system and on the lock table -/

variable {ν : Type}

theorem applyOps_cons (fs : FS ν) (o : FOp ν) (r : List (FOp ν)) : applyOps fs (o :: r) = applyOps (o.apply fs) r := rfl
theorem applyOps_nil (fs : FS ν) : applyOps fs [] = fs := rfl

/-- a completed body changes, among the non-artifact paths, at most its destination — to its result,
    unless its version was stale -/
theorem get_exec (st : St ν) (x : Pending ν) (p : Key) (hp : isArtifact p.2.2 = false) :
    (exec st x).fs.get p = if p = x.dest ∧ staleNow st x = false then x.result else st.fs.get p := by
  have htmp : p ≠ tmpPath x.dest st.tmpCounter := ne_of_artifact hp (tmp_artifact _ _)
  unfold exec bodyOps Pending.result
  cases hb : x.body with
  | write v =>
    simp only
    cases hs : staleNow st x
    · simp only [List.cons_append, List.nil_append, applyOps_cons, applyOps_nil, FOp.apply, Bool.false_eq_true, if_false,
        Store.get_put_same]
      by_cases hpd : p = x.dest
      · simp [hpd, Store.get_put_same]
      · simp [hpd, Store.get_put_ne _ _ hpd, Store.get_del_ne _ htmp, Store.get_put_ne _ _ htmp]
    · simp [applyOps_cons, applyOps_nil, FOp.apply, Store.get_del_ne _ htmp, Store.get_put_ne _ _ htmp]
  | remove lz =>
    simp only
    cases hs : staleNow st x
    · simp only [Bool.false_eq_true, if_false, and_true]
      cases hg : st.fs.get x.dest with
      | none =>
        simp only [applyOps_nil]
        by_cases hpd : p = x.dest
        · simp [hpd, hg]
        · simp [hpd]
      | some c =>
        by_cases hpd : p = x.dest
        · cases lz <;> simp [hpd, applyOps_cons, applyOps_nil, FOp.apply, Store.get_del_same]
        · cases lz <;> simp [hpd, applyOps_cons, applyOps_nil, FOp.apply, Store.get_del_ne _ hpd]
    · simp [applyOps_nil]

theorem lockOf_exec_ne (st : St ν) (x : Pending ν) {d : Key} (h : d ≠ x.dest) : lockOf (exec st x) d = lockOf st d := by
  unfold lockOf exec finishLocks
  simp only
  split
  · rw [Store.get_del_ne _ h]
  · rw [Store.get_put_ne _ _ h]

theorem lockOf_exec_same (st : St ν) (x : Pending ν) :
    lockOf (exec st x) x.dest =
      if (lockOf st x.dest).refs ≤ 1 then ⟨0, 0⟩
      else ⟨if staleNow st x then (lockOf st x.dest).lastWritten else x.version, (lockOf st x.dest).refs - 1⟩ := by
  unfold exec finishLocks
  simp only
  by_cases h : (lockOf st x.dest).refs ≤ 1
  · simp only [h, if_true]; unfold lockOf; simp [Store.get_del_same]
  · simp only [h, if_false]; unfold lockOf; simp [Store.get_put_same]

/-! ### any completion order: the per-destination register -/

/-- what the version check makes of one body, as a pure function on (last written version, contents) -/
def reg (acc : Nat × Option (Content ν)) (x : Pending ν) : Nat × Option (Content ν) :=
  if isStaleVersion x.version acc.1 then acc else (x.version, x.result)

def onDest (d : Key) (l : List (Pending ν)) : List (Pending ν) := l.filter (fun x => decide (x.dest = d))

/-- the lock table counts exactly the pending operations -/
def LocksOk (st : St ν) (l : List (Pending ν)) : Prop := ∀ d, (lockOf st d).refs = (onDest d l).length

theorem onDest_cons_same (x : Pending ν) (l : List (Pending ν)) : onDest x.dest (x :: l) = x :: onDest x.dest l := by
  simp [onDest]
theorem onDest_cons_ne {x : Pending ν} {d : Key} (h : d ≠ x.dest) (l : List (Pending ν)) : onDest d (x :: l) = onDest d l := by
  have : ¬ x.dest = d := fun h2 => h h2.symm
  simp [onDest, this]

theorem execAll_reg : ∀ (l : List (Pending ν)) (st : St ν), LocksOk st l → ∀ d, isArtifact d.2.2 = false →
    (execAll st l).fs.get d = ((onDest d l).foldl reg ((lockOf st d).lastWritten, st.fs.get d)).2 ∧
    (lockOf (execAll st l) d).refs = 0
  | [], st, hl, d, _ => by
    refine ⟨rfl, ?_⟩
    have := hl d
    simpa [onDest, execAll] using this
  | x :: rest, st, hl, d, hd => by
    have hl' : LocksOk (exec st x) rest := by
      intro d'
      by_cases h : d' = x.dest
      · have h0 := hl x.dest
        rw [onDest_cons_same] at h0
        simp only [List.length_cons] at h0
        rw [h, lockOf_exec_same]
        by_cases h1 : (lockOf st x.dest).refs ≤ 1
        · simp only [h1, if_true]; omega
        · simp only [h1, if_false]; omega
      · rw [lockOf_exec_ne st x h, hl d', onDest_cons_ne h]
    have ih := execAll_reg rest (exec st x) hl' d hd
    show (execAll (exec st x) rest).fs.get d = _ ∧ (lockOf (execAll (exec st x) rest) d).refs = 0
    refine ⟨?_, ih.2⟩
    rw [ih.1]
    by_cases h : d = x.dest
    · subst h
      rw [onDest_cons_same, List.foldl_cons, get_exec st x x.dest hd, lockOf_exec_same]
      have h0 := hl x.dest
      rw [onDest_cons_same] at h0
      simp only [List.length_cons] at h0
      have hreg : reg ((lockOf st x.dest).lastWritten, st.fs.get x.dest) x =
          (if staleNow st x then (lockOf st x.dest).lastWritten else x.version,
           if x.dest = x.dest ∧ staleNow st x = false then x.result else st.fs.get x.dest) := by
        unfold reg staleNow
        cases isStaleVersion x.version (lockOf st x.dest).lastWritten <;> simp
      by_cases h1 : (lockOf st x.dest).refs ≤ 1
      · have : onDest x.dest rest = [] := List.eq_nil_of_length_eq_zero (by omega)
        simp only [this, List.foldl_nil, hreg]
      · simp only [h1, if_false, hreg]
    · rw [onDest_cons_ne h, lockOf_exec_ne st x h, get_exec st x d hd]
      simp [h]

theorem foldl_reg_inv : ∀ (l : List (Pending ν)) (acc : Nat × Option (Content ν)),
    acc.1 ≤ (l.foldl reg acc).1 ∧ (∀ y ∈ l, y.version ≤ (l.foldl reg acc).1) ∧
    (l.foldl reg acc = acc ∨ ∃ y ∈ l, l.foldl reg acc = (y.version, y.result))
  | [], acc => ⟨Nat.le_refl _, fun _ h => by simp at h, Or.inl rfl⟩
  | y :: l, acc => by
    obtain ⟨h1, h2, h3⟩ := foldl_reg_inv l (reg acc y)
    have ha : acc.1 ≤ (reg acc y).1 ∧ y.version ≤ (reg acc y).1 ∧ (reg acc y = acc ∨ reg acc y = (y.version, y.result)) := by
      unfold reg isStaleVersion
      by_cases h : y.version ≤ acc.1
      · simp [h]
      · simp [h]; omega
    simp only [List.foldl_cons]
    refine ⟨Nat.le_trans ha.1 h1, ?_, ?_⟩
    · intro z hz
      rcases List.mem_cons.mp hz with rfl | hz
      · exact Nat.le_trans ha.2.1 h1
      · exact h2 z hz
    · rcases h3 with h3 | ⟨z, hz, h3⟩
      · rcases ha.2.2 with h4 | h4
        · left; rw [h3, h4]
        · right; exact ⟨y, List.mem_cons_self .., by rw [h3, h4]⟩
      · right; exact ⟨z, List.mem_cons_of_mem _ hz, h3⟩

/-- in ANY order, the body with the greatest version determines the outcome -/
theorem foldl_reg_max (l : List (Pending ν)) (L0 : Nat) (v0 : Option (Content ν)) (x : Pending ν) (hx : x ∈ l)
    (hmax : ∀ y ∈ l, y.version ≤ x.version) (hinj : ∀ y ∈ l, y.version = x.version → y = x) (hL : L0 < x.version) :
    l.foldl reg (L0, v0) = (x.version, x.result) := by
  obtain ⟨_, h2, h3⟩ := foldl_reg_inv l (L0, v0)
  have hx2 := h2 x hx
  rcases h3 with h3 | ⟨y, hy, h3⟩
  · rw [h3] at hx2; simp only at hx2; omega
  · rw [h3] at hx2; simp only at hx2
    have : y.version = x.version := Nat.le_antisymm (hmax y hy) hx2
    rw [h3, hinj y hy this]

/-! ### issuing -/

theorem lockOf_issue (st : St ν) (dest : Key) (b : Body ν) (d : Key) :
    lockOf (issue st dest b).1 d =
      if d = dest then ⟨(lockOf st dest).lastWritten, (lockOf st dest).refs + 1⟩ else lockOf st d := by
  unfold issue
  by_cases h : d = dest
  · subst h; simp [lockOf, Store.get_put_same]
  · simp only [h, if_false]; unfold lockOf; simp only; rw [Store.get_put_ne _ _ h]

theorem issueAll_spec (ue : Bool) : ∀ (ops : List (KvOp ν)) (st : St ν),
    (issueAll ue st ops).1.fs = st.fs ∧ (issueAll ue st ops).1.tmpCounter = st.tmpCounter ∧
    (∀ d, lockOf (issueAll ue st ops).1 d =
      ⟨(lockOf st d).lastWritten, (lockOf st d).refs + (onDest d (issueAll ue st ops).2).length⟩) ∧
    (∀ x ∈ (issueAll ue st ops).2, st.nextVersion ≤ x.version ∧ ∃ k, validKey k = true ∧ x.dest = destPath ue k) ∧
    (issueAll ue st ops).2.Pairwise (fun a b => a.version < b.version)
  | [], st => ⟨rfl, rfl, fun d => by simp [issueAll, onDest], fun _ h => by simp [issueAll] at h, by simp [issueAll]⟩
  | op :: r, st => by
    cases hm : mutOf ue op with
    | none =>
      have : issueAll ue st (op :: r) = issueAll ue st r := by simp [issueAll, hm]
      rw [this]; exact issueAll_spec ue r st
    | some db =>
      obtain ⟨dd, b⟩ := db
      have heq : issueAll ue st (op :: r) =
          ((issueAll ue (issue st dd b).1 r).1, (issue st dd b).2 :: (issueAll ue (issue st dd b).1 r).2) := by
        simp [issueAll, hm]
      rw [heq]
      obtain ⟨h1, h2, h3, h4, h5⟩ := issueAll_spec ue r (issue st dd b).1
      have hk : ∃ k, validKey k = true ∧ dd = destPath ue k := by
        cases op with
        | write k v => simp only [mutOf] at hm; by_cases hv : validKey k = true <;> simp [hv] at hm; exact ⟨k, hv, hm.1.symm⟩
        | remove k lz => simp only [mutOf] at hm; by_cases hv : validKey k = true <;> simp [hv] at hm; exact ⟨k, hv, hm.1.symm⟩
        | read k => simp [mutOf] at hm
        | list p sn => simp [mutOf] at hm
      refine ⟨h1, h2, ?_, ?_, ?_⟩
      · intro d
        rw [h3 d, lockOf_issue]
        by_cases hd : d = dd
        · subst hd
          have : onDest d ((issue st d b).2 :: (issueAll ue (issue st d b).1 r).2) =
              (issue st d b).2 :: onDest d (issueAll ue (issue st d b).1 r).2 := onDest_cons_same (issue st d b).2 _
          simp only [if_true]; rw [this]; simp only [List.length_cons, Lock.mk.injEq, true_and]; omega
        · have : onDest d ((issue st dd b).2 :: (issueAll ue (issue st dd b).1 r).2) =
              onDest d (issueAll ue (issue st dd b).1 r).2 := onDest_cons_ne (x := (issue st dd b).2) hd _
          simp only [hd, if_false]; rw [this]
      · intro x hx
        rcases List.mem_cons.mp hx with rfl | hx
        · exact ⟨Nat.le_refl _, hk⟩
        · obtain ⟨h6, h7⟩ := h4 x hx
          exact ⟨Nat.le_trans (Nat.le_succ _) h6, h7⟩
      · refine List.Pairwise.cons ?_ h5
        intro y hy
        have := (h4 y hy).1
        show st.nextVersion < y.version
        exact this

/-! ### the sync API: one call at a time -/

theorem wf_apply {fs : FS ν} (h : fs.WF) (o : FOp ν) : (o.apply fs).WF := by
  cases o with
  | create p => exact Store.wf_put h _ _
  | writeAll p v => exact Store.wf_put h _ _
  | fsync p => exact h
  | rename a b => simp only [FOp.apply]; cases fs.get a with
    | none => exact h
    | some c => exact Store.wf_put (Store.wf_del h _) _ _
  | unlink p => exact Store.wf_del h _
  | fsyncDir a b => exact h

theorem wf_applyOps : ∀ (ops : List (FOp ν)) {fs : FS ν}, fs.WF → (applyOps fs ops).WF
  | [], _, h => h
  | o :: r, _, h => wf_applyOps r (wf_apply h o)

theorem staleNow_issue {st : St ν} (hq : Quiescent st) (d : Key) (b : Body ν) :
    staleNow (issue st d b).1 (issue st d b).2 = false := by
  unfold staleNow
  rw [lockOf_issue]
  simp only [if_true, issue]
  have : lockOf st d = ⟨0, 0⟩ := by simp [lockOf, hq.1, Store.get]
  rw [this]
  simp only [isStaleVersion, decide_eq_false_iff_not]
  have := hq.2; omega

theorem quiescent_step_mut {st : St ν} (hq : Quiescent st) (d : Key) (b : Body ν) :
    Quiescent (exec (issue st d b).1 (issue st d b).2) := by
  constructor
  · show finishLocks (issue st d b).1 (issue st d b).2 = []
    unfold finishLocks
    have h1 := lockOf_issue st d b d
    simp only [if_true] at h1
    have h0 : lockOf st d = ⟨0, 0⟩ := by simp [lockOf, hq.1, Store.get]
    rw [h0] at h1
    have h2 : (issue st d b).2.dest = d := rfl
    simp only [h2, h1]
    simp [issue, hq.1, Store.put, Store.del]
  · show 1 ≤ st.nextVersion + 1
    omega

/-- a call is either a mutation with a valid key (issue + body) or leaves the state alone -/
theorem step_state (ue : Bool) (st : St ν) (op : KvOp ν) :
    (step ue st op).1 = match mutOf ue op with
      | some (d, b) => exec (issue st d b).1 (issue st d b).2
      | none => st := by
  cases op with
  | write k v =>
    simp only [step, mutOf]
    cases h : checkKey k with
    | error e => have : validKey k = false := by simp [validKey, h]
                 simp [this]
    | ok u => have : validKey k = true := by simp [validKey, h]
              simp [this]
  | remove k lz =>
    simp only [step, mutOf]
    cases h : checkKey k with
    | error e => have : validKey k = false := by simp [validKey, h]
                 simp [this]
    | ok u => have : validKey k = true := by simp [validKey, h]
              simp [this]
  | read k =>
    simp only [step, mutOf]
    cases checkKey k with
    | error e => rfl
    | ok u => cases readKey ue st.fs k with
      | none => rfl
      | some c => cases c <;> rfl
  | list p sn =>
    simp only [step, mutOf]
    cases checkNs p sn with
    | error e => rfl
    | ok u => simp only; split <;> rfl

theorem fileOpsOf_eq (ue : Bool) (st : St ν) (op : KvOp ν) :
    fileOpsOf ue st op = match mutOf ue op with
      | some (d, b) => bodyOps (issue st d b).1 (issue st d b).2
      | none => [] := by
  cases op with
  | write k v =>
    simp only [fileOpsOf, mutOf]
    cases h : checkKey k with
    | error e => have : validKey k = false := by simp [validKey, h]
                 simp [this]
    | ok u => have : validKey k = true := by simp [validKey, h]
              simp [this]
  | remove k lz =>
    simp only [fileOpsOf, mutOf]
    cases h : checkKey k with
    | error e => have : validKey k = false := by simp [validKey, h]
                 simp [this]
    | ok u => have : validKey k = true := by simp [validKey, h]
              simp [this]
  | read k => rfl
  | list p sn => rfl

theorem quiescent_step (ue : Bool) {st : St ν} (hq : Quiescent st) (op : KvOp ν) : Quiescent (step ue st op).1 := by
  rw [step_state]
  cases mutOf ue op with
  | none => exact hq
  | some db => exact quiescent_step_mut hq db.1 db.2

theorem quiescent_fresh (fs : FS ν) : Quiescent (fresh fs) := ⟨rfl, by show 1 ≤ FIRST_VERSION; decide⟩

theorem quiescent_runSeq (ue : Bool) : ∀ (ops : List (KvOp ν)) {st : St ν}, Quiescent st → Quiescent (runSeq ue st ops)
  | [], _, h => h
  | op :: r, _, h => quiescent_runSeq ue r (quiescent_step ue h op)

/-! ### the refinement relation is kept -/

theorem rel_congr {ue : Bool} {fs fs' : FS ν} {s : Store ν} (h : Rel ue fs s) (hwf : fs'.WF)
    (heq : ∀ p, isArtifact p.2.2 = false → fs'.get p = fs.get p) : Rel ue fs' s where
  wf := hwf
  get := fun k hk => by rw [heq _ (dest_not_artifact hk)]; exact h.get k hk
  inval := h.inval
  only := fun p c hp ha => by rw [heq p ha] at hp; exact h.only p c hp ha

/-- the abstract effect of a mutation -/
def absMut (s : Store ν) (k : Key) : Body ν → Store ν
  | .write v => s.put k v
  | .remove _ => s.del k

theorem rel_update {ue : Bool} {fs fs' : FS ν} {s : Store ν} (h : Rel ue fs s) (hwf : fs'.WF) {k : Key} (hk : validKey k = true)
    (b : Body ν)
    (heq : ∀ p, isArtifact p.2.2 = false → fs'.get p = if p = destPath ue k then (Pending.mk (destPath ue k) 0 b).result else fs.get p) :
    Rel ue fs' (absMut s k b) where
  wf := hwf
  get := fun k' hk' => by
    rw [heq _ (dest_not_artifact hk')]
    by_cases he : k' = k
    · subst he; cases b <;> simp [absMut, Pending.result, Store.get_put_same, Store.get_del_same]
    · have : destPath ue k' ≠ destPath ue k := fun h2 => he (destPath_inj hk' hk h2)
      simp only [this, if_false]
      rw [h.get k' hk']
      cases b <;> simp [absMut, Store.get_put_ne _ _ he, Store.get_del_ne _ he]
  inval := fun k' hk' => by
    have he : k' ≠ k := fun h2 => by rw [h2, hk] at hk'; exact Bool.noConfusion hk'
    cases b <;> simp [absMut, Store.get_put_ne _ _ he, Store.get_del_ne _ he, h.inval k' hk']
  only := fun p c hp ha => by
    rw [heq p ha] at hp
    by_cases he : p = destPath ue k
    · exact ⟨k, hk, he⟩
    · simp only [he, if_false] at hp; exact h.only p c hp ha

theorem apply_mut (ue : Bool) (s : Store ν) (op : KvOp ν) :
    (KvOp.apply s op).1 = match op with
      | .write k v => if validKey k then s.put k v else s
      | .remove k _ => if validKey k then s.del k else s
      | _ => s := by
  cases op with
  | write k v =>
    simp only [KvOp.apply]
    cases h : checkKey k with
    | error e => simp [validKey, h]
    | ok u => simp [validKey, h]
  | remove k lz =>
    simp only [KvOp.apply]
    cases h : checkKey k with
    | error e => simp [validKey, h]
    | ok u => simp [validKey, h]
  | read k => simp only [KvOp.apply]; cases checkKey k with
    | error e => rfl
    | ok u => cases s.get k <;> rfl
  | list p sn => simp only [KvOp.apply]; cases checkNs p sn <;> rfl

theorem checkNs_ok {p sn : String} (h : checkNs p sn = .ok ()) : validStr p = true ∧ validStr sn = true := by
  unfold checkNs at h
  by_cases h1 : (p.isEmpty && !sn.isEmpty) = true
  · simp [h1] at h
  · by_cases h2 : (!validStr p || !validStr sn) = true
    · simp [h1, h2] at h
    · simp only [Bool.or_eq_true, not_or, Bool.not_eq_true', Bool.not_eq_false'] at h2
      simp only [Bool.not_eq_true, Bool.not_eq_false] at h2
      exact h2

/-- `list` on a directory that represents `s` returns exactly the keys of `s` in that namespace — no
    artifact, no invalid name, no duplicate -/
theorem listDir_rel {ue : Bool} {fs : FS ν} {s : Store ν} (h : Rel ue fs s) {p sn : String}
    (hp : validStr p = true) (hs : validStr sn = true) :
    (listDir ue fs p sn).all validStr = true ∧ (listDir ue fs p sn).Nodup ∧
    ∀ n, n ∈ listDir ue fs p sn ↔ n ∈ s.names p sn := by
  have key : ∀ n, n ∈ listDir ue fs p sn → validKey (p, sn, n) = true ∧ (s.get (p, sn, n)).isSome = true := by
    intro n hn
    simp only [listDir, List.mem_filter, Bool.not_eq_true', Store.mem_names_iff] at hn
    obtain ⟨h1, h2⟩ := hn
    cases hg : fs.get (nsDir ue p, nsDir ue sn, n) with
    | none => rw [hg] at h1; exact Bool.noConfusion h1
    | some c =>
      obtain ⟨k, hk, he⟩ := h.only _ c hg h2
      obtain ⟨a1, a2, a3⟩ := validKey_strs hk
      simp only [destPath, Prod.mk.injEq] at he
      have e1 := nsDir_inj hp a1 he.1
      have e2 := nsDir_inj hs a2 he.2.1
      have : k = (p, sn, n) := by
        obtain ⟨k1, k2, k3⟩ := k
        simp only at e1 e2 he
        rw [e1, e2, he.2.2]
      subst this
      refine ⟨hk, ?_⟩
      have := h.get _ hk
      simp only [destPath] at this
      rw [hg] at this
      cases hsg : s.get (p, sn, n) with
      | none => rw [hsg] at this; simp at this
      | some v => rfl
  refine ⟨?_, ?_, ?_⟩
  · rw [List.all_eq_true]
    intro n hn
    exact (validKey_strs (key n hn).1).2.2
  · exact List.Nodup.sublist List.filter_sublist (Store.nodup_names h.wf _ _)
  · intro n
    constructor
    · intro hn; rw [Store.mem_names_iff]; exact (key n hn).2
    · intro hn
      rw [Store.mem_names_iff] at hn
      have hk : validKey (p, sn, n) = true := by
        cases hv : validKey (p, sn, n) with
        | true => rfl
        | false => rw [h.inval _ hv] at hn; exact Bool.noConfusion hn
      simp only [listDir, List.mem_filter, Bool.not_eq_true', Store.mem_names_iff]
      have hg := h.get _ hk
      simp only [destPath] at hg
      refine ⟨?_, isArtifact_valid (validKey_strs hk).2.2⟩
      rw [hg]
      cases hsg : s.get (p, sn, n) with
      | none => rw [hsg] at hn; exact Bool.noConfusion hn
      | some v => rfl

/-- effect of a completed, valid mutation in a quiescent state on the non-artifact paths -/
theorem get_step_mut {st : St ν} (hq : Quiescent st) (d : Key) (b : Body ν) (p : Key) (hp : isArtifact p.2.2 = false) :
    (exec (issue st d b).1 (issue st d b).2).fs.get p = if p = d then (Pending.mk d 0 b).result else st.fs.get p := by
  rw [get_exec _ _ p hp, staleNow_issue hq]
  simp only [and_true]
  rfl

theorem mutOf_some {ue : Bool} {op : KvOp ν} {d : Key} {b : Body ν} (h : mutOf ue op = some (d, b)) :
    ∃ k, validKey k = true ∧ d = destPath ue k ∧
      ((∃ v, op = .write k v ∧ b = .write v) ∨ (∃ lz, op = .remove k lz ∧ b = .remove lz)) := by
  cases op with
  | write k v =>
    simp only [mutOf] at h
    by_cases hv : validKey k = true <;> simp [hv] at h
    exact ⟨k, hv, h.1.symm, Or.inl ⟨v, rfl, h.2.symm⟩⟩
  | remove k lz =>
    simp only [mutOf] at h
    by_cases hv : validKey k = true <;> simp [hv] at h
    exact ⟨k, hv, h.1.symm, Or.inr ⟨lz, rfl, h.2.symm⟩⟩
  | read k => simp [mutOf] at h
  | list p sn => simp [mutOf] at h

theorem mutOf_none_apply {ue : Bool} {op : KvOp ν} (h : mutOf ue op = none) (s : Store ν) : (KvOp.apply s op).1 = s := by
  rw [apply_mut ue]
  cases op with
  | write k v => simp only [mutOf] at h; by_cases hv : validKey k = true <;> simp [hv] at h ⊢
  | remove k lz => simp only [mutOf] at h; by_cases hv : validKey k = true <;> simp [hv] at h ⊢
  | read k => rfl
  | list p sn => rfl

theorem rel_step (ue : Bool) {st : St ν} {s : Store ν} (hq : Quiescent st) (h : Rel ue st.fs s) (op : KvOp ν) :
    Rel ue (step ue st op).1.fs (KvOp.apply s op).1 := by
  rw [step_state]
  cases hm : mutOf ue op with
  | none => simp only; rw [mutOf_none_apply hm]; exact h
  | some db =>
    obtain ⟨d, b⟩ := db
    obtain ⟨k, hk, hd, hop⟩ := mutOf_some hm
    simp only
    have hwf : (exec (issue st d b).1 (issue st d b).2).fs.WF := wf_applyOps _ h.wf
    have hr := rel_update h hwf hk b (fun p hp => by rw [get_step_mut hq d b p hp, hd])
    have : (KvOp.apply s op).1 = absMut s k b := by
      rw [apply_mut ue]
      rcases hop with ⟨v, rfl, rfl⟩ | ⟨lz, rfl, rfl⟩ <;> simp [hk, absMut]
    rw [this]; exact hr

theorem ans_step (ue : Bool) {st : St ν} {s : Store ν} (h : Rel ue st.fs s) (op : KvOp ν) :
    ansEq (step ue st op).2 (KvOp.apply s op).2 := by
  cases op with
  | write k v => simp only [step, KvOp.apply]; cases checkKey k <;> simp [ansEq, ansOfKv]
  | remove k lz => simp only [step, KvOp.apply]; cases checkKey k <;> simp [ansEq, ansOfKv]
  | read k =>
    simp only [step, KvOp.apply]
    cases hc : checkKey k with
    | error e => simp [ansEq, ansOfKv]
    | ok u =>
      have hk : validKey k = true := by simp [validKey, hc]
      simp only [readKey, h.get k hk]
      cases s.get k <;> simp [ansEq, ansOfKv]
  | list p sn =>
    simp only [step, KvOp.apply]
    cases hc : checkNs p sn with
    | error e => simp [ansEq, ansOfKv]
    | ok u =>
      obtain ⟨hp, hs⟩ := checkNs_ok (by cases u; exact hc)
      obtain ⟨h1, h2, h3⟩ := listDir_rel h hp hs
      simp only [h1, if_true, ansEq]
      exact ⟨_, rfl, h2, h3⟩

/-! ### crash points -/

theorem bodyOps_write {st : St ν} (hq : Quiescent st) (d : Key) (v : ν) :
    bodyOps (issue st d (.write v)).1 (issue st d (.write v)).2 =
      [.create (tmpPath d st.tmpCounter), .writeAll (tmpPath d st.tmpCounter) v, .fsync (tmpPath d st.tmpCounter),
       .rename (tmpPath d st.tmpCounter) d, .fsyncDir d.1 d.2.1] := by
  have hs := staleNow_issue hq d (Body.write v)
  unfold bodyOps
  simp only [hs]
  rfl

theorem bodyOps_remove {st : St ν} (hq : Quiescent st) (d : Key) (lz : Bool) :
    bodyOps (issue st d (.remove lz)).1 (issue st d (.remove lz)).2 =
      match st.fs.get d with
      | none => []
      | some _ => if lz then [.unlink d] else [.unlink d, .fsyncDir d.1 d.2.1] := by
  have hs := staleNow_issue hq d (Body.remove (ν := ν) lz)
  unfold bodyOps
  simp only [hs]
  rfl

/-- after any prefix of the file operations of one API call, every non-artifact path reads as before
    the call or every non-artifact path reads as after the completed call -/
theorem crash_prefix (ue : Bool) {st : St ν} (hq : Quiescent st) (op : KvOp ν) (j : Nat) :
    (∀ p, isArtifact p.2.2 = false → (crashFs ue st op j).get p = st.fs.get p) ∨
    (∀ p, isArtifact p.2.2 = false → (crashFs ue st op j).get p = (step ue st op).1.fs.get p) := by
  unfold crashFs
  rw [fileOpsOf_eq, step_state]
  cases hm : mutOf ue op with
  | none => left; intro p _; simp [applyOps]
  | some db =>
    obtain ⟨d, b⟩ := db
    simp only
    cases b with
    | write v =>
      rw [bodyOps_write hq]
      have hne : ∀ p : Key, isArtifact p.2.2 = false → p ≠ tmpPath d st.tmpCounter :=
        fun p hp => ne_of_artifact hp (tmp_artifact d st.tmpCounter)
      rcases j with _ | _ | _ | _ | j
      · left; intro p hp; simp [applyOps]
      · left; intro p hp; simp [applyOps, FOp.apply, Store.get_put_ne _ _ (hne p hp)]
      · left; intro p hp; simp [applyOps, FOp.apply, Store.get_put_ne _ _ (hne p hp)]
      · left; intro p hp; simp [applyOps, FOp.apply, Store.get_put_ne _ _ (hne p hp)]
      · right; intro p hp
        rw [get_step_mut hq d _ p hp]
        have : (List.take (j + 1 + 1 + 1 + 1) [FOp.create (tmpPath d st.tmpCounter), .writeAll (tmpPath d st.tmpCounter) v, .fsync (tmpPath d st.tmpCounter),
            .rename (tmpPath d st.tmpCounter) d, .fsyncDir d.1 d.2.1]).foldl FOp.apply st.fs =
            (((st.fs.put (tmpPath d st.tmpCounter) .torn).put (tmpPath d st.tmpCounter) (.data v)).del (tmpPath d st.tmpCounter)).put d (.data v) := by
          cases j <;> simp [FOp.apply, Store.get_put_same]
        unfold applyOps
        rw [this]
        by_cases hpd : p = d
        · simp [hpd, Store.get_put_same, Pending.result]
        · simp [hpd, Store.get_put_ne _ _ hpd, Store.get_del_ne _ (hne p hp), Store.get_put_ne _ _ (hne p hp)]
    | remove lz =>
      rw [bodyOps_remove hq]
      cases hg : st.fs.get d with
      | none => left; intro p _; simp [applyOps]
      | some c =>
        rcases j with _ | j
        · left; intro p _; simp [applyOps]
        · right; intro p hp
          rw [get_step_mut hq d _ p hp]
          have : (List.take (j + 1) (if lz = true then [FOp.unlink (ν := ν) d] else [.unlink d, .fsyncDir d.1 d.2.1])).foldl FOp.apply st.fs = st.fs.del d := by
            cases lz <;> cases j <;> simp [FOp.apply]
          unfold applyOps
          simp only
          rw [this]
          by_cases hpd : p = d
          · simp [hpd, Store.get_del_same, Pending.result]
          · simp [hpd, Store.get_del_ne _ hpd]

theorem wf_crashFs (ue : Bool) {st : St ν} (h : st.fs.WF) (op : KvOp ν) (j : Nat) : (crashFs ue st op j).WF :=
  wf_applyOps _ h

theorem runSeq_append (ue : Bool) (st : St ν) (a b : List (KvOp ν)) : runSeq ue st (a ++ b) = runSeq ue (runSeq ue st a) b := by
  simp [runSeq, List.foldl_append]

theorem rel_runSeq (ue : Bool) : ∀ (ops : List (KvOp ν)) {st : St ν} {s : Store ν}, Quiescent st → Rel ue st.fs s →
    Rel ue (runSeq ue st ops).fs (run s ops) ∧
    ansAllEq (answersSeq ue st ops) (answers s ops)
  | [], _, _, _, h => ⟨h, trivial⟩
  | op :: r, st, s, hq, h => by
    obtain ⟨h1, h2⟩ := rel_runSeq ue r (quiescent_step ue hq op) (rel_step ue hq h op)
    exact ⟨h1, ans_step ue h op, h2⟩

/-! ### two-step bodies: prep outside the lock, commit under it -/

theorem split_first_dot : ∀ (a b r r' : List Char), '.' ∉ a → '.' ∉ b → a ++ '.' :: r = b ++ '.' :: r' → a = b ∧ r = r'
  | [], [], _, _, _, _, h => by simpa using h
  | [], y :: b, _, _, _, hb, h => by
    simp only [List.nil_append, List.cons_append, List.cons.injEq] at h
    exact absurd (h.1 ▸ List.mem_cons_self ..) hb
  | x :: a, [], _, _, ha, _, h => by
    simp only [List.nil_append, List.cons_append, List.cons.injEq] at h
    exact absurd (h.1 ▸ List.mem_cons_self ..) ha
  | x :: a, y :: b, r, r', ha, hb, h => by
    simp only [List.cons_append, List.cons.injEq] at h
    obtain ⟨h1, h2⟩ := split_first_dot a b r r' (fun hm => ha (List.mem_cons_of_mem _ hm)) (fun hm => hb (List.mem_cons_of_mem _ hm)) h.2
    exact ⟨by rw [h.1, h1], h2⟩

theorem setExt_no_dot {n : String} (h : '.' ∉ n.toList) (e : String) : (setExt n e).toList = n.toList ++ '.' :: e.toList := by
  simp [setExt, stemChars, extChars_no_dot h, String.toList_append]

/-- tmp files of different counter values have different names -/
theorem tmpPath_counter_inj {d d' : Key} {c c' : Nat} (hd : '.' ∉ d.2.2.toList) (hd' : '.' ∉ d'.2.2.toList)
    (h : tmpPath d c = tmpPath d' c') : c = c' := by
  have h3 : setExt d.2.2 (tmpExtOf c) = setExt d'.2.2 (tmpExtOf c') := by
    simp only [tmpPath, Prod.mk.injEq] at h; exact h.2.2
  have h4 := congrArg String.toList h3
  rw [setExt_no_dot hd, setExt_no_dot hd'] at h4
  obtain ⟨_, h5⟩ := split_first_dot _ _ _ _ hd hd' h4
  have h6 : (toString c).toList = (toString c').toList := by
    simp only [tmpExtOf, String.toList_append] at h5
    exact List.append_cancel_right h5
  have h7 : Nat.repr c = Nat.repr c' := String.toList_inj.mp h6
  exact Nat.repr_inj.mp h7

theorem no_dot_not_artifact {n : String} (h : '.' ∉ n.toList) : isArtifact n = false := by
  simp [isArtifact, extChars_no_dot h]

/-- effect of a whole body on any path that is neither its destination nor its tmp file -/
theorem get_exec_other (st : St ν) (x : Pending ν) (q : Key) (h1 : q ≠ x.dest) (h2 : q ≠ tmpPath x.dest st.tmpCounter) :
    (exec st x).fs.get q = st.fs.get q := by
  unfold exec bodyOps
  cases hb : x.body with
  | write v =>
    simp only
    cases hs : staleNow st x
    · simp only [List.cons_append, List.nil_append, applyOps_cons, applyOps_nil, FOp.apply, Bool.false_eq_true, if_false,
        Store.get_put_same]
      simp [Store.get_put_ne _ _ h1, Store.get_del_ne _ h2, Store.get_put_ne _ _ h2]
    · simp [applyOps_cons, applyOps_nil, FOp.apply, Store.get_del_ne _ h2, Store.get_put_ne _ _ h2]
  | remove lz =>
    simp only
    cases hs : staleNow st x
    · simp only [Bool.false_eq_true, if_false]
      cases hg : st.fs.get x.dest with
      | none => simp [applyOps_nil]
      | some c => cases lz <;> simp [applyOps_cons, applyOps_nil, FOp.apply, Store.get_del_ne _ h1]
    · simp [applyOps_nil]

/-- all operations a schedule mentions -/
def pendsOf : List (Step2 ν) → List (Pending ν)
  | [] => []
  | .commit x :: r => x :: pendsOf r
  | .prep x :: r => x :: pendsOf r

/-- what the operations of a schedule must satisfy: dot-free destination names (valid keys), and one
    version per operation -/
def GoodPends (l : List (Pending ν)) : Prop :=
  (∀ x ∈ l, '.' ∉ x.dest.2.2.toList) ∧ (∀ x ∈ l, ∀ y ∈ l, x.version = y.version → x = y)

/-- every prepared operation still has its own, completely written tmp file -/
structure Inv2 (l : List (Pending ν)) (s : St2 ν) : Prop where
  intact : ∀ e ∈ s.prepared, e.1 ∈ l ∧ ∃ v c, e.1.body = .write v ∧ c < s.st.tmpCounter ∧ e.2 = tmpPath e.1.dest c ∧
    s.st.fs.get e.2 = some (.data v)
  distinct : s.prepared.Pairwise (fun a b => a.2 ≠ b.2)

theorem tmpOf_some {l : List (Pending ν)} (hg : GoodPends l) {s : St2 ν} (hi : Inv2 l s) {x : Pending ν} (hx : x ∈ l) {tmp : Key}
    (h : tmpOf s x = some tmp) : (x, tmp) ∈ s.prepared := by
  unfold tmpOf at h
  cases hf : s.prepared.find? (fun e => e.1.version == x.version) with
  | none => rw [hf] at h; cases h
  | some e =>
    rw [hf] at h
    simp only [Option.map_some, Option.some.injEq] at h
    have hm := List.mem_of_find?_eq_some hf
    have hv : e.1.version = x.version := by simpa using List.find?_some hf
    have : e.1 = x := hg.2 _ (hi.intact e hm).1 _ hx hv
    rw [← this, ← h]; exact hm

theorem tmpOf_none {s : St2 ν} {x : Pending ν} (h : tmpOf s x = none) : ∀ e ∈ s.prepared, e.1.version ≠ x.version := by
  unfold tmpOf at h
  cases hf : s.prepared.find? (fun e => e.1.version == x.version) with
  | some e => rw [hf] at h; cases h
  | none =>
    intro e he hv
    have := List.find?_eq_none.mp hf e he
    simp [hv] at this

theorem commit2_locks (s : St2 ν) (x : Pending ν) : (commit2 s x).st.locks = (exec s.st x).locks := by
  unfold commit2
  split <;> rfl

theorem lockOf_commit2 (s : St2 ν) (x : Pending ν) (d : Key) : lockOf (commit2 s x).st d = lockOf (exec s.st x) d := by
  unfold lockOf; rw [commit2_locks]

/-- the committing half has, on the non-artifact paths, exactly the effect of the whole body -/
theorem get_commit2 {l : List (Pending ν)} (hg : GoodPends l) {s : St2 ν} (hi : Inv2 l s) {x : Pending ν} (hx : x ∈ l)
    (p : Key) (hp : isArtifact p.2.2 = false) :
    (commit2 s x).st.fs.get p = if p = x.dest ∧ staleNow s.st x = false then x.result else s.st.fs.get p := by
  unfold commit2
  cases hb : x.body with
  | remove lz => simp only; rw [get_exec _ _ p hp]
  | write v =>
    cases ht : tmpOf s x with
    | none => simp only; rw [get_exec _ _ p hp]
    | some tmp =>
      simp only
      have hm := tmpOf_some hg hi hx ht
      obtain ⟨_, v', c, hb', _, htmp, hget⟩ := hi.intact _ hm
      simp only at hb' htmp hget
      rw [hb] at hb'
      injection hb' with hv
      subst hv
      have hne : p ≠ tmp := by rw [htmp]; exact ne_of_artifact hp (tmp_artifact _ _)
      cases hs : staleNow s.st x
      · simp only [Bool.false_eq_true, if_false, applyOps_cons, applyOps_nil, FOp.apply, hget, and_true]
        by_cases hpd : p = x.dest
        · simp [hpd, Store.get_put_same, Pending.result, hb]
        · simp [hpd, Store.get_put_ne _ _ hpd, Store.get_del_ne _ hne]
      · simp [applyOps_cons, applyOps_nil, FOp.apply, Store.get_del_ne _ hne]

theorem get_prep2 (s : St2 ν) (x : Pending ν) (p : Key) (hp : isArtifact p.2.2 = false) :
    (prep2 s x).st.fs.get p = s.st.fs.get p ∧ (prep2 s x).st.locks = s.st.locks := by
  unfold prep2
  split
  · have hne : p ≠ tmpPath x.dest s.st.tmpCounter := ne_of_artifact hp (tmp_artifact _ _)
    simp [applyOps_cons, applyOps_nil, FOp.apply, Store.get_put_ne _ _ hne]
  · exact ⟨rfl, rfl⟩

theorem inv2_prep {l : List (Pending ν)} (hg : GoodPends l) {s : St2 ν} (hi : Inv2 l s) {x : Pending ν} (hx : x ∈ l) :
    Inv2 l (prep2 s x) := by
  unfold prep2
  split
  · rename_i v hb ht
    have hnew : ∀ e ∈ s.prepared, e.2 ≠ tmpPath x.dest s.st.tmpCounter := by
      intro e he heq
      obtain ⟨hel, _, c, _, hc, htmp, _⟩ := hi.intact e he
      rw [htmp] at heq
      have := tmpPath_counter_inj (hg.1 _ hel) (hg.1 _ hx) heq
      omega
    constructor
    · intro e he
      rcases List.mem_cons.mp he with rfl | he
      · refine ⟨hx, v, s.st.tmpCounter, hb, Nat.lt_succ_self _, rfl, ?_⟩
        simp [applyOps_cons, applyOps_nil, FOp.apply, Store.get_put_same]
      · obtain ⟨hel, v', c, hb', hc, htmp, hget⟩ := hi.intact e he
        refine ⟨hel, v', c, hb', Nat.lt_succ_of_lt hc, htmp, ?_⟩
        simp only [applyOps_cons, applyOps_nil, FOp.apply]
        rw [Store.get_put_ne _ _ (hnew e he), Store.get_put_ne _ _ (hnew e he)]; exact hget
    · exact List.Pairwise.cons (fun e he => (hnew e he).symm) hi.distinct
  · exact hi

theorem inv2_commit {l : List (Pending ν)} (hg : GoodPends l) {s : St2 ν} (hi : Inv2 l s) {x : Pending ν} (hx : x ∈ l) :
    Inv2 l (commit2 s x) := by
  have hdest : isArtifact x.dest.2.2 = false := no_dot_not_artifact (hg.1 _ hx)
  have hexec : tmpOf s x = none ∨ (∃ lz, x.body = .remove lz) → Inv2 l { s with st := exec s.st x } := by
    intro hcase
    constructor
    · intro e he
      obtain ⟨hel, v', c, hb', hc, htmp, hget⟩ := hi.intact e he
      have h1 : e.2 ≠ x.dest := by rw [htmp]; exact (ne_of_artifact hdest (tmp_artifact _ _)).symm
      have h2 : e.2 ≠ tmpPath x.dest s.st.tmpCounter := by
        intro heq; rw [htmp] at heq
        have := tmpPath_counter_inj (hg.1 _ hel) (hg.1 _ hx) heq
        omega
      refine ⟨hel, v', c, hb', ?_, htmp, ?_⟩
      · show c < (exec s.st x).tmpCounter
        unfold exec; simp only; split <;> omega
      · show (exec s.st x).fs.get e.2 = _
        rw [get_exec_other _ _ _ h1 h2]; exact hget
    · exact hi.distinct
  unfold commit2
  cases hb : x.body with
  | remove lz => exact hexec (Or.inr ⟨lz, hb⟩)
  | write v =>
    cases ht : tmpOf s x with
    | none => exact hexec (Or.inl ht)
    | some tmp =>
      simp only
      have hm := tmpOf_some hg hi hx ht
      obtain ⟨_, v0, c0, _, _, htmp0, hget0⟩ := hi.intact _ hm
      simp only at htmp0 hget0
      constructor
      · intro e he
        have he' : e ∈ s.prepared := (List.mem_filter.mp he).1
        have hver : e.1.version ≠ x.version := by simpa using (List.mem_filter.mp he).2
        obtain ⟨hel, v', c, hb', hc, htmp, hget⟩ := hi.intact e he'
        have hne : e.2 ≠ tmp := by
          intro heq
          have h1 : e = (x, tmp) ∨ e ≠ (x, tmp) := Classical.em _
          rcases h1 with h1 | h1
          · rw [h1] at hver; exact hver rfl
          · -- two different entries with the same tmp contradict `distinct`
            have := hi.distinct
            rw [List.pairwise_iff_forall_sublist] at this
            rcases List.mem_iff_getElem.mp he' with ⟨i, hi1, hi2⟩
            rcases List.mem_iff_getElem.mp hm with ⟨j, hj1, hj2⟩
            have hij : i ≠ j := by intro h; subst h; rw [hi2] at hj2; exact h1 hj2
            rcases Nat.lt_or_gt_of_ne hij with hlt | hgt
            · have := List.pairwise_iff_getElem.mp hi.distinct i j hi1 hj1 hlt
              rw [hi2, hj2] at this; exact this heq
            · have := List.pairwise_iff_getElem.mp hi.distinct j i hj1 hi1 hgt
              rw [hi2, hj2] at this; exact this heq.symm
        have hned : e.2 ≠ x.dest := by rw [htmp]; exact (ne_of_artifact hdest (tmp_artifact _ _)).symm
        refine ⟨hel, v', c, hb', hc, htmp, ?_⟩
        cases hs : staleNow s.st x
        · simp only [Bool.false_eq_true, if_false, applyOps_cons, applyOps_nil, FOp.apply, hget0]
          rw [Store.get_put_ne _ _ hned, Store.get_del_ne _ hne]; exact hget
        · simp only [if_true, applyOps_cons, applyOps_nil, FOp.apply]
          rw [Store.get_del_ne _ hne]; exact hget
      · exact List.Pairwise.sublist List.filter_sublist hi.distinct

theorem prep2_locks (s : St2 ν) (x : Pending ν) : (prep2 s x).st.locks = s.st.locks := by
  unfold prep2; split <;> rfl

theorem lockOf_prep2 (s : St2 ν) (x : Pending ν) (d : Key) : lockOf (prep2 s x).st d = lockOf s.st d := by
  unfold lockOf; rw [prep2_locks]

theorem run2_reg {l : List (Pending ν)} (hg : GoodPends l) : ∀ (steps : List (Step2 ν)) (s : St2 ν), Inv2 l s →
    (∀ x ∈ pendsOf steps, x ∈ l) → LocksOk s.st (commitsOf steps) → ∀ d, isArtifact d.2.2 = false →
    (run2 s steps).st.fs.get d = ((onDest d (commitsOf steps)).foldl reg ((lockOf s.st d).lastWritten, s.st.fs.get d)).2 ∧
    (lockOf (run2 s steps).st d).refs = 0
  | [], s, _, _, hl, d, _ => by
    refine ⟨rfl, ?_⟩
    have := hl d
    simpa [onDest, commitsOf, run2] using this
  | .prep x :: rest, s, hi, hp, hl, d, hd => by
    have hx : x ∈ l := hp x (by simp [pendsOf])
    have hp' : ∀ y ∈ pendsOf rest, y ∈ l := fun y hy => hp y (by simp [pendsOf, hy])
    have hl' : LocksOk (prep2 s x).st (commitsOf rest) := by
      intro d'; rw [lockOf_prep2]; exact hl d'
    have ih := run2_reg hg rest (prep2 s x) (inv2_prep hg hi hx) hp' hl' d hd
    rw [lockOf_prep2, (get_prep2 s x d hd).1] at ih
    exact ih
  | .commit x :: rest, s, hi, hp, hl, d, hd => by
    have hx : x ∈ l := hp x (by simp [pendsOf])
    have hp' : ∀ y ∈ pendsOf rest, y ∈ l := fun y hy => hp y (by simp [pendsOf, hy])
    have hl0 : LocksOk s.st (x :: commitsOf rest) := hl
    have hl' : LocksOk (commit2 s x).st (commitsOf rest) := by
      intro d'
      rw [lockOf_commit2]
      by_cases h : d' = x.dest
      · have h0 := hl0 x.dest
        rw [onDest_cons_same] at h0
        simp only [List.length_cons] at h0
        rw [h, lockOf_exec_same]
        by_cases h1 : (lockOf s.st x.dest).refs ≤ 1
        · simp only [h1, if_true]; omega
        · simp only [h1, if_false]; omega
      · rw [lockOf_exec_ne s.st x h, hl0 d', onDest_cons_ne h]
    have ih := run2_reg hg rest (commit2 s x) (inv2_commit hg hi hx) hp' hl' d hd
    show (run2 (commit2 s x) rest).st.fs.get d = ((onDest d (x :: commitsOf rest)).foldl reg _).2 ∧ (lockOf (run2 (commit2 s x) rest).st d).refs = 0
    refine ⟨?_, ih.2⟩
    rw [ih.1]
    by_cases h : d = x.dest
    · subst h
      rw [onDest_cons_same, List.foldl_cons, get_commit2 hg hi hx x.dest hd, lockOf_commit2, lockOf_exec_same]
      have h0 := hl0 x.dest
      rw [onDest_cons_same] at h0
      simp only [List.length_cons] at h0
      have hreg : reg ((lockOf s.st x.dest).lastWritten, s.st.fs.get x.dest) x =
          (if staleNow s.st x then (lockOf s.st x.dest).lastWritten else x.version,
           if x.dest = x.dest ∧ staleNow s.st x = false then x.result else s.st.fs.get x.dest) := by
        unfold reg staleNow
        cases isStaleVersion x.version (lockOf s.st x.dest).lastWritten <;> simp
      by_cases h1 : (lockOf s.st x.dest).refs ≤ 1
      · have : onDest x.dest (commitsOf rest) = [] := List.eq_nil_of_length_eq_zero (by omega)
        simp only [this, List.foldl_nil, hreg]
      · simp only [h1, if_false, hreg]
    · rw [onDest_cons_ne h, lockOf_commit2, lockOf_exec_ne s.st x h, get_commit2 hg hi hx d hd]
      simp [h]

/-- a reader never finds a half-written file at a non-artifact path, at any point of any schedule -/
theorem run2_no_torn_key {l : List (Pending ν)} (hg : GoodPends l) : ∀ (steps : List (Step2 ν)) (s : St2 ν), Inv2 l s →
    (∀ x ∈ pendsOf steps, x ∈ l) → ∀ p, isArtifact p.2.2 = false → s.st.fs.get p ≠ some .torn →
    (run2 s steps).st.fs.get p ≠ some .torn
  | [], _, _, _, _, _, h => h
  | .prep x :: rest, s, hi, hpd, p, hp, h => by
    have hx : x ∈ l := hpd x (by simp [pendsOf])
    refine run2_no_torn_key hg rest (prep2 s x) (inv2_prep hg hi hx) (fun y hy => hpd y (by simp [pendsOf, hy])) p hp ?_
    rw [(get_prep2 s x p hp).1]; exact h
  | .commit x :: rest, s, hi, hpd, p, hp, h => by
    have hx : x ∈ l := hpd x (by simp [pendsOf])
    refine run2_no_torn_key hg rest (commit2 s x) (inv2_commit hg hi hx) (fun y hy => hpd y (by simp [pendsOf, hy])) p hp ?_
    rw [get_commit2 hg hi hx p hp]
    split
    · unfold Pending.result; cases x.body <;> simp
    · exact h

/-- the register folded over ANY permutation of the issued operations yields the last issued one -/
theorem reg_perm_last (ue : Bool) (fs0 : FS ν) (ops : List (KvOp ν)) (π : List (Pending ν))
    (hπ : π.Perm (issueAll ue (fresh fs0) ops).2) (d : Key) (v0 : Option (Content ν)) :
    ((onDest d π).foldl reg (0, v0)).2 =
      match (onDest d (issueAll ue (fresh fs0) ops).2).getLast? with
      | none => v0
      | some x => x.result := by
  obtain ⟨_, _, _, h4, h5⟩ := issueAll_spec ue ops (fresh fs0)
  have hperm : (onDest d π).Perm (onDest d (issueAll ue (fresh fs0) ops).2) := hπ.filter _
  cases hlast : (onDest d (issueAll ue (fresh fs0) ops).2).getLast? with
  | none =>
    have hnil : onDest d (issueAll ue (fresh fs0) ops).2 = [] := List.getLast?_eq_none_iff.mp hlast
    rw [hnil] at hperm
    rw [List.Perm.eq_nil hperm]; rfl
  | some x =>
    obtain ⟨pre, hpre⟩ := List.getLast?_eq_some_iff.mp hlast
    have hpw : (onDest d (issueAll ue (fresh fs0) ops).2).Pairwise (fun a b => a.version < b.version) :=
      List.Pairwise.sublist List.filter_sublist h5
    rw [hpre, List.pairwise_append] at hpw
    have hmemP : ∀ y, y ∈ onDest d π → y ∈ pre ∨ y = x := by
      intro y hy
      have := hperm.mem_iff.mp hy
      rw [hpre] at this
      simpa using this
    have hx : x ∈ onDest d π := by
      apply hperm.mem_iff.mpr; rw [hpre]; simp
    have hxP : x ∈ (issueAll ue (fresh fs0) ops).2 := by
      have : x ∈ onDest d (issueAll ue (fresh fs0) ops).2 := by rw [hpre]; simp
      exact (List.mem_filter.mp this).1
    have hpos : 0 < x.version := by
      have := (h4 x hxP).1
      have h1v : (fresh fs0).nextVersion = 1 := rfl
      omega
    rw [foldl_reg_max (onDest d π) 0 _ x hx ?_ ?_ hpos]
    · intro y hy
      rcases hmemP y hy with h | h
      · exact Nat.le_of_lt (hpw.2.2 y h x (by simp))
      · rw [h]; exact Nat.le_refl _
    · intro y hy hv
      rcases hmemP y hy with h | h
      · have := hpw.2.2 y h x (by simp); omega
      · exact h

/-- the operations `issueAll` hands out are good: valid destinations, one version each -/
theorem goodPends_issueAll (ue : Bool) (fs0 : FS ν) (ops : List (KvOp ν)) : GoodPends (issueAll ue (fresh fs0) ops).2 := by
  obtain ⟨_, _, _, h4, h5⟩ := issueAll_spec ue ops (fresh fs0)
  constructor
  · intro x hx
    obtain ⟨_, k, hk, hd⟩ := h4 x hx
    rw [hd]; exact validStr_no_dot (validKey_strs hk).2.2
  · intro x hx y hy hv
    rcases List.mem_iff_getElem.mp hx with ⟨i, hi1, hi2⟩
    rcases List.mem_iff_getElem.mp hy with ⟨j, hj1, hj2⟩
    by_cases hij : i = j
    · subst hij; rw [← hi2, ← hj2]
    · rcases Nat.lt_or_gt_of_ne hij with hlt | hgt
      · have := List.pairwise_iff_getElem.mp h5 i j hi1 hj1 hlt
        rw [hi2, hj2] at this; omega
      · have := List.pairwise_iff_getElem.mp h5 j i hj1 hi1 hgt
        rw [hi2, hj2] at this; omega

/-- running a body in one go is preparing and committing it -/
theorem exec_eq_prep_commit (st : St ν) (x : Pending ν) :
    (commit2 (prep2 ⟨st, []⟩ x) x).st.fs = (exec st x).fs ∧ (commit2 (prep2 ⟨st, []⟩ x) x).st.locks = (exec st x).locks ∧
    (commit2 (prep2 ⟨st, []⟩ x) x).st.tmpCounter = (exec st x).tmpCounter ∧ (commit2 (prep2 ⟨st, []⟩ x) x).prepared = [] := by
  cases hb : x.body with
  | remove lz => simp [prep2, commit2, hb, tmpOf]
  | write v =>
    have hs : staleNow { st with fs := applyOps st.fs [.create (tmpPath x.dest st.tmpCounter), .writeAll (tmpPath x.dest st.tmpCounter) v, .fsync (tmpPath x.dest st.tmpCounter)], tmpCounter := st.tmpCounter + 1 } x = staleNow st x := rfl
    simp only [prep2, hb, tmpOf, List.find?_nil, Option.map_none, commit2, List.find?_cons, beq_self_eq_true, Option.map_some, hs]
    refine ⟨?_, rfl, ?_, ?_⟩
    · simp only [exec, bodyOps, hb]
      cases staleNow st x <;> simp [applyOps]
    · simp [exec, hb]
    · simp

/-! ### the sync API, one call after the other, is "last issued wins" too -/

theorem runSeq_last (ue : Bool) (d : Key) (hd : isArtifact d.2.2 = false) : ∀ (ops : List (KvOp ν)) (st st2 : St ν), Quiescent st →
    (runSeq ue st ops).fs.get d =
      match (onDest d (issueAll ue st2 ops).2).getLast? with
      | none => st.fs.get d
      | some x => x.result
  | [], _, _, _ => by simp [runSeq, issueAll, onDest]
  | op :: r, st, st2, hq => by
    have ih := runSeq_last ue d hd r (step ue st op).1
    show (runSeq ue (step ue st op).1 r).fs.get d = _
    cases hm : mutOf ue op with
    | none =>
      have h1 : issueAll ue st2 (op :: r) = issueAll ue st2 r := by simp [issueAll, hm]
      have h2 : (step ue st op).1 = st := by rw [step_state, hm]
      rw [h1, ih st2 (quiescent_step ue hq op), h2]
    | some db =>
      obtain ⟨d', b⟩ := db
      have h1 : issueAll ue st2 (op :: r) =
          ((issueAll ue (issue st2 d' b).1 r).1, (issue st2 d' b).2 :: (issueAll ue (issue st2 d' b).1 r).2) := by
        simp [issueAll, hm]
      have h2 : (step ue st op).1 = exec (issue st d' b).1 (issue st d' b).2 := by rw [step_state, hm]
      rw [h1, ih (issue st2 d' b).1 (quiescent_step ue hq op), h2, get_step_mut hq d' b d hd]
      simp only
      by_cases hdd : d = d'
      · subst hdd
        have : onDest d ((issue st2 d b).2 :: (issueAll ue (issue st2 d b).1 r).2) =
            (issue st2 d b).2 :: onDest d (issueAll ue (issue st2 d b).1 r).2 := onDest_cons_same (issue st2 d b).2 _
        rw [this, List.getLast?_cons]
        cases (onDest d (issueAll ue (issue st2 d b).1 r).2).getLast? with
        | none => simp [Pending.result, issue]
        | some y => simp
      · have : onDest d ((issue st2 d' b).2 :: (issueAll ue (issue st2 d' b).1 r).2) =
            onDest d (issueAll ue (issue st2 d' b).1 r).2 := onDest_cons_ne (x := (issue st2 d' b).2) hdd _
        rw [this]
        simp [hdd]

end Ldk.Fs
