/- Helper lemmas for the chain part of C06 (Model/JusticeChain.lean): facts about the height expressions TRANSLATED from the
   Rust source (Generated/Justice.lean) — they are proved by unfolding the generated definitions, so a change of the Rust
   expressions that changes the translation breaks them and everything below — and the invariant that ties the handler's
   claim bookkeeping to the best chain, preserved by every block connection / disconnection.  Core only. -/
import LdkModel.Model.JusticeChain
import LdkModel.Proofs.Package
namespace Ldk.Justice
open Ldk Ldk.Punish Ldk.JusticeGen Ldk.Pkg

/-! ### the translated height expressions -/

/-- EVERY justice claim is registered with the height of the block that confirms the transaction whose output it spends -/
theorem creationHeight_eq (W : World) (kd : Kind) (h : Nat) : creationHeight W kd h = h := by
  cases kd <;>
    simp [creationHeight, registeredCreationHeight, revokedOutputStored, revokedHtlcOutputStored,
      toLocalCreationHeight, htlcCreationHeight, secondStageCreationHeight]

theorem claimDropped_iff (c n : Nat) : claimDropped c n = true ↔ n < c := by
  simp [claimDropped]

theorem awaitingDropped_iff (s n : Nat) : awaitingDropped s n = true ↔ n < s := by
  simp [awaitingDropped]

theorem reached_iff (s h : Nat) : handlerThresholdReached s h = true ↔ s + ANTI_REORG_DELAY - 1 ≤ h := by
  simp [handlerThresholdReached]

theorem timerExpired_iff (h t : Nat) : timerExpired h t = true ↔ t ≤ h := by
  simp [timerExpired]

theorem timerExpired_false_iff (h t : Nat) : timerExpired h t = false ↔ h < t := by
  simp [timerExpired]

theorem reached_mono {s h h' : Nat} (hr : handlerThresholdReached s h = true) (hle : h ≤ h') :
    handlerThresholdReached s h' = true := by
  rw [reached_iff] at *; omega

theorem nextTimer_bounds (W : World) (kd : Kind) (confH cur : Nat) :
    cur < nextTimer W kd confH cur ∧ nextTimer W kd confH cur ≤ cur + LOW_FREQUENCY_BUMP_INTERVAL := by
  have := bump_progress_core cur (spendableHeight W kd confH) [pkgInput kd]
  exact ⟨this.1, this.2.1⟩

/-! ### the world -/

theorem kindOf_isSome_mem {W : World} {X : Outpoint} (h : (W.kindOf X).isSome) : X ∈ W.allOutpoints := by
  unfold World.kindOf at h
  cases hf : W.outs.find? (fun e => decide (e.1 = X)) with
  | none => rw [hf] at h; simp at h
  | some e =>
    have hm := List.mem_of_find?_eq_some hf
    have he := List.find?_some hf
    simp only [decide_eq_true_eq] at he
    unfold World.allOutpoints
    exact List.mem_map.2 ⟨e, hm, he⟩

theorem mem_kindOf_isSome {W : World} {X : Outpoint} (h : X ∈ W.allOutpoints) : (W.kindOf X).isSome := by
  unfold World.allOutpoints at h
  obtain ⟨e, hm, he⟩ := List.mem_map.1 h
  unfold World.kindOf
  cases hf : W.outs.find? (fun e => decide (e.1 = X)) with
  | some _ => simp
  | none =>
    have := List.find?_eq_none.1 hf e hm
    simp [he] at this

/-! ### the invariant -/

/-- what ties the handler's bookkeeping to the best chain -/
structure Inv (W : World) (st : St) : Prop where
  /-- a claim exists only for a claimable output of a transaction confirmed on the best chain, and records that
      transaction's confirmation height as its creation height -/
  created : ∀ X c, st.claim X = some c → (W.kindOf X).isSome ∧ st.chain.conf (parentOf X) = some c.created
  /-- the handler's awaiting event of a claim is the (not yet final) spend of its outpoint on the best chain -/
  spent : ∀ X c, st.claim X = some c →
    c.spentAt = (st.chain.spent X).map (·.height) ∧ ∀ sp, st.chain.spent X = some sp → sp.final = false
  /-- every claimable output of a confirmed transaction is claimed, or its spend is final -/
  cover : ∀ X, (W.kindOf X).isSome → (st.chain.conf (parentOf X)).isSome →
    (st.claim X).isSome ∨ ∃ sp, st.chain.spent X = some sp ∧ sp.final = true
  confLe : ∀ p s, st.chain.conf p = some s → s ≤ st.chain.tip
  spentOk : ∀ X sp, st.chain.spent X = some sp →
    sp.height ≤ st.chain.tip ∧ ∃ hp, st.chain.conf (parentOf X) = some hp ∧ hp ≤ sp.height
  secondOk : ∀ k s, st.chain.conf (.second k) = some s → ∃ hc, st.chain.conf .commit = some hc ∧ hc ≤ s
  /-- only the cheater's second-stage transactions spend without being the victim's -/
  cheater : ∀ X sp, st.chain.spent X = some sp → sp.byVictim = false →
    ∃ k v, X = .commit v ∧ v ∈ W.second k ∧ st.chain.conf (.second k) = some sp.height
  /-- a transaction of the cheater that is confirmed went through the monitor's spend checks: its outputs are watched -/
  watched : ∀ p s, st.chain.conf p = some s → st.seen p = true

theorem inv_init (W : World) (h0 : Nat) : Inv W (St.init h0) := by
  constructor <;> intros <;> simp_all [St.init]

/-- raising the tip (the block's transactions are processed next) -/
theorem inv_raise {W : World} {st : St} (hi : Inv W st) (h : Nat) (hle : st.chain.tip ≤ h) :
    Inv W { st with chain := { st.chain with tip := h } } := by
  constructor
  · exact hi.created
  · exact hi.spent
  · exact hi.cover
  · intro p s hs; have := hi.confLe p s hs; simp only; omega
  · intro X sp hs
    obtain ⟨h1, h2⟩ := hi.spentOk X sp hs
    exact ⟨by simp only; omega, h2⟩
  · exact hi.secondOk
  · exact hi.cheater
  · exact hi.watched

/-! ### the per-transaction transformers -/

theorem markSpent_some {h : Nat} {hit : Outpoint → Bool} {cl : Outpoint → Option Claim} {X : Outpoint} {c' : Claim}
    (hm : markSpent h hit cl X = some c') :
    ∃ c, cl X = some c ∧ c' = (if hit X then { c with spentAt := some h } else c) := by
  unfold markSpent at hm
  cases hc : cl X with
  | none => rw [hc] at hm; cases hm
  | some c =>
    rw [hc] at hm
    refine ⟨c, rfl, ?_⟩
    by_cases hh : hit X = true
    · simp [hh] at hm ⊢; exact hm.symm
    · simp [hh] at hm ⊢; exact hm.symm

theorem markSpent_isSome (h : Nat) (hit : Outpoint → Bool) (cl : Outpoint → Option Claim) (X : Outpoint) :
    (markSpent h hit cl X).isSome = (cl X).isSome := by
  unfold markSpent
  cases cl X with
  | none => rfl
  | some c => by_cases hh : hit X = true <;> simp [hh]

theorem markSpent_none {h : Nat} {hit : Outpoint → Bool} {cl : Outpoint → Option Claim} {X : Outpoint}
    (hn : cl X = none) : markSpent h hit cl X = none := by
  unfold markSpent; rw [hn]

theorem regClaims_other {W : World} {h : Nat} {p : Parent} {cl : Outpoint → Option Claim} {X : Outpoint}
    (hne : parentOf X ≠ p) : regClaims W h p cl X = cl X := by
  unfold regClaims; simp [hne]

theorem regClaims_some {W : World} {h : Nat} {p : Parent} {cl : Outpoint → Option Claim} {X : Outpoint} {c : Claim}
    (hr : regClaims W h p cl X = some c) :
    cl X = some c ∨ (parentOf X = p ∧ cl X = none ∧ ∃ kd, W.kindOf X = some kd ∧
      c = { created := creationHeight W kd h, spentAt := none, timer := nextTimer W kd h h }) := by
  unfold regClaims at hr
  by_cases hp : parentOf X = p
  · simp only [hp, if_true] at hr
    cases hc : cl X with
    | some c0 => rw [hc] at hr; left; exact hr
    | none =>
      rw [hc] at hr
      right
      cases hk : W.kindOf X with
      | none => rw [hk] at hr; cases hr
      | some kd =>
        rw [hk] at hr
        simp only [Option.map_some, Option.some.injEq] at hr
        exact ⟨hp, rfl, kd, rfl, hr.symm⟩
  · simp only [hp, if_false] at hr; left; exact hr

theorem regClaims_isSome {W : World} {h : Nat} {p : Parent} {cl : Outpoint → Option Claim} {X : Outpoint}
    (hp : parentOf X = p) (hk : (W.kindOf X).isSome) : (regClaims W h p cl X).isSome := by
  unfold regClaims
  simp only [hp, if_true]
  cases cl X with
  | some c => rfl
  | none =>
    cases hk' : W.kindOf X with
    | none => rw [hk'] at hk; cases hk
    | some kd => rfl

theorem regClaims_isSome_of_old {W : World} {h : Nat} {p : Parent} {cl : Outpoint → Option Claim} {X : Outpoint}
    (ho : (cl X).isSome) : (regClaims W h p cl X).isSome := by
  unfold regClaims
  by_cases hp : parentOf X = p
  · simp only [hp, if_true]
    cases hc : cl X with
    | some c => rfl
    | none => rw [hc] at ho; cases ho
  · simp only [hp, if_false]; exact ho

/-- before the commitment confirms nothing is tracked -/
theorem inv_no_commit {W : World} {st : St} (hi : Inv W st) (hn : st.chain.conf .commit = none) :
    (∀ X, st.claim X = none) ∧ (∀ X, st.chain.spent X = none) ∧ ∀ k, st.chain.conf (.second k) = none := by
  have hsec : ∀ k, st.chain.conf (.second k) = none := by
    intro k
    cases hs : st.chain.conf (.second k) with
    | none => rfl
    | some s =>
      obtain ⟨hc, h1, _⟩ := hi.secondOk k s hs
      rw [hn] at h1; cases h1
  have hpar : ∀ X, st.chain.conf (parentOf X) = none := by
    intro X
    cases X with
    | commit v => exact hn
    | second k v => exact hsec k
  refine ⟨?_, ?_, hsec⟩
  · intro X
    cases hc : st.claim X with
    | none => rfl
    | some c =>
      have := (hi.created X c hc).2
      rw [hpar X] at this; cases this
  · intro X
    cases hs : st.chain.spent X with
    | none => rfl
    | some sp =>
      obtain ⟨_, hp, h1, _⟩ := hi.spentOk X sp hs
      rw [hpar X] at h1; cases h1

theorem secondHits_true {W : World} {k : Nat} {X : Outpoint} (hh : secondHits W k X = true) :
    ∃ v, X = .commit v ∧ v ∈ W.second k := by
  cases X with
  | commit v => exact ⟨v, rfl, by simpa [secondHits] using hh⟩
  | second j i => simp [secondHits] at hh

/-! ### one transaction -/

theorem inv_apply_commit {W : World} {st : St} {h : Nat} (hi : Inv W st) (htip : st.chain.tip = h)
    (hn : st.chain.conf .commit = none) :
    Inv W { chain := { st.chain with conf := fun p => if p = .commit then some h else st.chain.conf p },
            claim := regClaims W h .commit st.claim,
            seen := fun p => if p = .commit then true else st.seen p } := by
  obtain ⟨hcl, hsp, hsec⟩ := inv_no_commit hi hn
  constructor
  · intro X c hc
    rcases regClaims_some hc with ho | ⟨hp, _, kd, hk, rfl⟩
    · rw [hcl X] at ho; cases ho
    · refine ⟨by rw [hk]; rfl, ?_⟩
      simp only [hp, if_true, creationHeight_eq]
  · intro X c hc
    rcases regClaims_some hc with ho | ⟨hp, _, kd, hk, rfl⟩
    · rw [hcl X] at ho; cases ho
    · refine ⟨by simp [hsp X], fun sp hs => ?_⟩
      simp only at hs
      rw [hsp X] at hs; cases hs
  · intro X hk hconf
    left
    cases X with
    | commit v => exact regClaims_isSome rfl hk
    | second k v => simp [parentOf, hsec k] at hconf
  · intro p s hs
    simp only at hs
    by_cases hp : p = .commit
    · rw [if_pos hp] at hs; cases hs; simp only; omega
    · rw [if_neg hp] at hs
      cases p with
      | commit => exact absurd rfl hp
      | second k => rw [hsec k] at hs; cases hs
  · intro X sp hs
    simp only at hs
    rw [hsp X] at hs; cases hs
  · intro k s hs
    simp only at hs
    rw [if_neg (by intro e; cases e), hsec k] at hs; cases hs
  · intro X sp hs
    simp only at hs
    rw [hsp X] at hs; cases hs
  · intro p s hs
    simp only at hs ⊢
    by_cases hp : p = .commit
    · rw [if_pos hp]
    · rw [if_neg hp] at hs
      cases p with
      | commit => exact absurd rfl hp
      | second k => rw [hsec k] at hs; cases hs

theorem inv_apply_second {W : World} {st : St} {h k : Nat} (hi : Inv W st) (htip : st.chain.tip = h)
    (hnone : st.chain.conf (.second k) = none) (hc : (st.chain.conf .commit).isSome)
    (hun : ∀ v, v ∈ W.second k → st.chain.spent (.commit v) = none) :
    Inv W { chain := { st.chain with
              conf := fun p => if p = .second k then some h else st.chain.conf p,
              spent := fun X => if secondHits W k X then some ⟨h, false, false⟩ else st.chain.spent X },
            claim := markSpent h (secondHits W k) (regClaims W h (.second k) st.claim),
            seen := fun p => if p = .second k then true else st.seen p } := by
  -- nothing of transaction `second k` is tracked yet
  have hnc : ∀ X, parentOf X = .second k → st.claim X = none := by
    intro X hp
    cases hcl : st.claim X with
    | none => rfl
    | some c => have := (hi.created X c hcl).2; rw [hp, hnone] at this; cases this
  have hns : ∀ X, parentOf X = .second k → st.chain.spent X = none := by
    intro X hp
    cases hs : st.chain.spent X with
    | none => rfl
    | some sp => obtain ⟨_, hp', h1, _⟩ := hi.spentOk X sp hs; rw [hp, hnone] at h1; cases h1
  have hhit_par : ∀ X, secondHits W k X = true → parentOf X = .commit := by
    intro X hh; obtain ⟨v, rfl, _⟩ := secondHits_true hh; rfl
  have hhit_unspent : ∀ X, secondHits W k X = true → st.chain.spent X = none := by
    intro X hh; obtain ⟨v, rfl, hv⟩ := secondHits_true hh; exact hun v hv
  obtain ⟨hcm, hcme⟩ := Option.isSome_iff_exists.1 hc
  have hcmle : hcm ≤ h := by have := hi.confLe _ _ hcme; omega
  constructor
  · -- created
    intro X c' hc'
    obtain ⟨c, hr, rfl⟩ := markSpent_some hc'
    have hcr : (W.kindOf X).isSome ∧
        (if parentOf X = .second k then some h else st.chain.conf (parentOf X)) = some c.created := by
      rcases regClaims_some hr with ho | ⟨hp, _, kd, hk, rfl⟩
      · have := hi.created X c ho
        refine ⟨this.1, ?_⟩
        by_cases hp : parentOf X = .second k
        · rw [hnc X hp] at ho; cases ho
        · rw [if_neg hp]; exact this.2
      · refine ⟨by rw [hk]; rfl, ?_⟩
        rw [if_pos hp, creationHeight_eq]
    refine ⟨hcr.1, ?_⟩
    by_cases hh : secondHits W k X = true
    · simp only [hh, if_true]; exact hcr.2
    · simp only [hh]; exact hcr.2
  · -- spent
    intro X c' hc'
    obtain ⟨c, hr, rfl⟩ := markSpent_some hc'
    by_cases hh : secondHits W k X = true
    · refine ⟨by simp [hh], fun sp hs => ?_⟩
      simp only [hh, if_true, Option.some.injEq] at hs
      rw [← hs]
    · simp only [hh]
      rcases regClaims_some hr with ho | ⟨hp, _, kd, hk, rfl⟩
      · have := hi.spent X c ho
        exact ⟨by simpa using this.1, fun sp hs => this.2 sp (by simpa using hs)⟩
      · refine ⟨by simp [hns X hp], fun sp hs => ?_⟩
        simp only [Bool.false_eq_true, if_false] at hs
        rw [hns X hp] at hs; cases hs
  · -- cover
    intro X hk hconf
    simp only at hconf
    by_cases hp : parentOf X = .second k
    · left
      rw [markSpent_isSome]
      exact regClaims_isSome hp hk
    · rw [if_neg hp] at hconf
      rcases hi.cover X hk hconf with hcl | ⟨sp, hs, hf⟩
      · left
        rw [markSpent_isSome]
        exact regClaims_isSome_of_old hcl
      · right
        by_cases hh : secondHits W k X = true
        · rw [hhit_unspent X hh] at hs; cases hs
        · exact ⟨sp, by simp [hh, hs], hf⟩
  · -- confLe
    intro p s hs
    simp only at hs
    by_cases hp : p = .second k
    · rw [if_pos hp] at hs; cases hs; simp only; omega
    · rw [if_neg hp] at hs; exact hi.confLe p s hs
  · -- spentOk
    intro X sp hs
    simp only at hs
    by_cases hh : secondHits W k X = true
    · rw [if_pos hh] at hs
      cases hs
      refine ⟨by simp only; omega, hcm, ?_, hcmle⟩
      simp only [hhit_par X hh]
      rw [if_neg (by intro e; cases e)]; exact hcme
    · rw [if_neg hh] at hs
      obtain ⟨h1, hp, h2, h3⟩ := hi.spentOk X sp hs
      refine ⟨h1, hp, ?_, h3⟩
      simp only
      by_cases hpk : parentOf X = .second k
      · rw [hpk, hnone] at h2; cases h2
      · rw [if_neg hpk]; exact h2
  · -- secondOk
    intro j s hs
    simp only at hs ⊢
    rw [if_neg (by intro e; cases e)]
    by_cases hj : Parent.second j = Parent.second k
    · rw [if_pos hj] at hs; cases hs; exact ⟨hcm, hcme, hcmle⟩
    · rw [if_neg hj] at hs; exact hi.secondOk j s hs
  · -- cheater
    intro X sp hs hb
    simp only at hs ⊢
    by_cases hh : secondHits W k X = true
    · rw [if_pos hh] at hs
      cases hs
      obtain ⟨v, rfl, hv⟩ := secondHits_true hh
      exact ⟨k, v, rfl, hv, by simp⟩
    · rw [if_neg hh] at hs
      obtain ⟨k', v, hx, hv, hck⟩ := hi.cheater X sp hs hb
      refine ⟨k', v, hx, hv, ?_⟩
      by_cases hkk : Parent.second k' = Parent.second k
      · rw [hkk, hnone] at hck; cases hck
      · rw [if_neg hkk]; exact hck
  · -- watched
    intro p s hs
    simp only at hs ⊢
    by_cases hp : p = .second k
    · rw [if_pos hp]
    · rw [if_neg hp] at hs ⊢; exact hi.watched p s hs

theorem inv_apply_justice {W : World} {st : St} {h : Nat} {ops : List Outpoint} (hi : Inv W st) (htip : st.chain.tip = h)
    (hok : ∀ X, X ∈ ops → (st.chain.conf (parentOf X)).isSome ∧ st.chain.spent X = none) :
    Inv W { chain := { st.chain with spent := fun X => if ops.contains X then some ⟨h, true, false⟩ else st.chain.spent X },
            claim := markSpent h (fun X => ops.contains X) st.claim,
            seen := st.seen } := by
  constructor
  · intro X c' hc'
    obtain ⟨c, ho, rfl⟩ := markSpent_some hc'
    have := hi.created X c ho
    by_cases hh : X ∈ ops
    · simp only [List.contains_eq_mem, hh, decide_true, if_true]; exact this
    · simp only [List.contains_eq_mem, hh, decide_false]; exact this
  · intro X c' hc'
    obtain ⟨c, ho, rfl⟩ := markSpent_some hc'
    by_cases hh : X ∈ ops
    · refine ⟨by simp [hh], fun sp hs => ?_⟩
      simp only [List.contains_eq_mem, hh, decide_true, if_true, Option.some.injEq] at hs
      rw [← hs]
    · have := hi.spent X c ho
      refine ⟨by simpa [hh] using this.1, fun sp hs => this.2 sp (by simpa [hh] using hs)⟩
  · intro X hk hconf
    rcases hi.cover X hk hconf with hcl | ⟨sp, hs, hf⟩
    · left; rw [markSpent_isSome]; exact hcl
    · right
      by_cases hh : X ∈ ops
      · rw [(hok X hh).2] at hs; cases hs
      · exact ⟨sp, by simp [hh, hs], hf⟩
  · exact hi.confLe
  · intro X sp hs
    simp only at hs
    by_cases hh : X ∈ ops
    · simp only [List.contains_eq_mem, hh, decide_true, if_true, Option.some.injEq] at hs
      subst hs
      obtain ⟨hp, hpe⟩ := Option.isSome_iff_exists.1 (hok X hh).1
      exact ⟨by simp only; omega, hp, hpe, by have := hi.confLe _ _ hpe; simp only; omega⟩
    · simp only [List.contains_eq_mem, hh, decide_false, Bool.false_eq_true, if_false] at hs
      exact hi.spentOk X sp hs
  · exact hi.secondOk
  · intro X sp hs hb
    simp only at hs
    by_cases hh : X ∈ ops
    · simp only [List.contains_eq_mem, hh, decide_true, if_true, Option.some.injEq] at hs
      subst hs; cases hb
    · simp only [List.contains_eq_mem, hh, decide_false, Bool.false_eq_true, if_false] at hs
      exact hi.cheater X sp hs hb
  · exact hi.watched

theorem inv_applyTx {W : World} {st st' : St} {h : Nat} {t : BTx} (hi : Inv W st) (htip : st.chain.tip = h)
    (ha : applyTx W h st t = some st') : Inv W st' ∧ st'.chain.tip = h := by
  cases t with
  | commit =>
    simp only [applyTx] at ha
    split at ha
    · rename_i hn
      cases ha
      exact ⟨inv_apply_commit hi htip hn, htip⟩
    · cases ha
  | second k =>
    simp only [applyTx] at ha
    split at ha
    · rename_i hcond
      simp only [Bool.and_eq_true, decide_eq_true_eq, Option.isNone_iff_eq_none, List.all_eq_true] at hcond
      obtain ⟨⟨⟨⟨_, _⟩, h2⟩, h3⟩, h4⟩ := hcond
      cases ha
      exact ⟨inv_apply_second hi htip h2 h3 h4, htip⟩
    · cases ha
  | justice ops =>
    simp only [applyTx] at ha
    split at ha
    · rename_i hcond
      simp only [List.all_eq_true, Bool.and_eq_true, Option.isNone_iff_eq_none] at hcond
      cases ha
      exact ⟨inv_apply_justice hi htip hcond, htip⟩
    · cases ha

theorem inv_applyTxs {W : World} {h : Nat} (txs : List BTx) {st st' : St} (hi : Inv W st) (htip : st.chain.tip = h)
    (ha : applyTxs W h st txs = some st') : Inv W st' ∧ st'.chain.tip = h := by
  induction txs generalizing st with
  | nil => simp only [applyTxs, Option.some.injEq] at ha; subst ha; exact ⟨hi, htip⟩
  | cons t rest ih =>
    simp only [applyTxs] at ha
    cases hs : applyTx W h st t with
    | none => rw [hs] at ha; cases ha
    | some st1 =>
      rw [hs] at ha
      obtain ⟨hi1, ht1⟩ := inv_applyTx hi htip hs
      exact ih hi1 ht1 ha

/-! ### maturity, bumps, a whole block -/

theorem mature_claim_some {h : Nat} {st : St} {X : Outpoint} {c : Claim} (hm : (mature h st).claim X = some c) :
    st.claim X = some c ∧ ∀ s, c.spentAt = some s → handlerThresholdReached s h = false := by
  simp only [mature] at hm
  cases hc : st.claim X with
  | none => rw [hc] at hm; cases hm
  | some c0 =>
    rw [hc] at hm
    cases hs : c0.spentAt with
    | none =>
      simp only [hs, Option.some.injEq] at hm
      subst hm
      exact ⟨rfl, fun s h' => by rw [hs] at h'; cases h'⟩
    | some s0 =>
      simp only [hs] at hm
      by_cases hr : handlerThresholdReached s0 h = true
      · rw [if_pos hr] at hm; cases hm
      · rw [if_neg hr] at hm
        simp only [Option.some.injEq] at hm
        subst hm
        refine ⟨rfl, fun s h' => ?_⟩
        rw [hs] at h'; cases h'
        simpa using hr

theorem mature_claim_of {h : Nat} {st : St} {X : Outpoint} {c : Claim} (hc : st.claim X = some c) :
    (mature h st).claim X = some c ∨ ((mature h st).claim X = none ∧ ∃ s, c.spentAt = some s ∧ handlerThresholdReached s h = true) := by
  simp only [mature, hc]
  cases hs : c.spentAt with
  | none => left; rfl
  | some s =>
    by_cases hr : handlerThresholdReached s h = true
    · right; simp only [hr, if_true]; exact ⟨trivial, s, rfl, hr⟩
    · left; simp only [hr]; rfl

theorem inv_mature {W : World} {st : St} (h : Nat) (hi : Inv W st) : Inv W (mature h st) := by
  constructor
  · intro X c hc
    exact hi.created X c (mature_claim_some hc).1
  · intro X c hc
    obtain ⟨ho, hnr⟩ := mature_claim_some hc
    obtain ⟨h1, h2⟩ := hi.spent X c ho
    constructor
    · simp only [mature, Option.map_map]
      rw [h1]
      cases st.chain.spent X <;> rfl
    · intro sp' hs'
      simp only [mature] at hs'
      cases hsp : st.chain.spent X with
      | none => rw [hsp] at hs'; cases hs'
      | some sp =>
        rw [hsp] at hs'
        simp only [Option.map_some, Option.some.injEq] at hs'
        subst hs'
        have hf := h2 sp hsp
        have : c.spentAt = some sp.height := by rw [h1, hsp]; rfl
        simp [hf, hnr _ this]
  · intro X hk hconf
    rcases hi.cover X hk hconf with hcl | ⟨sp, hs, hf⟩
    · obtain ⟨c, hc⟩ := Option.isSome_iff_exists.1 hcl
      rcases mature_claim_of (h := h) hc with hk' | ⟨_, s, hs, hr⟩
      · left; rw [hk']; rfl
      · right
        obtain ⟨h1, _⟩ := hi.spent X c hc
        rw [hs] at h1
        cases hsp : st.chain.spent X with
        | none => rw [hsp] at h1; cases h1
        | some sp =>
          rw [hsp] at h1
          simp only [Option.map_some, Option.some.injEq] at h1
          refine ⟨{ sp with final := sp.final || handlerThresholdReached sp.height h }, ?_, ?_⟩
          · simp only [mature, hsp, Option.map_some]
          · simp only [← h1, hr, Bool.or_true]
    · right
      refine ⟨{ sp with final := sp.final || handlerThresholdReached sp.height h }, ?_, ?_⟩
      · simp only [mature, hs, Option.map_some]
      · simp only [hf, Bool.true_or]
  · exact hi.confLe
  · intro X sp' hs'
    simp only [mature] at hs'
    cases hsp : st.chain.spent X with
    | none => rw [hsp] at hs'; cases hs'
    | some sp =>
      rw [hsp] at hs'
      simp only [Option.map_some, Option.some.injEq] at hs'
      subst hs'
      exact hi.spentOk X sp hsp
  · exact hi.secondOk
  · intro X sp' hs' hb
    simp only [mature] at hs'
    cases hsp : st.chain.spent X with
    | none => rw [hsp] at hs'; cases hs'
    | some sp =>
      rw [hsp] at hs'
      simp only [Option.map_some, Option.some.injEq] at hs'
      subst hs'
      exact hi.cheater X sp hsp hb
  · exact hi.watched

theorem bump_claim_some {W : World} {h : Nat} {st : St} {X : Outpoint} {c' : Claim} (hb : (bump W h st).claim X = some c') :
    ∃ c, st.claim X = some c ∧ c'.created = c.created ∧ c'.spentAt = c.spentAt ∧
      (c' = c ∨ (due h c = true ∧ ∃ t, c' = { c with timer := t })) := by
  simp only [bump] at hb
  cases hc : st.claim X with
  | none => rw [hc] at hb; cases hb
  | some c =>
    rw [hc] at hb
    simp only at hb
    refine ⟨c, rfl, ?_⟩
    by_cases hd : due h c = true
    · rw [if_pos hd] at hb
      simp only [Option.some.injEq] at hb
      subst hb
      exact ⟨rfl, rfl, Or.inr ⟨hd, _, rfl⟩⟩
    · rw [if_neg hd] at hb
      simp only [Option.some.injEq] at hb
      subst hb
      exact ⟨rfl, rfl, Or.inl rfl⟩

theorem bump_isSome (W : World) (h : Nat) (st : St) (X : Outpoint) : ((bump W h st).claim X).isSome = (st.claim X).isSome := by
  simp only [bump]
  cases st.claim X with
  | none => rfl
  | some c => by_cases hd : due h c = true <;> simp [hd]

theorem inv_bump {W : World} {st : St} (h : Nat) (hi : Inv W st) : Inv W (bump W h st) := by
  constructor
  · intro X c' hc'
    obtain ⟨c, ho, h1, _, _⟩ := bump_claim_some hc'
    rw [h1]; exact hi.created X c ho
  · intro X c' hc'
    obtain ⟨c, ho, _, h2, _⟩ := bump_claim_some hc'
    rw [h2]; exact hi.spent X c ho
  · intro X hk hconf
    rcases hi.cover X hk hconf with hcl | hr
    · left; rw [bump_isSome]; exact hcl
    · right; exact hr
  · exact hi.confLe
  · exact hi.spentOk
  · exact hi.secondOk
  · exact hi.cheater
  · exact hi.watched

/-! ### the block filter: every transaction of a consistent block reaches the spend checks -/

/-- the TRANSLATED `matches` of filter_block: the transaction spends a watched output, or ANY of its inputs — whatever its
    position, whatever the other inputs are — spends a transaction matched earlier in this block -/
theorem filterMatches_iff {α : Type} [DecidableEq α] (sw : Bool) (ins matched : List α) :
    filterMatches sw ins matched = true ↔ (sw = true ∨ ∃ i, i ∈ ins ∧ i ∈ matched) := by
  simp [filterMatches, List.any_eq_true]

/-- the cheater's transactions confirmed so far were watched before the block or have been matched in it -/
def BlockOk (st : St) (seen0 : Parent → Bool) (matched : List TxRef) : Prop :=
  ∀ p s, st.chain.conf p = some s → seen0 p = true ∨ TxRef.tx p ∈ matched

theorem second_mem_inputs {W : World} {k v : Nat} (hv : v ∈ W.second k) : some v ∈ W.inputsOf k := by
  unfold World.second World.seconds at hv
  unfold World.inputsOf
  rw [List.getElem?_map] at hv
  cases hi : W.inputs[k]? with
  | none => rw [hi] at hv; simp at hv
  | some t =>
    rw [hi] at hv
    simp only [Option.map_some, Option.getD_some, List.mem_filterMap, id_eq] at hv
    obtain ⟨a, ha, rfl⟩ := hv
    simpa using ha

theorem matched_of_parent {W : World} {seen0 : Parent → Bool} {matched : List TxRef} {t : BTx} {p : Parent}
    (hin : TxRef.tx p ∈ inputRefs W t) (hp : seen0 p = true ∨ TxRef.tx p ∈ matched) :
    filterMatches (spendsWatched W seen0 t) (inputRefs W t) matched = true := by
  rw [filterMatches_iff]
  rcases hp with hs | hm
  · left
    unfold spendsWatched
    rw [List.any_eq_true]
    exact ⟨.tx p, hin, hs⟩
  · right; exact ⟨.tx p, hin, hm⟩

theorem applyTx_justice_nil {W : World} {h : Nat} {st st' : St} (ha : applyTx W h st (.justice []) = some st') : st' = st := by
  simp only [applyTx, List.all_nil, if_true, Option.some.injEq] at ha
  subst ha
  have h1 : markSpent h (fun X => ([] : List Outpoint).contains X) st.claim = st.claim := by
    funext X
    simp only [markSpent, List.contains_nil, Bool.false_eq_true, if_false]
    cases st.claim X <;> rfl
  have h2 : (fun X => if ([] : List Outpoint).contains X = true then some (⟨h, true, false⟩ : Spend) else st.chain.spent X) = st.chain.spent := by
    funext X; simp
  rw [h1, h2]

/-- every transaction the model accepts in a block passes the filter (an input-less victim transaction aside, which does nothing) -/
theorem valid_tx_matched {W : World} {h : Nat} {st st' : St} {seen0 : Parent → Bool} {matched : List TxRef} {t : BTx}
    (hbo : BlockOk st seen0 matched) (ha : applyTx W h st t = some st') :
    filterMatches (spendsWatched W seen0 t) (inputRefs W t) matched = true ∨ t = .justice [] := by
  cases t with
  | commit =>
    left
    rw [filterMatches_iff]
    left
    simp [spendsWatched, inputRefs]
  | second k =>
    left
    simp only [applyTx] at ha
    split at ha
    · rename_i hcond
      simp only [Bool.and_eq_true, decide_eq_true_eq, Bool.not_eq_true', List.isEmpty_eq_false_iff] at hcond
      obtain ⟨⟨⟨⟨_, hne⟩, _⟩, hc⟩, _⟩ := hcond
      obtain ⟨hcm, hcme⟩ := Option.isSome_iff_exists.1 hc
      obtain ⟨v, hv⟩ := List.exists_mem_of_ne_nil _ hne
      have hin : TxRef.tx .commit ∈ inputRefs W (.second k) := by
        simp only [inputRefs, List.mem_map]
        exact ⟨some v, second_mem_inputs hv, rfl⟩
      exact matched_of_parent hin (hbo .commit hcm hcme)
    · cases ha
  | justice ops =>
    cases ops with
    | nil => right; rfl
    | cons X rest =>
      left
      simp only [applyTx] at ha
      split at ha
      · rename_i hcond
        simp only [List.all_cons, Bool.and_eq_true] at hcond
        obtain ⟨hp, hpe⟩ := Option.isSome_iff_exists.1 hcond.1.1
        have hin : TxRef.tx (parentOf X) ∈ inputRefs W (.justice (X :: rest)) := by
          simp [inputRefs]
        exact matched_of_parent hin (hbo _ hp hpe)
      · cases ha

theorem applyTx_conf {W : World} {h : Nat} {st st' : St} {t : BTx} (ha : applyTx W h st t = some st') (p : Parent) (s : Nat)
    (hs : st'.chain.conf p = some s) : selfRef t = .tx p ∨ st.chain.conf p = some s := by
  cases t with
  | commit =>
    simp only [applyTx] at ha
    split at ha
    · cases ha
      simp only at hs
      by_cases hp : p = .commit
      · left; rw [hp]; rfl
      · rw [if_neg hp] at hs; right; exact hs
    · cases ha
  | second k =>
    simp only [applyTx] at ha
    split at ha
    · cases ha
      simp only at hs
      by_cases hp : p = .second k
      · left; rw [hp]; rfl
      · rw [if_neg hp] at hs; right; exact hs
    · cases ha
  | justice ops =>
    simp only [applyTx] at ha
    split at ha
    · cases ha; right; exact hs
    · cases ha

theorem blockOk_step {W : World} {h : Nat} {st st' : St} {seen0 : Parent → Bool} {matched : List TxRef} {t : BTx}
    (hbo : BlockOk st seen0 matched) (ha : applyTx W h st t = some st') : BlockOk st' seen0 (selfRef t :: matched) := by
  intro p s hs
  rcases applyTx_conf ha p s hs with hself | hold
  · right; rw [hself]; exact List.mem_cons_self
  · rcases hbo p s hold with h1 | h2
    · left; exact h1
    · right; exact List.mem_cons_of_mem _ h2

/-- **the filter loses nothing**: on a consistent block, filtering first (with the outputs watched before the block) and
    processing the matched transactions is the same as processing every transaction -/
theorem applyBlock_eq {W : World} {h : Nat} {seen0 : Parent → Bool} (txs : List BTx) {st : St} {matched : List TxRef}
    (hbo : BlockOk st seen0 matched) : applyBlock W h seen0 st matched txs = applyTxs W h st txs := by
  induction txs generalizing st matched with
  | nil => rfl
  | cons t rest ih =>
    simp only [applyBlock, applyTxs]
    cases ha : applyTx W h st t with
    | none => simp [skipTx, ha]
    | some st1 =>
      rcases valid_tx_matched hbo ha with hm | hnil
      · simp only [hm, if_true, ha]
        exact ih (blockOk_step hbo ha)
      · subst hnil
        have hst : st1 = st := applyTx_justice_nil ha
        subst hst
        by_cases hm : filterMatches (spendsWatched W seen0 (.justice [])) (inputRefs W (.justice [])) matched = true
        · simp only [hm, if_true, ha]
          exact ih (blockOk_step hbo ha)
        · simp only [hm, skipTx, ha, Option.map_some]
          exact ih hbo

theorem connect_eq_all {W : World} {st : St} (hi : Inv W st) (txs : List BTx) : connect W st txs = connectAll W st txs := by
  have hbo : BlockOk { st with chain := { st.chain with tip := st.chain.tip + 1 } } st.seen [] :=
    fun p s hs => Or.inl (hi.watched p s hs)
  simp only [connect, connectAll, applyBlock_eq txs hbo]

theorem connect_some {W : World} {st st' : St} {txs : List BTx} {bc : List Outpoint} (hi : Inv W st) (hc : connect W st txs = some (st', bc)) :
    ∃ st1, applyTxs W (st.chain.tip + 1) { st with chain := { st.chain with tip := st.chain.tip + 1 } } txs = some st1 ∧
      st' = bump W (st.chain.tip + 1) (mature (st.chain.tip + 1) st1) := by
  rw [connect_eq_all hi] at hc
  simp only [connectAll] at hc
  cases ha : applyTxs W (st.chain.tip + 1) { st with chain := { st.chain with tip := st.chain.tip + 1 } } txs with
  | none => rw [ha] at hc; cases hc
  | some st1 =>
    rw [ha] at hc
    simp only [Option.some.injEq, Prod.mk.injEq] at hc
    exact ⟨st1, rfl, hc.1.symm⟩

theorem inv_connect {W : World} {st st' : St} {txs : List BTx} {bc : List Outpoint} (hi : Inv W st)
    (hc : connect W st txs = some (st', bc)) : Inv W st' ∧ st'.chain.tip = st.chain.tip + 1 := by
  obtain ⟨st1, ha, rfl⟩ := connect_some hi hc
  obtain ⟨hi1, ht1⟩ := inv_applyTxs txs (inv_raise hi (st.chain.tip + 1) (by omega)) rfl ha
  exact ⟨inv_bump _ (inv_mature _ hi1), by simpa [bump, mature] using ht1⟩

/-! ### disconnection -/

theorem finalKept_spent {W : World} {st : St} {n : Nat} (hk : finalKept W st n = true) {X : Outpoint} (hx : X ∈ W.allOutpoints)
    {sp : Spend} (hs : st.chain.spent X = some sp) (hf : sp.final = true) : sp.height ≤ n := by
  simp only [finalKept, Bool.and_eq_true, List.all_eq_true] at hk
  have := hk.1 X hx
  rw [hs] at this
  simpa [hf] using this

/-- the claim bookkeeping after `OnchainTxHandler::blocks_disconnected(n)` -/
def afterDisconnect (n : Nat) (cl : Outpoint → Option Claim) : Outpoint → Option Claim := fun X =>
  match cl X with
  | some c =>
    if n < c.created then none
    else (match c.spentAt with
      | some s => if n < s then some { c with spentAt := none, timer := 0 } else some c
      | none => some c)
  | none => none

theorem disconnect_some {W : World} {st st' : St} {n : Nat} {bc : List Outpoint} (hd : disconnect W st n = some (st', bc)) :
    n < st.chain.tip ∧ finalKept W st n = true ∧ bc = [] ∧
    st' = { chain := { tip := n, pfinal := st.chain.pfinal,
                       conf := fun p => match st.chain.conf p with | some s => if n < s then none else some s | none => none,
                       spent := fun X => match st.chain.spent X with | some sp => if n < sp.height then none else some sp | none => none },
            claim := afterDisconnect n st.claim, seen := st.seen } := by
  simp only [disconnect] at hd
  split at hd
  · rename_i hcond
    simp only [Bool.and_eq_true, decide_eq_true_eq] at hcond
    simp only [Option.some.injEq, Prod.mk.injEq] at hd
    refine ⟨hcond.1, hcond.2, hd.2.symm, ?_⟩
    rw [← hd.1]
    congr 1
    funext X
    simp only [afterDisconnect, monitorDisconnectNewBest]
    cases st.claim X with
    | none => rfl
    | some c =>
      simp only [claimDropped, awaitingDropped, gt_iff_lt, decide_eq_true_eq]
      rfl
  · cases hd

theorem afterDisconnect_some {n : Nat} {cl : Outpoint → Option Claim} {X : Outpoint} {c' : Claim}
    (ha : afterDisconnect n cl X = some c') :
    ∃ c, cl X = some c ∧ c.created ≤ n ∧ c'.created = c.created ∧
      ((∃ s, c.spentAt = some s ∧ n < s ∧ c'.spentAt = none ∧ c'.timer = 0) ∨
       (c' = c ∧ ∀ s, c.spentAt = some s → s ≤ n)) := by
  simp only [afterDisconnect] at ha
  cases hc : cl X with
  | none => rw [hc] at ha; cases ha
  | some c =>
    rw [hc] at ha
    simp only at ha
    by_cases hcr : n < c.created
    · rw [if_pos hcr] at ha; cases ha
    · rw [if_neg hcr] at ha
      refine ⟨c, rfl, by omega, ?_⟩
      cases hs : c.spentAt with
      | none =>
        simp only [hs, Option.some.injEq] at ha
        subst ha
        exact ⟨rfl, Or.inr ⟨rfl, fun s h' => by cases h'⟩⟩
      | some s =>
        simp only [hs] at ha
        by_cases hsn : n < s
        · rw [if_pos hsn] at ha
          simp only [Option.some.injEq] at ha
          subst ha
          exact ⟨rfl, Or.inl ⟨s, rfl, hsn, rfl, rfl⟩⟩
        · rw [if_neg hsn] at ha
          simp only [Option.some.injEq] at ha
          subst ha
          exact ⟨rfl, Or.inr ⟨rfl, fun s' h' => by cases h'; omega⟩⟩

theorem afterDisconnect_kept {n : Nat} {cl : Outpoint → Option Claim} {X : Outpoint} {c : Claim}
    (hc : cl X = some c) (hle : c.created ≤ n) : ∃ c', afterDisconnect n cl X = some c' ∧ c'.created = c.created := by
  simp only [afterDisconnect, hc]
  rw [if_neg (by omega)]
  cases hs : c.spentAt with
  | none => exact ⟨c, rfl, rfl⟩
  | some s =>
    simp only
    by_cases hsn : n < s
    · rw [if_pos hsn]; exact ⟨_, rfl, rfl⟩
    · rw [if_neg hsn]; exact ⟨c, rfl, rfl⟩

theorem afterDisconnect_dropped {n : Nat} {cl : Outpoint → Option Claim} {X : Outpoint} {c : Claim}
    (hc : cl X = some c) (hlt : n < c.created) : afterDisconnect n cl X = none := by
  simp only [afterDisconnect, hc, hlt, if_true]

theorem inv_disconnect {W : World} {st st' : St} {n : Nat} {bc : List Outpoint} (hi : Inv W st)
    (hd : disconnect W st n = some (st', bc)) : Inv W st' ∧ st'.chain.tip = n := by
  obtain ⟨hn, hk, _, rfl⟩ := disconnect_some hd
  refine ⟨?_, rfl⟩
  constructor
  · intro X c' hc'
    obtain ⟨c, ho, hle, hcr, _⟩ := afterDisconnect_some hc'
    obtain ⟨h1, h2⟩ := hi.created X c ho
    refine ⟨h1, ?_⟩
    simp only [h2, hcr]
    rw [if_neg (by omega)]
  · intro X c' hc'
    obtain ⟨c, ho, hle, hcr, hcase⟩ := afterDisconnect_some hc'
    obtain ⟨h1, h2⟩ := hi.spent X c ho
    rcases hcase with ⟨s, hs, hsn, hs', _⟩ | ⟨rfl, hall⟩
    · rw [hs] at h1
      cases hsp : st.chain.spent X with
      | none => rw [hsp] at h1; cases h1
      | some sp =>
        rw [hsp] at h1
        simp only [Option.map_some, Option.some.injEq] at h1
        simp only [hsp, hs']
        rw [if_pos (by omega)]
        exact ⟨rfl, fun sp' h' => by cases h'⟩
    · cases hsp : st.chain.spent X with
      | none =>
        simp only [hsp]
        rw [hsp] at h1
        exact ⟨h1, fun sp' h' => by cases h'⟩
      | some sp =>
        rw [hsp] at h1
        simp only [Option.map_some] at h1
        have := hall sp.height h1
        simp only [hsp]
        rw [if_neg (by omega)]
        exact ⟨h1, fun sp' h' => by cases h'; exact h2 sp hsp⟩
  · intro X hkind hconf
    simp only at hconf
    cases hp : st.chain.conf (parentOf X) with
    | none => rw [hp] at hconf; cases hconf
    | some hpar =>
      rw [hp] at hconf
      simp only at hconf
      have hle : hpar ≤ n := by
        by_cases hh : n < hpar
        · rw [if_pos hh] at hconf; cases hconf
        · omega
      rcases hi.cover X hkind (by rw [hp]; rfl) with hcl | ⟨sp, hs, hf⟩
      · left
        obtain ⟨c, hc⟩ := Option.isSome_iff_exists.1 hcl
        have hcc := (hi.created X c hc).2
        rw [hp] at hcc
        simp only [Option.some.injEq] at hcc
        obtain ⟨c', hc', _⟩ := afterDisconnect_kept (n := n) hc (by omega)
        show (afterDisconnect n st.claim X).isSome = true
        rw [hc']; rfl
      · right
        have := finalKept_spent hk (kindOf_isSome_mem hkind) hs hf
        refine ⟨sp, ?_, hf⟩
        simp only [hs]
        rw [if_neg (by omega)]
  · intro p s hs
    simp only at hs ⊢
    cases hp : st.chain.conf p with
    | none => rw [hp] at hs; cases hs
    | some s0 =>
      rw [hp] at hs
      simp only at hs
      by_cases hh : n < s0
      · rw [if_pos hh] at hs; cases hs
      · rw [if_neg hh] at hs; cases hs; omega
  · intro X sp hs
    simp only at hs ⊢
    cases hsp : st.chain.spent X with
    | none => rw [hsp] at hs; cases hs
    | some sp0 =>
      rw [hsp] at hs
      simp only at hs
      by_cases hh : n < sp0.height
      · rw [if_pos hh] at hs; cases hs
      · rw [if_neg hh] at hs
        have hs' := Option.some.inj hs; subst hs'
        obtain ⟨_, hp, h1, h2⟩ := hi.spentOk X sp0 hsp
        refine ⟨by omega, hp, ?_, h2⟩
        rw [h1]; simp only
        rw [if_neg (by omega)]
  · intro k s hs
    simp only at hs ⊢
    cases hp : st.chain.conf (.second k) with
    | none => rw [hp] at hs; cases hs
    | some s0 =>
      rw [hp] at hs
      simp only at hs
      by_cases hh : n < s0
      · rw [if_pos hh] at hs; cases hs
      · rw [if_neg hh] at hs
        have hs' := Option.some.inj hs; subst hs'
        obtain ⟨hc, h1, h2⟩ := hi.secondOk k s0 hp
        refine ⟨hc, ?_, h2⟩
        rw [h1]; simp only
        rw [if_neg (by omega)]
  · intro X sp hs hb
    simp only at hs ⊢
    cases hsp : st.chain.spent X with
    | none => rw [hsp] at hs; cases hs
    | some sp0 =>
      rw [hsp] at hs
      simp only at hs
      by_cases hh : n < sp0.height
      · rw [if_pos hh] at hs; cases hs
      · rw [if_neg hh] at hs
        have hs' := Option.some.inj hs; subst hs'
        obtain ⟨k, v, hx, hv, hck⟩ := hi.cheater X sp0 hsp hb
        refine ⟨k, v, hx, hv, ?_⟩
        rw [hck]; simp only
        rw [if_neg hh]
  · intro p s hs
    simp only at hs ⊢
    cases hp : st.chain.conf p with
    | none => rw [hp] at hs; cases hs
    | some s0 => exact hi.watched p s0 hp

/-! ### histories -/

theorem inv_step {W : World} {st st' : St} {o : Op} {bc : List Outpoint} (hi : Inv W st)
    (hs : step W st o = some (st', bc)) : Inv W st' := by
  cases o with
  | connect txs => exact (inv_connect hi hs).1
  | disconnect n => exact (inv_disconnect hi hs).1
  | rebroadcast => simp only [step, Option.some.injEq, Prod.mk.injEq] at hs; rw [← hs.1]; exact hi
  | reload => simp only [step, Option.some.injEq, Prod.mk.injEq] at hs; rw [← hs.1]; exact hi

theorem inv_run {W : World} (ops : List Op) {st st' : St} (hi : Inv W st) (hr : run W st ops = some st') : Inv W st' := by
  induction ops generalizing st with
  | nil => simp only [run, Option.some.injEq] at hr; subst hr; exact hi
  | cons o rest ih =>
    simp only [run] at hr
    cases hs : step W st o with
    | none => rw [hs] at hr; cases hr
    | some r =>
      obtain ⟨st1, bc⟩ := r
      rw [hs] at hr
      exact ih (inv_step hi hs) hr

/-! ### re-issue at timer expiry -/

/-- what a block's transactions do to the claim map: nothing is removed, timers / creation heights of existing claims are
    kept, a new claim starts with a timer in `(h, h + LOW_FREQUENCY_BUMP_INTERVAL]` -/
structure Grows (h : Nat) (a b : Outpoint → Option Claim) : Prop where
  old : ∀ X c, a X = some c → ∃ c', b X = some c' ∧ c'.timer = c.timer ∧ c'.created = c.created
  new : ∀ X c', a X = none → b X = some c' → h < c'.timer ∧ c'.timer ≤ h + LOW_FREQUENCY_BUMP_INTERVAL

theorem Grows.refl (h : Nat) (a : Outpoint → Option Claim) : Grows h a a :=
  ⟨fun _ c hc => ⟨c, hc, rfl, rfl⟩, fun _ c' hn hs => by rw [hn] at hs; cases hs⟩

theorem Grows.trans {h : Nat} {a b c : Outpoint → Option Claim} (h1 : Grows h a b) (h2 : Grows h b c) : Grows h a c := by
  constructor
  · intro X ca hca
    obtain ⟨cb, hcb, t1, r1⟩ := h1.old X ca hca
    obtain ⟨cc, hcc, t2, r2⟩ := h2.old X cb hcb
    exact ⟨cc, hcc, by rw [t2, t1], by rw [r2, r1]⟩
  · intro X cc hna hcc
    cases hb : b X with
    | none => exact h2.new X cc hb hcc
    | some cb =>
      obtain ⟨cc', hcc', t2, _⟩ := h2.old X cb hb
      rw [hcc] at hcc'
      cases hcc'
      rw [t2]
      exact h1.new X cb hna hb

theorem grows_markSpent (h h' : Nat) (hit : Outpoint → Bool) (cl : Outpoint → Option Claim) : Grows h cl (markSpent h' hit cl) := by
  constructor
  · intro X c hc
    simp only [markSpent, hc]
    by_cases hh : hit X = true
    · rw [if_pos hh]; exact ⟨_, rfl, rfl, rfl⟩
    · rw [if_neg hh]; exact ⟨_, rfl, rfl, rfl⟩
  · intro X c' hn hs
    rw [markSpent_none hn] at hs; cases hs

theorem grows_regClaims (W : World) (h : Nat) (p : Parent) (cl : Outpoint → Option Claim) : Grows h cl (regClaims W h p cl) := by
  constructor
  · intro X c hc
    refine ⟨c, ?_, rfl, rfl⟩
    unfold regClaims
    by_cases hp : parentOf X = p
    · simp only [hp, if_true, hc]
    · simp only [hp, if_false, hc]
  · intro X c' hn hs
    rcases regClaims_some hs with ho | ⟨_, _, kd, _, rfl⟩
    · rw [hn] at ho; cases ho
    · exact nextTimer_bounds W kd h h

theorem grows_applyTx {W : World} {st st' : St} {h : Nat} {t : BTx} (ha : applyTx W h st t = some st') :
    Grows h st.claim st'.claim := by
  cases t with
  | commit =>
    simp only [applyTx] at ha
    split at ha
    · cases ha; exact grows_regClaims W h .commit st.claim
    · cases ha
  | second k =>
    simp only [applyTx] at ha
    split at ha
    · cases ha; exact (grows_regClaims W h (.second k) st.claim).trans (grows_markSpent h h _ _)
    · cases ha
  | justice ops =>
    simp only [applyTx] at ha
    split at ha
    · cases ha; exact grows_markSpent h h _ _
    · cases ha

theorem grows_applyTxs {W : World} {h : Nat} (txs : List BTx) {st st' : St} (ha : applyTxs W h st txs = some st') :
    Grows h st.claim st'.claim := by
  induction txs generalizing st with
  | nil => simp only [applyTxs, Option.some.injEq] at ha; subst ha; exact Grows.refl h _
  | cons t rest ih =>
    simp only [applyTxs] at ha
    cases hs : applyTx W h st t with
    | none => rw [hs] at ha; cases ha
    | some st1 => rw [hs] at ha; exact (grows_applyTx hs).trans (ih ha)

theorem connect_bc {W : World} {st st' : St} {txs : List BTx} {bc : List Outpoint} (hi : Inv W st) (hc : connect W st txs = some (st', bc)) :
    ∃ st1, applyTxs W (st.chain.tip + 1) { st with chain := { st.chain with tip := st.chain.tip + 1 } } txs = some st1 ∧
      st' = bump W (st.chain.tip + 1) (mature (st.chain.tip + 1) st1) ∧
      bc = W.allOutpoints.filter fun X =>
        match (mature (st.chain.tip + 1) st1).claim X with
        | some c => c.spentAt.isNone && ((st.claim X).isNone || timerExpired (st.chain.tip + 1) c.timer)
        | none => false := by
  rw [connect_eq_all hi] at hc
  simp only [connectAll] at hc
  cases ha : applyTxs W (st.chain.tip + 1) { st with chain := { st.chain with tip := st.chain.tip + 1 } } txs with
  | none => rw [ha] at hc; cases hc
  | some st1 =>
    rw [ha] at hc
    simp only [Option.some.injEq, Prod.mk.injEq] at hc
    exact ⟨st1, rfl, hc.1.symm, hc.2.symm⟩

/-- after a block: every claim without a confirmed spend has its timer in the future; the new ones and those whose timer
    had expired were re-issued (are in the broadcast list) and their next timer is at most LOW_FREQUENCY_BUMP_INTERVAL away -/
theorem connect_reissue {W : World} {st st' : St} {txs : List BTx} {bc : List Outpoint} (hi : Inv W st)
    (hc : connect W st txs = some (st', bc)) (X : Outpoint) (c' : Claim) (hx : st'.claim X = some c') (hs : c'.spentAt = none) :
    st'.chain.tip < c'.timer ∧
    ((st.claim X = none ∨ ∃ c, st.claim X = some c ∧ c.timer ≤ st'.chain.tip) →
        X ∈ bc ∧ c'.timer ≤ st'.chain.tip + LOW_FREQUENCY_BUMP_INTERVAL) := by
  obtain ⟨st1, ha, rfl, rfl⟩ := connect_bc hi hc
  have htip' : (bump W (st.chain.tip + 1) (mature (st.chain.tip + 1) st1)).chain.tip = st.chain.tip + 1 := (inv_connect hi hc).2
  obtain ⟨hi1, _⟩ := inv_applyTxs txs (inv_raise hi (st.chain.tip + 1) (by omega)) rfl ha
  have him := inv_mature (st.chain.tip + 1) hi1
  have hg := grows_applyTxs txs ha
  obtain ⟨c2, hc2, hcr, hsp, hcase⟩ := bump_claim_some hx
  have hc1 := (mature_claim_some hc2).1
  have hk := (him.created X c2 hc2).1
  have hmem := kindOf_isSome_mem hk
  have hs2 : c2.spentAt = none := by rw [← hsp]; exact hs
  rw [htip']
  -- the timer after the block
  have htimer : st.chain.tip + 1 < c'.timer ∧ (due (st.chain.tip + 1) c2 = true → c'.timer ≤ st.chain.tip + 1 + LOW_FREQUENCY_BUMP_INTERVAL) := by
    rcases hcase with rfl | ⟨hd, t, rfl⟩
    · constructor
      · cases hdue : due (st.chain.tip + 1) c' with
        | false =>
          simp only [due, hs2, Option.isNone_none, Bool.true_and, timerExpired_false_iff] at hdue
          omega
        | true =>
          -- a due claim is bumped, so it cannot be unchanged unless the new timer equals the old: use the bump definition
          simp only [bump, hc2, hdue, if_true, Option.some.injEq] at hx
          obtain ⟨kd, hkd⟩ := Option.isSome_iff_exists.1 hk
          have hb := nextTimer_bounds W kd c'.created (st.chain.tip + 1)
          have : c'.timer = nextTimer W kd c'.created (st.chain.tip + 1) := by
            have := congrArg Claim.timer hx
            simp only [hkd] at this
            exact this.symm
          omega
      · intro hdue
        simp only [bump, hc2, hdue, if_true, Option.some.injEq] at hx
        obtain ⟨kd, hkd⟩ := Option.isSome_iff_exists.1 hk
        have hb := nextTimer_bounds W kd c'.created (st.chain.tip + 1)
        have : c'.timer = nextTimer W kd c'.created (st.chain.tip + 1) := by
          have := congrArg Claim.timer hx
          simp only [hkd] at this
          exact this.symm
        omega
    · simp only [bump, hc2, hd, if_true, Option.some.injEq] at hx
      obtain ⟨kd, hkd⟩ := Option.isSome_iff_exists.1 hk
      have hb := nextTimer_bounds W kd c2.created (st.chain.tip + 1)
      have : t = nextTimer W kd c2.created (st.chain.tip + 1) := by
        have := congrArg Claim.timer hx
        simp only [hkd] at this
        exact this.symm
      simp only
      constructor
      · omega
      · intro _; omega
  refine ⟨htimer.1, fun hwas => ?_⟩
  rcases hwas with hnone | ⟨c, hcs, hct⟩
  · -- a new claim: broadcast at registration; its first timer is at most LOW_FREQUENCY_BUMP_INTERVAL away
    have hnew := hg.new X c2 hnone hc1
    constructor
    · refine List.mem_filter.2 ⟨hmem, ?_⟩
      simp only [hc2, hs2, Option.isNone_none, Bool.true_and, hnone, Bool.true_or]
    · have hnd : due (st.chain.tip + 1) c2 = false := by
        simp only [due, hs2, Option.isNone_none, Bool.true_and, timerExpired_false_iff]; omega
      rcases hcase with rfl | ⟨hd, _, _⟩
      · omega
      · rw [hnd] at hd; cases hd
  · obtain ⟨c1, hc1', ht1, _⟩ := hg.old X c hcs
    rw [hc1] at hc1'
    cases hc1'
    have hdue : due (st.chain.tip + 1) c2 = true := by
      simp only [due, hs2, Option.isNone_none, Bool.true_and, timerExpired_iff]; omega
    constructor
    · refine List.mem_filter.2 ⟨hmem, ?_⟩
      simp only [hc2, hs2, Option.isNone_none, Bool.true_and, Bool.or_eq_true, timerExpired_iff]
      right; omega
    · exact htimer.2 hdue

/-- `rebroadcast_pending_claims` re-issues every claim that has no confirmed spend -/
theorem active_mem {W : World} {st : St} (hi : Inv W st) {X : Outpoint} {c : Claim} (hc : st.claim X = some c)
    (hs : c.spentAt = none) : X ∈ active W st := by
  refine List.mem_filter.2 ⟨kindOf_isSome_mem (hi.created X c hc).1, ?_⟩
  simp only [hc, hs, Option.isNone_none]

theorem mem_active {W : World} {st : St} {X : Outpoint} (hm : X ∈ active W st) :
    ∃ c, st.claim X = some c ∧ c.spentAt = none := by
  obtain ⟨_, h2⟩ := List.mem_filter.1 hm
  cases hc : st.claim X with
  | none => rw [hc] at h2; cases h2
  | some c =>
    rw [hc] at h2
    exact ⟨c, rfl, by simpa using h2⟩

/-! ### draining: the victim's pending claims confirm and are buried -/

/-- every remaining claim has a confirmed spend at height ≤ `hh` -/
def AllSpentBy (st : St) (hh : Nat) : Prop := ∀ X c, st.claim X = some c → ∃ s, c.spentAt = some s ∧ s ≤ hh

/-- no remaining claim's spend has reached the confirmation threshold at the current tip -/
def Fresh (st : St) : Prop :=
  ∀ X c, st.claim X = some c → ∀ s, c.spentAt = some s → handlerThresholdReached s st.chain.tip = false

theorem connect_fresh {W : World} {st st' : St} {txs : List BTx} {bc : List Outpoint} (hi : Inv W st)
    (hc : connect W st txs = some (st', bc)) : Fresh st' := by
  have htip := (inv_connect hi hc).2
  obtain ⟨st1, _, rfl⟩ := connect_some hi hc
  intro X c' hx s hs
  obtain ⟨c2, hc2, _, hsp, _⟩ := bump_claim_some hx
  rw [htip]
  exact (mature_claim_some hc2).2 s (by rw [← hsp]; exact hs)

theorem applyTxs_conf_justice {W : World} {h : Nat} {st st' : St} {ops : List Outpoint}
    (ha : applyTxs W h st [.justice ops] = some st') :
    st'.chain.conf = st.chain.conf ∧ st'.claim = markSpent h (fun X => ops.contains X) st.claim := by
  simp only [applyTxs] at ha
  cases hs : applyTx W h st (.justice ops) with
  | none => rw [hs] at ha; cases ha
  | some st1 =>
    rw [hs] at ha
    simp only [Option.some.injEq] at ha
    subst ha
    simp only [applyTx] at hs
    split at hs
    · cases hs; exact ⟨rfl, rfl⟩
    · cases hs

/-- the first drain block: a justice transaction spending every pending outpoint is a valid block content, and afterwards
    every claim has a confirmed spend -/
theorem drain_first {W : World} {st : St} (hi : Inv W st) :
    ∃ st1 bc, connect W st [.justice (active W st)] = some (st1, bc) ∧ st1.chain.conf = st.chain.conf ∧
      AllSpentBy st1 (st.chain.tip + 1) := by
  have hvalid : ((active W st).all fun X => (st.chain.conf (parentOf X)).isSome && (st.chain.spent X).isNone) = true := by
    rw [List.all_eq_true]
    intro X hm
    obtain ⟨c, hc, hs⟩ := mem_active hm
    have h1 := (hi.created X c hc).2
    have h2 := (hi.spent X c hc).1
    rw [hs] at h2
    cases hsp : st.chain.spent X with
    | none => simp [h1]
    | some sp => rw [hsp] at h2; cases h2
  have happ : ∃ st1, applyTxs W (st.chain.tip + 1) { st with chain := { st.chain with tip := st.chain.tip + 1 } }
      [.justice (active W st)] = some st1 := by
    simp only [applyTxs, applyTx]
    rw [if_pos hvalid]
    exact ⟨_, rfl⟩
  obtain ⟨st1, ha⟩ := happ
  have hcon : ∃ bc, connect W st [.justice (active W st)] = some (bump W (st.chain.tip + 1) (mature (st.chain.tip + 1) st1), bc) := by
    rw [connect_eq_all hi]; simp only [connectAll, ha]; exact ⟨_, rfl⟩
  obtain ⟨bc, hcon⟩ := hcon
  refine ⟨bump W (st.chain.tip + 1) (mature (st.chain.tip + 1) st1), bc, hcon, ?_, ?_⟩
  · have := (applyTxs_conf_justice ha).1
    simpa [bump, mature] using this
  · intro X c' hx
    obtain ⟨c2, hc2, _, hsp, _⟩ := bump_claim_some hx
    have hc1 := (mature_claim_some hc2).1
    rw [(applyTxs_conf_justice ha).2] at hc1
    obtain ⟨c, hc, rfl⟩ := markSpent_some hc1
    rw [hsp]
    by_cases hm : X ∈ active W st
    · simp only [List.contains_eq_mem, hm, decide_true, if_true]
      exact ⟨_, rfl, Nat.le_refl _⟩
    · simp only [List.contains_eq_mem, hm, decide_false, Bool.false_eq_true, if_false]
      cases hs : c.spentAt with
      | none => exact absurd (active_mem hi hc hs) hm
      | some s =>
        refine ⟨s, rfl, ?_⟩
        have h2 := (hi.spent X c hc).1
        rw [hs] at h2
        cases hsp' : st.chain.spent X with
        | none => rw [hsp'] at h2; cases h2
        | some sp =>
          rw [hsp'] at h2
          simp only [Option.map_some, Option.some.injEq] at h2
          have := (hi.spentOk X sp hsp').1
          omega

theorem connect_empty {W : World} {st : St} {hh : Nat} (hall : AllSpentBy st hh) :
    ∃ st' bc, connect W st [] = some (st', bc) ∧ st'.chain.conf = st.chain.conf ∧ AllSpentBy st' hh := by
  refine ⟨_, _, rfl, ?_, ?_⟩
  · simp [bump, mature]
  · intro X c' hx
    obtain ⟨c2, hc2, _, hsp, _⟩ := bump_claim_some hx
    have hc1 := (mature_claim_some hc2).1
    rw [hsp]
    exact hall X c2 hc1

theorem drain_tail {W : World} (n : Nat) {st : St} {hh : Nat} (hi : Inv W st) (hall : AllSpentBy st hh) (hf : Fresh st) :
    ∃ st', run W st (List.replicate n (.connect [])) = some st' ∧ Inv W st' ∧ st'.chain.conf = st.chain.conf ∧
      st'.chain.tip = st.chain.tip + n ∧ AllSpentBy st' hh ∧ Fresh st' := by
  induction n generalizing st with
  | zero => exact ⟨st, rfl, hi, rfl, rfl, hall, hf⟩
  | succ n ih =>
    obtain ⟨st1, bc, hc, hconf, hall1⟩ := connect_empty (W := W) hall
    obtain ⟨hi1, ht1⟩ := inv_connect hi hc
    obtain ⟨st', hr, hi', hconf', ht', hall', hf'⟩ := ih hi1 hall1 (connect_fresh hi hc)
    refine ⟨st', ?_, hi', by rw [hconf', hconf], by rw [ht', ht1]; omega, hall', hf'⟩
    simp only [List.replicate_succ, run, step, hc]
    exact hr

/-- after the drain nothing is pending any more -/
theorem drain_all {W : World} {st : St} (hi : Inv W st) :
    ∃ st', run W st (.connect [.justice (active W st)] :: List.replicate (ANTI_REORG_DELAY - 1) (.connect [])) = some st' ∧
      Inv W st' ∧ st'.chain.conf = st.chain.conf ∧ ∀ X, st'.claim X = none := by
  obtain ⟨st1, bc, hc, hconf1, hall1⟩ := drain_first hi
  obtain ⟨hi1, ht1⟩ := inv_connect hi hc
  obtain ⟨st', hr, hi', hconf', ht', hall', hf'⟩ := drain_tail (ANTI_REORG_DELAY - 1) hi1 hall1 (connect_fresh hi hc)
  refine ⟨st', ?_, hi', by rw [hconf', hconf1], ?_⟩
  · simp only [run, step, hc]; exact hr
  · intro X
    cases hx : st'.claim X with
    | none => rfl
    | some c =>
      obtain ⟨s, hs, hle⟩ := hall' X c hx
      have := hf' X c hx s hs
      have hr' : handlerThresholdReached s st'.chain.tip = true := by
        rw [reached_iff, ht', ht1]; omega
      rw [hr'] at this; cases this

/-! ### the world built from the monitor model of Model/Punish.lean -/

theorem htlcKinds_fst {S : Type} (tx : List (TxOut S)) (hs : List Htlc) : (htlcKinds tx hs).map (·.1) = htlcClaims tx hs := by
  induction hs with
  | nil => rfl
  | cons h rest ih =>
    simp only [htlcKinds, htlcClaims]
    cases h.outIdx with
    | none => exact ih
    | some i =>
      simp only
      cases tx[i]? with
      | none => rfl
      | some o =>
        simp only
        by_cases hv : o.sat = h.sat
        · simp only [hv, if_true, List.map_cons, ih]
        · simp only [hv, if_false, List.map_nil]

/-- the outpoints of the world are exactly the claims of Model/Punish.lean: what `check_spend_counterparty_transaction`
    requests on the revoked commitment, then what `check_spend_counterparty_htlc` requests on each second-stage transaction -/
theorem ofMonitor_allOutpoints {S : Type} [DecidableEq S] (P : Secrets.Params S) (m : Mon S) (n : Nat) (tx : List (TxOut S))
    (held : List (List (Option Nat))) (csv : Nat) :
    (World.ofMonitor P m n tx held csv).allOutpoints = onConfirmRevoked P m n tx ++ allSecondClaimsAt 0 held := by
  simp only [World.allOutpoints, World.ofMonitor, List.map_append, List.map_map]
  congr 1
  · unfold onConfirmRevoked
    by_cases hmin : Secrets.getMinSeenSecret P m.store ≤ n
    · simp only [hmin, if_true]
      cases Secrets.getSecret P m.store n with
      | none => rfl
      | some sec =>
        simp only [List.map_append, List.map_map]
        congr 1
        · simp [Function.comp_def]
        · cases m.claimable.get n with
          | none => rfl
          | some data => exact htlcKinds_fst tx _
    · simp only [hmin, if_false, List.map_nil]
  · simp [Function.comp_def]

/-- the claims on the second-stage transactions: output `p` of transaction `k` for every input `p` that spends the commitment -/
theorem mem_allSecondClaimsAt (k0 : Nat) (held : List (List (Option Nat))) (X : Outpoint) :
    X ∈ allSecondClaimsAt k0 held ↔ ∃ k p t v, X = .second (k0 + k) p ∧ held[k]? = some t ∧ t[p]? = some (some v) := by
  induction held generalizing k0 with
  | nil => simp [allSecondClaimsAt]
  | cons t rest ih =>
    simp only [allSecondClaimsAt, List.mem_append, ih]
    constructor
    · rintro (h | ⟨k, p, t', v, rfl, hk, hp⟩)
      · simp only [secondStageClaimsAt, List.mem_map, List.mem_filter, List.mem_range] at h
        obtain ⟨p, ⟨hlt, hsome⟩, rfl⟩ := h
        cases hp : t[p]? with
        | none => rw [hp] at hsome; cases hsome
        | some o =>
          rw [hp] at hsome
          cases o with
          | none => cases hsome
          | some v => exact ⟨0, p, t, v, by simp, by simp, hp⟩
      · exact ⟨k + 1, p, t', v, by simp only [Outpoint.second.injEq, and_true]; omega, by simpa using hk, hp⟩
    · rintro ⟨k, p, t', v, rfl, hk, hp⟩
      cases k with
      | zero =>
        left
        simp only [List.getElem?_cons_zero, Option.some.injEq] at hk
        subst hk
        simp only [secondStageClaimsAt, List.mem_map, List.mem_filter, List.mem_range]
        refine ⟨p, ⟨?_, by rw [hp]⟩, by simp⟩
        rcases Nat.lt_or_ge p t.length with hl | hl
        · exact hl
        · rw [List.getElem?_eq_none hl] at hp; cases hp
      | succ k =>
        right
        exact ⟨k, p, t', v, by simp only [Outpoint.second.injEq, and_true]; omega, by simpa using hk, hp⟩

theorem commit_not_mem_allSecondClaimsAt (k0 : Nat) (held : List (List (Option Nat))) (i : Nat) :
    Outpoint.commit i ∉ allSecondClaimsAt k0 held := by
  intro h
  obtain ⟨_, _, _, _, he, _⟩ := (mem_allSecondClaimsAt k0 held _).1 h
  cases he

end Ldk.Justice
