/- C10 — helper lemmas for the reconstruction layer (Model/Reconstruct.lean). -/
import LdkModel.Model.Reconstruct
import LdkModel.Proofs.Restart
namespace Ldk.Restart

/-! ### background events -/

theorem replay_nonempty_of_not_all (l : List Nat) (m : Nat)
    (h : allCompleted ((l.filter (fun id => inFlightCompleted id m)).length) l.length = false) : replayList l m ≠ [] := by
  intro hnil
  unfold replayList at hnil
  simp only [h] at hnil
  have hall : ∀ x ∈ l, inFlightCompleted x m = true := by
    intro x hx
    have := (List.filter_eq_nil_iff.mp hnil) x hx
    simp [shouldReplay] at this
    simp [inFlightCompleted, this]
  have : l.filter (fun id => inFlightCompleted id m) = l := List.filter_eq_self.mpr hall
  rw [this] at h
  simp [allCompleted] at h

theorem bgEvents_eq_nil_iff (w : World) :
    bgEvents w = [] ↔ w.mgr.inFlight = [] ∧ blockedAfter w.mgr w.mon.id = [] := by
  unfold bgEvents
  rw [List.append_eq_nil_iff]
  constructor
  · rintro ⟨h1, h2⟩
    refine ⟨?_, ?_⟩
    · cases hl : w.mgr.inFlight with
      | nil => rfl
      | cons a t =>
        exfalso
        have hw : inFlightEntryWritten w.mgr.inFlight.length = true := by simp [inFlightEntryWritten, hl]
        rw [hw] at h1
        simp only [if_true] at h1
        cases hc : allInFlightCompleted w.mgr w.mon.id with
        | true => simp [mucQueued, hc] at h1
        | false =>
          simp only [mucQueued, hc, Bool.and_false, Bool.false_eq_true, if_false, List.map_eq_nil_iff] at h1
          exact replay_nonempty_of_not_all _ _ hc h1
    · cases hb : blockedAfter w.mgr w.mon.id with
      | nil => rfl
      | cons a t => rw [hb] at h2; simp [attemptUnblockQueued] at h2
  · rintro ⟨h1, h2⟩
    simp [h1, h2, inFlightEntryWritten, attemptUnblockQueued]

/-! ### claims -/

theorem mem_claims (n : NodeW) (cl : Claim) :
    cl ∈ claims n ↔ ∃ c ∈ n.chans, ∃ h ∈ c.monHtlcs, claimDecision n h = true ∧ cl = ⟨h.src, c.id, c.closed⟩ := by
  unfold claims claimsOf
  simp only [List.mem_flatMap, List.mem_map, List.mem_filter]
  constructor
  · rintro ⟨c, hc, h, ⟨hh, hd⟩, rfl⟩; exact ⟨c, hc, h, hh, hd, rfl⟩
  · rintro ⟨c, hc, h, hh, hd, rfl⟩; exact ⟨c, hc, h, ⟨hh, hd⟩, rfl⟩

theorem claimDecision_prev (n : NodeW) (ic id : Nat) (pre : Bool) :
    claimDecision n ⟨.prev ic id, pre⟩ = true ↔ pre = true ∧ ∃ i, n.chan? ic = some i ∧ i.balancesEmpty = false := by
  unfold claimDecision
  simp only
  cases hx : n.chan? ic with
  | none => simp [claimReplayed]
  | some i => simp [claimReplayed]

theorem claimDecision_route (n : NodeW) (p k : Nat) (pre : Bool) : claimDecision n ⟨.route p k, pre⟩ = false := by
  simp [claimDecision, claimReplayed]

/-! ### fails -/

theorem monLists_eq_false (c : ChanW) (s : Src) : c.monLists s = false ↔ ∀ h ∈ c.monHtlcs, h.src ≠ s := by
  unfold ChanW.monLists
  rw [List.any_eq_false]
  constructor
  · intro h m hm; simpa using h m hm
  · intro h m hm; simpa using h m hm

theorem monLists_eq_true (c : ChanW) (s : Src) : c.monLists s = true ↔ ∃ h ∈ c.monHtlcs, h.src = s := by
  unfold ChanW.monLists
  rw [List.any_eq_true]
  constructor
  · rintro ⟨m, hm, he⟩; exact ⟨m, hm, by simpa using he⟩
  · rintro ⟨m, hm, he⟩; exact ⟨m, hm, by simp [he]⟩

/-- membership in the stale fail-backs, with the `dropped_outbound_htlcs` decision left as the GENERATED predicate (Props/C10 unfolds it:
    the property theorem, not this lemma, is what breaks when the guard disappears from the Rust text) -/
theorem mem_staleFailsOf (c : ChanW) (s : Src) (r : FailReason) :
    (s, r) ∈ staleFailsOf c ↔
      c.stale = true ∧ r = .channelClosed ∧
        ((s ∈ c.mgrDropped ∧ droppedHtlcFailed (c.monLists s) = true) ∨ (s ∈ c.mgrPending ∧ ∀ h ∈ c.monHtlcs, h.src ≠ s)) := by
  unfold staleFailsOf
  cases hs : c.stale with
  | false => simp
  | true =>
    simp only [if_true, List.mem_map, List.mem_append, List.mem_filter, staleHtlcFailed, Prod.mk.injEq, true_and]
    constructor
    · rintro ⟨a, ha, rfl, rfl⟩
      refine ⟨rfl, ?_⟩
      rcases ha with ha | ⟨ha, hn⟩
      · exact Or.inl ha
      · refine Or.inr ⟨ha, (monLists_eq_false c a).mp ?_⟩
        simpa using hn
    · rintro ⟨rfl, hx⟩
      refine ⟨s, ?_, rfl, rfl⟩
      rcases hx with hx | ⟨hx, hn⟩
      · exact Or.inl hx
      · refine Or.inr ⟨hx, ?_⟩
        simp [(monLists_eq_false c s).mpr hn]

/-- a `ChannelClosed` fail decision of the read comes from the stale branch of some channel (the closed-channel block fails with OnChainTimeout) -/
theorem mem_fails_channelClosed (n : NodeW) (s : Src) :
    (s, FailReason.channelClosed) ∈ fails n ↔ ∃ c ∈ n.chans, (s, FailReason.channelClosed) ∈ staleFailsOf c := by
  unfold fails
  rw [List.mem_append, List.mem_flatMap, List.mem_flatMap]
  constructor
  · rintro (h | ⟨c, _, hc⟩)
    · exact h
    · exfalso
      unfold onchainFailsOf at hc
      split at hc
      · obtain ⟨_, _, he⟩ := List.mem_map.mp hc; cases he
      · cases hc
  · intro h; exact Or.inl h

/-! ### queued forwards -/

theorem mem_prevHops (c : ChanW) (r : HtlcRef) : r ∈ prevHops c ↔ ∃ h ∈ c.monHtlcs, h.src = .prev r.chan r.id := by
  unfold prevHops
  rw [List.mem_filterMap]
  constructor
  · rintro ⟨h, hh, he⟩
    refine ⟨h, hh, ?_⟩
    cases hs : h.src with
    | prev ch id => rw [hs] at he; simp at he; rw [← he]
    | route p k => rw [hs] at he; simp at he
  · rintro ⟨h, hh, he⟩
    exact ⟨h, hh, by rw [he]⟩

/-! ### own payments -/

@[simp] theorem PSt.set_get (st : PSt) (a : Nat) (r : Option PayRec) (i : Nat) :
    (st.set a r).get i = if i = a then r else st.get i := rfl
@[simp] theorem PSt.set_evs (st : PSt) (a : Nat) (r : Option PayRec) : (st.set a r).evs = st.evs := rfl

def Present (st : PSt) (P : Nat) : Prop := st.get P ≠ none
def Ful (st : PSt) (P : Nat) : Prop := ∃ p, st.get P = some p ∧ p.state = .fulfilled
def NoFail (st : PSt) (P : Nat) : Prop := PEv.failed P ∉ st.evs

theorem insertPay_evs (st : PSt) (x : Nat × Nat) : (insertPay st x).evs = st.evs := by
  unfold insertPay; split
  · rfl
  · split <;> rfl

theorem insertPay_present (st : PSt) (x : Nat × Nat) (P : Nat) (h : Present st P ∨ x.1 = P) : Present (insertPay st x) P := by
  unfold Present insertPay
  by_cases hx : P = x.1
  · subst hx
    cases hg : st.get x.1 with
    | none => simp
    | some p => simp only; split <;> simp [hg]
  · have hp : st.get P ≠ none := by
      rcases h with h | h
      · exact h
      · exact absurd h.symm hx
    cases hg : st.get x.1 with
    | none => simpa [hx] using hp
    | some p => simp only; split <;> simpa [hx] using hp

theorem foldl_insertPay (l : List (Nat × Nat)) (st : PSt) (P : Nat) :
    ((l.foldl insertPay st).evs = st.evs) ∧ ((Present st P ∨ ∃ k, (P, k) ∈ l) → Present (l.foldl insertPay st) P) := by
  induction l generalizing st with
  | nil => exact ⟨rfl, fun h => by rcases h with h | ⟨k, hk⟩; exact h; cases hk⟩
  | cons y l ih =>
    simp only [List.foldl_cons]
    obtain ⟨e, p⟩ := ih (insertPay st y)
    refine ⟨by rw [e, insertPay_evs], fun h => p ?_⟩
    rcases h with h | ⟨k, hk⟩
    · exact Or.inl (insertPay_present st y P (Or.inl h))
    · rcases List.mem_cons.mp hk with hk | hk
      · exact Or.inl (insertPay_present st y P (Or.inr (by rw [← hk])))
      · exact Or.inr ⟨k, hk⟩

theorem claimPay_props (st : PSt) (x : Nat × Nat) (P : Nat) :
    (NoFail st P → NoFail (claimPay st x) P) ∧ (Present st P → Present (claimPay st x) P) ∧
    (Ful st P → Ful (claimPay st x) P) ∧ (Present st P → x.1 = P → Ful (claimPay st x) P) := by
  unfold NoFail Present Ful claimPay
  cases hg : st.get x.1 with
  | none =>
    refine ⟨id, id, id, fun hp hx => ?_⟩
    rw [← hx] at hp; exact absurd hg hp
  | some p =>
    simp only
    refine ⟨?_, ?_, ?_, ?_⟩
    · intro h; split <;> simp [h]
    · intro h; by_cases hx : P = x.1 <;> simp [hx]; simpa [hx] using h
    · rintro ⟨q, hq, hf⟩
      by_cases hx : P = x.1
      · simp [hx]
      · exact ⟨q, by simpa [hx] using hq, hf⟩
    · intro _ hx; simp [hx]

theorem foldl_claimPay (l : List (Nat × Nat)) (st : PSt) (P : Nat) :
    (NoFail st P → NoFail (l.foldl claimPay st) P) ∧ (Present st P → Present (l.foldl claimPay st) P) ∧
    (Ful st P → Ful (l.foldl claimPay st) P) ∧ (Present st P → (∃ k, (P, k) ∈ l) → Ful (l.foldl claimPay st) P) := by
  induction l generalizing st with
  | nil => exact ⟨id, id, id, fun _ h => by obtain ⟨k, hk⟩ := h; cases hk⟩
  | cons y l ih =>
    simp only [List.foldl_cons]
    obtain ⟨a, b, c, d⟩ := ih (claimPay st y)
    obtain ⟨a0, b0, c0, d0⟩ := claimPay_props st y P
    refine ⟨fun h => a (a0 h), fun h => b (b0 h), fun h => c (c0 h), fun hp h => ?_⟩
    obtain ⟨k, hk⟩ := h
    rcases List.mem_cons.mp hk with hk | hk
    · exact c (d0 hp (by rw [← hk]))
    · exact d (b0 hp) ⟨k, hk⟩

theorem failPay_props (st : PSt) (x : Nat × Nat) (P : Nat) (hf : Ful st P) (hn : NoFail st P) :
    Ful (failPay st x) P ∧ NoFail (failPay st x) P := by
  obtain ⟨q, hq, hqf⟩ := hf
  unfold failPay
  cases hg : st.get x.1 with
  | none => exact ⟨⟨q, hq, hqf⟩, hn⟩
  | some p =>
    simp only
    split
    · exact ⟨⟨q, hq, hqf⟩, hn⟩
    · by_cases hx : P = x.1
      · have hpq : p = q := by rw [hx] at hq; rw [hg] at hq; exact Option.some.inj hq
        subst hpq
        have hs : (p.state == PayState.fulfilled) = true := by simp [hqf]
        simp only [hs, if_true]
        exact ⟨⟨{ p with privs := p.privs.filter (fun q => q != x.2) }, by simp [hx], hqf⟩, by simpa [NoFail] using hn⟩
      · split
        · exact ⟨⟨q, by simpa [hx] using hq, hqf⟩, by simpa [NoFail] using hn⟩
        · split
          · refine ⟨⟨q, by simpa [hx] using hq, hqf⟩, ?_⟩
            unfold NoFail at hn ⊢
            simp only [List.mem_append, List.mem_singleton, PEv.failed.injEq, not_or]
            exact ⟨by simpa using hn, hx⟩
          · exact ⟨⟨q, by simpa [hx] using hq, hqf⟩, by simpa [NoFail] using hn⟩

theorem foldl_failPay (l : List (Nat × Nat)) (st : PSt) (P : Nat) (hf : Ful st P) (hn : NoFail st P) :
    Ful (l.foldl failPay st) P ∧ NoFail (l.foldl failPay st) P := by
  induction l generalizing st with
  | nil => exact ⟨hf, hn⟩
  | cons y l ih =>
    simp only [List.foldl_cons]
    obtain ⟨a, b⟩ := failPay_props st y P hf hn
    exact ih _ a b

theorem mem_routesOf (l : List Src) (p k : Nat) : (p, k) ∈ routesOf l ↔ Src.route p k ∈ l := by
  unfold routesOf
  rw [List.mem_filterMap]
  constructor
  · rintro ⟨s, hs, he⟩
    cases s with
    | prev a b => simp at he
    | route a b => simp at he; rw [← he.1, ← he.2]; exact hs
  · intro h; exact ⟨_, h, rfl⟩

end Ldk.Restart
