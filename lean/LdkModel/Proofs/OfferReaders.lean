/- Helper lemmas for the reader-chain theorems of Props/C18.lean (C18, round 6): what one `tlv_stream!`
   reader consumes, what a chain of them consumes. -/
import LdkModel.Model.OfferReaders
namespace Ldk.OfferReaders
open Ldk.C18Readers

/-- what one reader consumes is a prefix whose types are in its range, tolerated (known or odd),
    strictly ascending and above `last_seen_type` -/
theorem readOne_sound (rd : Reader) : ∀ (ts : List Nat) (last : Option Nat) (rest : List Nat),
    readOne rd last ts = some rest →
    ∃ pre, ts = pre ++ rest ∧ (∀ t ∈ pre, inRange rd t = true ∧ tolerates rd t = true) ∧
      pre.Pairwise (fun a b => a < b) ∧ (∀ t ∈ pre, stale last t = false) := by
  intro ts
  induction ts with
  | nil =>
    intro last rest h
    simp only [readOne] at h
    cases h
    exact ⟨[], rfl, by simp, List.Pairwise.nil, by simp⟩
  | cons t ts ih =>
    intro last rest h
    simp only [readOne] at h
    split at h
    · rename_i hin
      split at h
      · rename_i hok
        simp only [Bool.and_eq_true, Bool.not_eq_true'] at hok
        obtain ⟨pre, hpre, hall, hpw, hgt⟩ := ih (some t) rest h
        have hlt : ∀ x ∈ pre, t < x := by
          intro x hx
          have := hgt x hx
          simp only [stale, decide_eq_false_iff_not] at this
          omega
        refine ⟨t :: pre, by simp [hpre], ?_, List.pairwise_cons.mpr ⟨hlt, hpw⟩, ?_⟩
        · intro x hx
          rcases List.mem_cons.mp hx with rfl | hx'
          · exact ⟨hin, hok.2⟩
          · exact hall x hx'
        · intro x hx
          rcases List.mem_cons.mp hx with rfl | hx'
          · exact hok.1
          · have h1 := hlt x hx'
            have h2 := hok.1
            cases last with
            | none => rfl
            | some l =>
              simp only [stale, decide_eq_false_iff_not] at h2 ⊢
              omega
      · cases h
    · cases h
      exact ⟨[], rfl, by simp, List.Pairwise.nil, by simp⟩

/-- what a chain consumes: a prefix each of whose types is in the range of one of the readers and
    tolerated by it; strictly ascending when the ranges of the chain are in ascending order -/
theorem runChain_sound : ∀ (c : List Reader) (ts rest : List Nat), runChain c ts = some rest →
    ∃ pre, ts = pre ++ rest ∧ (∀ t ∈ pre, ∃ rd ∈ c, inRange rd t = true ∧ tolerates rd t = true) ∧
      (c.Pairwise (fun a b => a.hi ≤ b.lo) → pre.Pairwise (fun a b => a < b)) := by
  intro c
  induction c with
  | nil =>
    intro ts rest h
    simp only [runChain] at h
    cases h
    exact ⟨[], rfl, by simp, fun _ => List.Pairwise.nil⟩
  | cons rd c ih =>
    intro ts rest h
    simp only [runChain] at h
    split at h
    · cases h
    · rename_i ts' h1
      obtain ⟨p1, hp1, ha1, hpw1, _⟩ := readOne_sound rd ts none ts' h1
      obtain ⟨p2, hp2, ha2, hpw2⟩ := ih ts' rest h
      refine ⟨p1 ++ p2, by rw [hp1, hp2, List.append_assoc], ?_, ?_⟩
      · intro t ht
        rcases List.mem_append.mp ht with h' | h'
        · exact ⟨rd, List.mem_cons_self .., ha1 t h'⟩
        · obtain ⟨r, hr, hh⟩ := ha2 t h'
          exact ⟨r, List.mem_cons_of_mem _ hr, hh⟩
      · intro hsorted
        have hs := List.pairwise_cons.mp hsorted
        rw [List.pairwise_append]
        refine ⟨hpw1, hpw2 hs.2, ?_⟩
        intro a ha b hb
        have h1a := (ha1 a ha).1
        obtain ⟨r, hr, hrb, _⟩ := ha2 b hb
        have hle := hs.1 r hr
        simp only [inRange, Bool.and_eq_true, decide_eq_true_eq] at h1a hrb
        omega

theorem chainAccepts_iff (c : List Reader) (ts : List Nat) : chainAccepts c ts = true ↔ runChain c ts = some [] := by
  simp [chainAccepts]

end Ldk.OfferReaders
