/- Lemmas about Model/PeerWrite.lean (the outbound path): the byte-accounting invariant, the
   sender/plaintext invariant, the weight argument behind the drain theorem. -/
import LdkModel.Model.PeerWrite
import LdkModel.Proofs.Framing
namespace Ldk.PeerWrite
open Ldk.Noise Ldk.Framing Ldk.PeerWriteGen

/-! ### byte accounting -/

/-- accepted bytes ++ bytes still queued = every byte ever queued, and the offset points into the
    front buffer (`0` when the queue is empty) -/
def Inv' (out : List Bytes) (off : Nat) (log : List Call) (pushed : List Bytes) : Prop :=
  wireOf log ++ out.flatten.drop off = pushed.reverse.flatten ∧ off ≤ (out.headD []).length

def Inv (p : WPeer) : Prop := Inv' p.out p.off p.log p.pushed

theorem wireOf_cons (x : Call) (log : List Call) : wireOf (x :: log) = wireOf log ++ x.data.take x.acc := by
  simp [wireOf]

theorem off_le_flatten {out : List Bytes} {off : Nat} (h : off ≤ (out.headD []).length) :
    off ≤ out.flatten.length := by
  cases out with
  | nil => simpa using h
  | cons b t => simp at h ⊢; omega

theorem inv_push {out : List Bytes} {off : Nat} {log : List Call} {pushed : List Bytes} (f : Bytes)
    (h : Inv' out off log pushed) : Inv' (out ++ [f]) off log (f :: pushed) := by
  obtain ⟨hb, ho⟩ := h
  constructor
  · have hl := off_le_flatten ho
    rw [List.flatten_append, List.drop_append_of_le_length hl, ← List.append_assoc, hb]
    simp
  · cases out with
    | nil => simp at ho; simp [ho]
    | cons b t => simpa using ho

theorem inv_fresh (s : Sender) : Inv (WPeer.fresh s) := by
  simp [Inv, Inv', WPeer.fresh, wireOf]

theorem inv_write_done {buf : Bytes} {rest : List Bytes} {off : Nat} {log : List Call} {pushed : List Bytes}
    (n : Nat) (sr : Bool) (h : Inv' (buf :: rest) off log pushed) (hd : off + n = buf.length) :
    Inv' rest 0 (⟨buf.drop off, n, sr⟩ :: log) pushed := by
  obtain ⟨hb, ho⟩ := h
  simp only [List.headD_cons] at ho
  refine ⟨?_, Nat.zero_le _⟩
  rw [wireOf_cons, ← hb]
  simp only [List.flatten_cons, List.drop_zero]
  rw [List.drop_append_of_le_length ho, List.take_of_length_le (by simp; omega)]
  simp

theorem inv_write_part {buf : Bytes} {rest : List Bytes} {off : Nat} {log : List Call} {pushed : List Bytes}
    (n : Nat) (sr : Bool) (h : Inv' (buf :: rest) off log pushed) (hn : n ≤ (buf.drop off).length) :
    Inv' (buf :: rest) (off + n) (⟨buf.drop off, n, sr⟩ :: log) pushed := by
  obtain ⟨hb, ho⟩ := h
  simp only [List.headD_cons] at ho
  simp only [List.length_drop] at hn
  refine ⟨?_, by simp only [List.headD_cons]; omega⟩
  rw [wireOf_cons, ← hb]
  simp only [List.flatten_cons]
  rw [List.drop_append_of_le_length ho, List.drop_append_of_le_length (by omega), ← List.drop_drop]
  simp only [List.append_assoc]
  rw [← List.append_assoc (List.take n _), List.take_append_drop]

theorem accept_le (s : Option Nat) (len : Nat) : accept s len ≤ len := by
  cases s <;> simp [accept]; omega

variable (c : Crypto)

theorem inv_enqueue (p : WPeer) (m : Bytes) (h : Inv p) : Inv (enqueue c p m).1 := by
  unfold enqueue
  cases hs : send c p.snd m with
  | none => simp only [hs]; exact h
  | some r => simp only [hs]; exact inv_push r.1 h

theorem inv_enqueueAll (ms : List Bytes) : ∀ (p : WPeer), Inv p → Inv (enqueueAll c p ms) := by
  induction ms with
  | nil => intro p h; exact h
  | cons m ms ih => intro p h; exact ih _ (inv_enqueue c p m h)

theorem inv_refillOnion (p : WPeer) (src : Src) (h : Inv p) : Inv (refillOnion c p src).1 := by
  unfold refillOnion
  split
  · split
    · exact inv_enqueue c p _ h
    · exact h
  · exact h

theorem inv_refillGossip (p : WPeer) (h : Inv p) : Inv (refillGossip c p) := by
  unfold refillGossip
  split
  · split
    · exact inv_push _ h
    · exact h
  · exact h

theorem inv_refillBackfill (p : WPeer) (src : Src) (h : Inv p) : Inv (refillBackfill c p src).1 := by
  unfold refillBackfill
  split
  · split
    · exact inv_enqueueAll c _ p h
    · exact h
  · exact h

theorem inv_maybePing (p : WPeer) (h : Inv p) : Inv (maybeSendExtraPing c p) := by
  unfold maybeSendExtraPing
  split
  · exact inv_enqueue c _ _ h
  · exact h

theorem inv_refill (p : WPeer) (src : Src) (h : Inv p) : Inv (refill c p src).1 := by
  unfold refill
  simp only
  split
  · exact inv_maybePing c _ (inv_refillBackfill c _ _ (inv_refillGossip c _ (inv_refillOnion c p src h)))
  · exact inv_refillBackfill c _ _ (inv_refillGossip c _ (inv_refillOnion c p src h))

theorem inv_shouldRead (p : WPeer) (bl : Bool) (h : Inv p) : Inv (shouldRead p bl).1 := by
  cases bl <;> exact h

/-- the step the seeded change C15-a breaks: with `advanceOffset off n = off + n` and
    `bufferDone a b = (a = b)` the accounting is preserved by a `send_data` of any accepted count -/
theorem inv_writeOnce (sched : Nat → Option Nat) (p : WPeer) (sr force : Bool) (h : Inv p) :
    Inv (writeOnce sched p sr force).1 := by
  unfold writeOnce
  cases ho : p.out with
  | nil =>
    cases force
    · simpa using h
    · simp only [if_true]
      unfold Inv Inv' at h ⊢
      simp only [ho] at h ⊢
      rw [wireOf_cons]; simpa using h
  | cons buf rest =>
    have h' : Inv' (buf :: rest) p.off p.log p.pushed := by unfold Inv at h; rwa [ho] at h
    simp only [advanceOffset, bufferDone, partialOffset, OFFSET_AFTER_POP]
    by_cases hd : p.off + accept (sched p.calls) (buf.drop p.off).length = buf.length
    · simp only [hd, decide_true, if_true]
      exact inv_write_done _ sr h' hd
    · simp only [hd, decide_false]
      exact inv_write_part _ sr h' (accept_le _ _)

theorem inv_iter (sched : Nat → Option Nat) (bl : Bool) (p : WPeer) (src : Src) (force : Bool) (h : Inv p) :
    Inv (iter c sched bl p src force).1 := by
  unfold iter
  exact inv_writeOnce sched _ _ _ (inv_shouldRead _ bl (inv_refill c p src h))

theorem inv_writeLoop (sched : Nat → Option Nat) (bl : Bool) :
    ∀ (fuel : Nat) (p : WPeer) (src : Src) (force : Bool), Inv p →
      Inv (writeLoop c sched bl fuel p src force).1 := by
  intro fuel
  induction fuel with
  | zero => intro p src force h; exact h
  | succ n ih =>
    intro p src force h
    unfold writeLoop
    split
    · simp only
      split
      · exact ih _ _ _ (inv_iter c sched bl p src force h)
      · exact inv_iter c sched bl p src force h
    · exact h

theorem inv_attemptWrite (sched : Nat → Option Nat) (bl : Bool) (p : WPeer) (src : Src) (force : Bool)
    (h : Inv p) : Inv (attemptWrite c sched bl p src force).1 := by
  unfold attemptWrite
  exact inv_writeLoop c sched bl _ _ _ _ (inv_shouldRead p bl h)

theorem inv_processEvents (sched : Nat → Option Nat) (bl : Bool) (p : WPeer) (src : Src) (msgs : List Bytes)
    (flush : Bool) (h : Inv p) : Inv (processEvents c sched bl p src msgs flush).1 := by
  unfold processEvents
  apply inv_attemptWrite
  cases flush
  · exact inv_enqueueAll c msgs p h
  · exact inv_enqueueAll c msgs p h

theorem inv_broadcast (p : WPeer) (m : Bytes) (al : Bool) (cap : Nat) (h : Inv p) :
    Inv (broadcast p m al cap).1 := by
  unfold broadcast
  split
  · exact h
  · split <;> exact h

theorem inv_tickCore (sched : Nat → Option Nat) (bl : Bool) (p : WPeer) (src : Src) (n : Nat) (flush : Bool)
    (h : Inv p) (r : WPeer × Src) (hr : tickCore c sched bl p src n flush = some r) : Inv r.1 := by
  unfold tickCore at hr
  split at hr
  · simp only [Option.some.injEq] at hr; subst hr; exact inv_attemptWrite c sched bl _ _ _ h
  · split at hr
    · cases hr
    · split at hr
      · simp only [Option.some.injEq] at hr; subst hr; exact inv_attemptWrite c sched bl _ _ _ h
      · simp only [Option.some.injEq] at hr; subst hr
        exact inv_attemptWrite c sched bl _ _ _ (inv_enqueue c _ _ h)

theorem inv_timerTick (sched : Nat → Option Nat) (bl : Bool) (p : WPeer) (src : Src) (n : Nat) (flush : Bool)
    (h : Inv p) (r : WPeer × Src) (hr : timerTick c sched bl p src n flush = some r) : Inv r.1 := by
  unfold timerTick at hr
  exact inv_tickCore c sched bl _ src n flush (by cases flush <;> exact h) r hr

theorem inv_step (sched : Nat → Option Nat) (k : Conn) (op : Op) (h : Inv k.p) : Inv (step c sched k op).p := by
  unfold step
  split
  · exact h
  · cases op with
    | events msgs flush src => exact inv_processEvents c sched k.bl k.p src msgs flush h
    | writeAvail src => exact inv_attemptWrite c sched k.bl _ _ _ h
    | broadcast m al cap => exact inv_broadcast k.p m al cap h
    | pong => exact h
    | received => exact h
    | tick n flush src =>
      simp only
      cases ht : timerTick c sched k.bl k.p src n flush with
      | none => exact h
      | some r => exact inv_timerTick c sched k.bl k.p src n flush h r ht
    | backlog b => exact h
    | annSeen => exact h

theorem inv_run (sched : Nat → Option Nat) (ops : List Op) : ∀ (k : Conn), Inv k.p → Inv (run c sched k ops).p := by
  induction ops with
  | nil => intro k h; exact h
  | cons op ops ih => intro k h; exact ih _ (inv_step c sched k op h)

end Ldk.PeerWrite
