/- Helper lemmas for C03 (Props/C03.lean): the store, the projection of a global step onto one payment id,
   the per-payment invariant and its propagation along restore-free runs. -/
import LdkModel.Model.OutboundPay
import LdkModel.Proofs.OutboundPayRefine
namespace Ldk.OutboundPay
open Ldk.OutboundSendGen

variable {amt : Amt}

/-! ### store -/

theorem get_set_self (s : Store) (id : PayId) (v : PState) : get (set s id v) id = v := by
  simp [get, set]

theorem lookup_filter_ne (s : Store) (id k : PayId) (h : k ≠ id) :
    (s.filter (·.1 != id)).lookup k = s.lookup k := by
  induction s with
  | nil => rfl
  | cons e t ih =>
    obtain ⟨a, v⟩ := e
    by_cases ha : a = id
    · subst ha
      have hk : (k == a) = false := by simpa using h
      simp [List.filter, List.lookup, hk, ih]
    · have : (a != id) = true := by simpa using ha
      simp only [List.filter, this, List.lookup]
      cases hka : k == a <;> simp [ih]

theorem get_set_ne (s : Store) (id k : PayId) (v : PState) (h : k ≠ id) : get (set s id v) k = get s k := by
  have hk : (k == id) = false := by simpa using h
  simp [get, set, List.lookup, hk, lookup_filter_ne s id k h]

theorem get_map (s : Store) (f : PayId → PState → PState) (hf : ∀ k, f k .absent = .absent) (k : PayId) :
    get (s.map fun e => (e.1, f e.1 e.2)) k = f k (get s k) := by
  induction s with
  | nil => simp [get, hf]
  | cons e t ih =>
    obtain ⟨a, v⟩ := e
    simp only [get, List.map, List.lookup] at ih ⊢
    cases hka : k == a
    · simpa using ih
    · have : k = a := by simpa using hka
      subst this; simp

def keys (s : Store) : List PayId := s.map (·.1)

/-- representation invariant: one entry per key (true of `init`, kept by every op) -/
def WF (s : State) : Prop := (keys s.cur).Nodup ∧ (keys s.snapCur).Nodup

theorem keys_filter_sub (s : Store) (id : PayId) : (keys (s.filter (·.1 != id))).Sublist (keys s) := by
  unfold keys
  exact List.Sublist.map _ List.filter_sublist

theorem not_mem_keys_filter (s : Store) (id : PayId) : id ∉ keys (s.filter (·.1 != id)) := by
  unfold keys
  intro h
  rcases List.mem_map.1 h with ⟨e, he, rfl⟩
  have := (List.mem_filter.1 he).2
  simp at this

theorem nodup_set (s : Store) (id : PayId) (v : PState) (h : (keys s).Nodup) : (keys (set s id v)).Nodup := by
  unfold set
  show (id :: keys (s.filter (·.1 != id))).Nodup
  exact List.nodup_cons.2 ⟨not_mem_keys_filter s id, h.sublist (keys_filter_sub s id)⟩

theorem keys_map (s : Store) (g : PayId × PState → PState) : keys (s.map fun e => (e.1, g e)) = keys s := by
  unfold keys; simp [List.map_map, Function.comp_def]

theorem get_absent_of_not_mem (s : Store) (id : PayId) (h : id ∉ keys s) : get s id = .absent := by
  induction s with
  | nil => rfl
  | cons e t ih =>
    obtain ⟨a, v⟩ := e
    have hne : id ≠ a := fun h' => h (by simp [keys, h'])
    have ht : id ∉ keys t := fun h' => h (by simp [keys] at h' ⊢; exact Or.inr h')
    have hk : (id == a) = false := by simpa using hne
    simpa [get, List.lookup, hk] using ih ht


/-! ### one send / retry call: `handleErr` and `payRoute` on a Retryable entry -/

/-- `remove_session_privs`: the session privs of `qs` removed one by one -/
def removeAll (amt : Amt) (qs : List PartId) (st : PState) : PState := qs.foldl (fun s q => removeSent amt q s) st

theorem mem_removePart (x p : PartId) (ps : List PartId) : x ∈ removePart p ps ↔ x ∈ ps ∧ x ≠ p := by
  simp [removePart]

theorem removeAll_retryable (qs : List PartId) : ∀ (ps : List PartId) (pe to : Nat),
    ∃ ps' pe', removeAll amt qs (.retryable ps pe to) = .retryable ps' pe' to ∧ ∀ x, x ∈ ps' ↔ x ∈ ps ∧ x ∉ qs := by
  induction qs with
  | nil => intro ps pe to; exact ⟨ps, pe, rfl, by simp⟩
  | cons q rest ih =>
    intro ps pe to
    simp only [removeAll, List.foldl_cons, removeSent_retryable]
    by_cases hc : ps.contains q = true
    · simp only [hc, if_true]
      obtain ⟨ps', pe', h1, h2⟩ := ih (removePart q ps) (removeAdjustsPending true pe (amt q)) to
      refine ⟨ps', pe', h1, fun x => ?_⟩
      rw [h2 x, mem_removePart]; simp only [List.mem_cons, not_or]
      constructor
      · rintro ⟨⟨hx, hne⟩, hr⟩; exact ⟨hx, hne, hr⟩
      · rintro ⟨hx, hne, hr⟩; exact ⟨⟨hx, hne⟩, hr⟩
    · simp only [hc]
      obtain ⟨ps', pe', h1, h2⟩ := ih ps pe to
      refine ⟨ps', pe', h1, fun x => ?_⟩
      have hq : q ∉ ps := by simpa using hc
      rw [h2 x]; simp only [List.mem_cons, not_or]
      constructor
      · rintro ⟨hx, hr⟩; exact ⟨hx, fun e => hq (e ▸ hx), hr⟩
      · rintro ⟨hx, _, hr⟩; exact ⟨hx, hr⟩

theorem all_pathFailed_filterMap (id : PayId) (res : List (PartId × PathRes)) :
    ∀ e ∈ (res.filterMap fun x => if pathFailedPushed x.2 then some (Ev.pathFailed id x.1) else none),
      ∃ p, e = Ev.pathFailed id p := by
  intro e he
  rcases List.mem_filterMap.1 he with ⟨x, _, hx⟩
  split at hx
  · exact ⟨x.1, by cases hx; rfl⟩
  · cases hx

/-- events that are all `PaymentPathFailed` of payment `id` -/
def AllPathFailed (id : PayId) (evs : List Ev) : Prop := ∀ e ∈ evs, ∃ p, e = Ev.pathFailed id p

theorem nSent_allPathFailed (id k : PayId) (evs : List Ev) (h : AllPathFailed id evs) : nSent k evs = 0 := by
  unfold nSent
  rw [List.length_eq_zero_iff, List.filter_eq_nil_iff]
  intro e he; obtain ⟨p, rfl⟩ := h e he; simp

theorem nFailed_allPathFailed (id k : PayId) (evs : List Ev) (h : AllPathFailed id evs) : nFailed k evs = 0 := by
  unfold nFailed
  rw [List.length_eq_zero_iff, List.filter_eq_nil_iff]
  intro e he; obtain ⟨p, rfl⟩ := h e he; simp [isFailedFor]

/-- the shapes `handleErr` can return on a Retryable entry -/
inductive CallShape (id : PayId) (ps : List PartId) (to : Nat) (qs : List PartId) : PState × Out → Prop
  | kept (ps' : List PartId) (pe' : Nat) (o : Out) (hev : AllPathFailed id o.evs) (hp : o.panic = false) (hd : o.dup = false)
      (hmem : ∀ x, x ∈ ps' ↔ x ∈ ps ∧ x ∉ qs) : CallShape id ps to qs (.retryable ps' pe' to, o)
  | abandoned (ps' : List PartId) (pre : List Ev) (o : Out) (hev : AllPathFailed id pre)
      (ho : o.evs = (abandonNow id ps' .unexpectedError pre).2.evs) (hp : o.panic = false) (hd : o.dup = false)
      (hmem : ∀ x, x ∈ ps' ↔ x ∈ ps ∧ x ∉ qs) : CallShape id ps to qs ((abandonNow id ps' .unexpectedError pre).1, o)

theorem handleErr_foldl (id : PayId) (st : PState) (k : SendKind) (res : List (PartId × PathRes)) :
    (res.filter fun x => handleRemoves k x.2).foldl (fun s x => removeSent amt x.1 s) st =
      removeAll amt ((res.filter fun x => handleRemoves k x.2).map (·.1)) st := by
  unfold removeAll; rw [List.foldl_map]

theorem handleErr_shape (id : PayId) (ps : List PartId) (pe to : Nat) (k : SendKind) (res : List (PartId × PathRes))
    (tried : List PartId) :
    CallShape id ps to ((res.filter fun x => handleRemoves k x.2).map (·.1))
      (handleErr amt id (.retryable ps pe to) k res tried) := by
  unfold handleErr
  simp only [handleErr_foldl id]
  obtain ⟨ps', pe', h1, h2⟩ := removeAll_retryable (amt := amt) ((res.filter fun x => handleRemoves k x.2).map (·.1)) ps pe to
  rw [h1]
  have hev : AllPathFailed id (if handlePushes k then
      res.filterMap fun x => if pathFailedPushed x.2 then some (Ev.pathFailed id x.1) else none else []) := by
    split
    · exact all_pathFailed_filterMap id res
    · intro e he; cases he
  simp only [abandonP_eq_H]
  cases handleNext k with
  | retry => exact CallShape.kept ps' pe' _ hev rfl rfl h2
  | none => exact CallShape.kept ps' pe' _ hev rfl rfl h2
  | abandonUnexpectedError => exact CallShape.abandoned ps' _ _ hev rfl rfl rfl h2

/-- `payRoute` is `handleErr` of some kind on results for the route's parts, or everything went out -/
theorem payRoute_eq (id : PayId) (st : PState) (paths : List (PartId × PathIn)) (ns : Bool) :
    (∃ k res tried, payRoute amt id st paths ns = handleErr amt id st k res tried ∧ res.map (·.1) = paths.map (·.1)) ∨
    payRoute amt id st paths ns = (st, { tried := paths.map (·.1) }) := by
  unfold payRoute
  split
  · exact Or.inl ⟨_, _, _, rfl, by simp [List.map_map, Function.comp_def]⟩
  · split
    · exact Or.inl ⟨_, _, _, rfl, by simp [List.map_map, Function.comp_def]⟩
    · split
      · exact Or.inr rfl
      · exact Or.inl ⟨_, _, _, rfl, by simp [List.map_map, Function.comp_def]⟩

/-- whatever the result vector: a call on a Retryable entry keeps it Retryable (same total) or abandons it with
    `UnexpectedError`; it pushes only `PaymentPathFailed` before that; it removes only parts of the route -/
theorem payRoute_shape (id : PayId) (ps : List PartId) (pe to : Nat) (paths : List (PartId × PathIn)) (ns : Bool) :
    ∃ qs, (∀ q ∈ qs, q ∈ paths.map (·.1)) ∧
      CallShape id ps to qs (payRoute amt id (.retryable ps pe to) paths ns) := by
  rcases payRoute_eq (amt := amt) id (.retryable ps pe to) paths ns with ⟨k, res, tried, h, hres⟩ | h
  · rw [h]
    refine ⟨_, ?_, handleErr_shape id ps pe to k res tried⟩
    intro q hq
    rw [← hres]
    rcases List.mem_map.1 hq with ⟨x, hx, rfl⟩
    exact List.mem_map.2 ⟨x, (List.mem_filter.1 hx).1, rfl⟩
  · rw [h]
    exact ⟨[], by simp, CallShape.kept ps pe _ (by intro e he; cases he) rfl rfl (by simp)⟩

/-- what a send / retry call (or an abandon) can leave behind when it ran on a Retryable entry holding `ps0`: the
    entry keeps every part of `ps0`, or it held none and `PaymentFailed` was pushed as the last event -/
inductive RetryOutcome (id : PayId) (ps0 : List PartId) : PState × Out → Prop
  | retryable (ps : List PartId) (pe to : Nat) (o : Out) (hk : ∀ x ∈ ps0, x ∈ ps) (hev : AllPathFailed id o.evs)
      (hp : o.panic = false) (hd : o.dup = false) : RetryOutcome id ps0 (.retryable ps pe to, o)
  | abandoned (ps : List PartId) (r : Reason) (o : Out) (hne : ps ≠ []) (hk : ∀ x ∈ ps0, x ∈ ps)
      (hev : AllPathFailed id o.evs) (hp : o.panic = false) (hd : o.dup = false) : RetryOutcome id ps0 (.abandoned ps r, o)
  | failed (r : Reason) (pre : List Ev) (o : Out) (h0 : ps0 = []) (hev : AllPathFailed id pre)
      (ho : o.evs = pre ++ [.failed id r]) (hp : o.panic = false) (hd : o.dup = false) : RetryOutcome id ps0 (.absent, o)

theorem abandonNow_outcome (id : PayId) (ps0 ps : List PartId) (r : Reason) (pre : List Ev) (o : Out)
    (hk : ∀ x ∈ ps0, x ∈ ps) (hpre : AllPathFailed id pre) (ho : o.evs = (abandonNow id ps r pre).2.evs)
    (hp : o.panic = false) (hd : o.dup = false) : RetryOutcome id ps0 ((abandonNow id ps r pre).1, o) := by
  unfold abandonNow at ho ⊢
  split
  · rename_i he
    have hps : ps = [] := by simpa using he
    have h0 : ps0 = [] := List.eq_nil_iff_forall_not_mem.2 fun x hx => by have := hk x hx; rw [hps] at this; cases this
    simp only [he, if_true] at ho
    exact RetryOutcome.failed r pre o h0 hpre ho hp hd
  · rename_i he
    have hne : ps ≠ [] := fun e => he (by simp [e])
    simp only [he] at ho
    exact RetryOutcome.abandoned ps r o hne hk (ho ▸ hpre) hp hd

theorem abandonNow_flags (id : PayId) (ps : List PartId) (r : Reason) (pre : List Ev) :
    (abandonNow id ps r pre).2.panic = false ∧ (abandonNow id ps r pre).2.dup = false := by
  unfold abandonNow; split <;> exact ⟨rfl, rfl⟩

theorem abandonNow_outcome' (id : PayId) (ps : List PartId) (r : Reason) :
    RetryOutcome id ps (abandonNow id ps r []) :=
  abandonNow_outcome id ps ps r [] (abandonNow id ps r []).2 (fun _ h => h) (by intro e he; cases he) rfl
    (abandonNow_flags id ps r []).1 (abandonNow_flags id ps r []).2

theorem callShape_outcome (id : PayId) (ps0 ps : List PartId) (to : Nat) (qs : List PartId) (r : PState × Out)
    (hfresh : ∀ x ∈ ps0, x ∈ ps ∧ x ∉ qs) (h : CallShape id ps to qs r) : RetryOutcome id ps0 r := by
  cases h with
  | kept ps' pe' o hev hp hd hmem => exact RetryOutcome.retryable ps' pe' to o (fun x hx => (hmem x).2 (hfresh x hx)) hev hp hd
  | abandoned ps' pre o hev ho hp hd hmem =>
    exact abandonNow_outcome id ps0 ps' _ pre o (fun x hx => (hmem x).2 (hfresh x hx)) hev ho hp hd

theorem outcome_evs_id (id : PayId) (ps0 : List PartId) (r : PState × Out) (h : RetryOutcome id ps0 r) :
    ∀ e ∈ r.2.evs, e.id = id := by
  cases h with
  | retryable ps pe to o hk hev hp hd => intro e he; obtain ⟨p, rfl⟩ := hev e he; rfl
  | abandoned ps r o hne hk hev hp hd => intro e he; obtain ⟨p, rfl⟩ := hev e he; rfl
  | failed r pre o h0 hev ho hp hd =>
    intro e he
    simp only [ho, List.mem_append, List.mem_singleton] at he
    rcases he with he | rfl
    · obtain ⟨p, rfl⟩ := hev e he; rfl
    · rfl

theorem nFailed_pre_failed (id : PayId) (pre : List Ev) (r : Reason) (h : AllPathFailed id pre) :
    nFailed id (pre ++ [.failed id r]) = 1 := by
  have : nFailed id (pre ++ [.failed id r]) = nFailed id pre + nFailed id [.failed id r] := by
    simp [nFailed, List.filter_append]
  rw [this, nFailed_allPathFailed id id pre h]; simp [nFailed, isFailedFor]

theorem nSent_pre_failed (id k : PayId) (pre : List Ev) (r : Reason) (h : AllPathFailed id pre) :
    nSent k (pre ++ [.failed id r]) = 0 := by
  have : nSent k (pre ++ [.failed id r]) = nSent k pre + nSent k [.failed id r] := by simp [nSent, List.filter_append]
  rw [this, nSent_allPathFailed id k pre h]; simp [nSent]

/-- a call on a Retryable entry pushes no `PaymentSent`; it pushes `PaymentFailed` exactly when it drops the entry -/
theorem outcome_counts (id : PayId) (ps0 : List PartId) (r : PState × Out) (h : RetryOutcome id ps0 r) :
    (∀ k, nSent k r.2.evs = 0) ∧ (r.1 ≠ .absent → nFailed id r.2.evs = 0) ∧ (r.1 = .absent → nFailed id r.2.evs = 1) := by
  cases h with
  | retryable ps pe to o hk hev hp hd =>
    exact ⟨fun k => nSent_allPathFailed id k _ hev, fun _ => nFailed_allPathFailed id id _ hev, fun e => by cases e⟩
  | abandoned ps r o hne hk hev hp hd =>
    exact ⟨fun k => nSent_allPathFailed id k _ hev, fun _ => nFailed_allPathFailed id id _ hev, fun e => by cases e⟩
  | failed r pre o h0 hev ho hp hd =>
    simp only [ho]
    exact ⟨fun k => nSent_pre_failed id k pre r hev, fun e => (e rfl).elim, fun _ => nFailed_pre_failed id pre r hev⟩

/-- `sendR` on an absent id is `payRoute` on the fresh entry (or the insertion assert fires); on a present id it is
    refused -/
theorem stepP_sendR_cases (id : PayId) (st : PState) (paths : List (PartId × PathIn)) (ns : Bool) :
    (st = .absent ∧ freshFor [] (paths.map (·.1)) = true ∧
      stepP amt id st (.sendR paths ns) =
        payRoute amt id (.retryable (paths.map (·.1)) (sumAmt amt (paths.map (·.1))) (sumAmt amt (paths.map (·.1)))) paths ns) ∨
    (st = .absent ∧ stepP amt id st (.sendR paths ns) = (st, { panic := true })) ∨
    (st ≠ .absent ∧ stepP amt id st (.sendR paths ns) = (st, { dup := true })) := by
  cases st with
  | absent =>
    by_cases hf : freshFor [] (paths.map (·.1)) = true
    · exact Or.inl ⟨rfl, hf, by simp [stepP_eq_H, stepPH, hf]⟩
    · exact Or.inr (Or.inl ⟨rfl, by simp [stepP_eq_H, stepPH, hf]⟩)
  | _ => exact Or.inr (Or.inr ⟨by simp, by simp [stepP_eq_H, stepPH]⟩)

theorem mem_of_freshFor (ps parts : List PartId) (h : freshFor ps parts = true) : ∀ x ∈ ps, x ∉ parts := by
  intro x hx hxp
  simp only [freshFor, Bool.and_eq_true, List.all_eq_true] at h
  have := h.2 x hxp
  simp [hx] at this

theorem nodup_of_freshFor (ps parts : List PartId) (h : freshFor ps parts = true) : parts.Nodup := by
  simp only [freshFor, Bool.and_eq_true, decide_eq_true_eq] at h
  exact h.1

/-- `retryR` on a Retryable entry: abandoned by the overflow / retries-exhausted test, or `payRoute` on the entry
    extended by the (fresh) session privs of the route, or the insertion assert fires; elsewhere it does nothing
    (pre-HTLC: debug assertion) -/
theorem stepP_retryR_cases (id : PayId) (st : PState) (paths : List (PartId × PathIn)) (now ns : Bool) :
    (∃ ps pe to r, st = .retryable ps pe to ∧ stepP amt id st (.retryR paths now ns) = abandonNow id ps r []) ∨
    (∃ ps pe to, st = .retryable ps pe to ∧ freshFor ps (paths.map (·.1)) = true ∧
      retryOverflows (sumAmt amt (paths.map (·.1))) pe to = false ∧
      stepP amt id st (.retryR paths now ns) =
        payRoute amt id (.retryable (ps ++ paths.map (·.1)) (pe + sumAmt amt (paths.map (·.1))) to) paths ns) ∨
    (st ≠ .absent ∧ stepP amt id st (.retryR paths now ns) = (st, { panic := true })) ∨
    ((∀ ps pe to, st ≠ .retryable ps pe to) ∧ stepP amt id st (.retryR paths now ns) = (st, {})) := by
  cases st with
  | retryable ps pe to =>
    by_cases ho : retryOverflows (sumAmt amt (paths.map (·.1))) pe to = true
    · exact Or.inl ⟨ps, pe, to, .unexpectedError, rfl, by simp [stepP_eq_H, stepPH, ho]⟩
    · by_cases hn : now = true
      · by_cases hf : freshFor ps (paths.map (·.1)) = true
        · exact Or.inr (Or.inl ⟨ps, pe, to, rfl, hf, by simpa using ho, by simp [stepP_eq_H, stepPH, ho, hn, hf]⟩)
        · exact Or.inr (Or.inr (Or.inl ⟨by simp, by simp [stepP_eq_H, stepPH, ho, hn, hf]⟩))
      · exact Or.inl ⟨ps, pe, to, .retriesExhausted, rfl, by simp [stepP_eq_H, stepPH, ho, hn]⟩
  | preHtlc t => exact Or.inr (Or.inr (Or.inl ⟨by simp, by simp [stepP_eq_H, stepPH]⟩))
  | absent => exact Or.inr (Or.inr (Or.inr ⟨by simp, by simp [stepP_eq_H, stepPH]⟩))
  | fulfilled ps t => exact Or.inr (Or.inr (Or.inr ⟨by simp, by simp [stepP_eq_H, stepPH]⟩))
  | abandoned ps r => exact Or.inr (Or.inr (Or.inr ⟨by simp, by simp [stepP_eq_H, stepPH]⟩))

/-- `payRoute` on an entry extended by fresh parts keeps every old part -/
theorem payRoute_outcome (id : PayId) (ps : List PartId) (pe to : Nat) (paths : List (PartId × PathIn)) (ns : Bool)
    (hf : freshFor ps (paths.map (·.1)) = true) :
    RetryOutcome id ps (payRoute amt id (.retryable (ps ++ paths.map (·.1)) pe to) paths ns) := by
  obtain ⟨qs, hq, hs⟩ := payRoute_shape (amt := amt) id (ps ++ paths.map (·.1)) pe to paths ns
  refine callShape_outcome id ps _ to qs _ (fun x hx => ⟨List.mem_append_left _ hx, fun hxq => ?_⟩) hs
  exact mem_of_freshFor ps _ hf x hx (hq x hxq)

theorem payRoute_outcome_new (id : PayId) (pe to : Nat) (paths : List (PartId × PathIn)) (ns : Bool) :
    RetryOutcome id [] (payRoute amt id (.retryable (paths.map (·.1)) pe to) paths ns) := by
  obtain ⟨qs, hq, hs⟩ := payRoute_shape (amt := amt) id (paths.map (·.1)) pe to paths ns
  exact callShape_outcome id [] _ to qs _ (fun x hx => by cases hx) hs

/-! ### events of one payment step carry that payment's id; absent stays absent under map-wide ops -/

theorem stepP_evs_id (id : PayId) (st : PState) (pop : POp) : ∀ e ∈ (stepP amt id st pop).2.evs, e.id = id := by
  cases pop with
  | sendR paths ns =>
    rcases stepP_sendR_cases (amt := amt) id st paths ns with ⟨_, _, h⟩ | ⟨_, h⟩ | ⟨_, h⟩
    · rw [h]; exact outcome_evs_id id [] _ (payRoute_outcome_new id _ _ paths ns)
    · rw [h]; simp
    · rw [h]; simp
  | retryR paths now ns =>
    rcases stepP_retryR_cases (amt := amt) id st paths now ns with ⟨ps, pe, to, r, _, h⟩ | ⟨ps, pe, to, _, hf, _, h⟩ | ⟨_, h⟩ | ⟨_, h⟩
    · rw [h]; exact outcome_evs_id id ps _ (abandonNow_outcome' id ps r)
    · rw [h]; exact outcome_evs_id id ps _ (payRoute_outcome id ps _ to paths ns hf)
    · rw [h]; simp
    · rw [h]; simp
  | _ =>
    cases st <;> simp only [stepP_eq_H, stepPH, abandonNow, abandonPH] <;>
      (repeat' split) <;> simp [Ev.id]


theorem stepP_absent_sweep (k : PayId) (a : Bool) : stepP amt k .absent (.sweep a) = (.absent, {}) := rfl
theorem stepP_absent_tick (k : PayId) (a : Bool) : stepP amt k .absent (.tick a) = (.absent, {}) := rfl

/-- filtering the events of a map-wide op by a predicate that pins the payment id gives the events of that
    payment's own step (needs one entry per key) -/
theorem filter_flatMap_events (s : Store) (g : PayId → PState → List Ev) (id : PayId) (P : Ev → Bool)
    (hP : ∀ e, P e = true → e.id = id) (hg : ∀ k v, ∀ e ∈ g k v, e.id = k) (habs : g id .absent = [])
    (hnd : (keys s).Nodup) :
    (s.flatMap fun e => g e.1 e.2).filter P = (g id (get s id)).filter P := by
  have none_of : ∀ k v, k ≠ id → (g k v).filter P = [] := by
    intro k v hk
    apply List.filter_eq_nil_iff.2
    intro e he hpe
    exact hk ((hg k v e he).symm.trans (hP e hpe))
  induction s with
  | nil => simp [get, habs]
  | cons e t ih =>
    obtain ⟨a, v⟩ := e
    have hnd' : a ∉ keys t ∧ (keys t).Nodup := by simpa [keys] using hnd
    simp only [List.flatMap_cons, List.filter_append]
    by_cases ha : a = id
    · subst ha
      have hrest : (t.flatMap fun e => g e.1 e.2).filter P = [] := by
        rw [ih hnd'.2, get_absent_of_not_mem t a hnd'.1, habs]; rfl
      simp [hrest, get, List.lookup]
    · have hk : (id == a) = false := by simpa using (fun h : id = a => ha h.symm)
      rw [none_of a v ha, ih hnd'.2]
      simp [get, List.lookup, hk]


/-! ### projection of a global step onto one payment id -/

/-- what a global step does to payment `id`: its new state and the events it pushed for it -/
def projStep (id : PayId) (s : State) (op : Op) : PState × List Ev :=
  match proj id s op with
  | some pop => ((stepP s.amt id (get s.cur id) pop).1, (stepP s.amt id (get s.cur id) pop).2.evs)
  | none => (get s.cur id, [])

theorem one_get_self (s : State) (id : PayId) (pop : POp) :
    get (one s id pop).1.cur id = (stepP s.amt id (get s.cur id) pop).1 := by
  simp [one, get_set_self]

theorem one_get_ne (s : State) (i id : PayId) (pop : POp) (h : id ≠ i) :
    get (one s i pop).1.cur id = get s.cur id := by
  simp [one, get_set_ne _ _ _ _ h]

theorem one_evs_ne (s : State) (i id : PayId) (pop : POp) (P : Ev → Bool) (hP : ∀ e, P e = true → e.id = id)
    (h : id ≠ i) : (one s i pop).2.evs.filter P = [] := by
  apply List.filter_eq_nil_iff.2
  intro e he hpe
  exact h ((hP e hpe).symm.trans (stepP_evs_id i _ pop e he))

theorem all_get (s : State) (f : PayId → POp) (hf : ∀ k, (stepP s.amt k .absent (f k)).1 = .absent) (id : PayId) :
    get (all s f).1.cur id = (stepP s.amt id (get s.cur id) (f id)).1 := by
  simp only [all]
  exact get_map s.cur (fun k v => (stepP s.amt k v (f k)).1) hf id

theorem all_evs (s : State) (f : PayId → POp) (hf : ∀ k, (stepP s.amt k .absent (f k)).2.evs = []) (id : PayId)
    (P : Ev → Bool) (hP : ∀ e, P e = true → e.id = id) (hnd : (keys s.cur).Nodup) :
    (all s f).2.evs.filter P = (stepP s.amt id (get s.cur id) (f id)).2.evs.filter P := by
  simp only [all]
  exact filter_flatMap_events s.cur (fun k v => (stepP s.amt k v (f k)).2.evs) id P hP
    (fun k v e he => stepP_evs_id k v (f k) e he) (hf id) hnd

theorem step_get (s : State) (op : Op) (id : PayId) (hop : op ≠ .restore) :
    get (step s op).1.cur id = (projStep id s op).1 := by
  cases op <;> simp only [step, proj, projStep] <;> try contradiction
  all_goals first
    | rfl
    | (rename_i i _ _ _; by_cases h : i = id
       · subst h; simp [one_get_self]
       · simp [h, one_get_ne _ _ _ _ (Ne.symm h)])
    | (rename_i i _ _; by_cases h : i = id
       · subst h; simp [one_get_self]
       · simp [h, one_get_ne _ _ _ _ (Ne.symm h)])
    | (rename_i i _; by_cases h : i = id
       · subst h; simp [one_get_self]
       · simp [h, one_get_ne _ _ _ _ (Ne.symm h)])
    | exact all_get s _ (fun k => rfl) id


theorem one_evs_self (s : State) (id : PayId) (pop : POp) :
    (one s id pop).2.evs = (stepP s.amt id (get s.cur id) pop).2.evs := rfl

theorem step_evs (s : State) (op : Op) (id : PayId) (P : Ev → Bool) (hP : ∀ e, P e = true → e.id = id)
    (hnd : (keys s.cur).Nodup) :
    (step s op).2.evs.filter P = (projStep id s op).2.filter P := by
  cases op <;> simp only [step, proj, projStep]
  all_goals first
    | rfl
    | (rename_i i _ _ _; by_cases h : i = id
       · subst h; simp [one_evs_self]
       · simp [h, one_evs_ne _ _ _ _ P hP (Ne.symm h)])
    | (rename_i i _ _; by_cases h : i = id
       · subst h; simp [one_evs_self]
       · simp [h, one_evs_ne _ _ _ _ P hP (Ne.symm h)])
    | (rename_i i _; by_cases h : i = id
       · subst h; simp [one_evs_self]
       · simp [h, one_evs_ne _ _ _ _ P hP (Ne.symm h)])
    | exact all_evs s _ (fun k => rfl) id P hP hnd

theorem wf_step (s : State) (op : Op) (h : WF s) : WF (step s op).1 := by
  obtain ⟨h1, h2⟩ := h
  cases op <;> simp only [step, one, all, WF] <;>
    first
      | exact ⟨nodup_set _ _ _ h1, h2⟩
      | exact ⟨by rw [keys_map s.cur (fun e => (stepP s.amt e.1 e.2 _).1)]; exact h1, h2⟩
      | exact ⟨(keys_map s.cur _).symm ▸ h1, h2⟩
      | exact ⟨h1, h2⟩
      | exact ⟨h1, h1⟩
      | exact ⟨h2, h2⟩

theorem wf_init : WF init := by simp [WF, init, keys]


/-! ### the per-payment invariant of one payment instance -/

/-- terminal-event counts so far in this instance (`nS` PaymentSent, `nF` PaymentFailed) and whether a claim
    reached the payment while it owned HTLCs (`c`) -/
def LInv (st : PState) (nS nF : Nat) (c : Bool) : Prop :=
  match st with
  | .absent => False
  | .preHtlc _ | .retryable _ _ _ => nS = 0 ∧ nF = 0 ∧ c = false
  | .abandoned ps _ => nS = 0 ∧ nF = 0 ∧ c = false ∧ ps ≠ []
  | .fulfilled _ _ => nS = 1 ∧ nF = 0 ∧ c = true

/-- what holds when the instance has ended (the entry was removed) -/
def Done (nS nF : Nat) (c : Bool) : Prop := nS + nF = 1 ∧ (nS = 1 ↔ c = true)

def claimHit (st : PState) : POp → Bool
  | .claim _ _ => st.hasHtlcState
  | _ => false

theorem nSent_nil (id : PayId) : nSent id [] = 0 := rfl
theorem nFailed_nil (id : PayId) : nFailed id [] = 0 := rfl
theorem nSent_append (id : PayId) (a b : List Ev) : nSent id (a ++ b) = nSent id a + nSent id b := by
  simp [nSent, List.filter_append]
theorem nFailed_append (id : PayId) (a b : List Ev) : nFailed id (a ++ b) = nFailed id a + nFailed id b := by
  simp [nFailed, List.filter_append]

theorem outcome_linv (id : PayId) (ps0 : List PartId) (r : PState × Out) (h : RetryOutcome id ps0 r) :
    (r.1 ≠ .absent → LInv r.1 (0 + nSent id r.2.evs) (0 + nFailed id r.2.evs) false) ∧
    (r.1 = .absent → Done (0 + nSent id r.2.evs) (0 + nFailed id r.2.evs) false) := by
  have hc := outcome_counts id ps0 r h
  cases h with
  | retryable ps pe to o hk hev hp hd =>
    refine ⟨fun _ => ?_, fun e => by cases e⟩
    simp only [LInv, hc.1 id, hc.2.1 (by simp)]; simp
  | abandoned ps r o hne hk hev hp hd =>
    refine ⟨fun _ => ?_, fun e => by cases e⟩
    simp only [LInv, hc.1 id, hc.2.1 (by simp)]; simp [hne]
  | failed r pre o h0 hev ho hp hd =>
    refine ⟨fun e => (e rfl).elim, fun _ => ?_⟩
    simp only [Done, hc.1 id, hc.2.2 rfl]; simp

theorem local_step (id : PayId) (st : PState) (pop : POp) (nS nF : Nat) (c : Bool) (h : LInv st nS nF c) :
    ((stepP amt id st pop).1 ≠ .absent →
        LInv (stepP amt id st pop).1 (nS + nSent id (stepP amt id st pop).2.evs) (nF + nFailed id (stepP amt id st pop).2.evs)
          (c || claimHit st pop)) ∧
    ((stepP amt id st pop).1 = .absent →
        Done (nS + nSent id (stepP amt id st pop).2.evs) (nF + nFailed id (stepP amt id st pop).2.evs) (c || claimHit st pop)) := by
  have same : ∀ o : Out, o.evs = [] →
      (((st, o) : PState × Out).1 ≠ .absent → LInv st (nS + nSent id o.evs) (nF + nFailed id o.evs) (c || false)) ∧
      (((st, o) : PState × Out).1 = .absent → Done (nS + nSent id o.evs) (nF + nFailed id o.evs) (c || false)) := by
    intro o ho
    simp only [ho, nSent_nil, nFailed_nil, Nat.add_zero, Bool.or_false]
    exact ⟨fun _ => h, fun e => by have e' : st = .absent := e; rw [e'] at h; exact h.elim⟩
  cases pop with
  | sendR paths ns =>
    simp only [claimHit]
    rcases stepP_sendR_cases (amt := amt) id st paths ns with ⟨h0, _, _⟩ | ⟨h0, _⟩ | ⟨_, he⟩
    · rw [h0] at h; exact h.elim
    · rw [h0] at h; exact h.elim
    · rw [he]; exact same _ rfl
  | retryR paths now ns =>
    simp only [claimHit]
    rcases stepP_retryR_cases (amt := amt) id st paths now ns with ⟨ps, pe, to, r, hst, he⟩ | ⟨ps, pe, to, hst, hf, _, he⟩ | ⟨_, he⟩ | ⟨_, he⟩
    · rw [he]; subst hst
      obtain ⟨rfl, rfl, rfl⟩ := h
      simpa using outcome_linv id ps _ (abandonNow_outcome' id ps r)
    · rw [he]; subst hst
      obtain ⟨rfl, rfl, rfl⟩ := h
      simpa using outcome_linv id ps _ (payRoute_outcome (amt := amt) id ps _ to paths ns hf)
    · rw [he]; exact same _ rfl
    · rw [he]; exact same _ rfl
  | _ =>
    cases st <;> simp only [LInv] at h <;> simp only [stepP_eq_H, stepPH, abandonNow, abandonPH, claimHit, PState.hasHtlcState] <;>
      (repeat' split) <;>
      simp_all [LInv, Done, nSent, nFailed, isFailedFor]


/-- the first op on an absent id: no `PaymentSent`; if it creates the entry, no `PaymentFailed` either; if it leaves
    the id absent it pushed at most one `PaymentFailed` (a send whose route is refused outright by
    pay_route_internal — ParameterError / PathParameterError — is added, emptied, abandoned and dropped in one call) -/
theorem first_step (id : PayId) (pop : POp) :
    nSent id (stepP amt id .absent pop).2.evs = 0 ∧
    ((stepP amt id .absent pop).1 ≠ .absent →
      nFailed id (stepP amt id .absent pop).2.evs = 0 ∧ LInv (stepP amt id .absent pop).1 0 0 false) ∧
    ((stepP amt id .absent pop).1 = .absent → nFailed id (stepP amt id .absent pop).2.evs ≤ 1) := by
  cases pop with
  | sendR paths ns =>
    rcases stepP_sendR_cases (amt := amt) id .absent paths ns with ⟨_, _, he⟩ | ⟨_, he⟩ | ⟨h0, _⟩
    · rw [he]
      have ho := payRoute_outcome_new (amt := amt) id (sumAmt amt (paths.map (·.1))) (sumAmt amt (paths.map (·.1))) paths ns
      have hc := outcome_counts id [] _ ho
      have hl := outcome_linv id [] _ ho
      exact ⟨hc.1 id, fun hne => ⟨hc.2.1 hne, by have := hl.1 hne; rw [hc.1 id, hc.2.1 hne] at this; simpa using this⟩,
        fun ha => by rw [hc.2.2 ha]; exact Nat.le_refl 1⟩
    · rw [he]; simp [nSent, nFailed]
    · exact (h0 rfl).elim
  | _ => simp [stepP_eq_H, stepPH, abandonPH, LInv, nSent, nFailed] <;> (try split) <;> simp [LInv]

/-! ### runs -/

def present (s : State) (id : PayId) : Prop := get s.cur id ≠ .absent

/-- no process restart in the op list -/
def NoRestore (ops : List Op) : Prop := Op.restore ∉ ops

/-- the payment is present in every state strictly inside the run (after each op but the last) -/
def StaysPresent (id : PayId) : State → List Op → Prop
  | _, [] => True
  | _, [_] => True
  | s, op :: op' :: rest => present (step s op).1 id ∧ StaysPresent id (step s op).1 (op' :: rest)

/-- a `claim_htlc` for this id is executed while the payment owns HTLCs (Retryable / Fulfilled / Abandoned) -/
def opClaimHit (id : PayId) (s : State) : Op → Bool
  | .claim i _ _ => i == id && (get s.cur id).hasHtlcState
  | _ => false

def claimHits (id : PayId) : State → List Op → Bool
  | _, [] => false
  | s, op :: rest => opClaimHit id s op || claimHits id (step s op).1 rest

theorem sentP_id (id : PayId) : ∀ e, (e == Ev.sent id) = true → e.id = id := by
  intro e he; have : e = Ev.sent id := by simpa using he
  subst this; rfl
theorem failedP_id (id : PayId) : ∀ e, isFailedFor id e = true → e.id = id := by
  intro e he; cases e <;> simp_all [isFailedFor, Ev.id]

theorem nSent_step (s : State) (op : Op) (id : PayId) (hwf : WF s) :
    nSent id (step s op).2.evs = nSent id (projStep id s op).2 := by
  unfold nSent; rw [step_evs s op id _ (sentP_id id) hwf.1]
theorem nFailed_step (s : State) (op : Op) (id : PayId) (hwf : WF s) :
    nFailed id (step s op).2.evs = nFailed id (projStep id s op).2 := by
  unfold nFailed; rw [step_evs s op id _ (failedP_id id) hwf.1]

theorem opClaimHit_proj (id : PayId) (s : State) (op : Op) :
    opClaimHit id s op = (match proj id s op with | some pop => claimHit (get s.cur id) pop | none => false) := by
  cases op <;> simp only [opClaimHit, proj] <;>
    first
      | rfl
      | (rename_i i _ _ _; by_cases h : i = id <;> simp [h, claimHit])
      | (rename_i i _ _; by_cases h : i = id <;> simp [h, claimHit])
      | (rename_i i _; by_cases h : i = id <;> simp [h, claimHit])

/-- one global (non-restart) step keeps the per-payment invariant, or ends the instance with `Done` -/
theorem global_step (s : State) (op : Op) (id : PayId) (nS nF : Nat) (c : Bool) (hwf : WF s)
    (hop : op ≠ .restore) (h : LInv (get s.cur id) nS nF c) :
    (get (step s op).1.cur id ≠ .absent →
      LInv (get (step s op).1.cur id) (nS + nSent id (step s op).2.evs) (nF + nFailed id (step s op).2.evs)
        (c || opClaimHit id s op)) ∧
    (get (step s op).1.cur id = .absent →
      Done (nS + nSent id (step s op).2.evs) (nF + nFailed id (step s op).2.evs) (c || opClaimHit id s op)) := by
  rw [step_get s op id hop, nSent_step s op id hwf, nFailed_step s op id hwf, opClaimHit_proj]
  unfold projStep
  cases hp : proj id s op with
  | none =>
    simp only [nSent_nil, nFailed_nil, Nat.add_zero, Bool.or_false]
    exact ⟨fun _ => h, fun habs => by rw [habs] at h; exact h.elim⟩
  | some pop => exact local_step id _ pop nS nF c h

/-- first op of an instance: executed on the absent payment -/
theorem global_first (s : State) (op : Op) (id : PayId) (hwf : WF s) (hop : op ≠ .restore)
    (h : get s.cur id = .absent) :
    nSent id (step s op).2.evs = 0 ∧ opClaimHit id s op = false ∧
    (get (step s op).1.cur id ≠ .absent →
      nFailed id (step s op).2.evs = 0 ∧ LInv (get (step s op).1.cur id) 0 0 false) ∧
    (get (step s op).1.cur id = .absent → nFailed id (step s op).2.evs ≤ 1) := by
  rw [step_get s op id hop, nSent_step s op id hwf, nFailed_step s op id hwf, opClaimHit_proj]
  unfold projStep
  cases hp : proj id s op with
  | none => simp [h, nSent_nil, nFailed_nil]
  | some pop =>
    rw [h]
    have := first_step (amt := s.amt) id pop
    refine ⟨this.1, ?_, this.2.1, this.2.2⟩
    cases pop <;> simp [claimHit, PState.hasHtlcState]


theorem run_nil (s : State) : run s [] = (s, []) := rfl
theorem run_cons (s : State) (op : Op) (rest : List Op) :
    run s (op :: rest) = ((run (step s op).1 rest).1, (step s op).2.evs ++ (run (step s op).1 rest).2) := rfl

theorem run_inv (id : PayId) : ∀ (ops : List Op) (s : State) (nS nF : Nat) (c : Bool), WF s → NoRestore ops →
    LInv (get s.cur id) nS nF c → StaysPresent id s ops →
    (get (run s ops).1.cur id ≠ .absent →
      LInv (get (run s ops).1.cur id) (nS + nSent id (run s ops).2) (nF + nFailed id (run s ops).2)
        (c || claimHits id s ops)) ∧
    (get (run s ops).1.cur id = .absent →
      Done (nS + nSent id (run s ops).2) (nF + nFailed id (run s ops).2) (c || claimHits id s ops)) := by
  intro ops
  induction ops with
  | nil =>
    intro s nS nF c _ _ h _
    simp only [run_nil, nSent_nil, nFailed_nil, claimHits, Nat.add_zero, Bool.or_false]
    exact ⟨fun _ => h, fun habs => by rw [habs] at h; exact h.elim⟩
  | cons op rest ih =>
    intro s nS nF c hwf hnr h hst
    have hop : op ≠ .restore := fun e => hnr (by simp [e])
    have hnr' : NoRestore rest := fun hm => hnr (List.mem_cons_of_mem _ hm)
    have hg := global_step s op id nS nF c hwf hop h
    have hwf' := wf_step s op hwf
    simp only [run_cons, nSent_append, nFailed_append, claimHits, ← Nat.add_assoc, ← Bool.or_assoc]
    cases rest with
    | nil =>
      simp only [run_nil, nSent_nil, nFailed_nil, claimHits, Nat.add_zero, Bool.or_false]
      exact hg
    | cons op' rest' =>
      have hp : get (step s op).1.cur id ≠ .absent := hst.1
      exact ih (step s op).1 _ _ _ hwf' hnr' (hg.1 hp) hst.2

/-- one payment instance: the id is absent, no restart happens, and the id stays present until (at most) the
    last op — i.e. `ops` is an initial segment of a maximal interval in which the id is present -/
structure Instance (id : PayId) (s : State) (ops : List Op) : Prop where
  wf : WF s
  fresh : get s.cur id = .absent
  norestore : NoRestore ops
  stays : StaysPresent id s ops

/-- the instance really began: its first op created the entry — or created, failed and dropped it in one call (a
    send whose route pay_route_internal refuses outright) -/
def Started (id : PayId) (s : State) (ops : List Op) : Prop :=
  ∃ op rest, ops = op :: rest ∧ (get (step s op).1.cur id ≠ .absent ∨ nFailed id (step s op).2.evs ≥ 1)

theorem instance_summary (id : PayId) (s : State) (ops : List Op) (h : Instance id s ops) :
    (get (run s ops).1.cur id ≠ .absent →
      LInv (get (run s ops).1.cur id) (nSent id (run s ops).2) (nFailed id (run s ops).2) (claimHits id s ops)) ∧
    (get (run s ops).1.cur id = .absent →
      (Started id s ops → Done (nSent id (run s ops).2) (nFailed id (run s ops).2) (claimHits id s ops)) ∧
      (¬ Started id s ops → nSent id (run s ops).2 = 0 ∧ nFailed id (run s ops).2 = 0 ∧ claimHits id s ops = false)) := by
  obtain ⟨hwf, hfresh, hnr, hst⟩ := h
  cases ops with
  | nil =>
    simp only [run_nil, claimHits, nSent_nil, nFailed_nil]
    refine ⟨fun hne => (hne hfresh).elim, fun _ => ⟨fun hs => ?_, fun _ => by simp⟩⟩
    obtain ⟨op, rest, he, _⟩ := hs; cases he
  | cons op rest =>
    have hop : op ≠ .restore := fun e => hnr (by simp [e])
    have hnr' : NoRestore rest := fun hm => hnr (List.mem_cons_of_mem _ hm)
    obtain ⟨h1, h3, h4, h5⟩ := global_first s op id hwf hop hfresh
    have hwf' := wf_step s op hwf
    simp only [run_cons, nSent_append, nFailed_append, claimHits, h1, h3, Nat.zero_add, Bool.false_or]
    by_cases hp : get (step s op).1.cur id = .absent
    · -- the first op did not leave an entry: nothing more can follow
      cases rest with
      | nil =>
        simp only [run_nil, nSent_nil, nFailed_nil, claimHits, Nat.add_zero]
        refine ⟨fun hne => (hne hp).elim, fun _ => ⟨fun hs => ?_, fun hns => ?_⟩⟩
        · obtain ⟨op2, rest2, he, hne⟩ := hs
          cases he
          rcases hne with hne | hne
          · exact (hne hp).elim
          · have := h5 hp
            exact ⟨by omega, by simp⟩
        · refine ⟨trivial, ?_, trivial⟩
          cases hn : nFailed id (step s op).2.evs with
          | zero => rfl
          | succ n => exact (hns ⟨op, [], rfl, Or.inr (by omega)⟩).elim
      | cons op' rest' => exact (hst.1 hp).elim
    · have hst' : StaysPresent id (step s op).1 rest := by
        cases rest with
        | nil => trivial
        | cons op' rest' => exact hst.2
      have := run_inv id rest (step s op).1 0 0 false hwf' hnr' (h4 hp).2 hst'
      simp only [Nat.zero_add, Bool.false_or, (h4 hp).1] at this ⊢
      refine ⟨this.1, fun habs => ⟨fun _ => this.2 habs, fun hns => (hns ⟨op, rest, rfl, Or.inl hp⟩).elim⟩⟩


/-! ### single-step facts: refusal of duplicates, idempotence, when an entry is dropped -/

theorem contains_removePart (p : PartId) (ps : List PartId) : (removePart p ps).contains p = false := by
  simp [removePart]

theorem not_mem_removePart (p : PartId) (ps : List PartId) : p ∉ removePart p ps := by
  simp [removePart]

theorem removePart_of_not_mem (p : PartId) (ps : List PartId) (h : ps.contains p = false) : removePart p ps = ps := by
  unfold removePart
  apply List.filter_eq_self.2
  intro a ha
  have : a ≠ p := fun e => by subst e; simp [ha] at h
  simpa using this

theorem removePart_idem (p : PartId) (ps : List PartId) : removePart p (removePart p ps) = removePart p ps :=
  removePart_of_not_mem p _ (contains_removePart p ps)

theorem all_eq_of_removePart_nil (p : PartId) (ps : List PartId) (h : removePart p ps = []) : ∀ q ∈ ps, q = p := by
  intro q hq
  unfold removePart at h
  have := List.filter_eq_nil_iff.1 h q hq
  simpa using this

/-- the resolution ops of one HTLC -/
def POp.isResolution : POp → Bool
  | .claim _ _ | .finalize _ | .fail _ _ _ => true
  | _ => false

theorem repeat_fail (id : PayId) (st : PState) (p : PartId) (a pm : Bool) :
    (stepP amt id (stepP amt id st (.fail p a pm)).1 (.fail p a pm)).1 = (stepP amt id st (.fail p a pm)).1 ∧
    (stepP amt id (stepP amt id st (.fail p a pm)).1 (.fail p a pm)).2.evs = [] := by
  cases st with
  | absent => simp [stepP_eq_H, stepPH]
  | preHtlc t => simp [stepP_eq_H, stepPH]
  | fulfilled ps t => simp [stepP_eq_H, stepPH, removePart_idem]
  | retryable ps =>
    by_cases hc : p ∈ ps
    · by_cases hr : a = true ∧ pm = false
      · simp [stepP_eq_H, stepPH, hc, hr, not_mem_removePart]
      · by_cases he : removePart p ps = []
        · simp [stepP_eq_H, stepPH, abandonNow, hc, hr, he]
        · simp [stepP_eq_H, stepPH, abandonNow, hc, hr, he, not_mem_removePart]
    · simp [stepP_eq_H, stepPH, hc]
  | abandoned ps r =>
    by_cases hc : p ∈ ps
    · by_cases he : removePart p ps = []
      · simp [stepP_eq_H, stepPH, abandonNow, hc, he]
      · simp [stepP_eq_H, stepPH, abandonNow, hc, he, not_mem_removePart]
    · simp [stepP_eq_H, stepPH, hc]

theorem repeat_finalize (id : PayId) (st : PState) (p : PartId) :
    (stepP amt id (stepP amt id st (.finalize p)).1 (.finalize p)).1 = (stepP amt id st (.finalize p)).1 ∧
    (stepP amt id (stepP amt id st (.finalize p)).1 (.finalize p)).2.evs = [] := by
  cases st with
  | fulfilled ps t =>
    by_cases hc : p ∈ ps
    · simp [stepP_eq_H, stepPH, hc, not_mem_removePart]
    · simp [stepP_eq_H, stepPH, hc]
  | _ => simp [stepP_eq_H, stepPH]

theorem repeat_claim (id : PayId) (st : PState) (p : PartId) (oc : Bool) :
    (stepP amt id (stepP amt id st (.claim p oc)).1 (.claim p oc)).1 = (stepP amt id st (.claim p oc)).1 ∧
    (stepP amt id (stepP amt id st (.claim p oc)).1 (.claim p oc)).2.evs = [] := by
  cases st with
  | absent => simp [stepP_eq_H, stepPH]
  | preHtlc t => simp [stepP_eq_H, stepPH]
  | fulfilled ps t =>
    by_cases hc : oc = true ∧ p ∈ ps
    · simp [stepP_eq_H, stepPH, hc, not_mem_removePart]
    · simp [stepP_eq_H, stepPH, hc]
  | retryable ps =>
    by_cases hc : oc = true ∧ p ∈ ps
    · simp [stepP_eq_H, stepPH, hc, not_mem_removePart]
    · simp [stepP_eq_H, stepPH, hc]
  | abandoned ps r =>
    by_cases hc : oc = true ∧ p ∈ ps
    · simp [stepP_eq_H, stepPH, hc, not_mem_removePart]
    · simp [stepP_eq_H, stepPH, hc]

/-- repeating a claim / finalize / fail right away changes nothing and pushes nothing -/
theorem stepP_repeat (id : PayId) (st : PState) (pop : POp) (h : pop.isResolution = true) :
    (stepP amt id (stepP amt id st pop).1 pop).1 = (stepP amt id st pop).1 ∧ (stepP amt id (stepP amt id st pop).1 pop).2.evs = [] := by
  cases pop <;> simp only [POp.isResolution] at h <;> try contradiction
  · exact repeat_claim ..
  · exact repeat_finalize ..
  · exact repeat_fail ..

/-- a fail for a part the payment does not hold (already removed) changes nothing and pushes nothing -/
theorem stepP_fail_absent_part (id : PayId) (st : PState) (p : PartId) (a pm : Bool)
    (hp : st.parts.contains p = false) (hpre : ∀ t, st ≠ .preHtlc t) :
    stepP amt id st (.fail p a pm) = (st, {}) := by
  cases st <;> simp_all [stepP_eq_H, stepPH, PState.parts, removePart_of_not_mem]

/-- a claim for a part that is gone, on a payment already fulfilled (or already forgotten), is silent -/
theorem stepP_claim_absent_part (id : PayId) (st : PState) (p : PartId) (oc : Bool)
    (hp : st.parts.contains p = false) (hst : st = .absent ∨ st.isFulfilled = true) :
    stepP amt id st (.claim p oc) = (st, {}) := by
  cases st <;> simp_all [stepP_eq_H, stepPH, PState.parts, PState.isFulfilled]

theorem outcome_absent (id : PayId) (ps0 : List PartId) (r : PState × Out) (h : RetryOutcome id ps0 r)
    (ha : r.1 = .absent) : ps0 = [] := by
  cases h with
  | retryable ps pe to o hk hev hp hd => cases ha
  | abandoned ps r o hne hk hev hp hd => cases ha
  | failed r pre o h0 hev ho hp hd => exact h0

/-- an entry is removed only when it holds no part, except for the one part that the removing `fail` resolves -/
theorem stepP_drop (id : PayId) (st : PState) (pop : POp) (hst : st ≠ .absent) (h : (stepP amt id st pop).1 = .absent) :
    ∀ q ∈ st.parts, ∃ a pm, pop = .fail q a pm := by
  cases pop with
  | sendR paths ns =>
    rcases stepP_sendR_cases (amt := amt) id st paths ns with ⟨h0, _, _⟩ | ⟨h0, _⟩ | ⟨_, he⟩
    · exact (hst h0).elim
    · exact (hst h0).elim
    · rw [he] at h; exact (hst h).elim
  | retryR paths now ns =>
    rcases stepP_retryR_cases (amt := amt) id st paths now ns with ⟨ps, pe, to, r, h1, he⟩ | ⟨ps, pe, to, h1, hf, _, he⟩ | ⟨_, he⟩ | ⟨_, he⟩
    · rw [he] at h; subst h1
      have := outcome_absent id ps _ (abandonNow_outcome' id ps r) h
      simp [PState.parts, this]
    · rw [he] at h; subst h1
      have := outcome_absent id ps _ (payRoute_outcome (amt := amt) id ps _ to paths ns hf) h
      simp [PState.parts, this]
    · rw [he] at h; exact (hst h).elim
    · rw [he] at h; exact (hst h).elim
  | _ =>
    cases st <;> simp only [stepP_eq_H, stepPH, abandonNow, abandonPH] at h <;> (repeat' split at h) <;>
      simp_all [PState.parts]
    all_goals
      intro q hq
      have := all_eq_of_removePart_nil _ _ (by assumption) q hq
      simp [this]

/-- a present id refuses `send`: DuplicatePayment, nothing pushed, entry unchanged -/
theorem stepP_send_present (id : PayId) (st : PState) (ps : List PartId) (hst : st ≠ .absent) :
    stepP amt id st (.send ps) = (st, { dup := true }) := by
  cases st <;> simp_all [stepP_eq_H, stepPH]


/-! ### restart: an entry that still knows about a claimed HTLC never turns into PaymentFailed -/

/-- `truth p` = the HTLC of part `p` was (or will be) resolved by the recipient's claim.
    `Good`: the entry is gone, or fulfilled, or still holds a part whose HTLC was claimed -/
def Good (truth : PartId → Bool) (st : PState) : Prop :=
  st = .absent ∨ st.isFulfilled = true ∨ ∃ p ∈ st.parts, truth p = true

/-- what the environment may do to this payment: no fresh send of the same id, and HTLC resolutions
    (live or replayed from monitors) that agree with the ground truth -/
def POkFor (truth : PartId → Bool) : POp → Prop
  | .send _ | .await _ | .sendR _ _ => False
  | .insert p | .claim p _ => truth p = true
  | .fail p _ _ => truth p = false
  | _ => True

def OkFor (truth : PartId → Bool) (id : PayId) : Op → Prop
  | .send i _ | .await i _ | .sendR i _ _ => i ≠ id
  | .insert i p | .claim i p _ => i = id → truth p = true
  | .fail i p _ _ => i = id → truth p = false
  | _ => True

theorem mem_removePart_of_ne (p q : PartId) (ps : List PartId) (hq : q ∈ ps) (hne : q ≠ p) : q ∈ removePart p ps := by
  simp [removePart, hq, hne]

theorem outcome_good (truth : PartId → Bool) (id : PayId) (ps0 : List PartId) (r : PState × Out)
    (h : RetryOutcome id ps0 r) (q : PartId) (hq : q ∈ ps0) (hqt : truth q = true) :
    Good truth r.1 ∧ nFailed id r.2.evs = 0 := by
  have hc := outcome_counts id ps0 r h
  cases h with
  | retryable ps pe to o hk hev hp hd => exact ⟨Or.inr (Or.inr ⟨q, hk q hq, hqt⟩), hc.2.1 (by simp)⟩
  | abandoned ps r o hne hk hev hp hd => exact ⟨Or.inr (Or.inr ⟨q, hk q hq, hqt⟩), hc.2.1 (by simp)⟩
  | failed r pre o h0 hev ho hp hd => rw [h0] at hq; cases hq

theorem good_step (truth : PartId → Bool) (id : PayId) (st : PState) (pop : POp) (hg : Good truth st)
    (hok : POkFor truth pop) :
    Good truth (stepP amt id st pop).1 ∧ nFailed id (stepP amt id st pop).2.evs = 0 := by
  cases pop with
  | sendR paths ns => exact hok.elim
  | retryR paths now ns =>
    rcases stepP_retryR_cases (amt := amt) id st paths now ns with ⟨ps, pe, to, r, h1, he⟩ | ⟨ps, pe, to, h1, hf, _, he⟩ | ⟨_, he⟩ | ⟨_, he⟩
    · rw [he]; subst h1
      rcases hg with h | h | ⟨q, hq, hqt⟩
      · cases h
      · simp [PState.isFulfilled] at h
      · exact outcome_good truth id ps _ (abandonNow_outcome' id ps r) q hq hqt
    · rw [he]; subst h1
      rcases hg with h | h | ⟨q, hq, hqt⟩
      · cases h
      · simp [PState.isFulfilled] at h
      · exact outcome_good truth id ps _ (payRoute_outcome (amt := amt) id ps _ to paths ns hf) q hq hqt
    · rw [he]; exact ⟨hg, rfl⟩
    · rw [he]; exact ⟨hg, rfl⟩
  | _ =>
    rcases hg with rfl | hf | ⟨q, hq, hqt⟩
    · simp_all [stepP_eq_H, stepPH, abandonPH, Good, POkFor, nFailed, PState.isFulfilled, PState.parts] <;> (try split) <;> simp_all
    · cases st <;> simp [PState.isFulfilled] at hf
      simp only [stepP_eq_H, stepPH, abandonPH] <;> (repeat' split) <;>
        simp_all [Good, POkFor, nFailed, isFailedFor, PState.isFulfilled]
    · cases st <;> simp only [PState.parts, List.not_mem_nil] at hq
      case fulfilled ps t =>
        simp only [stepP_eq_H, stepPH, abandonPH] <;> (repeat' split) <;>
          simp_all [Good, POkFor, nFailed, isFailedFor, PState.isFulfilled]
      case retryable ps pe to =>
        have hne : ps ≠ [] := fun e => by simp [e] at hq
        simp only [stepP_eq_H, stepPH, abandonNow, abandonPH] <;> (repeat' split) <;>
          simp_all [Good, POkFor, nFailed, isFailedFor, PState.isFulfilled, PState.parts]
        all_goals
          have hqne : ∀ x, truth x = false → q ≠ x := fun x hx e => by subst e; rw [hqt] at hx; cases hx
          first
            | exact ⟨q, hq, hqt⟩
            | exact ⟨q, Or.inl hq, hqt⟩
            | exact ⟨q, mem_removePart_of_ne _ _ _ hq (hqne _ ‹truth _ = false›), hqt⟩
            | (have h1 := mem_removePart_of_ne _ q ps hq (hqne _ ‹truth _ = false›); simp_all)
      case abandoned ps r =>
        have hne : ps ≠ [] := fun e => by simp [e] at hq
        simp only [stepP_eq_H, stepPH, abandonNow, abandonPH] <;> (repeat' split) <;>
          simp_all [Good, POkFor, nFailed, isFailedFor, PState.isFulfilled, PState.parts]
        all_goals
          have hqne : ∀ x, truth x = false → q ≠ x := fun x hx e => by subst e; rw [hqt] at hx; cases hx
          first
            | exact ⟨q, hq, hqt⟩
            | exact ⟨q, Or.inl hq, hqt⟩
            | exact ⟨q, mem_removePart_of_ne _ _ _ hq (hqne _ ‹truth _ = false›), hqt⟩
            | (have h1 := mem_removePart_of_ne _ q ps hq (hqne _ ‹truth _ = false›); simp_all)


theorem okFor_proj (truth : PartId → Bool) (id : PayId) (s : State) (op : Op) (pop : POp)
    (hok : OkFor truth id op) (hp : proj id s op = some pop) : POkFor truth pop := by
  cases op <;> simp only [proj] at hp <;> simp only [OkFor] at hok
  all_goals first
    | (cases hp; done)
    | (cases hp; trivial)
    | (split at hp
       · cases hp; first | exact hok ‹_› | trivial | (exact absurd ‹_› hok)
       · cases hp)

theorem snap_step (s : State) (op : Op) (hop : op ≠ .persist) : (step s op).1.snapCur = s.snapCur := by
  cases op <;> first | rfl | contradiction

theorem good_global_step (truth : PartId → Bool) (id : PayId) (s : State) (op : Op) (hwf : WF s)
    (hc : Good truth (get s.cur id)) (hs : Good truth (get s.snapCur id)) (hok : OkFor truth id op) :
    Good truth (get (step s op).1.cur id) ∧ Good truth (get (step s op).1.snapCur id) ∧
    nFailed id (step s op).2.evs = 0 := by
  by_cases hr : op = .restore
  · subst hr; exact ⟨hs, hs, rfl⟩
  by_cases hpz : op = .persist
  · subst hpz; exact ⟨hc, hc, rfl⟩
  rw [snap_step s op hpz, step_get s op id hr, nFailed_step s op id hwf]
  unfold projStep
  cases hp : proj id s op with
  | none => exact ⟨hc, hs, rfl⟩
  | some pop =>
    have := good_step (amt := s.amt) truth id _ pop hc (okFor_proj truth id s op pop hok hp)
    exact ⟨this.1, hs, this.2⟩

theorem good_run (truth : PartId → Bool) (id : PayId) : ∀ (ops : List Op) (s : State), WF s →
    Good truth (get s.cur id) → Good truth (get s.snapCur id) → (∀ op ∈ ops, OkFor truth id op) →
    nFailed id (run s ops).2 = 0 := by
  intro ops
  induction ops with
  | nil => intro s _ _ _ _; rfl
  | cons op rest ih =>
    intro s hwf hc hs hok
    obtain ⟨h1, h2, h3⟩ := good_global_step truth id s op hwf hc hs (hok op (by simp))
    rw [run_cons, nFailed_append, h3, Nat.zero_add]
    exact ih _ (wf_step s op hwf) h1 h2 (fun o ho => hok o (List.mem_cons_of_mem _ ho))

/-- PaymentSent is only ever pushed by a `claim_htlc` for that id (whatever else happens, restarts included) -/
theorem sent_needs_claim (id : PayId) : ∀ (ops : List Op) (s : State), WF s →
    nSent id (run s ops).2 > 0 → ∃ p oc, Op.claim id p oc ∈ ops := by
  intro ops
  induction ops with
  | nil => intro s _ h; simp [run_nil, nSent_nil] at h
  | cons op rest ih =>
    intro s hwf h
    rw [run_cons, nSent_append] at h
    by_cases h0 : nSent id (step s op).2.evs = 0
    · rw [h0, Nat.zero_add] at h
      obtain ⟨p, oc, hm⟩ := ih _ (wf_step s op hwf) h
      exact ⟨p, oc, List.mem_cons_of_mem _ hm⟩
    · rw [nSent_step s op id hwf] at h0
      unfold projStep at h0
      cases hp : proj id s op with
      | none => simp [hp, nSent_nil] at h0
      | some pop =>
        simp only [hp] at h0
        cases pop with
        | claim p oc =>
          refine ⟨p, oc, ?_⟩
          cases op <;> simp only [proj] at hp <;> (try split at hp) <;> simp_all
        | sendR paths ns =>
          exfalso; apply h0
          rcases stepP_sendR_cases (amt := s.amt) id (get s.cur id) paths ns with ⟨_, _, he⟩ | ⟨_, he⟩ | ⟨_, he⟩
          · rw [he]; exact (outcome_counts id [] _ (payRoute_outcome_new id _ _ paths ns)).1 id
          · rw [he]; rfl
          · rw [he]; rfl
        | retryR paths now ns =>
          exfalso; apply h0
          rcases stepP_retryR_cases (amt := s.amt) id (get s.cur id) paths now ns with ⟨ps, pe, to, r, _, he⟩ | ⟨ps, pe, to, _, hf, _, he⟩ | ⟨_, he⟩ | ⟨_, he⟩
          · rw [he]; exact (outcome_counts id ps _ (abandonNow_outcome' id ps r)).1 id
          · rw [he]; exact (outcome_counts id ps _ (payRoute_outcome id ps _ to paths ns hf)).1 id
          · rw [he]; rfl
          · rw [he]; rfl
        | _ =>
          exfalso; apply h0
          cases (get s.cur id) <;> simp only [stepP_eq_H, stepPH, abandonNow, abandonPH] <;> (repeat' split) <;> simp [nSent]


/-- the five ways one payment instance can look after any of its prefixes -/
theorem instance_cases (id : PayId) (s : State) (ops : List Op) (h : Instance id s ops) :
    let st := get (run s ops).1.cur id
    let nS := nSent id (run s ops).2
    let nF := nFailed id (run s ops).2
    let ch := claimHits id s ops
    (st = .absent ∧ ¬ Started id s ops ∧ nS = 0 ∧ nF = 0 ∧ ch = false) ∨
    (st = .absent ∧ Started id s ops ∧ nS + nF = 1 ∧ (nS = 1 ↔ ch = true)) ∨
    ((∃ t, st = .preHtlc t) ∧ nS = 0 ∧ nF = 0 ∧ ch = false) ∨
    ((∃ ps pe to, st = .retryable ps pe to) ∧ nS = 0 ∧ nF = 0 ∧ ch = false) ∨
    ((∃ ps r, st = .abandoned ps r ∧ ps ≠ []) ∧ nS = 0 ∧ nF = 0 ∧ ch = false) ∨
    ((∃ ps t, st = .fulfilled ps t) ∧ nS = 1 ∧ nF = 0 ∧ ch = true) := by
  intro st nS nF ch
  have hsum := instance_summary id s ops h
  cases hst : get (run s ops).1.cur id with
  | absent =>
    by_cases hs : Started id s ops
    · exact Or.inr (Or.inl ⟨hst, hs, ((hsum.2 hst).1 hs).1, ((hsum.2 hst).1 hs).2⟩)
    · exact Or.inl ⟨hst, hs, (hsum.2 hst).2 hs⟩
  | preHtlc t =>
    have := hsum.1 (by rw [hst]; simp); rw [hst] at this
    exact Or.inr (Or.inr (Or.inl ⟨⟨t, hst⟩, this⟩))
  | retryable ps pe to =>
    have := hsum.1 (by rw [hst]; simp); rw [hst] at this
    exact Or.inr (Or.inr (Or.inr (Or.inl ⟨⟨ps, pe, to, hst⟩, this⟩)))
  | abandoned ps r =>
    have := hsum.1 (by rw [hst]; simp); rw [hst] at this
    exact Or.inr (Or.inr (Or.inr (Or.inr (Or.inl ⟨⟨ps, r, hst, this.2.2.2⟩, this.1, this.2.1, this.2.2.1⟩))))
  | fulfilled ps t =>
    have := hsum.1 (by rw [hst]; simp); rw [hst] at this
    exact Or.inr (Or.inr (Or.inr (Or.inr (Or.inr ⟨⟨ps, t, hst⟩, this⟩))))

/-! ### the entry tracks the in-flight set: amounts, the result classification, one call, one step, runs -/

theorem sumAmt_nil : sumAmt amt [] = 0 := rfl
theorem sumAmt_cons (p : PartId) (ps : List PartId) : sumAmt amt (p :: ps) = amt p + sumAmt amt ps := by
  simp [sumAmt]
theorem sumAmt_append (a b : List PartId) : sumAmt amt (a ++ b) = sumAmt amt a + sumAmt amt b := by
  simp [sumAmt, List.sum_append]

theorem removePart_cons_self (p : PartId) (ps : List PartId) : removePart p (p :: ps) = removePart p ps := by
  simp [removePart]
theorem removePart_cons_ne (p q : PartId) (ps : List PartId) (h : q ≠ p) : removePart p (q :: ps) = q :: removePart p ps := by
  simp [removePart, h]

theorem sumAmt_removePart (p : PartId) : ∀ (ps : List PartId), ps.Nodup → p ∈ ps →
    sumAmt amt (removePart p ps) + amt p = sumAmt amt ps := by
  intro ps
  induction ps with
  | nil => intro _ h; cases h
  | cons q rest ih =>
    intro hnd hp
    have hnd' := List.nodup_cons.1 hnd
    by_cases hq : q = p
    · subst hq
      rw [removePart_cons_self, removePart_of_not_mem q rest (by simpa using hnd'.1), sumAmt_cons]; omega
    · have hpr : p ∈ rest := by
        rcases List.mem_cons.1 hp with h | h
        · exact (hq h.symm).elim
        · exact h
      rw [removePart_cons_ne p q rest hq, sumAmt_cons, sumAmt_cons]
      have := ih hnd'.2 hpr; omega

theorem nodup_removePart (p : PartId) (ps : List PartId) (h : ps.Nodup) : (removePart p ps).Nodup :=
  h.sublist List.filter_sublist

theorem removeSent_tracked (p : PartId) (ps : List PartId) (to : Nat) (hnd : ps.Nodup) :
    removeSent amt p (.retryable ps (sumAmt amt ps) to) =
      .retryable (removePart p ps) (sumAmt amt (removePart p ps)) to := by
  rw [removeSent_eq_H]; unfold removeSentH
  by_cases hc : ps.contains p = true
  · simp only [hc, if_true, removeAdjustsPending]
    have := sumAmt_removePart (amt := amt) p ps hnd (by simpa using hc)
    congr 1; omega
  · simp only [hc]
    rw [removePart_of_not_mem p ps (by simpa using hc)]; rfl

theorem removeAll_tracked (qs : List PartId) : ∀ (ps : List PartId) (to : Nat), ps.Nodup →
    removeAll amt qs (.retryable ps (sumAmt amt ps) to) =
      .retryable (ps.filter fun x => !qs.contains x) (sumAmt amt (ps.filter fun x => !qs.contains x)) to := by
  induction qs with
  | nil =>
    intro ps to _
    have : ps.filter (fun x => ![].contains x) = ps := List.filter_eq_self.2 (by simp)
    rw [this]; rfl
  | cons q rest ih =>
    intro ps to hnd
    have : removeAll amt (q :: rest) (.retryable ps (sumAmt amt ps) to) =
        removeAll amt rest (removeSent amt q (.retryable ps (sumAmt amt ps) to)) := rfl
    rw [this, removeSent_tracked q ps to hnd, ih _ to (nodup_removePart q ps hnd)]
    have hf : (removePart q ps).filter (fun x => !rest.contains x) = ps.filter (fun x => !(q :: rest).contains x) := by
      unfold removePart
      rw [List.filter_filter]
      apply List.filter_congr
      intro x _
      by_cases hx : x = q <;> simp [hx]
    rw [hf]

theorem flagsStep_flags (r : PathRes) (a : Nat) (f : Flags) :
    (flagsStep r a f).hasOk = (f.hasOk || r != .err) ∧ (flagsStep r a f).hasErr = (f.hasErr || r != .ok) ∧
    (flagsStep r a f).hasUnsent = (f.hasUnsent || r == .err) := by
  cases r <;> simp [flagsStep, PathRes.isOk, PathRes.isErr, PathRes.isMip]

theorem flags_fold (res : List (PartId × PathRes)) : ∀ (f : Flags),
    (res.foldl (fun f x => flagsStep x.2 (amt x.1) f) f).hasOk = (f.hasOk || res.any fun x => x.2 != .err) ∧
    (res.foldl (fun f x => flagsStep x.2 (amt x.1) f) f).hasErr = (f.hasErr || res.any fun x => x.2 != .ok) ∧
    (res.foldl (fun f x => flagsStep x.2 (amt x.1) f) f).hasUnsent = (f.hasUnsent || res.any fun x => x.2 == .err) := by
  induction res with
  | nil => intro f; simp
  | cons x rest ih =>
    intro f
    simp only [List.foldl_cons, List.any_cons]
    obtain ⟨h1, h2, h3⟩ := ih (flagsStep x.2 (amt x.1) f)
    obtain ⟨g1, g2, g3⟩ := flagsStep_flags x.2 (amt x.1) f
    rw [h1, h2, h3, g1, g2, g3]
    simp [Bool.or_assoc]

/-- the result vector of the send loop -/
def sendResults (paths : List (PartId × PathIn)) : List (PartId × PathRes) := paths.map fun x => (x.1, x.2.sendRes)

/-- THE LINK between pay_route_internal's classification, handle_pay_route_err's choice of `failed_paths`, and the
    ground truth: for every result vector (no path refused by the parameter check), `Ok(())` is returned only if
    every HTLC is in flight, and otherwise the arm that handles the error removes exactly the session privs of
    the paths whose HTLC is NOT in flight — a `MonitorUpdateInProgress` path is kept. -/
theorem classify_spec (paths : List (PartId × PathIn)) (hnb : ∀ x ∈ paths, x.2 ≠ .bad) :
    (sendKindOf (flagsOf amt (sendResults paths)) = .sentAll → ∀ x ∈ paths, x.2.inFlight = true) ∧
    (sendKindOf (flagsOf amt (sendResults paths)) ≠ .sentAll →
      ∀ x ∈ paths, handleRemoves (sendKindOf (flagsOf amt (sendResults paths))) x.2.sendRes = !x.2.inFlight) := by
  obtain ⟨h1, h2, h3⟩ := flags_fold (amt := amt) (sendResults paths) {}
  have e1 : (flagsOf amt (sendResults paths)).hasOk = paths.any fun x => x.2.sendRes != .err := by
    unfold flagsOf; rw [h1]; simp [sendResults, List.any_map, Function.comp_def]
  have e2 : (flagsOf amt (sendResults paths)).hasErr = paths.any fun x => x.2.sendRes != .ok := by
    unfold flagsOf; rw [h2]; simp [sendResults, List.any_map, Function.comp_def]
  have e3 : (flagsOf amt (sendResults paths)).hasUnsent = paths.any fun x => x.2.sendRes == .err := by
    unfold flagsOf; rw [h3]; simp [sendResults, List.any_map, Function.comp_def]
  unfold sendKindOf
  rw [e1, e2, e3]
  by_cases hE : (paths.any fun x => x.2.sendRes != .ok) = true
  · by_cases hO : (paths.any fun x => x.2.sendRes != .err) = true
    · by_cases hU : (paths.any fun x => x.2.sendRes == .err) = true
      · simp only [hE, hO, hU, Bool.and_self, if_true]
        refine ⟨fun h => (by cases h), fun _ x hx => ?_⟩
        have := hnb x hx
        cases hx2 : x.2 <;> simp_all [PathIn.sendRes, PathIn.inFlight, handleRemoves, partialRetryRemoves]
      · simp only [hE, hO, hU, Bool.and_self, if_true]
        refine ⟨fun h => (by cases h), fun _ x hx => ?_⟩
        have hx' : (x.2.sendRes == .err) = false := by
          cases hb : (x.2.sendRes == .err)
          · rfl
          · exact (hU (List.any_eq_true.2 ⟨x, hx, hb⟩)).elim
        cases hx2 : x.2 <;> simp_all [PathIn.sendRes, PathIn.inFlight, handleRemoves]
    · simp only [hE, hO, Bool.and_false, Bool.false_eq_true, if_false, if_true]
      refine ⟨fun h => (by cases h), fun _ x hx => ?_⟩
      have hx' : (x.2.sendRes != .err) = false := by
        cases hb : (x.2.sendRes != .err)
        · rfl
        · exact (hO (List.any_eq_true.2 ⟨x, hx, hb⟩)).elim
      cases hx2 : x.2 <;> simp_all [PathIn.sendRes, PathIn.inFlight, handleRemoves]
  · simp only [hE, Bool.false_and, Bool.false_eq_true, if_false]
    refine ⟨fun _ x hx => ?_, fun h => (h rfl).elim⟩
    have hx' : (x.2.sendRes != .ok) = false := by
      cases hb : (x.2.sendRes != .ok)
      · rfl
      · exact (hE (List.any_eq_true.2 ⟨x, hx, hb⟩)).elim
    cases hx2 : x.2 <;> simp_all [PathIn.sendRes, PathIn.inFlight]

/-- the entry of a payment tracks exactly the in-flight set `fl` (same parts, in order; no part twice), and while it
    is Retryable its `pending_amt_msat` is the sum of their amounts -/
def Tracks (amt : Amt) (st : PState) (fl : List PartId) : Prop :=
  st.parts = fl ∧ fl.Nodup ∧ ∀ ps pe to, st = .retryable ps pe to → pe = sumAmt amt ps

theorem tracks_retryable (ps : List PartId) (to : Nat) (h : ps.Nodup) :
    Tracks amt (.retryable ps (sumAmt amt ps) to) ps :=
  ⟨rfl, h, fun _ _ _ e => by cases e; rfl⟩

theorem abandonNow_tracks (id : PayId) (ps : List PartId) (r : Reason) (pre : List Ev) (h : ps.Nodup) :
    Tracks amt (abandonNow id ps r pre).1 ps := by
  unfold abandonNow
  split
  · rename_i he
    have : ps = [] := by simpa using he
    subst this
    exact ⟨rfl, h, fun _ _ _ e => by cases e⟩
  · exact ⟨rfl, h, fun _ _ _ e => by cases e⟩

theorem handleErr_tracks (id : PayId) (P : List PartId) (to : Nat) (k : SendKind) (res : List (PartId × PathRes))
    (tried : List PartId) (hnd : P.Nodup) :
    (handleErr amt id (.retryable P (sumAmt amt P) to) k res tried).2.panic = false ∧
    (handleErr amt id (.retryable P (sumAmt amt P) to) k res tried).2.tried = tried ∧
    Tracks amt (handleErr amt id (.retryable P (sumAmt amt P) to) k res tried).1
      (P.filter fun x => !((res.filter fun y => handleRemoves k y.2).map (·.1)).contains x) := by
  unfold handleErr
  simp only [handleErr_foldl id]
  rw [removeAll_tracked _ P to hnd]
  have hnd' : (P.filter fun x => !((res.filter fun y => handleRemoves k y.2).map (·.1)).contains x).Nodup :=
    hnd.sublist List.filter_sublist
  simp only [abandonP_eq_H]
  cases handleNext k with
  | retry => exact ⟨rfl, rfl, tracks_retryable _ to hnd'⟩
  | none => exact ⟨rfl, rfl, tracks_retryable _ to hnd'⟩
  | abandonUnexpectedError => exact ⟨rfl, rfl, abandonNow_tracks id _ _ _ hnd'⟩

/-- parts of a route with pairwise distinct session privs: dropping those whose path is flagged leaves those whose
    path is not -/
theorem filter_unflagged (f : PathIn → Bool) : ∀ (paths : List (PartId × PathIn)), (paths.map (·.1)).Nodup →
    ((paths.map (·.1)).filter fun p => !((paths.filter fun x => !f x.2).map (·.1)).contains p) =
      (paths.filter fun x => f x.2).map (·.1) := by
  intro paths
  induction paths with
  | nil => intro _; rfl
  | cons x rest ih =>
    intro hnd
    simp only [List.map_cons, List.nodup_cons] at hnd
    obtain ⟨hx, hr⟩ := hnd
    have ih' := ih hr
    -- the head's session priv does not occur in the tail, so adding it to the dropped list changes nothing there
    have tailsame : ∀ (l : List PartId), (rest.map (·.1)).filter (fun p => !(x.1 :: l).contains p) =
        (rest.map (·.1)).filter (fun p => !l.contains p) := by
      intro l
      apply List.filter_congr
      intro p hp
      have : p ≠ x.1 := fun e => hx (e ▸ hp)
      simp [this]
    cases hf : f x.2
    · simp only [List.filter_cons, hf, Bool.not_false, if_true, List.map_cons, Bool.false_eq_true, if_false]
      simp only [List.contains_cons, beq_self_eq_true, Bool.true_or, Bool.not_true, Bool.false_eq_true, if_false]
      rw [← ih']
      exact tailsame _
    · simp only [List.filter_cons, hf, Bool.not_true, Bool.false_eq_true, if_false, if_true, List.map_cons]
      have hnc : ((rest.filter fun y => !f y.2).map (·.1)).contains x.1 = false := by
        cases hc : ((rest.filter fun y => !f y.2).map (·.1)).contains x.1
        · rfl
        · exfalso; apply hx
          have : x.1 ∈ (rest.filter fun y => !f y.2).map (·.1) := by simpa using hc
          rcases List.mem_map.1 this with ⟨y, hy, hy1⟩
          exact List.mem_map.2 ⟨y, (List.mem_filter.1 hy).1, hy1⟩
      simp only [hnc, Bool.not_false, if_true]
      rw [ih']

theorem filter_append_kept (ps parts removed : List PartId) (hdis : ∀ x ∈ ps, x ∉ parts)
    (hsub : ∀ x ∈ removed, x ∈ parts) :
    (ps ++ parts).filter (fun x => !removed.contains x) = ps ++ parts.filter (fun x => !removed.contains x) := by
  rw [List.filter_append]
  congr 1
  apply List.filter_eq_self.2
  intro x hx
  have : x ∉ removed := fun h => hdis x hx (hsub x h)
  simpa using this

theorem removed_sub (k : SendKind) (res : List (PartId × PathRes)) (parts : List PartId) (h : res.map (·.1) = parts) :
    ∀ x ∈ (res.filter fun y => handleRemoves k y.2).map (·.1), x ∈ parts := by
  intro x hx
  rcases List.mem_map.1 hx with ⟨y, hy, rfl⟩
  rw [← h]; exact List.mem_map.2 ⟨y, (List.mem_filter.1 hy).1, rfl⟩

/-- ONE SEND / RETRY CALL, whatever the per-path results: on an entry that tracked `ps` and was extended by the
    route's (fresh) session privs, `pay_route_internal` + `handle_pay_route_err` leave an entry that tracks `ps`
    plus exactly the parts whose HTLC is in flight (handed to send_payment_along_path and answered Ok or
    MonitorUpdateInProgress), with the matching pending amount -/
theorem payRoute_tracks (id : PayId) (ps : List PartId) (to : Nat) (paths : List (PartId × PathIn)) (ns : Bool)
    (hnd : (ps ++ paths.map (·.1)).Nodup) :
    (payRoute amt id (.retryable (ps ++ paths.map (·.1)) (sumAmt amt (ps ++ paths.map (·.1))) to) paths ns).2.panic = false ∧
    Tracks amt (payRoute amt id (.retryable (ps ++ paths.map (·.1)) (sumAmt amt (ps ++ paths.map (·.1))) to) paths ns).1
      (ps ++ accepted (payRoute amt id (.retryable (ps ++ paths.map (·.1)) (sumAmt amt (ps ++ paths.map (·.1))) to) paths ns).2.tried paths) := by
  obtain ⟨hps, hparts, hdis⟩ := List.nodup_append.1 hnd
  have hdis' : ∀ x ∈ ps, x ∉ paths.map (·.1) := fun x hx hxp => hdis x hx x hxp rfl
  -- nothing handed to send_payment_along_path, every session priv of the route removed
  have none_sent : ∀ (k : SendKind) (res : List (PartId × PathRes)), res.map (·.1) = paths.map (·.1) →
      (∀ r, handleRemoves k r = true) →
      (handleErr amt id (.retryable (ps ++ paths.map (·.1)) (sumAmt amt (ps ++ paths.map (·.1))) to) k res []).2.panic = false ∧
      Tracks amt (handleErr amt id (.retryable (ps ++ paths.map (·.1)) (sumAmt amt (ps ++ paths.map (·.1))) to) k res []).1
        (ps ++ accepted (handleErr amt id (.retryable (ps ++ paths.map (·.1)) (sumAmt amt (ps ++ paths.map (·.1))) to) k res []).2.tried paths) := by
    intro k res hres hall
    obtain ⟨h1, h2, h3⟩ := handleErr_tracks (amt := amt) id (ps ++ paths.map (·.1)) to k res [] hnd
    refine ⟨h1, ?_⟩
    rw [h2]
    have hrem : (res.filter fun y => handleRemoves k y.2).map (·.1) = paths.map (·.1) := by
      rw [List.filter_eq_self.2 (fun y _ => hall y.2), hres]
    rw [hrem, filter_append_kept ps _ _ hdis' (fun _ h => h)] at h3
    have e1 : (paths.map (·.1)).filter (fun x => !(paths.map (·.1)).contains x) = [] := by
      apply List.filter_eq_nil_iff.2; intro x hx; simp [hx]
    have e2 : accepted [] paths = [] := by simp [accepted]
    rw [e1] at h3; rw [e2]; exact h3
  unfold payRoute
  split
  · exact none_sent .parameterError _ (by simp [List.map_map, Function.comp_def]) (fun r => rfl)
  · split
    · exact none_sent .pathParameterError _ (by simp [List.map_map, Function.comp_def]) (fun r => rfl)
    · rename_i hbad
      have hnb : ∀ x ∈ paths, x.2 ≠ .bad := by
        intro x hx e
        apply hbad
        exact List.any_eq_true.2 ⟨x, hx, by simp [e]⟩
      obtain ⟨c1, c2⟩ := classify_spec (amt := amt) paths hnb
      have hacc : accepted (paths.map (·.1)) paths = (paths.filter fun x => x.2.inFlight).map (·.1) := by
        unfold accepted
        congr 1
        apply List.filter_congr
        intro x hx
        have : (paths.map (·.1)).contains x.1 = true :=
          List.contains_iff_mem.2 (List.mem_map.2 ⟨x, hx, rfl⟩)
        rw [this]; simp
      split
      · rename_i hk
        refine ⟨rfl, ?_⟩
        show Tracks amt _ (ps ++ accepted (paths.map (·.1)) paths)
        rw [hacc, List.filter_eq_self.2 (fun x hx => c1 hk x hx)]
        exact tracks_retryable _ to hnd
      · rename_i k hk
        have hk' : sendKindOf (flagsOf amt (sendResults paths)) ≠ .sentAll := hk
        obtain ⟨h1, h2, h3⟩ := handleErr_tracks (amt := amt) id (ps ++ paths.map (·.1)) to
          (sendKindOf (flagsOf amt (sendResults paths))) (sendResults paths) (paths.map (·.1)) hnd
        refine ⟨h1, ?_⟩
        show Tracks amt _ (ps ++ accepted (handleErr amt id _ (sendKindOf (flagsOf amt (sendResults paths)))
          (sendResults paths) (paths.map (·.1))).2.tried paths)
        rw [h2, hacc]
        have hrem : ((sendResults paths).filter fun y => handleRemoves (sendKindOf (flagsOf amt (sendResults paths))) y.2).map (·.1) =
            (paths.filter fun x => !x.2.inFlight).map (·.1) := by
          unfold sendResults
          rw [List.filter_map, List.map_map]
          have : (fun y : PartId × PathRes => handleRemoves (sendKindOf (flagsOf amt (sendResults paths))) y.2) ∘
              (fun x : PartId × PathIn => (x.1, x.2.sendRes)) =
              fun x => handleRemoves (sendKindOf (flagsOf amt (sendResults paths))) x.2.sendRes := rfl
          unfold sendResults at this
          rw [this]
          congr 1
          apply List.filter_congr
          intro x hx
          exact c2 hk' x hx
        rw [hrem, filter_append_kept ps _ _ hdis'
          (fun x hx => by rcases List.mem_map.1 hx with ⟨y, hy, rfl⟩; exact List.mem_map.2 ⟨y, (List.mem_filter.1 hy).1, rfl⟩),
          filter_unflagged PathIn.inFlight paths hparts] at h3
        exact h3

theorem nodup_append_fresh (ps parts : List PartId) (h : ps.Nodup) (hf : freshFor ps parts = true) : (ps ++ parts).Nodup :=
  List.nodup_append.2 ⟨h, nodup_of_freshFor ps parts hf, fun a ha b hb e => mem_of_freshFor ps parts hf a ha (e ▸ hb)⟩

theorem accepted_nil (paths : List (PartId × PathIn)) : accepted [] paths = [] := by simp [accepted]

theorem abandonNow_tried (id : PayId) (ps : List PartId) (r : Reason) (pre : List Ev) :
    (abandonNow id ps r pre).2.tried = [] := by
  unfold abandonNow; split <;> rfl

theorem tracks_absent_nil (fl : List PartId) (h : Tracks amt .absent fl) : fl = [] := h.1.symm
theorem tracks_preHtlc_nil (t : Nat) (fl : List PartId) (h : Tracks amt (.preHtlc t) fl) : fl = [] := h.1.symm

theorem tracks_nil_absent : Tracks amt .absent [] := ⟨rfl, List.nodup_nil, fun _ _ _ e => by cases e⟩

/-- ONE STEP: every op other than the start-up `insert` keeps "the entry tracks the in-flight set" -/
theorem track_step (id : PayId) (st : PState) (pop : POp) (fl : List PartId) (h : Tracks amt st fl)
    (hni : ∀ p, pop ≠ .insert p) :
    Tracks amt (stepP amt id st pop).1 (flightP fl pop (stepP amt id st pop).2) := by
  obtain ⟨hparts, hnd, hpend⟩ := h
  have hself : Tracks amt st fl := ⟨hparts, hnd, hpend⟩
  cases pop with
  | insert p => exact (hni p rfl).elim
  | sendR paths ns =>
    rcases stepP_sendR_cases (amt := amt) id st paths ns with ⟨h0, hf, he⟩ | ⟨h0, he⟩ | ⟨_, he⟩
    · subst h0
      have hfl : fl = [] := hparts.symm
      subst hfl
      have := payRoute_tracks (amt := amt) id [] (sumAmt amt (paths.map (·.1))) paths ns
        (by simpa using nodup_of_freshFor [] _ hf)
      simp only [List.nil_append] at this
      rw [he]; simp only [flightP, this.1, Bool.false_eq_true, if_false, List.nil_append]
      exact this.2
    · rw [he]; simpa [flightP] using hself
    · rw [he]; simpa [flightP, accepted_nil] using hself
  | retryR paths now ns =>
    rcases stepP_retryR_cases (amt := amt) id st paths now ns with ⟨ps, pe, to, r, h1, he⟩ | ⟨ps, pe, to, h1, hf, _, he⟩ | ⟨_, he⟩ | ⟨_, he⟩
    · subst h1
      rw [he]
      have hfl : ps = fl := hparts
      subst hfl
      simp only [flightP, (abandonNow_flags id ps r []).1, abandonNow_tried, accepted_nil, Bool.false_eq_true, if_false,
        List.append_nil]
      exact abandonNow_tracks (amt := amt) id ps r [] hnd
    · subst h1
      have hfl : ps = fl := hparts
      subst hfl
      have hpe := hpend ps pe to rfl
      subst hpe
      have := payRoute_tracks (amt := amt) id ps to paths ns (nodup_append_fresh ps _ hnd hf)
      rw [sumAmt_append] at this
      rw [he]; simp only [flightP, this.1, Bool.false_eq_true, if_false]
      exact this.2
    · rw [he]; simpa [flightP] using hself
    · rw [he]; simpa [flightP, accepted_nil] using hself
  | send parts =>
    cases st with
    | absent =>
      have hfl : fl = [] := hparts.symm
      subst hfl
      by_cases hf : freshFor [] parts = true
      · simp only [stepP_eq_H, stepPH, hf, if_true, flightP, Bool.false_eq_true, if_false, List.nil_append]
        exact tracks_retryable parts _ (nodup_of_freshFor [] parts hf)
      · simpa [stepP_eq_H, stepPH, hf, flightP] using hself
    | _ => simpa [stepP_eq_H, stepPH, flightP] using hself
  | await t =>
    cases st with
    | absent =>
      have hfl : fl = [] := hparts.symm
      subst hfl
      exact ⟨rfl, List.nodup_nil, fun _ _ _ e => by cases e⟩
    | _ => simpa [stepP_eq_H, stepPH, flightP] using hself
  | invoice parts =>
    cases st with
    | preHtlc t =>
      have hfl : fl = [] := hparts.symm
      subst hfl
      by_cases hf : freshFor [] parts = true
      · simp only [stepP_eq_H, stepPH, hf, if_true, flightP, Bool.false_eq_true, if_false, List.nil_append]
        exact tracks_retryable parts _ (nodup_of_freshFor [] parts hf)
      · simpa [stepP_eq_H, stepPH, hf, flightP] using hself
    | _ => simpa [stepP_eq_H, stepPH, flightP] using hself
  | claim p oc =>
    have hrm : Tracks amt st fl → ∀ ps t, st.parts = ps → Tracks amt (.fulfilled (removePart p ps) t) (removePart p fl) := by
      intro _ ps t e
      exact ⟨by rw [← hparts, e]; rfl, nodup_removePart p fl hnd, fun _ _ _ e => by cases e⟩
    have hkeep : ∀ ps t, st.parts = ps → Tracks amt (.fulfilled ps t) fl :=
      fun ps t e => ⟨by rw [← hparts, e]; rfl, hnd, fun _ _ _ e => by cases e⟩
    have hnot : ∀ ps, st.parts = ps → ps.contains p = false → removePart p fl = fl := by
      intro ps e hc; rw [← hparts, e]; exact removePart_of_not_mem p ps hc
    cases oc with
    | false =>
      cases st with
      | absent => simpa [stepP_eq_H, stepPH, flightP] using hself
      | preHtlc t => simpa [stepP_eq_H, stepPH, flightP] using hself
      | retryable ps pe to => simpa [stepP_eq_H, stepPH, flightP] using hkeep ps 0 rfl
      | abandoned ps r => simpa [stepP_eq_H, stepPH, flightP] using hkeep ps 0 rfl
      | fulfilled ps t => simpa [stepP_eq_H, stepPH, flightP] using hself
    | true =>
      cases st with
      | absent =>
        have hfl : fl = [] := hparts.symm
        subst hfl
        simpa [stepP_eq_H, stepPH, flightP, removePart] using hself
      | preHtlc t => simpa [stepP_eq_H, stepPH, flightP] using hself
      | retryable ps pe to =>
        by_cases hc : ps.contains p = true
        · simp only [stepP_eq_H, stepPH, flightP, hc, Bool.and_self, if_true, Bool.false_eq_true, if_false]
          exact hrm hself ps 0 rfl
        · have hc' : ps.contains p = false := by simpa using hc
          simp only [stepP_eq_H, stepPH, flightP, hc', Bool.and_false, Bool.false_eq_true, if_false]
          rw [hnot ps rfl hc']; exact hkeep ps 0 rfl
      | abandoned ps r =>
        by_cases hc : ps.contains p = true
        · simp only [stepP_eq_H, stepPH, flightP, hc, Bool.and_self, if_true, Bool.false_eq_true, if_false]
          exact hrm hself ps 0 rfl
        · have hc' : ps.contains p = false := by simpa using hc
          simp only [stepP_eq_H, stepPH, flightP, hc', Bool.and_false, Bool.false_eq_true, if_false]
          rw [hnot ps rfl hc']; exact hkeep ps 0 rfl
      | fulfilled ps t =>
        by_cases hc : ps.contains p = true
        · simp only [stepP_eq_H, stepPH, flightP, hc, Bool.and_self, if_true, Bool.false_eq_true, if_false]
          exact hrm hself ps t rfl
        · have hc' : ps.contains p = false := by simpa using hc
          simp only [stepP_eq_H, stepPH, flightP, hc', Bool.and_false, Bool.false_eq_true, if_false]
          rw [hnot ps rfl hc']; exact hself
  | finalize p =>
    cases st with
    | absent =>
      have hfl : fl = [] := hparts.symm
      subst hfl
      simpa [stepP_eq_H, stepPH, flightP, removePart] using hself
    | fulfilled ps t =>
      have hfl : ps = fl := hparts
      subst hfl
      by_cases hc : ps.contains p = true
      · simp only [stepP_eq_H, stepPH, flightP, hc, if_true, Bool.false_eq_true, if_false]
        exact ⟨rfl, nodup_removePart p ps hnd, fun _ _ _ e => by cases e⟩
      · have hc' : ps.contains p = false := by simpa using hc
        simp only [stepP_eq_H, stepPH, flightP, hc', Bool.false_eq_true, if_false]
        rw [removePart_of_not_mem p ps hc']; exact hself
    | _ => simpa [stepP_eq_H, stepPH, flightP] using hself
  | fail p a pm =>
    cases st with
    | absent =>
      have hfl : fl = [] := hparts.symm
      subst hfl
      simpa [stepP_eq_H, stepPH, flightP, removePart] using hself
    | preHtlc t => simpa [stepP_eq_H, stepPH, flightP] using hself
    | fulfilled ps t =>
      simp only [stepP_eq_H, stepPH, flightP, Bool.false_eq_true, if_false]
      exact ⟨by rw [← hparts]; rfl, nodup_removePart p fl hnd, fun _ _ _ e => by cases e⟩
    | retryable ps pe to =>
      have hfl : ps = fl := hparts
      subst hfl
      by_cases hc : ps.contains p = true
      · have hpe := hpend ps pe to rfl
        have hsum := sumAmt_removePart (amt := amt) p ps hnd (by simpa using hc)
        by_cases hr : (a && !pm) = true
        · simp only [stepP_eq_H, stepPH, hc, hr, Bool.not_true, Bool.false_eq_true, if_false, if_true, flightP]
          refine ⟨rfl, nodup_removePart p ps hnd, fun ps' pe' to' e => ?_⟩
          cases e; simp only [removeAdjustsPending, if_true]; omega
        · simp only [stepP_eq_H, stepPH, hc, hr, Bool.not_true, Bool.false_eq_true, if_false, flightP, (abandonNow_flags _ _ _ _).1]
          exact abandonNow_tracks id _ _ _ (nodup_removePart p ps hnd)
      · have hc' : ps.contains p = false := by simpa using hc
        simp only [stepP_eq_H, stepPH, hc', Bool.not_false, if_true, flightP, Bool.false_eq_true, if_false]
        rw [removePart_of_not_mem p ps hc']; exact hself
    | abandoned ps r =>
      have hfl : ps = fl := hparts
      subst hfl
      by_cases hc : ps.contains p = true
      · simp only [stepP_eq_H, stepPH, hc, Bool.not_true, Bool.false_eq_true, if_false, flightP, (abandonNow_flags _ _ _ _).1]
        exact abandonNow_tracks id _ _ _ (nodup_removePart p ps hnd)
      · have hc' : ps.contains p = false := by simpa using hc
        simp only [stepP_eq_H, stepPH, hc', Bool.not_false, if_true, flightP, Bool.false_eq_true, if_false]
        rw [removePart_of_not_mem p ps hc']; exact hself
  | abandon r =>
    cases st with
    | preHtlc t =>
      have hfl : fl = [] := hparts.symm
      subst hfl
      simpa [stepP_eq_H, stepPH, abandonP_eq_H, abandonPH, flightP] using tracks_nil_absent (amt := amt)
    | retryable ps pe to =>
      have hfl : ps = fl := hparts
      subst hfl
      simp only [stepP_eq_H, stepPH, abandonPH, flightP, (abandonNow_flags _ _ _ _).1, Bool.false_eq_true, if_false]
      exact abandonNow_tracks id _ _ _ hnd
    | abandoned ps r0 =>
      have hfl : ps = fl := hparts
      subst hfl
      simp only [stepP_eq_H, stepPH, abandonPH, flightP, (abandonNow_flags _ _ _ _).1, Bool.false_eq_true, if_false]
      exact abandonNow_tracks id _ _ _ hnd
    | _ => simpa [stepP_eq_H, stepPH, abandonP_eq_H, abandonPH, flightP] using hself
  | retry parts now =>
    cases st with
    | retryable ps pe to =>
      have hfl : ps = fl := hparts
      subst hfl
      have hpe := hpend ps pe to rfl
      by_cases ho : retryOverflows (sumAmt amt parts) pe to = true
      · simp only [stepP_eq_H, stepPH, ho, if_true, flightP, (abandonNow_flags _ _ _ _).1, abandonNow_tried, Bool.false_eq_true, if_false,
          List.append_nil]
        exact abandonNow_tracks id _ _ _ hnd
      · by_cases hn : now = true
        · by_cases hf : freshFor ps parts = true
          · simp only [stepP_eq_H, stepPH, ho, hn, hf, Bool.not_true, Bool.false_eq_true, if_false, flightP]
            refine ⟨rfl, nodup_append_fresh ps parts hnd hf, fun ps' pe' to' e => ?_⟩
            cases e; rw [sumAmt_append, hpe]
          · simpa [stepP_eq_H, stepPH, ho, hn, hf, flightP] using hself
        · simp only [stepP_eq_H, stepPH, ho, hn, Bool.not_false, if_true, Bool.false_eq_true, if_false, flightP,
            (abandonNow_flags _ _ _ _).1, abandonNow_tried, List.append_nil]
          exact abandonNow_tracks id _ _ _ hnd
    | _ => simpa [stepP_eq_H, stepPH, flightP] using hself
  | sweep auto =>
    cases st with
    | retryable ps pe to =>
      have hfl : ps = fl := hparts
      subst hfl
      cases auto with
      | true => simpa [stepP_eq_H, stepPH, flightP] using hself
      | false =>
        by_cases hc : ps.isEmpty = true
        · have : ps = [] := by simpa using hc
          subst this
          simpa [stepP_eq_H, stepPH, flightP] using tracks_nil_absent (amt := amt)
        · simpa [stepP_eq_H, stepPH, hc, flightP] using hself
    | abandoned ps r =>
      have hfl : ps = fl := hparts
      subst hfl
      by_cases hc : ps.isEmpty = true
      · have : ps = [] := by simpa using hc
        subst this
        simpa [stepP_eq_H, stepPH, flightP] using tracks_nil_absent (amt := amt)
      · simpa [stepP_eq_H, stepPH, hc, flightP] using hself
    | _ => simpa [stepP_eq_H, stepPH, flightP] using hself
  | tick pe =>
    cases st with
    | fulfilled ps t =>
      have hfl : ps = fl := hparts
      subst hfl
      have hk : ∀ t', Tracks amt (.fulfilled ps t') ps := fun t' => ⟨rfl, hnd, fun _ _ _ e => by cases e⟩
      cases pe with
      | true => simpa [stepP_eq_H, stepPH, flightP] using hk 0
      | false =>
        by_cases hc : ps.isEmpty = true
        · by_cases ht : t + 1 ≤ IDEMPOTENCY_TIMEOUT_TICKS
          · simpa [stepP_eq_H, stepPH, hc, ht, flightP] using hk (t + 1)
          · have : ps = [] := by simpa using hc
            subst this
            simpa [stepP_eq_H, stepPH, ht, flightP] using tracks_nil_absent (amt := amt)
        · simpa [stepP_eq_H, stepPH, hc, flightP] using hk 0
    | preHtlc t =>
      have hfl : fl = [] := hparts.symm
      subst hfl
      by_cases ht : t > 0
      · simp only [stepP_eq_H, stepPH, ht, if_true, flightP, Bool.false_eq_true, if_false]
        exact ⟨rfl, List.nodup_nil, fun _ _ _ e => by cases e⟩
      · simpa [stepP_eq_H, stepPH, ht, flightP] using tracks_nil_absent (amt := amt)
    | _ => simpa [stepP_eq_H, stepPH, flightP] using hself

/-- a `PaymentFailed` for the payment is pushed only by a call that drops its entry -/
theorem stepP_failed_absent (id : PayId) (st : PState) (pop : POp)
    (h : nFailed id (stepP amt id st pop).2.evs ≥ 1) : (stepP amt id st pop).1 = .absent := by
  cases pop with
  | sendR paths ns =>
    rcases stepP_sendR_cases (amt := amt) id st paths ns with ⟨_, _, he⟩ | ⟨_, he⟩ | ⟨_, he⟩
    · rw [he] at h ⊢
      have hc := outcome_counts id [] _ (payRoute_outcome_new (amt := amt) id (sumAmt amt (paths.map (·.1))) (sumAmt amt (paths.map (·.1))) paths ns)
      cases hs : (payRoute amt id (.retryable (paths.map (·.1)) (sumAmt amt (paths.map (·.1))) (sumAmt amt (paths.map (·.1)))) paths ns).1 with
      | absent => rfl
      | _ => rw [hc.2.1 (by rw [hs]; simp)] at h; cases h
    · rw [he] at h; simp [nFailed] at h
    · rw [he] at h; simp [nFailed] at h
  | retryR paths now ns =>
    rcases stepP_retryR_cases (amt := amt) id st paths now ns with ⟨ps, pe, to, r, _, he⟩ | ⟨ps, pe, to, _, hf, _, he⟩ | ⟨_, he⟩ | ⟨_, he⟩
    · rw [he] at h ⊢
      have hc := outcome_counts id ps _ (abandonNow_outcome' id ps r)
      cases hs : (abandonNow id ps r []).1 with
      | absent => rfl
      | _ => rw [hc.2.1 (by rw [hs]; simp)] at h; cases h
    · rw [he] at h ⊢
      have hc := outcome_counts id ps _ (payRoute_outcome (amt := amt) id ps (pe + sumAmt amt (paths.map (·.1))) to paths ns hf)
      cases hs : (payRoute amt id (.retryable (ps ++ paths.map (·.1)) (pe + sumAmt amt (paths.map (·.1))) to) paths ns).1 with
      | absent => rfl
      | _ => rw [hc.2.1 (by rw [hs]; simp)] at h; cases h
    · rw [he] at h; simp [nFailed] at h
    · rw [he] at h; simp [nFailed] at h
  | _ =>
    revert h
    cases st <;> simp only [stepP_eq_H, stepPH, abandonNow, abandonPH] <;> (repeat' split) <;> simp [nFailed, isFailedFor]

/-- no restart: neither `restore` nor the start-up `insert_from_monitor_on_startup` -/
def Op.isRestart : Op → Bool
  | .restore | .insert _ _ => true
  | _ => false

def NoRestart (ops : List Op) : Prop := ∀ op ∈ ops, op.isRestart = false

instance (ops : List Op) : Decidable (NoRestart ops) := by unfold NoRestart; exact inferInstance

theorem not_restart (op : Op) (h : op.isRestart = false) : op ≠ .restore ∧ ∀ i p, op ≠ .insert i p := by
  cases op <;> simp_all [Op.isRestart]

theorem step_amt (s : State) (op : Op) : (step s op).1.amt = s.amt := by
  cases op <;> rfl

theorem run_amt : ∀ (ops : List Op) (s : State), (run s ops).1.amt = s.amt := by
  intro ops
  induction ops with
  | nil => intro s; rfl
  | cons op rest ih => intro s; rw [run_cons]; simp only; rw [ih, step_amt]

theorem proj_insert (id : PayId) (s : State) (op : Op) (p : PartId) (h : proj id s op = some (.insert p)) :
    op = .insert id p := by
  cases op <;> simp only [proj] at h <;> (try split at h) <;> simp_all

/-- the in-flight set after one more op -/
def flightOp (id : PayId) (s : State) (fl : List PartId) (op : Op) : List PartId :=
  match proj id s op with
  | some pop => flightP fl pop (stepP s.amt id (get s.cur id) pop).2
  | none => fl

theorem flight_cons (id : PayId) (s : State) (fl : List PartId) (op : Op) (rest : List Op) :
    flight id s fl (op :: rest) = flight id (step s op).1 (flightOp id s fl op) rest := rfl

theorem tracks_global_step (id : PayId) (s : State) (op : Op) (fl : List PartId)
    (hop : op ≠ .restore ∧ ∀ i p, op ≠ .insert i p) (h : Tracks s.amt (get s.cur id) fl) :
    Tracks s.amt (get (step s op).1.cur id) (flightOp id s fl op) := by
  rw [step_get s op id hop.1]
  unfold projStep flightOp
  cases hp : proj id s op with
  | none => exact h
  | some pop =>
    exact track_step id _ pop fl h (fun p e => hop.2 id p (proj_insert id s op p (e ▸ hp)))

/-- ALONG ANY RUN without restart: the entry of the payment tracks exactly its in-flight set -/
theorem tracks_run (id : PayId) : ∀ (ops : List Op) (s : State) (fl : List PartId), NoRestart ops →
    Tracks s.amt (get s.cur id) fl → Tracks s.amt (get (run s ops).1.cur id) (flight id s fl ops) := by
  intro ops
  induction ops with
  | nil => intro s fl _ h; exact h
  | cons op rest ih =>
    intro s fl hnr h
    rw [run_cons, flight_cons]
    have h1 := tracks_global_step id s op fl (not_restart op (hnr op (by simp))) h
    have := ih (step s op).1 _ (fun o ho => hnr o (List.mem_cons_of_mem _ ho)) (by rw [step_amt]; exact h1)
    rw [step_amt] at this
    exact this

theorem run_append (s : State) (a b : List Op) :
    run s (a ++ b) = ((run (run s a).1 b).1, (run s a).2 ++ (run (run s a).1 b).2) := by
  induction a generalizing s with
  | nil => simp [run_nil]
  | cons op rest ih => simp only [List.cons_append, run_cons, ih, List.append_assoc]

theorem flight_append (id : PayId) (s : State) (fl : List PartId) (a b : List Op) :
    flight id s fl (a ++ b) = flight id (run s a).1 (flight id s fl a) b := by
  induction a generalizing s fl with
  | nil => rfl
  | cons op rest ih => simp only [List.cons_append, flight_cons, run_cons, ih]

/-- handle_pay_route_err pushes `PaymentPathFailed` only for paths whose session priv the same arm removes -/
theorem pushed_implies_removed (k : SendKind) (r : PathRes) (hp : handlePushes k = true) (hf : pathFailedPushed r = true) :
    handleRemoves k r = true := by
  cases k <;> cases r <;> revert hp hf <;> decide

theorem abandonNow_evs_mem (id : PayId) (ps : List PartId) (r : Reason) (pre : List Ev) (p : PartId)
    (h : Ev.pathFailed id p ∈ (abandonNow id ps r pre).2.evs) : Ev.pathFailed id p ∈ pre := by
  unfold abandonNow at h
  split at h
  · simp only [List.mem_append, List.mem_singleton] at h
    rcases h with h | h
    · exact h
    · cases h
  · exact h

theorem abandonNow_parts_sub (id : PayId) (ps : List PartId) (r : Reason) (pre : List Ev) :
    ∀ x ∈ (abandonNow id ps r pre).1.parts, x ∈ ps := by
  unfold abandonNow
  split
  · intro x hx; cases hx
  · intro x hx; exact hx

theorem handleErr_pathFailed_gone (id : PayId) (P : List PartId) (pe to : Nat) (k : SendKind)
    (res : List (PartId × PathRes)) (tried : List PartId) (p : PartId)
    (h : Ev.pathFailed id p ∈ (handleErr amt id (.retryable P pe to) k res tried).2.evs) :
    p ∉ (handleErr amt id (.retryable P pe to) k res tried).1.parts := by
  unfold handleErr at h ⊢
  simp only [handleErr_foldl id] at h ⊢
  obtain ⟨ps', pe', h1, h2⟩ := removeAll_retryable (amt := amt) ((res.filter fun x => handleRemoves k x.2).map (·.1)) P pe to
  rw [h1] at h ⊢
  -- the event stems from a path that the arm removes
  have key : Ev.pathFailed id p ∈ (if handlePushes k then
      res.filterMap fun x => if pathFailedPushed x.2 then some (Ev.pathFailed id x.1) else none else []) → p ∉ ps' := by
    intro hm
    split at hm
    · rename_i hpush
      rcases List.mem_filterMap.1 hm with ⟨x, hx, hxe⟩
      split at hxe
      · rename_i hf
        cases hxe
        intro hp
        exact ((h2 x.1).1 hp).2 (List.mem_map.2 ⟨x, List.mem_filter.2 ⟨hx, pushed_implies_removed k x.2 hpush hf⟩, rfl⟩)
      · cases hxe
    · cases hm
  cases hn : handleNext k with
  | retry => simp only [hn] at h ⊢; exact key h
  | none => simp only [hn] at h ⊢; exact key h
  | abandonUnexpectedError =>
    simp only [hn, abandonP_eq_H, abandonPH] at h ⊢
    intro hp
    exact key (abandonNow_evs_mem id ps' _ _ p h) (abandonNow_parts_sub id ps' _ _ p hp)

theorem payRoute_pathFailed_gone (id : PayId) (P : List PartId) (pe to : Nat) (paths : List (PartId × PathIn)) (ns : Bool)
    (p : PartId) (h : Ev.pathFailed id p ∈ (payRoute amt id (.retryable P pe to) paths ns).2.evs) :
    p ∉ (payRoute amt id (.retryable P pe to) paths ns).1.parts := by
  rcases payRoute_eq (amt := amt) id (.retryable P pe to) paths ns with ⟨k, res, tried, he, _⟩ | he
  · rw [he] at h ⊢; exact handleErr_pathFailed_gone id P pe to k res tried p h
  · rw [he] at h; cases h

/-- a `PaymentPathFailed` for part `p` is pushed only by a call after which the entry no longer holds `p` -/
theorem stepP_pathFailed_gone (id : PayId) (st : PState) (pop : POp) (p : PartId)
    (h : Ev.pathFailed id p ∈ (stepP amt id st pop).2.evs) : p ∉ (stepP amt id st pop).1.parts := by
  cases pop with
  | sendR paths ns =>
    rcases stepP_sendR_cases (amt := amt) id st paths ns with ⟨_, _, he⟩ | ⟨_, he⟩ | ⟨_, he⟩
    · rw [he] at h ⊢; exact payRoute_pathFailed_gone id _ _ _ paths ns p h
    · rw [he] at h; cases h
    · rw [he] at h; cases h
  | retryR paths now ns =>
    rcases stepP_retryR_cases (amt := amt) id st paths now ns with ⟨ps, pe, to, r, _, he⟩ | ⟨ps, pe, to, _, hf, _, he⟩ | ⟨_, he⟩ | ⟨_, he⟩
    · rw [he] at h; exact (by cases abandonNow_evs_mem id ps r [] p h)
    · rw [he] at h ⊢; exact payRoute_pathFailed_gone id _ _ _ paths ns p h
    · rw [he] at h; cases h
    · rw [he] at h; cases h
  | _ =>
    revert h
    cases st <;> simp only [stepP_eq_H, stepPH, abandonNow, abandonPH] <;> (repeat' split) <;>
      simp_all [PState.parts, not_mem_removePart]

/-- a `PaymentPathFailed` for part `p` of `id` pushed by a global op: afterwards `p` is not in flight -/
theorem pathFailed_global_step (id : PayId) (s : State) (op : Op) (fl : List PartId) (hwf : WF s)
    (hop : op ≠ .restore ∧ ∀ i p, op ≠ .insert i p) (h : Tracks s.amt (get s.cur id) fl) (p : PartId)
    (hp : Ev.pathFailed id p ∈ (step s op).2.evs) : p ∉ flightOp id s fl op := by
  have ht := tracks_global_step id s op fl hop h
  rw [← ht.1, step_get s op id hop.1]
  have hmem : Ev.pathFailed id p ∈ (step s op).2.evs.filter (fun e => e == Ev.pathFailed id p) :=
    List.mem_filter.2 ⟨hp, by simp⟩
  have hP : ∀ e, (e == Ev.pathFailed id p) = true → e.id = id := by
    intro e he
    have : e = Ev.pathFailed id p := by simpa using he
    subst this; rfl
  rw [step_evs s op id _ hP hwf.1] at hmem
  have hp' := (List.mem_filter.1 hmem).1
  unfold projStep at hp' ⊢
  cases hpr : proj id s op with
  | none => simp [hpr] at hp'
  | some pop =>
    simp only [hpr] at hp' ⊢
    exact stepP_pathFailed_gone id _ pop p hp'

theorem wf_run : ∀ (ops : List Op) (s : State), WF s → WF (run s ops).1 := by
  intro ops
  induction ops with
  | nil => intro s h; exact h
  | cons op rest ih => intro s h; rw [run_cons]; exact ih _ (wf_step s op h)

/-- a `PaymentFailed` for `id` pushed by a global op: the op dropped the entry, and nothing is in flight afterwards -/
theorem failed_global_step (id : PayId) (s : State) (op : Op) (fl : List PartId) (hwf : WF s)
    (hop : op ≠ .restore ∧ ∀ i p, op ≠ .insert i p) (h : Tracks s.amt (get s.cur id) fl)
    (hf : nFailed id (step s op).2.evs ≥ 1) :
    get (step s op).1.cur id = .absent ∧ flightOp id s fl op = [] := by
  have ht := tracks_global_step id s op fl hop h
  have habs : get (step s op).1.cur id = .absent := by
    rw [step_get s op id hop.1]
    rw [nFailed_step s op id hwf] at hf
    unfold projStep at hf ⊢
    cases hp : proj id s op with
    | none => simp [hp, nFailed_nil] at hf
    | some pop =>
      simp only [hp] at hf ⊢
      exact stepP_failed_absent id _ pop hf
  rw [habs] at ht
  exact ⟨habs, ht.1.symm⟩

instance decNoRestore (ops : List Op) : Decidable (NoRestore ops) := by unfold NoRestore; exact inferInstance

instance decStays (id : PayId) : ∀ (s : State) (ops : List Op), Decidable (StaysPresent id s ops)
  | _, [] => isTrue trivial
  | _, [_] => isTrue trivial
  | s, op :: op' :: rest =>
    have := decStays id (step s op).1 (op' :: rest)
    by unfold StaysPresent present; exact inferInstance

end Ldk.OutboundPay
