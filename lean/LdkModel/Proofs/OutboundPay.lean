/- Helper lemmas for C03 (Props/C03.lean): the store, the projection of a global step onto one payment id,
   the per-payment invariant and its propagation along restore-free runs. -/
import LdkModel.Model.OutboundPay
namespace Ldk.OutboundPay

/-! ### store -/

theorem get_set_self (s : Store) (id : PayId) (v : PState) : get (set s id v) id = v := by
  simp [get, set]

theorem lookup_filter_ne (s : Store) (id k : PayId) (h : k ≠ id) :
    (s.filter (·.1 != id)).lookup k = s.lookup k := by
  induction s with
  | nil => rfl
  | cons e t ih =>
    obtain ⟨a, v⟩ := e
    by_cases ha : a = id
    · subst ha
      have hk : (k == a) = false := by simpa using h
      simp [List.filter, List.lookup, hk, ih]
    · have : (a != id) = true := by simpa using ha
      simp only [List.filter, this, List.lookup]
      cases hka : k == a <;> simp [ih]

theorem get_set_ne (s : Store) (id k : PayId) (v : PState) (h : k ≠ id) : get (set s id v) k = get s k := by
  have hk : (k == id) = false := by simpa using h
  simp [get, set, List.lookup, hk, lookup_filter_ne s id k h]

theorem get_map (s : Store) (f : PayId → PState → PState) (hf : ∀ k, f k .absent = .absent) (k : PayId) :
    get (s.map fun e => (e.1, f e.1 e.2)) k = f k (get s k) := by
  induction s with
  | nil => simp [get, hf]
  | cons e t ih =>
    obtain ⟨a, v⟩ := e
    simp only [get, List.map, List.lookup] at ih ⊢
    cases hka : k == a
    · simpa using ih
    · have : k = a := by simpa using hka
      subst this; simp

def keys (s : Store) : List PayId := s.map (·.1)

/-- representation invariant: one entry per key (true of `init`, kept by every op) -/
def WF (s : State) : Prop := (keys s.cur).Nodup ∧ (keys s.snapCur).Nodup

theorem keys_filter_sub (s : Store) (id : PayId) : (keys (s.filter (·.1 != id))).Sublist (keys s) := by
  unfold keys
  exact List.Sublist.map _ List.filter_sublist

theorem not_mem_keys_filter (s : Store) (id : PayId) : id ∉ keys (s.filter (·.1 != id)) := by
  unfold keys
  intro h
  rcases List.mem_map.1 h with ⟨e, he, rfl⟩
  have := (List.mem_filter.1 he).2
  simp at this

theorem nodup_set (s : Store) (id : PayId) (v : PState) (h : (keys s).Nodup) : (keys (set s id v)).Nodup := by
  unfold set
  show (id :: keys (s.filter (·.1 != id))).Nodup
  exact List.nodup_cons.2 ⟨not_mem_keys_filter s id, h.sublist (keys_filter_sub s id)⟩

theorem keys_map (s : Store) (g : PayId × PState → PState) : keys (s.map fun e => (e.1, g e)) = keys s := by
  unfold keys; simp [List.map_map, Function.comp_def]

theorem get_absent_of_not_mem (s : Store) (id : PayId) (h : id ∉ keys s) : get s id = .absent := by
  induction s with
  | nil => rfl
  | cons e t ih =>
    obtain ⟨a, v⟩ := e
    have hne : id ≠ a := fun h' => h (by simp [keys, h'])
    have ht : id ∉ keys t := fun h' => h (by simp [keys] at h' ⊢; exact Or.inr h')
    have hk : (id == a) = false := by simpa using hne
    simpa [get, List.lookup, hk] using ih ht


/-! ### events of one payment step carry that payment's id; absent stays absent under map-wide ops -/

theorem stepP_evs_id (id : PayId) (st : PState) (pop : POp) : ∀ e ∈ (stepP id st pop).2.evs, e.id = id := by
  cases pop <;> cases st <;> simp only [stepP, abandonNow] <;>
    (repeat' split) <;> simp [Ev.id]


theorem stepP_absent_sweep (k : PayId) (a : Bool) : stepP k .absent (.sweep a) = (.absent, {}) := rfl
theorem stepP_absent_tick (k : PayId) (a : Bool) : stepP k .absent (.tick a) = (.absent, {}) := rfl

/-- filtering the events of a map-wide op by a predicate that pins the payment id gives the events of that
    payment's own step (needs one entry per key) -/
theorem filter_flatMap_events (s : Store) (g : PayId → PState → List Ev) (id : PayId) (P : Ev → Bool)
    (hP : ∀ e, P e = true → e.id = id) (hg : ∀ k v, ∀ e ∈ g k v, e.id = k) (habs : g id .absent = [])
    (hnd : (keys s).Nodup) :
    (s.flatMap fun e => g e.1 e.2).filter P = (g id (get s id)).filter P := by
  have none_of : ∀ k v, k ≠ id → (g k v).filter P = [] := by
    intro k v hk
    apply List.filter_eq_nil_iff.2
    intro e he hpe
    exact hk ((hg k v e he).symm.trans (hP e hpe))
  induction s with
  | nil => simp [get, habs]
  | cons e t ih =>
    obtain ⟨a, v⟩ := e
    have hnd' : a ∉ keys t ∧ (keys t).Nodup := by simpa [keys] using hnd
    simp only [List.flatMap_cons, List.filter_append]
    by_cases ha : a = id
    · subst ha
      have hrest : (t.flatMap fun e => g e.1 e.2).filter P = [] := by
        rw [ih hnd'.2, get_absent_of_not_mem t a hnd'.1, habs]; rfl
      simp [hrest, get, List.lookup]
    · have hk : (id == a) = false := by simpa using (fun h : id = a => ha h.symm)
      rw [none_of a v ha, ih hnd'.2]
      simp [get, List.lookup, hk]


/-! ### projection of a global step onto one payment id -/

/-- what a global step does to payment `id`: its new state and the events it pushed for it -/
def projStep (id : PayId) (s : State) (op : Op) : PState × List Ev :=
  match proj id s op with
  | some pop => ((stepP id (get s.cur id) pop).1, (stepP id (get s.cur id) pop).2.evs)
  | none => (get s.cur id, [])

theorem one_get_self (s : State) (id : PayId) (pop : POp) :
    get (one s id pop).1.cur id = (stepP id (get s.cur id) pop).1 := by
  simp [one, get_set_self]

theorem one_get_ne (s : State) (i id : PayId) (pop : POp) (h : id ≠ i) :
    get (one s i pop).1.cur id = get s.cur id := by
  simp [one, get_set_ne _ _ _ _ h]

theorem one_evs_ne (s : State) (i id : PayId) (pop : POp) (P : Ev → Bool) (hP : ∀ e, P e = true → e.id = id)
    (h : id ≠ i) : (one s i pop).2.evs.filter P = [] := by
  apply List.filter_eq_nil_iff.2
  intro e he hpe
  exact h ((hP e hpe).symm.trans (stepP_evs_id i _ pop e he))

theorem all_get (s : State) (f : PayId → POp) (hf : ∀ k, (stepP k .absent (f k)).1 = .absent) (id : PayId) :
    get (all s f).1.cur id = (stepP id (get s.cur id) (f id)).1 := by
  simp only [all]
  exact get_map s.cur (fun k v => (stepP k v (f k)).1) hf id

theorem all_evs (s : State) (f : PayId → POp) (hf : ∀ k, (stepP k .absent (f k)).2.evs = []) (id : PayId)
    (P : Ev → Bool) (hP : ∀ e, P e = true → e.id = id) (hnd : (keys s.cur).Nodup) :
    (all s f).2.evs.filter P = (stepP id (get s.cur id) (f id)).2.evs.filter P := by
  simp only [all]
  exact filter_flatMap_events s.cur (fun k v => (stepP k v (f k)).2.evs) id P hP
    (fun k v e he => stepP_evs_id k v (f k) e he) (hf id) hnd

theorem step_get (s : State) (op : Op) (id : PayId) (hop : op ≠ .restore) :
    get (step s op).1.cur id = (projStep id s op).1 := by
  cases op <;> simp only [step, proj, projStep] <;> try contradiction
  all_goals first
    | rfl
    | (rename_i i _ _ _; by_cases h : i = id
       · subst h; simp [one_get_self]
       · simp [h, one_get_ne _ _ _ _ (Ne.symm h)])
    | (rename_i i _ _; by_cases h : i = id
       · subst h; simp [one_get_self]
       · simp [h, one_get_ne _ _ _ _ (Ne.symm h)])
    | (rename_i i _; by_cases h : i = id
       · subst h; simp [one_get_self]
       · simp [h, one_get_ne _ _ _ _ (Ne.symm h)])
    | exact all_get s _ (fun k => rfl) id


theorem one_evs_self (s : State) (id : PayId) (pop : POp) :
    (one s id pop).2.evs = (stepP id (get s.cur id) pop).2.evs := rfl

theorem step_evs (s : State) (op : Op) (id : PayId) (P : Ev → Bool) (hP : ∀ e, P e = true → e.id = id)
    (hnd : (keys s.cur).Nodup) :
    (step s op).2.evs.filter P = (projStep id s op).2.filter P := by
  cases op <;> simp only [step, proj, projStep]
  all_goals first
    | rfl
    | (rename_i i _ _ _; by_cases h : i = id
       · subst h; simp [one_evs_self]
       · simp [h, one_evs_ne _ _ _ _ P hP (Ne.symm h)])
    | (rename_i i _ _; by_cases h : i = id
       · subst h; simp [one_evs_self]
       · simp [h, one_evs_ne _ _ _ _ P hP (Ne.symm h)])
    | (rename_i i _; by_cases h : i = id
       · subst h; simp [one_evs_self]
       · simp [h, one_evs_ne _ _ _ _ P hP (Ne.symm h)])
    | exact all_evs s _ (fun k => rfl) id P hP hnd

theorem wf_step (s : State) (op : Op) (h : WF s) : WF (step s op).1 := by
  obtain ⟨h1, h2⟩ := h
  cases op <;> simp only [step, one, all, WF] <;>
    first
      | exact ⟨nodup_set _ _ _ h1, h2⟩
      | exact ⟨by rw [keys_map s.cur (fun e => (stepP e.1 e.2 _).1)]; exact h1, h2⟩
      | exact ⟨(keys_map s.cur _).symm ▸ h1, h2⟩
      | exact ⟨h1, h2⟩
      | exact ⟨h1, h1⟩
      | exact ⟨h2, h2⟩

theorem wf_init : WF init := by simp [WF, init, keys]


/-! ### the per-payment invariant of one payment instance -/

/-- terminal-event counts so far in this instance (`nS` PaymentSent, `nF` PaymentFailed) and whether a claim
    reached the payment while it owned HTLCs (`c`) -/
def LInv (st : PState) (nS nF : Nat) (c : Bool) : Prop :=
  match st with
  | .absent => False
  | .preHtlc _ | .retryable _ => nS = 0 ∧ nF = 0 ∧ c = false
  | .abandoned ps _ => nS = 0 ∧ nF = 0 ∧ c = false ∧ ps ≠ []
  | .fulfilled _ _ => nS = 1 ∧ nF = 0 ∧ c = true

/-- what holds when the instance has ended (the entry was removed) -/
def Done (nS nF : Nat) (c : Bool) : Prop := nS + nF = 1 ∧ (nS = 1 ↔ c = true)

def claimHit (st : PState) : POp → Bool
  | .claim _ _ => st.hasHtlcState
  | _ => false

theorem nSent_nil (id : PayId) : nSent id [] = 0 := rfl
theorem nFailed_nil (id : PayId) : nFailed id [] = 0 := rfl
theorem nSent_append (id : PayId) (a b : List Ev) : nSent id (a ++ b) = nSent id a + nSent id b := by
  simp [nSent, List.filter_append]
theorem nFailed_append (id : PayId) (a b : List Ev) : nFailed id (a ++ b) = nFailed id a + nFailed id b := by
  simp [nFailed, List.filter_append]

theorem local_step (id : PayId) (st : PState) (pop : POp) (nS nF : Nat) (c : Bool) (h : LInv st nS nF c) :
    ((stepP id st pop).1 ≠ .absent →
        LInv (stepP id st pop).1 (nS + nSent id (stepP id st pop).2.evs) (nF + nFailed id (stepP id st pop).2.evs)
          (c || claimHit st pop)) ∧
    ((stepP id st pop).1 = .absent →
        Done (nS + nSent id (stepP id st pop).2.evs) (nF + nFailed id (stepP id st pop).2.evs) (c || claimHit st pop)) := by
  cases pop <;> cases st <;> simp only [LInv] at h <;> simp only [stepP, abandonNow, claimHit, PState.hasHtlcState] <;>
    (repeat' split) <;>
    simp_all [LInv, Done, nSent, nFailed, isFailedFor]


theorem first_step (id : PayId) (pop : POp) :
    nSent id (stepP id .absent pop).2.evs = 0 ∧ nFailed id (stepP id .absent pop).2.evs = 0 ∧
    ((stepP id .absent pop).1 ≠ .absent → LInv (stepP id .absent pop).1 0 0 false) := by
  cases pop <;> simp [stepP, LInv, nSent, nFailed]

/-! ### runs -/

def present (s : State) (id : PayId) : Prop := get s.cur id ≠ .absent

/-- no process restart in the op list -/
def NoRestore (ops : List Op) : Prop := Op.restore ∉ ops

/-- the payment is present in every state strictly inside the run (after each op but the last) -/
def StaysPresent (id : PayId) : State → List Op → Prop
  | _, [] => True
  | _, [_] => True
  | s, op :: op' :: rest => present (step s op).1 id ∧ StaysPresent id (step s op).1 (op' :: rest)

/-- a `claim_htlc` for this id is executed while the payment owns HTLCs (Retryable / Fulfilled / Abandoned) -/
def opClaimHit (id : PayId) (s : State) : Op → Bool
  | .claim i _ _ => i == id && (get s.cur id).hasHtlcState
  | _ => false

def claimHits (id : PayId) : State → List Op → Bool
  | _, [] => false
  | s, op :: rest => opClaimHit id s op || claimHits id (step s op).1 rest

theorem sentP_id (id : PayId) : ∀ e, (e == Ev.sent id) = true → e.id = id := by
  intro e he; have : e = Ev.sent id := by simpa using he
  subst this; rfl
theorem failedP_id (id : PayId) : ∀ e, isFailedFor id e = true → e.id = id := by
  intro e he; cases e <;> simp_all [isFailedFor, Ev.id]

theorem nSent_step (s : State) (op : Op) (id : PayId) (hwf : WF s) :
    nSent id (step s op).2.evs = nSent id (projStep id s op).2 := by
  unfold nSent; rw [step_evs s op id _ (sentP_id id) hwf.1]
theorem nFailed_step (s : State) (op : Op) (id : PayId) (hwf : WF s) :
    nFailed id (step s op).2.evs = nFailed id (projStep id s op).2 := by
  unfold nFailed; rw [step_evs s op id _ (failedP_id id) hwf.1]

theorem opClaimHit_proj (id : PayId) (s : State) (op : Op) :
    opClaimHit id s op = (match proj id s op with | some pop => claimHit (get s.cur id) pop | none => false) := by
  cases op <;> simp only [opClaimHit, proj] <;>
    first
      | rfl
      | (rename_i i _ _ _; by_cases h : i = id <;> simp [h, claimHit])
      | (rename_i i _ _; by_cases h : i = id <;> simp [h, claimHit])
      | (rename_i i _; by_cases h : i = id <;> simp [h, claimHit])

/-- one global (non-restart) step keeps the per-payment invariant, or ends the instance with `Done` -/
theorem global_step (s : State) (op : Op) (id : PayId) (nS nF : Nat) (c : Bool) (hwf : WF s)
    (hop : op ≠ .restore) (h : LInv (get s.cur id) nS nF c) :
    (get (step s op).1.cur id ≠ .absent →
      LInv (get (step s op).1.cur id) (nS + nSent id (step s op).2.evs) (nF + nFailed id (step s op).2.evs)
        (c || opClaimHit id s op)) ∧
    (get (step s op).1.cur id = .absent →
      Done (nS + nSent id (step s op).2.evs) (nF + nFailed id (step s op).2.evs) (c || opClaimHit id s op)) := by
  rw [step_get s op id hop, nSent_step s op id hwf, nFailed_step s op id hwf, opClaimHit_proj]
  unfold projStep
  cases hp : proj id s op with
  | none =>
    simp only [nSent_nil, nFailed_nil, Nat.add_zero, Bool.or_false]
    exact ⟨fun _ => h, fun habs => by rw [habs] at h; exact h.elim⟩
  | some pop => exact local_step id _ pop nS nF c h

/-- first op of an instance: executed on the absent payment -/
theorem global_first (s : State) (op : Op) (id : PayId) (hwf : WF s) (hop : op ≠ .restore)
    (h : get s.cur id = .absent) :
    nSent id (step s op).2.evs = 0 ∧ nFailed id (step s op).2.evs = 0 ∧ opClaimHit id s op = false ∧
    (get (step s op).1.cur id ≠ .absent → LInv (get (step s op).1.cur id) 0 0 false) := by
  rw [step_get s op id hop, nSent_step s op id hwf, nFailed_step s op id hwf, opClaimHit_proj]
  unfold projStep
  cases hp : proj id s op with
  | none => simp [h, nSent_nil, nFailed_nil]
  | some pop =>
    rw [h]
    have := first_step id pop
    refine ⟨this.1, this.2.1, ?_, this.2.2⟩
    cases pop <;> simp [claimHit, PState.hasHtlcState]


theorem run_nil (s : State) : run s [] = (s, []) := rfl
theorem run_cons (s : State) (op : Op) (rest : List Op) :
    run s (op :: rest) = ((run (step s op).1 rest).1, (step s op).2.evs ++ (run (step s op).1 rest).2) := rfl

theorem run_inv (id : PayId) : ∀ (ops : List Op) (s : State) (nS nF : Nat) (c : Bool), WF s → NoRestore ops →
    LInv (get s.cur id) nS nF c → StaysPresent id s ops →
    (get (run s ops).1.cur id ≠ .absent →
      LInv (get (run s ops).1.cur id) (nS + nSent id (run s ops).2) (nF + nFailed id (run s ops).2)
        (c || claimHits id s ops)) ∧
    (get (run s ops).1.cur id = .absent →
      Done (nS + nSent id (run s ops).2) (nF + nFailed id (run s ops).2) (c || claimHits id s ops)) := by
  intro ops
  induction ops with
  | nil =>
    intro s nS nF c _ _ h _
    simp only [run_nil, nSent_nil, nFailed_nil, claimHits, Nat.add_zero, Bool.or_false]
    exact ⟨fun _ => h, fun habs => by rw [habs] at h; exact h.elim⟩
  | cons op rest ih =>
    intro s nS nF c hwf hnr h hst
    have hop : op ≠ .restore := fun e => hnr (by simp [e])
    have hnr' : NoRestore rest := fun hm => hnr (List.mem_cons_of_mem _ hm)
    have hg := global_step s op id nS nF c hwf hop h
    have hwf' := wf_step s op hwf
    simp only [run_cons, nSent_append, nFailed_append, claimHits, ← Nat.add_assoc, ← Bool.or_assoc]
    cases rest with
    | nil =>
      simp only [run_nil, nSent_nil, nFailed_nil, claimHits, Nat.add_zero, Bool.or_false]
      exact hg
    | cons op' rest' =>
      have hp : get (step s op).1.cur id ≠ .absent := hst.1
      exact ih (step s op).1 _ _ _ hwf' hnr' (hg.1 hp) hst.2

/-- one payment instance: the id is absent, no restart happens, and the id stays present until (at most) the
    last op — i.e. `ops` is an initial segment of a maximal interval in which the id is present -/
structure Instance (id : PayId) (s : State) (ops : List Op) : Prop where
  wf : WF s
  fresh : get s.cur id = .absent
  norestore : NoRestore ops
  stays : StaysPresent id s ops

/-- the instance really began: its first op created the entry -/
def Started (id : PayId) (s : State) (ops : List Op) : Prop :=
  ∃ op rest, ops = op :: rest ∧ get (step s op).1.cur id ≠ .absent

theorem instance_summary (id : PayId) (s : State) (ops : List Op) (h : Instance id s ops) :
    (get (run s ops).1.cur id ≠ .absent →
      LInv (get (run s ops).1.cur id) (nSent id (run s ops).2) (nFailed id (run s ops).2) (claimHits id s ops)) ∧
    (get (run s ops).1.cur id = .absent →
      (Started id s ops → Done (nSent id (run s ops).2) (nFailed id (run s ops).2) (claimHits id s ops)) ∧
      (¬ Started id s ops → nSent id (run s ops).2 = 0 ∧ nFailed id (run s ops).2 = 0 ∧ claimHits id s ops = false)) := by
  obtain ⟨hwf, hfresh, hnr, hst⟩ := h
  cases ops with
  | nil =>
    simp only [run_nil, claimHits, nSent_nil, nFailed_nil]
    refine ⟨fun hne => (hne hfresh).elim, fun _ => ⟨fun hs => ?_, fun _ => by simp⟩⟩
    obtain ⟨op, rest, he, _⟩ := hs; cases he
  | cons op rest =>
    have hop : op ≠ .restore := fun e => hnr (by simp [e])
    have hnr' : NoRestore rest := fun hm => hnr (List.mem_cons_of_mem _ hm)
    obtain ⟨h1, h2, h3, h4⟩ := global_first s op id hwf hop hfresh
    have hwf' := wf_step s op hwf
    simp only [run_cons, nSent_append, nFailed_append, claimHits, h1, h2, h3, Nat.zero_add, Bool.false_or]
    by_cases hp : get (step s op).1.cur id = .absent
    · -- the first op did not create the entry: nothing more can follow
      cases rest with
      | nil =>
        simp only [run_nil, nSent_nil, nFailed_nil, claimHits]
        refine ⟨fun hne => (hne hp).elim, fun _ => ⟨fun hs => ?_, fun _ => by simp⟩⟩
        obtain ⟨op2, rest2, he, hne⟩ := hs
        cases he; exact (hne hp).elim
      | cons op' rest' => exact (hst.1 hp).elim
    · have hst' : StaysPresent id (step s op).1 rest := by
        cases rest with
        | nil => trivial
        | cons op' rest' => exact hst.2
      have := run_inv id rest (step s op).1 0 0 false hwf' hnr' (h4 hp) hst'
      simp only [Nat.zero_add, Bool.false_or] at this
      refine ⟨this.1, fun habs => ⟨fun _ => this.2 habs, fun hns => (hns ⟨op, rest, rfl, hp⟩).elim⟩⟩


/-! ### single-step facts: refusal of duplicates, idempotence, when an entry is dropped -/

theorem contains_removePart (p : PartId) (ps : List PartId) : (removePart p ps).contains p = false := by
  simp [removePart]

theorem not_mem_removePart (p : PartId) (ps : List PartId) : p ∉ removePart p ps := by
  simp [removePart]

theorem removePart_of_not_mem (p : PartId) (ps : List PartId) (h : ps.contains p = false) : removePart p ps = ps := by
  unfold removePart
  apply List.filter_eq_self.2
  intro a ha
  have : a ≠ p := fun e => by subst e; simp [ha] at h
  simpa using this

theorem removePart_idem (p : PartId) (ps : List PartId) : removePart p (removePart p ps) = removePart p ps :=
  removePart_of_not_mem p _ (contains_removePart p ps)

theorem all_eq_of_removePart_nil (p : PartId) (ps : List PartId) (h : removePart p ps = []) : ∀ q ∈ ps, q = p := by
  intro q hq
  unfold removePart at h
  have := List.filter_eq_nil_iff.1 h q hq
  simpa using this

/-- the resolution ops of one HTLC -/
def POp.isResolution : POp → Bool
  | .claim _ _ | .finalize _ | .fail _ _ _ => true
  | _ => false

theorem repeat_fail (id : PayId) (st : PState) (p : PartId) (a pm : Bool) :
    (stepP id (stepP id st (.fail p a pm)).1 (.fail p a pm)).1 = (stepP id st (.fail p a pm)).1 ∧
    (stepP id (stepP id st (.fail p a pm)).1 (.fail p a pm)).2.evs = [] := by
  cases st with
  | absent => simp [stepP]
  | preHtlc t => simp [stepP]
  | fulfilled ps t => simp [stepP, removePart_idem]
  | retryable ps =>
    by_cases hc : p ∈ ps
    · by_cases hr : a = true ∧ pm = false
      · simp [stepP, hc, hr, not_mem_removePart]
      · by_cases he : removePart p ps = []
        · simp [stepP, abandonNow, hc, hr, he]
        · simp [stepP, abandonNow, hc, hr, he, not_mem_removePart]
    · simp [stepP, hc]
  | abandoned ps r =>
    by_cases hc : p ∈ ps
    · by_cases he : removePart p ps = []
      · simp [stepP, abandonNow, hc, he]
      · simp [stepP, abandonNow, hc, he, not_mem_removePart]
    · simp [stepP, hc]

theorem repeat_finalize (id : PayId) (st : PState) (p : PartId) :
    (stepP id (stepP id st (.finalize p)).1 (.finalize p)).1 = (stepP id st (.finalize p)).1 ∧
    (stepP id (stepP id st (.finalize p)).1 (.finalize p)).2.evs = [] := by
  cases st with
  | fulfilled ps t =>
    by_cases hc : p ∈ ps
    · simp [stepP, hc, not_mem_removePart]
    · simp [stepP, hc]
  | _ => simp [stepP]

theorem repeat_claim (id : PayId) (st : PState) (p : PartId) (oc : Bool) :
    (stepP id (stepP id st (.claim p oc)).1 (.claim p oc)).1 = (stepP id st (.claim p oc)).1 ∧
    (stepP id (stepP id st (.claim p oc)).1 (.claim p oc)).2.evs = [] := by
  cases st with
  | absent => simp [stepP]
  | preHtlc t => simp [stepP]
  | fulfilled ps t =>
    by_cases hc : oc = true ∧ p ∈ ps
    · simp [stepP, hc, not_mem_removePart]
    · simp [stepP, hc]
  | retryable ps =>
    by_cases hc : oc = true ∧ p ∈ ps
    · simp [stepP, hc, not_mem_removePart]
    · simp [stepP, hc]
  | abandoned ps r =>
    by_cases hc : oc = true ∧ p ∈ ps
    · simp [stepP, hc, not_mem_removePart]
    · simp [stepP, hc]

/-- repeating a claim / finalize / fail right away changes nothing and pushes nothing -/
theorem stepP_repeat (id : PayId) (st : PState) (pop : POp) (h : pop.isResolution = true) :
    (stepP id (stepP id st pop).1 pop).1 = (stepP id st pop).1 ∧ (stepP id (stepP id st pop).1 pop).2.evs = [] := by
  cases pop <;> simp only [POp.isResolution] at h <;> try contradiction
  · exact repeat_claim ..
  · exact repeat_finalize ..
  · exact repeat_fail ..

/-- a fail for a part the payment does not hold (already removed) changes nothing and pushes nothing -/
theorem stepP_fail_absent_part (id : PayId) (st : PState) (p : PartId) (a pm : Bool)
    (hp : st.parts.contains p = false) (hpre : ∀ t, st ≠ .preHtlc t) :
    stepP id st (.fail p a pm) = (st, {}) := by
  cases st <;> simp_all [stepP, PState.parts, removePart_of_not_mem]

/-- a claim for a part that is gone, on a payment already fulfilled (or already forgotten), is silent -/
theorem stepP_claim_absent_part (id : PayId) (st : PState) (p : PartId) (oc : Bool)
    (hp : st.parts.contains p = false) (hst : st = .absent ∨ st.isFulfilled = true) :
    stepP id st (.claim p oc) = (st, {}) := by
  cases st <;> simp_all [stepP, PState.parts, PState.isFulfilled]

/-- an entry is removed only when it holds no part, except for the one part that the removing `fail` resolves -/
theorem stepP_drop (id : PayId) (st : PState) (pop : POp) (hst : st ≠ .absent) (h : (stepP id st pop).1 = .absent) :
    ∀ q ∈ st.parts, ∃ a pm, pop = .fail q a pm := by
  cases pop <;> cases st <;> simp only [stepP, abandonNow] at h <;> (repeat' split at h) <;>
    simp_all [PState.parts]
  all_goals
    intro q hq
    have := all_eq_of_removePart_nil _ _ (by assumption) q hq
    simp [this]

/-- a present id refuses `send`: DuplicatePayment, nothing pushed, entry unchanged -/
theorem stepP_send_present (id : PayId) (st : PState) (ps : List PartId) (hst : st ≠ .absent) :
    stepP id st (.send ps) = (st, { dup := true }) := by
  cases st <;> simp_all [stepP]


/-! ### restart: an entry that still knows about a claimed HTLC never turns into PaymentFailed -/

/-- `truth p` = the HTLC of part `p` was (or will be) resolved by the recipient's claim.
    `Good`: the entry is gone, or fulfilled, or still holds a part whose HTLC was claimed -/
def Good (truth : PartId → Bool) (st : PState) : Prop :=
  st = .absent ∨ st.isFulfilled = true ∨ ∃ p ∈ st.parts, truth p = true

/-- what the environment may do to this payment: no fresh send of the same id, and HTLC resolutions
    (live or replayed from monitors) that agree with the ground truth -/
def POkFor (truth : PartId → Bool) : POp → Prop
  | .send _ | .await _ => False
  | .insert p | .claim p _ => truth p = true
  | .fail p _ _ => truth p = false
  | _ => True

def OkFor (truth : PartId → Bool) (id : PayId) : Op → Prop
  | .send i _ | .await i _ => i ≠ id
  | .insert i p | .claim i p _ => i = id → truth p = true
  | .fail i p _ _ => i = id → truth p = false
  | _ => True

theorem mem_removePart_of_ne (p q : PartId) (ps : List PartId) (hq : q ∈ ps) (hne : q ≠ p) : q ∈ removePart p ps := by
  simp [removePart, hq, hne]

theorem good_step (truth : PartId → Bool) (id : PayId) (st : PState) (pop : POp) (hg : Good truth st)
    (hok : POkFor truth pop) :
    Good truth (stepP id st pop).1 ∧ nFailed id (stepP id st pop).2.evs = 0 := by
  rcases hg with rfl | hf | ⟨q, hq, hqt⟩
  · cases pop <;> simp_all [stepP, Good, POkFor, nFailed, PState.isFulfilled, PState.parts]
  · cases st <;> simp [PState.isFulfilled] at hf
    cases pop <;> simp only [stepP] <;> (repeat' split) <;>
      simp_all [Good, POkFor, nFailed, isFailedFor, PState.isFulfilled]
  · cases st <;> simp only [PState.parts, List.not_mem_nil] at hq
    case fulfilled ps t =>
      cases pop <;> simp only [stepP] <;> (repeat' split) <;>
        simp_all [Good, POkFor, nFailed, isFailedFor, PState.isFulfilled]
    case retryable ps =>
      have hne : ps ≠ [] := fun e => by simp [e] at hq
      cases pop <;> simp only [stepP, abandonNow] <;> (repeat' split) <;>
        simp_all [Good, POkFor, nFailed, isFailedFor, PState.isFulfilled, PState.parts]
      all_goals
        have hqne : ∀ x, truth x = false → q ≠ x := fun x hx e => by subst e; rw [hqt] at hx; cases hx
        first
          | exact ⟨q, hq, hqt⟩
          | exact ⟨q, Or.inl hq, hqt⟩
          | exact ⟨q, mem_removePart_of_ne _ _ _ hq (hqne _ ‹truth _ = false›), hqt⟩
          | (have h1 := mem_removePart_of_ne _ q ps hq (hqne _ ‹truth _ = false›); simp_all)
    case abandoned ps r =>
      have hne : ps ≠ [] := fun e => by simp [e] at hq
      cases pop <;> simp only [stepP, abandonNow] <;> (repeat' split) <;>
        simp_all [Good, POkFor, nFailed, isFailedFor, PState.isFulfilled, PState.parts]
      all_goals
        have hqne : ∀ x, truth x = false → q ≠ x := fun x hx e => by subst e; rw [hqt] at hx; cases hx
        first
          | exact ⟨q, hq, hqt⟩
          | exact ⟨q, Or.inl hq, hqt⟩
          | exact ⟨q, mem_removePart_of_ne _ _ _ hq (hqne _ ‹truth _ = false›), hqt⟩
          | (have h1 := mem_removePart_of_ne _ q ps hq (hqne _ ‹truth _ = false›); simp_all)


theorem okFor_proj (truth : PartId → Bool) (id : PayId) (s : State) (op : Op) (pop : POp)
    (hok : OkFor truth id op) (hp : proj id s op = some pop) : POkFor truth pop := by
  cases op <;> simp only [proj] at hp <;> simp only [OkFor] at hok
  all_goals first
    | (cases hp; done)
    | (cases hp; trivial)
    | (split at hp
       · cases hp; first | exact hok ‹_› | trivial | (exact absurd ‹_› hok)
       · cases hp)

theorem snap_step (s : State) (op : Op) (hop : op ≠ .persist) : (step s op).1.snapCur = s.snapCur := by
  cases op <;> first | rfl | contradiction

theorem good_global_step (truth : PartId → Bool) (id : PayId) (s : State) (op : Op) (hwf : WF s)
    (hc : Good truth (get s.cur id)) (hs : Good truth (get s.snapCur id)) (hok : OkFor truth id op) :
    Good truth (get (step s op).1.cur id) ∧ Good truth (get (step s op).1.snapCur id) ∧
    nFailed id (step s op).2.evs = 0 := by
  by_cases hr : op = .restore
  · subst hr; exact ⟨hs, hs, rfl⟩
  by_cases hpz : op = .persist
  · subst hpz; exact ⟨hc, hc, rfl⟩
  rw [snap_step s op hpz, step_get s op id hr, nFailed_step s op id hwf]
  unfold projStep
  cases hp : proj id s op with
  | none => exact ⟨hc, hs, rfl⟩
  | some pop =>
    have := good_step truth id _ pop hc (okFor_proj truth id s op pop hok hp)
    exact ⟨this.1, hs, this.2⟩

theorem good_run (truth : PartId → Bool) (id : PayId) : ∀ (ops : List Op) (s : State), WF s →
    Good truth (get s.cur id) → Good truth (get s.snapCur id) → (∀ op ∈ ops, OkFor truth id op) →
    nFailed id (run s ops).2 = 0 := by
  intro ops
  induction ops with
  | nil => intro s _ _ _ _; rfl
  | cons op rest ih =>
    intro s hwf hc hs hok
    obtain ⟨h1, h2, h3⟩ := good_global_step truth id s op hwf hc hs (hok op (by simp))
    rw [run_cons, nFailed_append, h3, Nat.zero_add]
    exact ih _ (wf_step s op hwf) h1 h2 (fun o ho => hok o (List.mem_cons_of_mem _ ho))

/-- PaymentSent is only ever pushed by a `claim_htlc` for that id (whatever else happens, restarts included) -/
theorem sent_needs_claim (id : PayId) : ∀ (ops : List Op) (s : State), WF s →
    nSent id (run s ops).2 > 0 → ∃ p oc, Op.claim id p oc ∈ ops := by
  intro ops
  induction ops with
  | nil => intro s _ h; simp [run_nil, nSent_nil] at h
  | cons op rest ih =>
    intro s hwf h
    rw [run_cons, nSent_append] at h
    by_cases h0 : nSent id (step s op).2.evs = 0
    · rw [h0, Nat.zero_add] at h
      obtain ⟨p, oc, hm⟩ := ih _ (wf_step s op hwf) h
      exact ⟨p, oc, List.mem_cons_of_mem _ hm⟩
    · rw [nSent_step s op id hwf] at h0
      unfold projStep at h0
      cases hp : proj id s op with
      | none => simp [hp, nSent_nil] at h0
      | some pop =>
        simp only [hp] at h0
        cases pop with
        | claim p oc =>
          refine ⟨p, oc, ?_⟩
          cases op <;> simp only [proj] at hp <;> (try split at hp) <;> simp_all
        | _ =>
          exfalso; apply h0
          cases (get s.cur id) <;> simp only [stepP, abandonNow] <;> (repeat' split) <;> simp [nSent]


/-- the five ways one payment instance can look after any of its prefixes -/
theorem instance_cases (id : PayId) (s : State) (ops : List Op) (h : Instance id s ops) :
    let st := get (run s ops).1.cur id
    let nS := nSent id (run s ops).2
    let nF := nFailed id (run s ops).2
    let ch := claimHits id s ops
    (st = .absent ∧ ¬ Started id s ops ∧ nS = 0 ∧ nF = 0 ∧ ch = false) ∨
    (st = .absent ∧ Started id s ops ∧ nS + nF = 1 ∧ (nS = 1 ↔ ch = true)) ∨
    ((∃ t, st = .preHtlc t) ∧ nS = 0 ∧ nF = 0 ∧ ch = false) ∨
    ((∃ ps, st = .retryable ps) ∧ nS = 0 ∧ nF = 0 ∧ ch = false) ∨
    ((∃ ps r, st = .abandoned ps r ∧ ps ≠ []) ∧ nS = 0 ∧ nF = 0 ∧ ch = false) ∨
    ((∃ ps t, st = .fulfilled ps t) ∧ nS = 1 ∧ nF = 0 ∧ ch = true) := by
  intro st nS nF ch
  have hsum := instance_summary id s ops h
  cases hst : get (run s ops).1.cur id with
  | absent =>
    by_cases hs : Started id s ops
    · exact Or.inr (Or.inl ⟨hst, hs, ((hsum.2 hst).1 hs).1, ((hsum.2 hst).1 hs).2⟩)
    · exact Or.inl ⟨hst, hs, (hsum.2 hst).2 hs⟩
  | preHtlc t =>
    have := hsum.1 (by rw [hst]; simp); rw [hst] at this
    exact Or.inr (Or.inr (Or.inl ⟨⟨t, hst⟩, this⟩))
  | retryable ps =>
    have := hsum.1 (by rw [hst]; simp); rw [hst] at this
    exact Or.inr (Or.inr (Or.inr (Or.inl ⟨⟨ps, hst⟩, this⟩)))
  | abandoned ps r =>
    have := hsum.1 (by rw [hst]; simp); rw [hst] at this
    exact Or.inr (Or.inr (Or.inr (Or.inr (Or.inl ⟨⟨ps, r, hst, this.2.2.2⟩, this.1, this.2.1, this.2.2.1⟩))))
  | fulfilled ps t =>
    have := hsum.1 (by rw [hst]; simp); rw [hst] at this
    exact Or.inr (Or.inr (Or.inr (Or.inr (Or.inr ⟨⟨ps, t, hst⟩, this⟩))))

instance decNoRestore (ops : List Op) : Decidable (NoRestore ops) := by unfold NoRestore; exact inferInstance

instance decStays (id : PayId) : ∀ (s : State) (ops : List Op), Decidable (StaysPresent id s ops)
  | _, [] => isTrue trivial
  | _, [_] => isTrue trivial
  | s, op :: op' :: rest =>
    have := decStays id (step s op).1 (op' :: rest)
    by unfold StaysPresent present; exact inferInstance

end Ldk.OutboundPay
