/- Helper lemmas for C03 (Props/C03.lean): the store, the projection of a global step onto one payment id,
   the per-payment invariant and its propagation along restore-free runs. -/
import LdkModel.Model.OutboundPay
namespace Ldk.OutboundPay

/-! ### store -/

theorem get_set_self (s : Store) (id : PayId) (v : PState) : get (set s id v) id = v := by
  simp [get, set]

theorem lookup_filter_ne (s : Store) (id k : PayId) (h : k ≠ id) :
    (s.filter (·.1 != id)).lookup k = s.lookup k := by
  induction s with
  | nil => rfl
  | cons e t ih =>
    obtain ⟨a, v⟩ := e
    by_cases ha : a = id
    · subst ha
      have hk : (k == a) = false := by simpa using h
      simp [List.filter, List.lookup, hk, ih]
    · have : (a != id) = true := by simpa using ha
      simp only [List.filter, this, List.lookup]
      cases hka : k == a <;> simp [ih]

theorem get_set_ne (s : Store) (id k : PayId) (v : PState) (h : k ≠ id) : get (set s id v) k = get s k := by
  have hk : (k == id) = false := by simpa using h
  simp [get, set, List.lookup, hk, lookup_filter_ne s id k h]

theorem get_map (s : Store) (f : PayId → PState → PState) (hf : ∀ k, f k .absent = .absent) (k : PayId) :
    get (s.map fun e => (e.1, f e.1 e.2)) k = f k (get s k) := by
  induction s with
  | nil => simp [get, hf]
  | cons e t ih =>
    obtain ⟨a, v⟩ := e
    simp only [get, List.map, List.lookup] at ih ⊢
    cases hka : k == a
    · simpa using ih
    · have : k = a := by simpa using hka
      subst this; simp

def keys (s : Store) : List PayId := s.map (·.1)

/-- representation invariant: one entry per key (true of `init`, kept by every op) -/
def WF (s : State) : Prop := (keys s.cur).Nodup ∧ (keys s.snapCur).Nodup

theorem keys_filter_sub (s : Store) (id : PayId) : (keys (s.filter (·.1 != id))).Sublist (keys s) := by
  unfold keys
  exact List.Sublist.map _ List.filter_sublist

theorem not_mem_keys_filter (s : Store) (id : PayId) : id ∉ keys (s.filter (·.1 != id)) := by
  unfold keys
  intro h
  rcases List.mem_map.1 h with ⟨e, he, rfl⟩
  have := (List.mem_filter.1 he).2
  simp at this

theorem nodup_set (s : Store) (id : PayId) (v : PState) (h : (keys s).Nodup) : (keys (set s id v)).Nodup := by
  unfold set
  show (id :: keys (s.filter (·.1 != id))).Nodup
  exact List.nodup_cons.2 ⟨not_mem_keys_filter s id, h.sublist (keys_filter_sub s id)⟩

theorem keys_map (s : Store) (f : PayId → PState → PState) : keys (s.map fun e => (e.1, f e.1 e.2)) = keys s := by
  unfold keys; simp [List.map_map, Function.comp_def]

theorem get_absent_of_not_mem (s : Store) (id : PayId) (h : id ∉ keys s) : get s id = .absent := by
  induction s with
  | nil => rfl
  | cons e t ih =>
    obtain ⟨a, v⟩ := e
    have hne : id ≠ a := fun h' => h (by simp [keys, h'])
    have ht : id ∉ keys t := fun h' => h (by simp [keys] at h' ⊢; exact Or.inr h')
    have hk : (id == a) = false := by simpa using hne
    simpa [get, List.lookup, hk] using ih ht


/-! ### events of one payment step carry that payment's id; absent stays absent under map-wide ops -/

theorem stepP_evs_id (id : PayId) (st : PState) (pop : POp) : ∀ e ∈ (stepP id st pop).2.evs, e.id = id := by
  cases pop <;> cases st <;> simp only [stepP, abandonNow] <;>
    (repeat' split) <;> simp [Ev.id]


theorem stepP_absent_sweep (k : PayId) (a : Bool) : stepP k .absent (.sweep a) = (.absent, {}) := rfl
theorem stepP_absent_tick (k : PayId) (a : Bool) : stepP k .absent (.tick a) = (.absent, {}) := rfl

/-- filtering the events of a map-wide op by a predicate that pins the payment id gives the events of that
    payment's own step (needs one entry per key) -/
theorem filter_flatMap_events (s : Store) (g : PayId → PState → List Ev) (id : PayId) (P : Ev → Bool)
    (hP : ∀ e, P e = true → e.id = id) (hg : ∀ k v, ∀ e ∈ g k v, e.id = k) (habs : g id .absent = [])
    (hnd : (keys s).Nodup) :
    (s.flatMap fun e => g e.1 e.2).filter P = (g id (get s id)).filter P := by
  have none_of : ∀ k v, k ≠ id → (g k v).filter P = [] := by
    intro k v hk
    apply List.filter_eq_nil_iff.2
    intro e he hpe
    exact hk ((hg k v e he).symm.trans (hP e hpe))
  induction s with
  | nil => simp [get, habs]
  | cons e t ih =>
    obtain ⟨a, v⟩ := e
    have hnd' : a ∉ keys t ∧ (keys t).Nodup := by simpa [keys] using hnd
    simp only [List.flatMap_cons, List.filter_append]
    by_cases ha : a = id
    · subst ha
      have hrest : (t.flatMap fun e => g e.1 e.2).filter P = [] := by
        rw [ih hnd'.2, get_absent_of_not_mem t a hnd'.1, habs]; rfl
      simp [hrest, get, List.lookup]
    · have hk : (id == a) = false := by simpa using (fun h : id = a => ha h.symm)
      rw [none_of a v ha, ih hnd'.2]
      simp [get, List.lookup, hk]

end Ldk.OutboundPay
