/- Helper lemmas for the C11 theorems about the *claims layer* of Model/ChainView.lean
   (`claimable_outpoints` with creation heights under connect / disconnect / preimage ops): the
   reachable-state invariant `CInv` — every claim on an output of the counterparty's commitment is
   dated at the height at which the monitor holds that commitment's FundingSpendConfirmation (or the
   commitment is irrevocably confirmed); no claim is lost while the commitment is confirmed and the
   output unspent — and its preservation by every op except `transaction_unconfirmed`.  Core only. -/
import LdkModel.Proofs.ChainView
namespace Ldk.ChainView
open Ldk Ldk.ClaimHeights

/-! ### what the generated expressions say (these are the lemmas a change of the Rust text breaks) -/

theorem claimCreationHeight_some (h b : Nat) : claimCreationHeight (some h) b = h := rfl
theorem claimCreationHeight_none (b : Nat) : claimCreationHeight none b = b := rfl
theorem preimageSpendHeight_awaiting (h b : Nat) : preimageSpendHeight false (some h) b = some (some h) := rfl
theorem preimageSpendHeight_final (a : Option Nat) (b : Nat) : preimageSpendHeight true a b = some none := rfl
theorem preimageSpendHeight_none (b : Nat) : preimageSpendHeight false none b = none := rfl
theorem counterpartyConfirmOutpointHeight_eq (h : Nat) : counterpartyConfirmOutpointHeight h = some h := rfl
theorem holderConfirmStored_eq (h : Nat) : holderStoredHeight (holderConfirmOutpointHeight h) = some h := rfl
theorem holderPreimageStored_awaiting (c b : Nat) :
    holderStoredHeight (holderPreimageOutpointHeight (some c) b) = some c := rfl
theorem holderPreimageStored_final (b : Nat) :
    holderStoredHeight (holderPreimageOutpointHeight none b) = some b := rfl
theorem claimDropped_iff (c h : Nat) : claimDropped c h = true ↔ h < c := by simp [claimDropped]
theorem claimDropped_false_iff (c h : Nat) : claimDropped c h = false ↔ c ≤ h := by simp [claimDropped]
theorem handlerEntryDropped_iff (c h : Nat) : handlerEntryDropped c h = true ↔ h < c := by simp [handlerEntryDropped]

/-! ### the monitor part of a history -/

theorem crun_append (cat : Catalog) (K : ClaimCat) (s : CSt) (l₁ l₂ : List COp) :
    crun cat K s (l₁ ++ l₂) = crun cat K (crun cat K s l₁) l₂ := by
  simp [crun, List.foldl_append]

theorem crun_cons (cat : Catalog) (K : ClaimCat) (s : CSt) (o : COp) (l : List COp) :
    crun cat K s (o :: l) = crun cat K (cstep cat K s o) l := rfl

theorem cstep_st (cat : Catalog) (K : ClaimCat) (s : CSt) (op : Op) :
    (cstep cat K s (.chain op)).st = step cat s.st op := by
  cases op with
  | blockConnected h txs => rfl
  | txsConfirmed h txs => rfl
  | bestBlock h =>
    simp only [cstep, cBestBlock, step]
    split
    · rfl
    · rename_i hh; simp [cRewind, bestBlock, hh]
  | blocksDisconnected h =>
    simp only [cstep, cBlocksDisconnected, step, blocksDisconnected]
    split <;> rfl
  | txUnconfirmed t =>
    simp only [cstep, cTxUnconfirmed, step]
    split <;> rfl

theorem cPreimage_st (K : ClaimCat) (s : CSt) (p : Nat) : (cPreimage K s p).st = s.st := rfl

/-- the claims layer never influences the monitor's queue: the `st` component of a history is the
    base model run on its chain notifications -/
theorem crun_st (cat : Catalog) (K : ClaimCat) (s : CSt) (ops : List COp) :
    (crun cat K s ops).st = run cat s.st (chainOps ops) := by
  induction ops generalizing s with
  | nil => rfl
  | cons o r ih =>
    rw [crun_cons, ih]
    cases o with
    | chain op => simp [chainOps, run_cons, cstep_st]
    | preimage p => simp [chainOps, cstep, cPreimage_st]

theorem mem_addPre (pre : List Nat) (p q : Nat) : q ∈ addPre pre p ↔ q ∈ pre ∨ q = p := by
  unfold addPre
  split
  · rename_i h
    constructor
    · exact Or.inl
    · rintro (h1 | rfl)
      · exact h1
      · simpa using h
  · simp

theorem cPreimage_pre (K : ClaimCat) (s : CSt) (p q : Nat) :
    q ∈ (cPreimage K s p).pre ↔ q ∈ s.pre ∨ q = p := mem_addPre s.pre p q

theorem cstep_chain_pre (cat : Catalog) (K : ClaimCat) (s : CSt) (op : Op) :
    (cstep cat K s (.chain op)).pre = s.pre := by
  cases op with
  | blockConnected h txs => rfl
  | txsConfirmed h txs => rfl
  | bestBlock h => simp only [cstep, cBestBlock]; split <;> rfl
  | blocksDisconnected h => simp only [cstep, cBlocksDisconnected]; split <;> rfl
  | txUnconfirmed t => simp only [cstep, cTxUnconfirmed]; split <;> rfl

/-- the preimages a monitor knows after a history = those it knew + those the history provided -/
theorem crun_pre (cat : Catalog) (K : ClaimCat) (s : CSt) (ops : List COp) (q : Nat) :
    q ∈ (crun cat K s ops).pre ↔ q ∈ s.pre ∨ q ∈ preimagesOf ops := by
  induction ops generalizing s with
  | nil => simp [crun, preimagesOf]
  | cons o r ih =>
    rw [crun_cons, ih]
    cases o with
    | chain op => simp [preimagesOf, cstep_chain_pre]
    | preimage p =>
      simp only [cstep, preimagesOf, cPreimage_pre, List.mem_cons]
      constructor
      · rintro ((h | h) | h)
        · exact Or.inl h
        · exact Or.inr (Or.inl h)
        · exact Or.inr (Or.inr h)
      · rintro (h | h | h)
        · exact Or.inl (Or.inl h)
        · exact Or.inl (Or.inr h)
        · exact Or.inr h

/-! ### the monitor's queue: where entries come from -/

theorem known_false_of_addTx {cat : Catalog} {h : Nat} {s : St} {x t : Nat}
    (hk : known (addTx cat h s x) t = false) : known s t = false := by
  cases hk' : known s t with
  | false => rfl
  | true => rw [known_addTx_mono hk'] at hk; cases hk

theorem addTx_awaiting_mono {cat : Catalog} {h : Nat} {s : St} {t : Nat} {e : Entry}
    (he : e ∈ s.awaiting) : e ∈ (addTx cat h s t).awaiting := mem_addTx_awaiting.2 (Or.inl he)

theorem addTxs_awaiting_mono {cat : Catalog} {h : Nat} {txs : List Nat} {s : St} {e : Entry}
    (he : e ∈ s.awaiting) : e ∈ (txs.foldl (addTx cat h) s).awaiting := by
  induction txs generalizing s with
  | nil => exact he
  | cons x r ih => exact ih (addTx_awaiting_mono he)

/-- an entry of the queue after the `'tx_iter` loop is an old one or one of a transaction of the
    list that was not known before, at the announced height, from the catalog -/
theorem mem_addTxs_awaiting {cat : Catalog} {h : Nat} {txs : List Nat} {s : St} {e : Entry}
    (he : e ∈ (txs.foldl (addTx cat h) s).awaiting) :
    e ∈ s.awaiting ∨ (known s e.txid = false ∧ e.txid ∈ txs ∧ e.height = h ∧ e.ev ∈ cat e.txid) := by
  induction txs generalizing s with
  | nil => exact Or.inl he
  | cons x r ih =>
    simp only [List.foldl_cons] at he
    rcases ih he with h1 | ⟨h1, h2, h3, h4⟩
    · rcases mem_addTx_awaiting.1 h1 with h5 | ⟨h5, h6, h7, h8⟩
      · exact Or.inl h5
      · exact Or.inr ⟨h6 ▸ h5, by simp [h6], h7, h6 ▸ h8⟩
    · exact Or.inr ⟨known_false_of_addTx h1, List.mem_cons_of_mem _ h2, h3, h4⟩

theorem known_addTx_ne {cat : Catalog} {h : Nat} {s : St} {x t : Nat} (hne : x ≠ t)
    (hk : known s t = false) : known (addTx cat h s x) t = false := by
  cases hk' : known (addTx cat h s x) t with
  | false => rfl
  | true =>
    obtain ⟨e, he, ht⟩ := known_iff.1 hk'
    rcases he with he | he
    · rcases mem_addTx_awaiting.1 he with h1 | ⟨_, h2, _, _⟩
      · rw [known_iff.2 ⟨e, Or.inl h1, ht⟩] at hk; cases hk
      · exact absurd (h2.symm.trans ht) hne
    · rw [addTx_matured] at he
      rw [known_iff.2 ⟨e, Or.inr he, ht⟩] at hk; cases hk

/-- a not yet known transaction of the list gets all its catalog entries queued at the announced height -/
theorem addTxs_adds {cat : Catalog} {h : Nat} {txs : List Nat} {s : St} {t : Nat} {ev : Ev}
    (ht : t ∈ txs) (hk : known s t = false) (hev : ev ∈ cat t) :
    ({ txid := t, height := h, ev := ev } : Entry) ∈ (txs.foldl (addTx cat h) s).awaiting := by
  induction txs generalizing s with
  | nil => cases ht
  | cons x r ih =>
    simp only [List.foldl_cons]
    by_cases hx : x = t
    · subst hx
      exact addTxs_awaiting_mono (mem_addTx_awaiting.2 (Or.inr ⟨hk, rfl, rfl, hev⟩))
    · rcases List.mem_cons.1 ht with h1 | h1
      · exact absurd h1.symm hx
      · exact ih h1 (known_addTx_ne hx hk)

theorem mem_txsConfirmed_awaiting {cat : Catalog} {s : St} {h : Nat} {txs : List Nat} {e : Entry} :
    e ∈ (txsConfirmed cat s h txs).awaiting ↔
      e ∈ (txs.foldl (addTx cat h) s).awaiting ∧ e.reached (max s.best h) = false := by
  simp [txsConfirmed, mem_mature_awaiting]

theorem mem_txsConfirmed_matured {cat : Catalog} {s : St} {h : Nat} {txs : List Nat} {e : Entry} :
    e ∈ (txsConfirmed cat s h txs).matured ↔
      e ∈ s.matured ∨ (e ∈ (txs.foldl (addTx cat h) s).awaiting ∧ e.reached (max s.best h) = true) := by
  simp [txsConfirmed, mem_mature_matured]

/-- an entry that is queued stays queued or becomes irrevocable when transactions are confirmed -/
theorem txsConfirmed_keeps {cat : Catalog} {s : St} {h : Nat} {txs : List Nat} {e : Entry}
    (he : e ∈ s.awaiting) :
    e ∈ (txsConfirmed cat s h txs).awaiting ∨ e ∈ (txsConfirmed cat s h txs).matured := by
  cases hr : e.reached (max s.best h) with
  | false => exact Or.inl (mem_txsConfirmed_awaiting.2 ⟨addTxs_awaiting_mono he, hr⟩)
  | true => exact Or.inr (mem_txsConfirmed_matured.2 (Or.inr ⟨addTxs_awaiting_mono he, hr⟩))

theorem mem_bestBlock_up {s : St} {h : Nat} (hh : h > s.best) {e : Entry} :
    (e ∈ (bestBlock s h).awaiting ↔ e ∈ s.awaiting ∧ e.reached h = false) ∧
    (e ∈ (bestBlock s h).matured ↔ e ∈ s.matured ∨ (e ∈ s.awaiting ∧ e.reached h = true)) := by
  simp [bestBlock, hh, mem_mature_awaiting, mem_mature_matured]

/-! ### the commitment transaction `C` in the monitor's queue -/

/-- the monitor holds a not-yet-final FundingSpendConfirmation of `C` at height `c` -/
def FscAw (C : Nat) (st : St) (c : Nat) : Prop :=
  ∃ e ∈ st.awaiting, e.txid = C ∧ e.ev.kind = 2 ∧ e.height = c

/-- `funding_spend_confirmed = Some(C)`: the spend of the funding output by `C` is irrevocable -/
def FscMat (C : Nat) (st : St) : Prop := ∃ e ∈ st.matured, e.txid = C ∧ e.ev.kind = 2

instance (C : Nat) (st : St) (c : Nat) : Decidable (FscAw C st c) := by unfold FscAw; infer_instance
instance (C : Nat) (st : St) : Decidable (FscMat C st) := by unfold FscMat; infer_instance

/-- catalog hypotheses of the claim theorems: `C` is the one transaction that spends the funding
    output (a FundingSpendConfirmation, event kind 2, is queued for `C` and only for `C`), every
    tracked output is an output of `C`, and an output id has one description -/
structure OneCommitment (cat : Catalog) (K : ClaimCat) (C : Nat) : Prop where
  fsc_only : ∀ t ev, ev ∈ cat t → ev.kind = 2 → t = C
  has_fsc : ∃ ev, ev ∈ cat C ∧ ev.kind = 2
  parents : ∀ o i, (o, i) ∈ K.outs → i.parent = C
  functional : ∀ o i i', (o, i) ∈ K.outs → (o, i') ∈ K.outs → i = i'

/-- structural facts about every reachable queue: entries come from the catalog, and the entries
    of one transaction share one height -/
structure BInv (cat : Catalog) (st : St) : Prop where
  fromCat : ∀ e, e ∈ st.awaiting ∨ e ∈ st.matured → e.ev ∈ cat e.txid
  oneHeight : ∀ e e', e ∈ st.awaiting → e' ∈ st.awaiting → e.txid = e'.txid → e.height = e'.height

theorem init_binv (cat : Catalog) (b : Nat) : BInv cat (init b) :=
  ⟨by intro e he; simp [init] at he, by intro e e' he; simp [init] at he⟩

theorem txsConfirmed_binv {cat : Catalog} {s : St} {h : Nat} {txs : List Nat} (hb : BInv cat s) :
    BInv cat (txsConfirmed cat s h txs) := by
  constructor
  · intro e he
    have h1 : e ∈ (txs.foldl (addTx cat h) s).awaiting ∨ e ∈ s.matured := by
      rcases he with he | he
      · exact Or.inl (mem_txsConfirmed_awaiting.1 he).1
      · rcases mem_txsConfirmed_matured.1 he with h2 | h2
        · exact Or.inr h2
        · exact Or.inl h2.1
    rcases h1 with h1 | h1
    · rcases mem_addTxs_awaiting h1 with h2 | ⟨_, _, _, h2⟩
      · exact hb.fromCat e (Or.inl h2)
      · exact h2
    · exact hb.fromCat e (Or.inr h1)
  · intro e e' he he' ht
    have h1 := mem_addTxs_awaiting (mem_txsConfirmed_awaiting.1 he).1
    have h2 := mem_addTxs_awaiting (mem_txsConfirmed_awaiting.1 he').1
    rcases h1 with h1 | ⟨k1, _, a1, _⟩ <;> rcases h2 with h2 | ⟨k2, _, a2, _⟩
    · exact hb.oneHeight e e' h1 h2 ht
    · rw [← ht, known_iff.2 ⟨e, Or.inl h1, rfl⟩] at k2; cases k2
    · rw [ht, known_iff.2 ⟨e', Or.inl h2, rfl⟩] at k1; cases k1
    · rw [a1, a2]

theorem mature_binv {cat : Catalog} {s : St} (hb : BInv cat s) : BInv cat (mature s) := by
  constructor
  · intro e he
    rcases he with he | he
    · exact hb.fromCat e (Or.inl (mem_mature_awaiting.1 he).1)
    · rcases mem_mature_matured.1 he with h1 | h1
      · exact hb.fromCat e (Or.inr h1)
      · exact hb.fromCat e (Or.inl h1.1)
  · intro e e' he he' ht
    exact hb.oneHeight e e' (mem_mature_awaiting.1 he).1 (mem_mature_awaiting.1 he').1 ht

theorem rewindTo_binv {cat : Catalog} {s : St} {h : Nat} (hb : BInv cat s) : BInv cat (rewindTo s h) := by
  constructor
  · intro e he
    rcases he with he | he
    · exact hb.fromCat e (Or.inl (List.mem_filter.1 he).1)
    · exact hb.fromCat e (Or.inr he)
  · intro e e' he he' ht
    exact hb.oneHeight e e' (List.mem_filter.1 he).1 (List.mem_filter.1 he').1 ht

theorem bestBlock_binv {cat : Catalog} {s : St} {h : Nat} (hb : BInv cat s) : BInv cat (bestBlock s h) := by
  unfold bestBlock
  split
  · exact mature_binv (s := { s with best := h }) ⟨hb.fromCat, hb.oneHeight⟩
  · exact rewindTo_binv hb

theorem blocksDisconnected_binv {cat : Catalog} {s : St} {h : Nat} (hb : BInv cat s) :
    BInv cat (blocksDisconnected s h) := by
  unfold blocksDisconnected
  split
  · exact rewindTo_binv hb
  · exact hb

/-- with the commitment not yet final, its FundingSpendConfirmation height is what
    provide_payment_preimage finds -/
theorem fundingSpend_awaiting {cat : Catalog} {K : ClaimCat} {C : Nat} (hK : OneCommitment cat K C)
    {st : St} (hb : BInv cat st) {c : Nat} (haw : FscAw C st c) (hm : ¬ FscMat C st) :
    fundingSpend st = some (C, false, some c) := by
  unfold fundingSpend
  have h1 : st.matured.find? (fun e => e.ev.kind == 2) = none := by
    apply List.find?_eq_none.2
    intro e he hk
    have hk' : e.ev.kind = 2 := by simpa using hk
    exact hm ⟨e, he, hK.fsc_only _ _ (hb.fromCat e (Or.inr he)) hk', hk'⟩
  rw [h1]
  obtain ⟨e0, he0, ht0, hk0, hh0⟩ := haw
  cases hf : st.awaiting.find? (fun e => e.ev.kind == 2) with
  | none =>
    have := List.find?_eq_none.1 hf e0 he0
    simp [hk0] at this
  | some e =>
    have he := List.mem_of_find?_eq_some hf
    have hk : e.ev.kind = 2 := by simpa using List.find?_some hf
    have ht : e.txid = C := hK.fsc_only _ _ (hb.fromCat e (Or.inl he)) hk
    have hh : e.height = c := (hb.oneHeight e e0 he he0 (ht.trans ht0.symm)).trans hh0
    simp [ht, hh]

theorem fundingSpend_final {cat : Catalog} {K : ClaimCat} {C : Nat} (hK : OneCommitment cat K C)
    {st : St} (hb : BInv cat st) (hm : FscMat C st) :
    fundingSpend st = some (C, true, none) := by
  unfold fundingSpend
  obtain ⟨e0, he0, ht0, hk0⟩ := hm
  cases hf : st.matured.find? (fun e => e.ev.kind == 2) with
  | none =>
    have := List.find?_eq_none.1 hf e0 he0
    simp [hk0] at this
  | some e =>
    have he := List.mem_of_find?_eq_some hf
    have hk : e.ev.kind = 2 := by simpa using List.find?_some hf
    have ht : e.txid = C := hK.fsc_only _ _ (hb.fromCat e (Or.inr he)) hk
    simp [ht]

/-- whatever provide_payment_preimage finds is the commitment `C`, either irrevocable or at the
    height of its awaiting FundingSpendConfirmation -/
theorem fundingSpend_cases {cat : Catalog} {K : ClaimCat} {C : Nat} (hK : OneCommitment cat K C)
    {st : St} (hb : BInv cat st) {x : Nat × Bool × Option Nat} (hx : fundingSpend st = some x) :
    (x = (C, true, none) ∧ FscMat C st) ∨ (∃ c, x = (C, false, some c) ∧ FscAw C st c) := by
  unfold fundingSpend at hx
  cases hf : st.matured.find? (fun e => e.ev.kind == 2) with
  | some e =>
    rw [hf] at hx
    have he := List.mem_of_find?_eq_some hf
    have hk : e.ev.kind = 2 := by simpa using List.find?_some hf
    have ht : e.txid = C := hK.fsc_only _ _ (hb.fromCat e (Or.inr he)) hk
    left
    refine ⟨?_, ⟨e, he, ht, hk⟩⟩
    simp at hx
    rw [← hx, ht]
  | none =>
    rw [hf] at hx
    cases hg : st.awaiting.find? (fun e => e.ev.kind == 2) with
    | none => rw [hg] at hx; cases hx
    | some e =>
      rw [hg] at hx
      have he := List.mem_of_find?_eq_some hg
      have hk : e.ev.kind = 2 := by simpa using List.find?_some hg
      have ht : e.txid = C := hK.fsc_only _ _ (hb.fromCat e (Or.inl he)) hk
      right
      refine ⟨e.height, ?_, ⟨e, he, ht, hk, rfl⟩⟩
      simp at hx
      rw [← hx, ht]

/-! ### the bookkeeping functions -/

theorem hasClaim_iff {cl : List Claim} {o : Nat} : hasClaim cl o = true ↔ ∃ c, (⟨o, c⟩ : Claim) ∈ cl := by
  simp only [hasClaim, List.any_eq_true, beq_iff_eq]
  constructor
  · rintro ⟨x, hx, rfl⟩; exact ⟨x.creation, hx⟩
  · rintro ⟨c, hc⟩; exact ⟨_, hc, rfl⟩

theorem mem_register {H : Nat} {cl : List Claim} {req : Nat × Option Nat} {x : Claim} :
    x ∈ register H cl req ↔
      x ∈ cl ∨ (hasClaim cl req.1 = false ∧ x = ⟨req.1, claimCreationHeight req.2 H⟩) := by
  unfold register
  split
  · rename_i h; simp [h]
  · rename_i h; simp [h]

theorem register_mono {H : Nat} {cl : List Claim} {req : Nat × Option Nat} {x : Claim} (hx : x ∈ cl) :
    x ∈ register H cl req := mem_register.2 (Or.inl hx)

theorem registerAll_mono {H : Nat} {reqs : List (Nat × Option Nat)} {cl : List Claim} {x : Claim}
    (hx : x ∈ cl) : x ∈ registerAll H cl reqs := by
  induction reqs generalizing cl with
  | nil => exact hx
  | cons r rs ih => exact ih (register_mono hx)

/-- soundness: a registered claim is an old one or comes from one of the requests, dated by the
    generated `claimCreationHeight` -/
theorem mem_registerAll {H : Nat} {reqs : List (Nat × Option Nat)} {cl : List Claim} {x : Claim}
    (hx : x ∈ registerAll H cl reqs) :
    x ∈ cl ∨ ∃ req ∈ reqs, x = ⟨req.1, claimCreationHeight req.2 H⟩ ∧ hasClaim cl req.1 = false := by
  induction reqs generalizing cl with
  | nil => exact Or.inl hx
  | cons r rs ih =>
    rcases ih (cl := register H cl r) hx with h1 | ⟨req, hreq, hx', hn⟩
    · rcases mem_register.1 h1 with h2 | ⟨h2, h3⟩
      · exact Or.inl h2
      · exact Or.inr ⟨r, List.mem_cons_self, h3, h2⟩
    · refine Or.inr ⟨req, List.mem_cons_of_mem _ hreq, hx', ?_⟩
      cases hc : hasClaim cl req.1 with
      | false => rfl
      | true =>
        obtain ⟨c, hc'⟩ := hasClaim_iff.1 hc
        rw [hasClaim_iff.2 ⟨c, register_mono hc'⟩] at hn; cases hn

/-- completeness: after registration every requested outpoint has a claim -/
theorem registerAll_has {H : Nat} {reqs : List (Nat × Option Nat)} {cl : List Claim} {req : Nat × Option Nat}
    (hreq : req ∈ reqs) : hasClaim (registerAll H cl reqs) req.1 = true := by
  induction reqs generalizing cl with
  | nil => cases hreq
  | cons r rs ih =>
    rcases List.mem_cons.1 hreq with rfl | h1
    · have : hasClaim (register H cl req) req.1 = true := by
        cases hc : hasClaim cl req.1 with
        | true =>
          obtain ⟨c, hc'⟩ := hasClaim_iff.1 hc
          exact hasClaim_iff.2 ⟨c, register_mono hc'⟩
        | false => exact hasClaim_iff.2 ⟨_, mem_register.2 (Or.inr ⟨hc, rfl⟩)⟩
      obtain ⟨c, hc⟩ := hasClaim_iff.1 this
      exact hasClaim_iff.2 ⟨c, registerAll_mono (cl := register H cl req) hc⟩
    · exact ih h1

theorem mem_handlerMature_claims {cur : Nat} {cl : List Claim} {hAw : List HEntry} {x : Claim} :
    x ∈ (handlerMature cur cl hAw).1 ↔
      x ∈ cl ∧ ∀ e ∈ hAw, handlerReached cur e.height = true → e.out ≠ x.out := by
  simp only [handlerMature, List.mem_filter, Bool.not_eq_true', List.any_eq_false, beq_iff_eq,
    and_imp]

theorem mem_handlerMature_hAw {cur : Nat} {cl : List Claim} {hAw : List HEntry} {e : HEntry}
    (he : e ∈ (handlerMature cur cl hAw).2) : e ∈ hAw := by
  simp only [handlerMature, List.mem_filter] at he
  exact he.1

theorem mem_handlerDisconnect_claims {h : Nat} {cl : List Claim} {hAw : List HEntry} {x : Claim} :
    x ∈ (handlerDisconnect h cl hAw).1 ↔ x ∈ cl ∧ x.creation ≤ h := by
  simp [handlerDisconnect, List.mem_filter, claimDropped_false_iff]

theorem mem_handlerDisconnect_hAw {h : Nat} {cl : List Claim} {hAw : List HEntry} {e : HEntry}
    (he : e ∈ (handlerDisconnect h cl hAw).2) : e ∈ hAw := by
  simp only [handlerDisconnect, List.mem_filter] at he
  exact he.1

/-- an entry the handler queues for a confirmed transaction is about an output that transaction spends -/
theorem mem_noteSpends {K : ClaimCat} {cl : List Claim} {lk : List Nat} {h : Nat} {hAw : List HEntry} {t : Nat}
    {e : HEntry} (he : e ∈ noteSpends K cl lk h hAw t) : e ∈ hAw ∨ (e.txid = t ∧ e.out ∈ K.spends t) := by
  unfold noteSpends at he
  have : ∀ (l : List Nat) (acc : List HEntry), (∀ o ∈ l, o ∈ K.spends t) →
      e ∈ l.foldl (fun acc o =>
        let e : HEntry := { txid := t, height := h, out := o }
        if (hasClaim cl o || (lk.contains o && K.locked.any (fun op => op.1 == o))) && !acc.contains e then acc ++ [e] else acc) acc →
      e ∈ acc ∨ (e.txid = t ∧ e.out ∈ K.spends t) := by
    intro l
    induction l with
    | nil => intro acc _ h1; exact Or.inl h1
    | cons o r ih =>
      intro acc hl h1
      simp only [List.foldl_cons] at h1
      rcases ih _ (fun o' ho' => hl o' (List.mem_cons_of_mem _ ho')) h1 with h2 | h2
      · split at h2
        · rcases List.mem_append.1 h2 with h3 | h3
          · exact Or.inl h3
          · simp only [List.mem_singleton] at h3
            subst h3
            exact Or.inr ⟨rfl, hl o List.mem_cons_self⟩
        · exact Or.inl h2
      · exact Or.inr h2
  exact this (K.spends t) hAw (fun o ho => ho) he

theorem mem_noteSpendsAll {K : ClaimCat} {cl : List Claim} {lk : List Nat} {h : Nat} {txs : List Nat} {hAw : List HEntry}
    {e : HEntry} (he : e ∈ txs.foldl (noteSpends K cl lk h) hAw) :
    e ∈ hAw ∨ ∃ t ∈ txs, e.out ∈ K.spends t := by
  induction txs generalizing hAw with
  | nil => exact Or.inl he
  | cons t r ih =>
    simp only [List.foldl_cons] at he
    rcases ih he with h1 | ⟨t', ht', h2⟩
    · rcases mem_noteSpends h1 with h3 | ⟨_, h3⟩
      · exact Or.inl h3
      · exact Or.inr ⟨t, List.mem_cons_self, h3⟩
    · exact Or.inr ⟨t', List.mem_cons_of_mem _ ht', h2⟩

theorem preKnown_mono {pre pre' : List Nat} (h : ∀ q, q ∈ pre → q ∈ pre') {n : Option Nat}
    (hk : preKnown pre n = true) : preKnown pre' n = true := by
  cases n with
  | none => rfl
  | some p =>
    simp only [preKnown, List.contains_iff_mem] at hk ⊢
    exact h p hk

theorem mem_confirmRequests {K : ClaimCat} {pre : List Nat} {h t : Nat} {req : Nat × Option Nat} :
    req ∈ confirmRequests K pre h t ↔
      ∃ oi ∈ K.outs, oi.2.parent = t ∧ preKnown pre oi.2.needs = true ∧
        req = (oi.1, if oi.2.holder then holderStoredHeight (holderConfirmOutpointHeight h)
                     else counterpartyConfirmOutpointHeight h) := by
  simp only [confirmRequests, List.mem_filterMap]
  constructor
  · rintro ⟨oi, hoi, h1⟩
    split at h1
    · rename_i hc
      simp only [Bool.and_eq_true, beq_iff_eq] at hc
      exact ⟨oi, hoi, hc.1, hc.2, by simpa using h1.symm⟩
    · cases h1
  · rintro ⟨oi, hoi, h1, h2, h3⟩
    refine ⟨oi, hoi, ?_⟩
    simp [h1, h2, h3]

theorem mem_preimageRequests {K : ClaimCat} {st : St} {pre' : List Nat} {p : Nat} {req : Nat × Option Nat}
    (hreq : req ∈ preimageRequests K st pre' p) :
    ∃ txid final awH sh, fundingSpend st = some (txid, final, awH) ∧
      preimageSpendHeight final awH st.best = some sh ∧
      ∃ oi ∈ K.outs, oi.2.parent = txid ∧
        ((oi.2.holder = true ∧ preKnown pre' oi.2.needs = true ∧
            req = (oi.1, holderStoredHeight (holderPreimageOutpointHeight sh st.best))) ∨
         (oi.2.holder = false ∧ oi.2.needs = some p ∧ req = (oi.1, sh))) := by
  unfold preimageRequests at hreq
  split at hreq
  · cases hreq
  · rename_i txid final awH hf
    split at hreq
    · cases hreq
    · rename_i sh hs
      refine ⟨txid, final, awH, sh, hf, hs, ?_⟩
      simp only [List.mem_filterMap] at hreq
      obtain ⟨oi, hoi, h1⟩ := hreq
      refine ⟨oi, hoi, ?_⟩
      split at h1
      · rename_i hp
        refine ⟨by simpa using hp, ?_⟩
        split at h1
        · rename_i hh
          split at h1
          · rename_i hk
            exact Or.inl ⟨hh, hk, by simpa using h1.symm⟩
          · cases h1
        · rename_i hh
          split at h1
          · rename_i hn
            exact Or.inr ⟨by simpa using hh, by simpa using hn, by simpa using h1.symm⟩
          · cases h1
      · cases h1

theorem preimageRequests_has {K : ClaimCat} {st : St} {pre' : List Nat} {p : Nat} {txid : Nat} {final : Bool}
    {awH sh : Option Nat} (hf : fundingSpend st = some (txid, final, awH))
    (hs : preimageSpendHeight final awH st.best = some sh) {oi : Nat × OutInfo} (hoi : oi ∈ K.outs)
    (hp : oi.2.parent = txid) (hh : oi.2.holder = false) (hn : oi.2.needs = some p) :
    (oi.1, sh) ∈ preimageRequests K st pre' p := by
  unfold preimageRequests
  rw [hf]
  simp only [hs, List.mem_filterMap]
  exact ⟨oi, hoi, by simp [hp, hh, hn]⟩

theorem preimageRequests_has_holder {K : ClaimCat} {st : St} {pre' : List Nat} {p : Nat} {txid : Nat} {final : Bool}
    {awH sh : Option Nat} (hf : fundingSpend st = some (txid, final, awH))
    (hs : preimageSpendHeight final awH st.best = some sh) {oi : Nat × OutInfo} (hoi : oi ∈ K.outs)
    (hp : oi.2.parent = txid) (hh : oi.2.holder = true) (hk : preKnown pre' oi.2.needs = true) :
    (oi.1, holderStoredHeight (holderPreimageOutpointHeight sh st.best)) ∈ preimageRequests K st pre' p := by
  unfold preimageRequests
  rw [hf]
  simp only [hs, List.mem_filterMap]
  exact ⟨oi, hoi, by simp [hp, hh, hk]⟩

/-! ### the reachable-state invariant of the claims layer -/

/-- `U`: a set of outputs that no delivered transaction spends.  `dated`: every claim on an output
    of the commitment `C` (the counterparty's or our own) is dated at the height of `C`'s awaiting
    FundingSpendConfirmation (or `C` is irrevocably confirmed).  `kept`: while `C` is confirmed and
    not yet irrevocable, every unspent output whose preimage is known has its claim, dated at `C`'s
    height. -/
structure CInv (cat : Catalog) (K : ClaimCat) (C : Nat) (U : Nat → Prop) (s : CSt) : Prop where
  base : BInv cat s.st
  dated : ∀ o i c, (o, i) ∈ K.outs → (⟨o, c⟩ : Claim) ∈ s.claims →
    FscAw C s.st c ∨ FscMat C s.st
  preK : ∀ o i c, (o, i) ∈ K.outs → (⟨o, c⟩ : Claim) ∈ s.claims → preKnown s.pre i.needs = true
  kept : ∀ o i c, (o, i) ∈ K.outs → U o → preKnown s.pre i.needs = true →
    FscAw C s.st c → ¬ FscMat C s.st → (⟨o, c⟩ : Claim) ∈ s.claims
  unspent : ∀ e ∈ s.hAw, ¬ U e.out

theorem cinit_inv (cat : Catalog) (K : ClaimCat) (C : Nat) (U : Nat → Prop) (b : Nat) :
    CInv cat K C U (cinit b) where
  base := init_binv cat b
  dated := by intro o i c _ h; simp [cinit] at h
  preK := by intro o i c _ h; simp [cinit] at h
  kept := by
    intro o i c _ _ _ h
    obtain ⟨e, he, _⟩ := h
    simp [cinit, init] at he
  unspent := by intro e he; simp [cinit] at he

theorem FscAw_unique {cat : Catalog} {C : Nat} {st : St} (hb : BInv cat st) {c c' : Nat}
    (h1 : FscAw C st c) (h2 : FscAw C st c') : c = c' := by
  obtain ⟨e, he, ht, _, hh⟩ := h1
  obtain ⟨e', he', ht', _, hh'⟩ := h2
  rw [← hh, ← hh']
  exact hb.oneHeight e e' he he' (ht.trans ht'.symm)

theorem FscAw_known {C : Nat} {st : St} {c : Nat} (h : FscAw C st c) : known st C = true := by
  obtain ⟨e, he, ht, _, _⟩ := h
  exact known_iff.2 ⟨e, Or.inl he, ht⟩

theorem FscMat_known {C : Nat} {st : St} (h : FscMat C st) : known st C = true := by
  obtain ⟨e, he, ht, _⟩ := h
  exact known_iff.2 ⟨e, Or.inr he, ht⟩

theorem cTxsConfirmed_inv {cat : Catalog} {K : ClaimCat} {C : Nat} {U : Nat → Prop} (hK : OneCommitment cat K C)
    {s : CSt} {h : Nat} {txs : List Nat} (hsp : ∀ t ∈ txs, ∀ o ∈ K.spends t, ¬ U o)
    (hI : CInv cat K C U s) : CInv cat K C U (cTxsConfirmed cat K s h txs) := by
  -- names for the pieces
  have hst : (cTxsConfirmed cat K s h txs).st = txsConfirmed cat s.st h txs := rfl
  have hpre : (cTxsConfirmed cat K s h txs).pre = s.pre := rfl
  -- facts about the monitor part
  have awKeep : ∀ c, FscAw C s.st c → FscAw C (txsConfirmed cat s.st h txs) c ∨ FscMat C (txsConfirmed cat s.st h txs) := by
    rintro c ⟨e, he, ht, hk, hh⟩
    rcases txsConfirmed_keeps (cat := cat) (h := h) (txs := txs) he with h1 | h1
    · exact Or.inl ⟨e, h1, ht, hk, hh⟩
    · exact Or.inr ⟨e, h1, ht, hk⟩
  have matKeep : FscMat C s.st → FscMat C (txsConfirmed cat s.st h txs) := by
    rintro ⟨e, he, ht, hk⟩
    exact ⟨e, mem_txsConfirmed_matured.2 (Or.inl he), ht, hk⟩
  -- every handler entry after the call is about a spent output
  have hAwU : ∀ e ∈ txs.foldl (noteSpends K
      (registerAll h s.claims ((txs.filter (fun t => !known s.st t)).flatMap (confirmRequests K s.pre h)))
      ((K.locked.filter (fun op => txs.any (fun t => t == op.2 && !known s.st t))).foldl
        (fun acc op => if acc.contains op.1 then acc else acc ++ [op.1]) s.locked) h) s.hAw, ¬ U e.out := by
    intro e he
    rcases mem_noteSpendsAll he with h1 | ⟨t, ht, h1⟩
    · exact hI.unspent e h1
    · exact hsp t ht _ h1
  -- a request generated by this call (either commitment kind): dated `h`, from the unknown `C`
  have reqFacts : ∀ req ∈ (txs.filter (fun t => !known s.st t)).flatMap (confirmRequests K s.pre h),
      ∀ o i, (o, i) ∈ K.outs → req.1 = o →
        known s.st C = false ∧ C ∈ txs ∧ preKnown s.pre i.needs = true ∧ req.2 = some h := by
    intro req hreq o i hoi ho
    obtain ⟨t, ht, hr⟩ := List.mem_flatMap.1 hreq
    obtain ⟨ht1, ht2⟩ := List.mem_filter.1 ht
    obtain ⟨oi, hoi', hp, hk, rfl⟩ := mem_confirmRequests.1 hr
    have hoe : oi = (o, i) := by
      have : oi.1 = o := ho
      have h2 : (o, oi.2) ∈ K.outs := by rw [← this]; exact hoi'
      have := hK.functional o oi.2 i h2 hoi
      cases oi; simp_all
    subst hoe
    have htC : t = C := hp.symm.trans (hK.parents o i hoi)
    subst htC
    refine ⟨by simpa using ht2, ht1, hk, ?_⟩
    cases hh : i.holder with
    | true => simp [hh, holderConfirmStored_eq]
    | false => simp [hh, counterpartyConfirmOutpointHeight_eq]
  constructor
  · exact txsConfirmed_binv hI.base
  · -- dated
    intro o i c hoi hx
    rw [hst]
    have hx1 := (mem_handlerMature_claims.1 hx).1
    rcases mem_registerAll hx1 with h1 | ⟨req, hreq, hxe, _⟩
    · rcases hI.dated o i c hoi h1 with h2 | h2
      · exact awKeep c h2
      · exact Or.inr (matKeep h2)
    · have ho : req.1 = o := by cases hxe; rfl
      obtain ⟨hk, hC, _, h2⟩ := reqFacts req hreq o i hoi ho
      have hc : c = h := by
        have : c = claimCreationHeight req.2 h := by cases hxe; rfl
        rw [this, h2, claimCreationHeight_some]
      subst hc
      obtain ⟨ev, hev, hk2⟩ := hK.has_fsc
      have he := addTxs_adds (cat := cat) (h := c) hC hk hev
      cases hr : ({ txid := C, height := c, ev := ev } : Entry).reached (max s.st.best c) with
      | false => exact Or.inl ⟨_, mem_txsConfirmed_awaiting.2 ⟨he, hr⟩, rfl, hk2, rfl⟩
      | true => exact Or.inr ⟨_, mem_txsConfirmed_matured.2 (Or.inr ⟨he, hr⟩), rfl, hk2⟩
  · -- preK
    intro o i c hoi hx
    rw [hpre]
    have hx1 := (mem_handlerMature_claims.1 hx).1
    rcases mem_registerAll hx1 with h1 | ⟨req, hreq, hxe, _⟩
    · exact hI.preK o i c hoi h1
    · have ho : req.1 = o := by cases hxe; rfl
      exact (reqFacts req hreq o i hoi ho).2.2.1
  · -- kept
    intro o i c hoi hU hk haw hm
    rw [hst] at haw hm
    rw [hpre] at hk
    apply mem_handlerMature_claims.2
    refine ⟨?_, fun e he _ heq => hAwU e he (heq ▸ hU)⟩
    obtain ⟨e, he, ht, hk2, hhe⟩ := haw
    rcases mem_addTxs_awaiting (mem_txsConfirmed_awaiting.1 he).1 with h1 | ⟨h1, h2, h3, _⟩
    · exact registerAll_mono (hI.kept o i c hoi hU hk ⟨e, h1, ht, hk2, hhe⟩ (fun hm' => hm (matKeep hm')))
    · rw [ht] at h1 h2
      have hch : c = h := hhe.symm.trans h3
      subst hch
      have hreq0 : ∃ oc, ((o, oc) : Nat × Option Nat) ∈
          (txs.filter (fun t => !known s.st t)).flatMap (confirmRequests K s.pre c) := by
        refine ⟨if i.holder then holderStoredHeight (holderConfirmOutpointHeight c) else counterpartyConfirmOutpointHeight c,
          List.mem_flatMap.2 ⟨C, List.mem_filter.2 ⟨h2, by simp [h1]⟩, ?_⟩⟩
        apply mem_confirmRequests.2
        exact ⟨(o, i), hoi, hK.parents o i hoi, hk, rfl⟩
      obtain ⟨oc, hreq0⟩ := hreq0
      obtain ⟨c', hc'⟩ := hasClaim_iff.1 (registerAll_has (H := c) (cl := s.claims) hreq0)
      rcases mem_registerAll hc' with h4 | ⟨req, hreq, hxe, _⟩
      · rcases hI.dated o i c' hoi h4 with h5 | h5
        · rw [FscAw_known h5] at h1; cases h1
        · rw [FscMat_known h5] at h1; cases h1
      · have ho : req.1 = o := by cases hxe; rfl
        have h5 := (reqFacts req hreq o i hoi ho).2.2.2
        have : c' = c := by
          have : c' = claimCreationHeight req.2 c := by cases hxe; rfl
          rw [this, h5, claimCreationHeight_some]
        subst this
        exact hc'
  · -- unspent
    intro e he
    exact hAwU e (List.mem_filter.1 he).1

theorem cRewind_inv {cat : Catalog} {K : ClaimCat} {C : Nat} {U : Nat → Prop} {s : CSt} {h : Nat}
    (hI : CInv cat K C U s) : CInv cat K C U (cRewind K s h) := by
  have hst : (cRewind K s h).st = rewindTo s.st h := rfl
  have hcl : (cRewind K s h).claims = (handlerDisconnect h s.claims s.hAw).1 := rfl
  have awIff : ∀ c, FscAw C (rewindTo s.st h) c ↔ FscAw C s.st c ∧ c ≤ h := by
    intro c
    constructor
    · rintro ⟨e, he, ht, hk, hh⟩
      have := List.mem_filter.1 he
      exact ⟨⟨e, this.1, ht, hk, hh⟩, by have := this.2; simp at this; omega⟩
    · rintro ⟨⟨e, he, ht, hk, hh⟩, hle⟩
      exact ⟨e, List.mem_filter.2 ⟨he, by simp; omega⟩, ht, hk, hh⟩
  constructor
  · exact rewindTo_binv hI.base
  · intro o i c hoi hx
    rw [hst]
    rw [hcl] at hx
    obtain ⟨h1, h2⟩ := mem_handlerDisconnect_claims.1 hx
    rcases hI.dated o i c hoi h1 with h3 | h3
    · exact Or.inl ((awIff c).2 ⟨h3, h2⟩)
    · exact Or.inr h3
  · intro o i c hoi hx
    rw [hcl] at hx
    exact hI.preK o i c hoi (mem_handlerDisconnect_claims.1 hx).1
  · intro o i c hoi hU hk haw hm
    rw [hst] at haw
    rw [hcl]
    obtain ⟨h1, h2⟩ := (awIff c).1 haw
    exact mem_handlerDisconnect_claims.2 ⟨hI.kept o i c hoi hU hk h1 hm, h2⟩
  · intro e he
    exact hI.unspent e (List.mem_filter.1 he).1

theorem cBestBlock_inv {cat : Catalog} {K : ClaimCat} {C : Nat} {U : Nat → Prop} {s : CSt} {h : Nat}
    (hI : CInv cat K C U s) : CInv cat K C U (cBestBlock K s h) := by
  unfold cBestBlock
  split
  · rename_i hh
    have mm := fun e => mem_bestBlock_up (s := s.st) (h := h) hh (e := e)
    constructor
    · exact bestBlock_binv hI.base
    · intro o i c hoi hx
      have hx1 := (mem_handlerMature_claims.1 hx).1
      rcases hI.dated o i c hoi hx1 with ⟨e, he, ht, hk, hhe⟩ | ⟨e, he, ht, hk⟩
      · cases hr : e.reached h with
        | false => exact Or.inl ⟨e, (mm e).1.2 ⟨he, hr⟩, ht, hk, hhe⟩
        | true => exact Or.inr ⟨e, (mm e).2.2 (Or.inr ⟨he, hr⟩), ht, hk⟩
      · exact Or.inr ⟨e, (mm e).2.2 (Or.inl he), ht, hk⟩
    · intro o i c hoi hx
      exact hI.preK o i c hoi (mem_handlerMature_claims.1 hx).1
    · intro o i c hoi hU hk haw hm
      obtain ⟨e, he, ht, hk2, hhe⟩ := haw
      have h1 : FscAw C s.st c := ⟨e, ((mm e).1.1 he).1, ht, hk2, hhe⟩
      have h2 : ¬ FscMat C s.st := by
        rintro ⟨e', he', ht', hk'⟩
        exact hm ⟨e', (mm e').2.2 (Or.inl he'), ht', hk'⟩
      apply mem_handlerMature_claims.2
      exact ⟨hI.kept o i c hoi hU hk h1 h2, fun e' he' _ heq => hI.unspent e' he' (heq ▸ hU)⟩
    · intro e he
      exact hI.unspent e (List.mem_filter.1 he).1
  · exact cRewind_inv hI

theorem cBlocksDisconnected_inv {cat : Catalog} {K : ClaimCat} {C : Nat} {U : Nat → Prop} {s : CSt} {h : Nat}
    (hI : CInv cat K C U s) : CInv cat K C U (cBlocksDisconnected K s h) := by
  unfold cBlocksDisconnected
  split
  · exact cRewind_inv hI
  · exact hI

theorem cPreimage_inv {cat : Catalog} {K : ClaimCat} {C : Nat} {U : Nat → Prop} (hK : OneCommitment cat K C)
    {s : CSt} {p : Nat} (hI : CInv cat K C U s) : CInv cat K C U (cPreimage K s p) := by
  have hst : (cPreimage K s p).st = s.st := rfl
  have hpre : (cPreimage K s p).pre = addPre s.pre p := rfl
  have hcl : (cPreimage K s p).claims =
      registerAll (preimageRegisterHeight K s.st) s.claims (preimageRequests K s.st (addPre s.pre p) p) := rfl
  have preMono : ∀ q, q ∈ s.pre → q ∈ addPre s.pre p := fun q hq => (mem_addPre _ _ _).2 (Or.inl hq)
  -- what a request of this call for output (o, i) looks like (either commitment kind): the commitment
  -- is irrevocable, or the request carries the height of its awaiting FundingSpendConfirmation
  have reqFacts : ∀ req ∈ preimageRequests K s.st (addPre s.pre p) p, ∀ o i, (o, i) ∈ K.outs → req.1 = o →
      preKnown (addPre s.pre p) i.needs = true ∧
      (FscMat C s.st ∨ (∃ c, req.2 = some c ∧ FscAw C s.st c)) := by
    intro req hreq o i hoi ho
    obtain ⟨txid, final, awH, sh, hf, hs, oi, hoi', _, hcase⟩ := mem_preimageRequests hreq
    have hoe : oi = (o, i) := by
      have h1 : oi.1 = o := by
        rcases hcase with ⟨_, _, h3⟩ | ⟨_, _, h3⟩ <;> (rw [h3] at ho; exact ho)
      have h2 : (o, oi.2) ∈ K.outs := by rw [← h1]; exact hoi'
      have := hK.functional o oi.2 i h2 hoi
      cases oi; simp_all
    subst hoe
    -- what the spend height is
    have hsh : (FscMat C s.st) ∨ (∃ c, sh = some c ∧ FscAw C s.st c) := by
      rcases fundingSpend_cases hK hI.base hf with ⟨_, hm⟩ | ⟨c, hx, haw⟩
      · exact Or.inl hm
      · right
        have : final = false ∧ awH = some c := by
          have := congrArg Prod.snd hx; simp at this; exact this
        rw [this.1, this.2, preimageSpendHeight_awaiting] at hs
        exact ⟨c, (Option.some.inj hs).symm, haw⟩
    rcases hcase with ⟨_, hk, hr⟩ | ⟨_, hn, hr⟩
    · refine ⟨hk, ?_⟩
      rcases hsh with hm | ⟨c, hc, haw⟩
      · exact Or.inl hm
      · exact Or.inr ⟨c, by rw [hr, hc]; exact holderPreimageStored_awaiting c s.st.best, haw⟩
    · refine ⟨?_, ?_⟩
      · show preKnown (addPre s.pre p) i.needs = true
        have hn' : i.needs = some p := hn
        rw [hn']
        simp only [preKnown, List.contains_iff_mem]
        exact (mem_addPre _ _ _).2 (Or.inr rfl)
      · rcases hsh with hm | ⟨c, hc, haw⟩
        · exact Or.inl hm
        · exact Or.inr ⟨c, by rw [hr, hc], haw⟩
  constructor
  · exact hI.base
  · intro o i c hoi hx
    rw [hst]
    rw [hcl] at hx
    rcases mem_registerAll hx with h1 | ⟨req, hreq, hxe, _⟩
    · exact hI.dated o i c hoi h1
    · have ho : req.1 = o := by cases hxe; rfl
      have hc : c = claimCreationHeight req.2 (preimageRegisterHeight K s.st) := by cases hxe; rfl
      rcases (reqFacts req hreq o i hoi ho).2 with hm | ⟨c0, h2, haw⟩
      · exact Or.inr hm
      · rw [h2, claimCreationHeight_some] at hc
        rw [hc]; exact Or.inl haw
  · intro o i c hoi hx
    rw [hpre]
    rw [hcl] at hx
    rcases mem_registerAll hx with h1 | ⟨req, hreq, hxe, _⟩
    · exact preKnown_mono preMono (hI.preK o i c hoi h1)
    · have ho : req.1 = o := by cases hxe; rfl
      exact (reqFacts req hreq o i hoi ho).1
  · intro o i c hoi hU hk haw hm
    rw [hst] at haw hm
    rw [hpre] at hk
    rw [hcl]
    by_cases hold : preKnown s.pre i.needs = true
    · exact registerAll_mono (hI.kept o i c hoi hU hold haw hm)
    · -- the preimage just provided is the one this output needs
      have hn : i.needs = some p := by
        cases hneeds : i.needs with
        | none => rw [hneeds] at hold; simp [preKnown] at hold
        | some q =>
          rw [hneeds] at hold hk
          simp only [preKnown, List.contains_iff_mem] at hold hk
          rcases (mem_addPre _ _ _).1 hk with h1 | h1
          · exact absurd h1 hold
          · rw [h1]
      have hf := fundingSpend_awaiting hK hI.base haw hm
      have hs := preimageSpendHeight_awaiting c s.st.best
      have hreq0 : ∃ oc, ((o, oc) : Nat × Option Nat) ∈ preimageRequests K s.st (addPre s.pre p) p := by
        cases hh : i.holder with
        | false => exact ⟨_, preimageRequests_has (K := K) (pre' := addPre s.pre p) (p := p) hf hs hoi (hK.parents o i hoi) hh hn⟩
        | true => exact ⟨_, preimageRequests_has_holder (K := K) (pre' := addPre s.pre p) (p := p) hf hs hoi (hK.parents o i hoi) hh hk⟩
      obtain ⟨oc, hreq0⟩ := hreq0
      obtain ⟨c', hc'⟩ := hasClaim_iff.1 (registerAll_has (H := preimageRegisterHeight K s.st) (cl := s.claims) hreq0)
      have hcc : c' = c := by
        rcases mem_registerAll hc' with h4 | ⟨req, hreq, hxe, _⟩
        · rcases hI.dated o i c' hoi h4 with h5 | h5
          · exact FscAw_unique hI.base h5 haw
          · exact absurd h5 hm
        · have ho : req.1 = o := by cases hxe; rfl
          have hc : c' = claimCreationHeight req.2 (preimageRegisterHeight K s.st) := by cases hxe; rfl
          rcases (reqFacts req hreq o i hoi ho).2 with hm' | ⟨c0, h2, haw0⟩
          · exact absurd hm' hm
          · rw [h2, claimCreationHeight_some] at hc
            rw [hc]; exact FscAw_unique hI.base haw0 haw
      rw [← hcc]; exact hc'
  · exact hI.unspent

/-- no delivered transaction spends an output of `U` -/
def NoSpend (K : ClaimCat) (U : Nat → Prop) (ops : List COp) : Prop :=
  ∀ t ∈ delivered (chainOps ops), ∀ o ∈ K.spends t, ¬ U o

theorem cstep_inv {cat : Catalog} {K : ClaimCat} {C : Nat} {U : Nat → Prop} (hK : OneCommitment cat K C)
    {s : CSt} {op : COp} (hnu : NoUnconf [op]) (hsp : NoSpend K U [op]) (hI : CInv cat K C U s) :
    CInv cat K C U (cstep cat K s op) := by
  cases op with
  | preimage p => exact cPreimage_inv hK hI
  | chain o =>
    cases o with
    | blockConnected h txs =>
      exact cTxsConfirmed_inv hK (fun t ht => hsp t (by simp [chainOps, delivered, ht])) hI
    | txsConfirmed h txs =>
      exact cTxsConfirmed_inv hK (fun t ht => hsp t (by simp [chainOps, delivered, ht])) hI
    | bestBlock h => exact cBestBlock_inv hI
    | blocksDisconnected h => exact cBlocksDisconnected_inv hI
    | txUnconfirmed t => exact absurd hnu (by simp [NoUnconf])

theorem NoUnconf_cons {op : COp} {r : List COp} (h : NoUnconf (op :: r)) : NoUnconf [op] ∧ NoUnconf r := by
  cases op with
  | preimage p => exact ⟨trivial, h⟩
  | chain o => cases o <;> first | exact ⟨trivial, h⟩ | exact absurd h (by simp [NoUnconf])

theorem NoUnconf_append {a b : List COp} : NoUnconf (a ++ b) ↔ NoUnconf a ∧ NoUnconf b := by
  induction a with
  | nil => simp [NoUnconf]
  | cons op r ih =>
    cases op with
    | preimage p => simpa [NoUnconf] using ih
    | chain o => cases o <;> simp [NoUnconf, ih]

theorem chainOps_append (a b : List COp) : chainOps (a ++ b) = chainOps a ++ chainOps b := by
  induction a with
  | nil => rfl
  | cons op r ih => cases op <;> simp [chainOps, ih]

theorem preimagesOf_append (a b : List COp) : preimagesOf (a ++ b) = preimagesOf a ++ preimagesOf b := by
  induction a with
  | nil => rfl
  | cons op r ih => cases op <;> simp [preimagesOf, ih]

theorem NoSpend_cons {K : ClaimCat} {U : Nat → Prop} {op : COp} {r : List COp} (h : NoSpend K U (op :: r)) :
    NoSpend K U [op] ∧ NoSpend K U r := by
  have e : op :: r = [op] ++ r := rfl
  unfold NoSpend at *
  rw [e, chainOps_append, delivered_append] at h
  exact ⟨fun t ht => h t (List.mem_append.2 (Or.inl ht)), fun t ht => h t (List.mem_append.2 (Or.inr ht))⟩

theorem NoSpend_append {K : ClaimCat} {U : Nat → Prop} {a b : List COp} :
    NoSpend K U (a ++ b) ↔ NoSpend K U a ∧ NoSpend K U b := by
  unfold NoSpend
  rw [chainOps_append, delivered_append]
  constructor
  · intro h
    exact ⟨fun t ht => h t (List.mem_append.2 (Or.inl ht)), fun t ht => h t (List.mem_append.2 (Or.inr ht))⟩
  · rintro ⟨h1, h2⟩ t ht
    rcases List.mem_append.1 ht with h3 | h3
    · exact h1 t h3
    · exact h2 t h3

/-- the invariant holds along every history without `transaction_unconfirmed` that never spends an
    output of `U` -/
theorem crun_inv {cat : Catalog} {K : ClaimCat} {C : Nat} {U : Nat → Prop} (hK : OneCommitment cat K C)
    {ops : List COp} {s : CSt} (hnu : NoUnconf ops) (hsp : NoSpend K U ops) (hI : CInv cat K C U s) :
    CInv cat K C U (crun cat K s ops) := by
  induction ops generalizing s with
  | nil => exact hI
  | cons op r ih =>
    rw [crun_cons]
    obtain ⟨h1, h2⟩ := NoUnconf_cons hnu
    obtain ⟨h3, h4⟩ := NoSpend_cons hsp
    exact ih h2 h4 (cstep_inv hK h1 h3 hI)

end Ldk.ChainView
