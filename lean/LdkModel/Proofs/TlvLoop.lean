import LdkModel.Generated.TlvLoop
import LdkModel.Proofs.Codec
/-!
  Proofs/TlvLoop — the hand-written TLV stream reader `Codec.tlvLoop` of Model/Codec.lean is equal, for ALL schemas, fuels,
  states and byte strings, to `TlvSrc.tlvLoopSrc`, the loop tools/gen_tlv_loop.py builds on every run from the decisions
  `_decode_tlv_stream_range!`, `_check_decoded_tlv_order!`, `_check_missing_tlv!`, `_decode_tlv_stream_match_check!` and
  `FixedLengthReader` state TODAY.  Every theorem of Props/C13 about TLV streams (unknown even / odd, ordering, duplicates,
  missing required, trailing bytes inside a record, truncation) is therefore a theorem about those comparisons; a changed
  comparison (`<=` -> `<`, `% 2 == 0` -> `!= 0`, `!=` -> `<`, a dropped conjunct) makes one of these proofs fail.  (C13)
-/
namespace Ldk.TlvSrc
open Ldk.Codec Ldk

theorem orderBad_eq (last : Option Nat) (typ : Nat) :
    orderBadO last typ = !(lastLt last typ) := by
  cases last with
  | none => simp [orderBadO, lastLt]
  | some t =>
    unfold orderBadO orderBad lastLt
    by_cases h : typ ≤ t
    · have : ¬ t < typ := by omega
      simp [h, this]
    · have : t < typ := by omega
      simp [h, this]

theorem invalidOrder_eq (last : Option Nat) (typ ty : Nat) :
    invalidOrder last.isNone (last.getD 0) typ ty = (lastLt last ty && decide (ty < typ)) := by
  cases last with
  | none => simp [invalidOrder, lastLt]
  | some t => simp [invalidOrder, lastLt]

theorem missingReq_eq (last : Option Nat) (ty : Nat) :
    missingReq last.isNone (last.getD 0) ty = lastLt last ty := by
  cases last with
  | none => simp [missingReq, lastLt]
  | some t => simp [missingReq, lastLt]

theorem reqSkipped_eq (tlvs : List TlvField) (last : Option Nat) (typ : Nat) :
    tlvs.any (fun f => f.kind == .required && invalidOrder last.isNone (last.getD 0) typ f.typ) = reqSkipped tlvs last typ := by
  unfold reqSkipped
  congr 1; funext f
  rw [invalidOrder_eq, Bool.and_assoc]

theorem reqMissing_eq (tlvs : List TlvField) (last : Option Nat) :
    tlvs.any (fun f => f.kind == .required && missingReq last.isNone (last.getD 0) f.typ) = reqMissing tlvs last := by
  unfold reqMissing
  congr 1; funext f
  rw [missingReq_eq]

theorem find_eq (tlvs : List TlvField) (typ : Nat) :
    tlvs.find? (fun f => matchCheck typ f.typ) = tlvs.find? (fun f => f.typ == typ) := by
  congr 1; funext f
  unfold matchCheck
  by_cases h : typ = f.typ
  · simp [h]
  · have : ¬ f.typ = typ := fun e => h e.symm
    simp [h, this]

theorem unknownEven_eq (t : Nat) : unknownEven t = (t % 2 == 0) := by
  by_cases h : t % 2 = 0 <;> simp [unknownEven, h]

theorem flrHandOut_eq (total avail : Nat) : flrHandOut total avail = min total avail := by
  unfold flrHandOut flrReadDone flrReadLen
  by_cases h : total = 0
  · simp [h]
  · simp [h]; omega

theorem flrKnownOutcome_eq (avail len remLen : Nat) (h : remLen ≤ min len avail) :
    flrKnownOutcome avail len remLen =
      if remLen = 0 ∧ len ≤ avail then none else if avail < len then some .ShortRead else some .InvalidValue := by
  unfold flrKnownOutcome flrBytesRemain flrEatShort
  rw [flrHandOut_eq]
  simp only [decide_eq_true_eq]
  by_cases h1 : remLen = 0 ∧ len ≤ avail
  · have : ¬ (min len avail - remLen ≠ len) := by omega
    rw [if_neg this, if_pos h1]
  · rw [if_neg h1]
    have hne : min len avail - remLen ≠ len := by omega
    rw [if_pos hne]
    by_cases h2 : avail < len
    · have : min len avail ≠ len := by omega
      rw [if_pos this, if_pos h2]
    · have : ¬ (min len avail ≠ len) := by omega
      rw [if_neg this, if_neg h2]

theorem flrSkipOutcome_eq (avail len : Nat) :
    flrSkipOutcome avail len = if avail < len then some .ShortRead else none := by
  unfold flrSkipOutcome flrEatShort
  rw [flrHandOut_eq]
  simp only [decide_eq_true_eq]
  by_cases h2 : avail < len
  · have : min len avail ≠ len := by omega
    rw [if_pos this, if_pos h2]
  · have : ¬ (min len avail ≠ len) := by omega
    rw [if_neg this, if_neg h2]

/-! ## ReadTrackingReader -/

theorem rtrAfterRead_true (lens : List Nat) : lens.foldl rtrAfterRead true = true := by
  induction lens with
  | nil => rfl
  | cons x xs ih => simp only [List.foldl_cons, rtrAfterRead]; split <;> exact ih

/-- `have_read` after any sequence of reads: some read handed out at least one byte -/
theorem rtrHaveRead_eq (lens : List Nat) : rtrHaveRead lens = lens.any (fun l => l != 0) := by
  unfold rtrHaveRead rtrInit
  induction lens with
  | nil => rfl
  | cons x xs ih =>
    simp only [List.foldl_cons, List.any_cons, rtrAfterRead]
    by_cases hx : x = 0
    · simp [hx]; exact ih
    · have h1 : (x == 0) = false := by simp [hx]
      have h2 : (x != 0) = true := by simp [hx]
      rw [h1, h2]; simp only [Bool.false_eq_true, if_false, Bool.true_or]; exact rtrAfterRead_true xs

theorem typeEofBreak_eq (b : Bytes) : typeEofBreak (rtrHaveRead (bigFirstRead b)) = b.isEmpty := by
  rw [rtrHaveRead_eq]
  cases b with
  | nil => rfl
  | cons x xs =>
    simp [typeEofBreak, bigFirstRead]

/-- the translated loop IS the model's loop -/
theorem tlvLoopSrc_eq (tlvs : List TlvField) : ∀ (fuel : Nat) (last : Option Nat) (acc : List (Nat × Val)) (b : Bytes),
    tlvLoopSrc tlvs fuel last acc b = tlvLoop tlvs fuel last acc b := by
  intro fuel
  induction fuel with
  | zero => intro last acc b; rfl
  | succ fuel ih =>
    intro last acc b
    unfold tlvLoopSrc tlvLoop
    rw [reqMissing_eq, typeEofBreak_eq]
    by_cases hb : b.isEmpty = true
    · rw [if_pos hb]
      have : b = [] := List.isEmpty_iff.mp hb
      subst this
      simp [BigSize.decode]
    · have hb' : b.isEmpty = false := by simpa using hb
      simp only [hb', Bool.false_eq_true, ↓reduceIte]
      cases hT : BigSize.decode b with
      | error e =>
        simp only []
        by_cases he : e = .ShortRead
        · rw [if_pos he, he]
        · rw [if_neg he]
      | ok p =>
        obtain ⟨typ, b1⟩ := p
        simp only []
        rw [orderBad_eq, reqSkipped_eq]
        by_cases ho : (!lastLt last typ) = true
        · rw [if_pos ho, if_pos ho]
        · rw [if_neg ho, if_neg ho]
          by_cases hs : reqSkipped tlvs last typ = true
          · rw [if_pos hs, if_pos hs]
          · rw [if_neg hs, if_neg hs]
            cases hL : BigSize.decode b1 with
            | error e => rfl
            | ok q =>
              obtain ⟨len, b2⟩ := q
              simp only []
              rw [find_eq]
              cases hF : tlvs.find? (fun f => f.typ == typ) with
              | none =>
                simp only []
                rw [unknownEven_eq, flrSkipOutcome_eq]
                by_cases he : (typ % 2 == 0) = true
                · rw [if_pos he, if_pos he]
                · rw [if_neg he, if_neg he]
                  by_cases h2 : b2.length < len
                  · rw [if_pos h2, if_pos h2]
                  · rw [if_neg h2, if_neg h2]; exact ih _ _ _
              | some f =>
                simp only []
                cases hD : f.ty.decode (b2.take len) with
                | error e => rfl
                | ok r =>
                  obtain ⟨v, rem⟩ := r
                  simp only []
                  have hrem : rem.length ≤ min len b2.length := by
                    obtain ⟨pre, hp⟩ := field_decode_suffix f.ty _ _ _ hD
                    have := congrArg List.length hp
                    rw [List.length_take, List.length_append] at this
                    omega
                  rw [flrKnownOutcome_eq _ _ _ hrem]
                  by_cases h1 : rem.length = 0 ∧ len ≤ b2.length
                  · have h1' : (rem.isEmpty && decide (len ≤ b2.length)) = true := by
                      have : rem = [] := List.eq_nil_of_length_eq_zero h1.1
                      simp [this, h1.2]
                    rw [if_pos h1, if_pos h1']; exact ih _ _ _
                  · have h1' : ¬ (rem.isEmpty && decide (len ≤ b2.length)) = true := by
                      intro hc
                      rw [Bool.and_eq_true, decide_eq_true_eq, List.isEmpty_iff] at hc
                      exact h1 ⟨by rw [hc.1]; rfl, hc.2⟩
                    rw [if_neg h1, if_neg h1']
                    by_cases h2 : b2.length < len
                    · rw [if_pos h2, if_pos h2]
                    · rw [if_neg h2, if_neg h2]

/-! ## `WithoutLength<Vec<T>>`: read-to-end vectors of fixed-size elements -/

/-- the first `k` chunks of `n` bytes -/
def chunkList (n : Nat) : Nat → Bytes → List Bytes
  | 0, _ => []
  | k + 1, b => b.take n :: chunkList n k (b.drop n)

theorem bytesVec_chunkList (n : Nat) : ∀ (k : Nat) (b : Bytes), bytesVec (chunkList n k b) = chunkVals n k b
  | 0, _ => rfl
  | k + 1, b => by simp [chunkList, bytesVec, chunkVals, bytesVec_chunkList n k]

/-- the translated loop of `WithoutLength<Vec<T>>::read_from_fixed_length_buffer` over `n`-byte elements: accepted iff the reader
    holds a whole number of elements (the break guard fires exactly at an element boundary), else the element's ShortRead -/
theorem wlVecLoopSrc_eq (n : Nat) (hn : 0 < n) : ∀ (fuel : Nat) (acc : List Bytes) (b : Bytes), b.length < fuel →
    wlVecLoopSrc n fuel acc b = if b.length % n = 0 then .ok (acc ++ chunkList n (b.length / n) b) else .error .ShortRead := by
  intro fuel
  induction fuel with
  | zero => intro acc b h; omega
  | succ fuel ih =>
    intro acc b h
    unfold wlVecLoopSrc
    by_cases hle : n ≤ b.length
    · rw [if_pos hle, ih _ _ (by rw [List.length_drop]; omega), List.length_drop]
      obtain ⟨m, hm⟩ : ∃ m, b.length = m + n := ⟨b.length - n, by omega⟩
      have h1 : b.length - n = m := by omega
      rw [h1, hm, Nat.add_mod_right, Nat.add_div_right m hn]
      by_cases hz : m % n = 0
      · rw [if_pos hz, if_pos hz]; simp [chunkList]
      · rw [if_neg hz, if_neg hz]
    · rw [if_neg hle, rtrHaveRead_eq]
      have hlt : b.length < n := by omega
      have hmin : min n b.length = b.length := by omega
      rw [hmin, Nat.mod_eq_of_lt hlt, Nat.div_eq_of_lt hlt]
      by_cases hz : b.length = 0
      · rw [if_pos hz]; simp [wlVecBreak, hz, chunkList]
      · rw [if_neg hz]; simp [wlVecBreak, hz]

/-! ## the writer -/

theorem writeItems_tlv (t : Nat) (v : Bytes) :
    writeItems [.typ, .len, .val] t v = BigSize.encode t ++ (BigSize.encode v.length ++ v) := by
  simp [writeItems, List.flatMap_cons]

/-- the translated `encode_tlv_stream!` IS the model's `encodeTlvs` -/
theorem encodeTlvStreamSrc_eq : ∀ (tlvs : List TlvField) (vals : List (Option Val)),
    encodeTlvStreamSrc tlvs vals = encodeTlvs tlvs vals
  | [], _ => by simp [encodeTlvStreamSrc, encodeTlvs]
  | _ :: _, [] => by simp [encodeTlvStreamSrc, encodeTlvs]
  | f :: fs, some v :: vs => by
    have ih := encodeTlvStreamSrc_eq fs vs
    have hi : (if f.kind == .required then reqItems else optSomeItems) = [.typ, .len, .val] := by
      unfold reqItems optSomeItems; split <;> rfl
    simp only [encodeTlvStreamSrc, encodeTlvs, hi, writeItems_tlv, ih, List.append_assoc]
  | f :: fs, none :: vs => by
    have ih := encodeTlvStreamSrc_eq fs vs
    simp [encodeTlvStreamSrc, encodeTlvs, optNoneItems, writeItems, ih]

theorem encOrderCheck_eq : ∀ (last : Option Nat) (tys : List Nat),
    encOrderCheck last tys = strictInc (match last with | some t => t :: tys | none => tys)
  | _, [] => by cases ‹Option Nat› <;> simp [encOrderCheck, strictInc]
  | none, ty :: rest => by
    have ih := encOrderCheck_eq (some ty) rest
    simpa [encOrderCheck] using ih
  | some t, ty :: rest => by
    have ih := encOrderCheck_eq (some ty) rest
    simp only [encOrderCheck, strictInc, encOrderOk]
    simp only [] at ih
    rw [ih]

end Ldk.TlvSrc
