/- Helper lemmas for Props/C15.lean: one-step unfoldings of `recvData`, the append (reassembly)
   lemma, and the "one good frame" / "one bad box" steps. -/
import LdkModel.Model.Framing
namespace Ldk.Framing
open Ldk.Noise

variable (c : Crypto)

/-- sequencing of receive results: run `f` on the receiver unless the connection was dropped -/
def andThen (x : RecvResult) (f : Receiver → RecvResult) : RecvResult :=
  match x with
  | (out, none) => (out, none)
  | (out, some r) => (out ++ (f r).1, (f r).2)

@[simp] theorem andThen_none (out : List Bytes) (f : Receiver → RecvResult) :
    andThen (out, none) f = (out, none) := rfl
@[simp] theorem andThen_some (out : List Bytes) (r : Receiver) (f : Receiver → RecvResult) :
    andThen (out, some r) f = (out ++ (f r).1, (f r).2) := rfl

theorem andThen_consOut (o : Option Bytes) (x : RecvResult) (f : Receiver → RecvResult) :
    andThen (consOut o x) f = consOut o (andThen x f) := by
  obtain ⟨out, r⟩ := x
  cases o <;> cases r <;> simp [consOut, andThen]

theorem andThen_assoc (x : RecvResult) (f g : Receiver → RecvResult) :
    andThen (andThen x f) g = andThen x (fun r => andThen (f r) g) := by
  obtain ⟨out, r⟩ := x
  cases r with
  | none => simp
  | some r =>
    simp only [andThen_some]
    rcases h : f r with ⟨o2, r2⟩
    cases r2 <;> simp [andThen, List.append_assoc]

theorem andThen_pure (x : RecvResult) : andThen x (fun r => ([], some r)) = x := by
  obtain ⟨out, r⟩ := x
  cases r <;> simp [andThen]

theorem recvChunks_cons (r : Receiver) (ch : Bytes) (rest : List Bytes) :
    recvChunks c r (ch :: rest) = andThen (recvData c r ch) (fun r1 => recvChunks c r1 rest) := by
  rw [recvChunks]
  rcases h : recvData c r ch with ⟨out, r1⟩
  cases r1 <;> simp [andThen]

/-! ### one-step unfoldings of `recvData` -/

theorem recvData_nil (r : Receiver) : recvData c r [] = ([], some r) := by
  rw [recvData]; simp

theorem recvData_bad (r : Receiver) (data : Bytes) (hd : data ≠ []) (hn : r.need ≤ r.buf.length) :
    recvData c r data = ([], none) := by
  rw [recvData]; simp [hd, hn]

/-- fewer bytes than the pending item still needs: they are buffered -/
theorem recvData_short (r : Receiver) (data : Bytes) (hd : data ≠ [])
    (h : r.buf.length + data.length < r.need) :
    recvData c r data = ([], some { r with buf := r.buf ++ data }) := by
  rw [recvData]
  have hn : ¬ r.need ≤ r.buf.length := by omega
  have hk : min (r.need - r.buf.length) data.length = data.length := by omega
  simp only [hd, hn, hk, dite_false, List.take_length]
  have : ¬ (r.buf ++ data).length = r.need := by simp only [List.length_append]; omega
  rw [if_neg this]

/-- enough bytes to complete the pending item: it is processed, the rest is fed on -/
theorem recvData_fill (r : Receiver) (data : Bytes) (hpos : r.buf.length < r.need)
    (h : r.need - r.buf.length ≤ data.length) :
    recvData c r data =
      match complete c { r with buf := [] } (r.buf ++ data.take (r.need - r.buf.length)) with
      | .disconnect => ([], none)
      | .cont r1 o => consOut o (recvData c r1 (data.drop (r.need - r.buf.length))) := by
  rw [recvData]
  have hd : data ≠ [] := by
    intro h0; subst h0; simp at h; omega
  have hn : ¬ r.need ≤ r.buf.length := by omega
  have hk : min (r.need - r.buf.length) data.length = r.need - r.buf.length := by omega
  simp only [hd, hn, hk, dite_false]
  have : (r.buf ++ List.take (r.need - r.buf.length) data).length = r.need := by
    simp only [List.length_append, List.length_take]; omega
  rw [if_pos this]
  rfl

/-- **Reassembly, binary form**: feeding `a ++ b` in one read equals feeding `a` and then `b`. -/
theorem recvData_append : ∀ (n : Nat) (r : Receiver) (a b : Bytes), a.length = n →
    recvData c r (a ++ b) = andThen (recvData c r a) (fun r1 => recvData c r1 b) := by
  intro n
  induction n using Nat.strongRecOn with
  | ind n ih =>
    intro r a b hlen
    by_cases ha : a = []
    · subst ha; simp [recvData_nil]
    by_cases hb : b = []
    · subst hb; simp only [List.append_nil, recvData_nil]
      rcases h : recvData c r a with ⟨out, r1⟩
      cases r1 <;> simp [andThen]
    have hapos : 0 < a.length := List.length_pos_iff.mpr ha
    have hbpos : 0 < b.length := List.length_pos_iff.mpr hb
    have hab : a ++ b ≠ [] := by simp [ha]
    by_cases hn : r.need ≤ r.buf.length
    · rw [recvData_bad c r _ hab hn, recvData_bad c r _ ha hn]; rfl
    have hpos : r.buf.length < r.need := by omega
    by_cases hfill : r.need - r.buf.length ≤ a.length
    · -- `a` alone completes the pending item
      rw [recvData_fill c r (a ++ b) hpos (by simp only [List.length_append]; omega),
          recvData_fill c r a hpos hfill]
      rw [List.take_append_of_le_length hfill, List.drop_append_of_le_length hfill]
      cases hc : complete c { r with buf := [] } (r.buf ++ List.take (r.need - r.buf.length) a) with
      | disconnect => rfl
      | cont r1 o =>
        simp only [andThen_consOut]
        rw [ih (a.drop (r.need - r.buf.length)).length (by simp only [List.length_drop]; omega)
              r1 _ b rfl]
    · -- `a` is buffered entirely; `b` continues the same item
      have hshort : r.buf.length + a.length < r.need := by omega
      rw [recvData_short c r a ha hshort]
      simp only [andThen_some, List.nil_append]
      by_cases hfill2 : r.need - r.buf.length ≤ a.length + b.length
      · rw [recvData_fill c r (a ++ b) hpos (by simp only [List.length_append]; omega)]
        rw [recvData_fill c { r with buf := r.buf ++ a } b
              (by simp only [List.length_append]; omega)
              (by simp only [List.length_append]; omega)]
        have e1 : List.take (r.need - r.buf.length) (a ++ b)
            = a ++ List.take (r.need - (r.buf ++ a).length) b := by
          rw [List.take_append, List.take_of_length_le (by omega)]
          simp only [List.length_append]
          congr 2; omega
        have e2 : List.drop (r.need - r.buf.length) (a ++ b)
            = List.drop (r.need - (r.buf ++ a).length) b := by
          rw [List.drop_append, List.drop_of_length_le (by omega)]
          simp only [List.length_append, List.nil_append]
          congr 1; omega
        simp only [e1, e2, List.append_assoc]
      · rw [recvData_short c r (a ++ b) hab (by simp only [List.length_append]; omega)]
        rw [recvData_short c { r with buf := r.buf ++ a } b hb
              (by simp only [List.length_append]; omega)]
        simp [List.append_assoc]

/-- **Reassembly**: any partition of a byte string into reads gives the result of one read. -/
theorem recvChunks_flatten : ∀ (chunks : List Bytes) (r : Receiver),
    recvChunks c r chunks = recvData c r chunks.flatten := by
  intro chunks
  induction chunks with
  | nil => intro r; simp [recvChunks, recvData_nil]
  | cons ch rest ih =>
    intro r
    rw [recvChunks_cons, List.flatten_cons, recvData_append c ch.length r ch _ rfl]
    congr 1
    funext r1
    exact ih r1

/-! ### hypotheses on the abstract AEAD (never axioms: fields of a structure the theorems take) -/

/-- AEAD correctness and ciphertext expansion: what ChaCha20-Poly1305 provides functionally -/
structure AeadOK (c : Crypto) : Prop where
  open_seal : ∀ k n ad m, c.aeadOpen k n ad (c.aeadSeal k n ad m) = some m
  seal_len : ∀ k n ad m, (c.aeadSeal k n ad m).length = m.length + 16

/-- AEAD authenticity in its checkable form: whatever `open` accepts is the `seal` of what it
    returns ("accepts ⇒ the MAC equation holds") -/
def Authentic (c : Crypto) : Prop :=
  ∀ k n ad box m, c.aeadOpen k n ad box = some m → box = c.aeadSeal k n ad m

/-- `box` is a genuine AEAD box under (k, n) with empty associated data — producing one without
    the key is a forgery -/
def ValidBox (c : Crypto) (k : Bytes) (n : Nat) (box : Bytes) : Prop :=
  ∃ m, box = c.aeadSeal k n [] m

theorem open_none_of_not_valid {c : Crypto} (ha : Authentic c) {k : Bytes} {n : Nat} {box : Bytes}
    (h : ¬ ValidBox c k n box) : c.aeadOpen k n [] box = none := by
  cases ho : c.aeadOpen k n [] box with
  | none => rfl
  | some m => exact absurd ⟨m, ha _ _ _ _ _ ho⟩ h

/-- the receiver that mirrors a sender: same key, counter and chaining key, waiting for a header -/
def Receiver.mirrorOf (s : Sender) : Receiver :=
  { rk := s.sk, rn := s.sn, rck := s.sck, buf := [], need := 18, isHeader := true }

theorem unbe16_be16 (n : Nat) (h : n < 65536) : unbe16 (be16 n) = n := by
  simp [be16, unbe16]
  omega

theorem be16_length (n : Nat) : (be16 n).length = 2 := rfl

theorem rotate_mirror (s : Sender) :
    (Receiver.mirrorOf s).rotate c = Receiver.mirrorOf (s.rotate c) := by
  unfold Receiver.rotate Sender.rotate Receiver.mirrorOf
  by_cases h : s.sn ≥ ROTATE_AT <;> simp [h]

/-- the sender state before the two boxes of a frame are sealed -/
def Sender.pre (s : Sender) : Sender := s.rotate c

theorem frame_fst (s : Sender) (m : Bytes) :
    (frame c s m).1 = c.aeadSeal (s.rotate c).sk (s.rotate c).sn [] (be16 m.length)
        ++ c.aeadSeal (s.rotate c).sk ((s.rotate c).sn + 1) [] m := rfl
theorem frame_snd (s : Sender) (m : Bytes) :
    (frame c s m).2 = { s.rotate c with sn := (s.rotate c).sn + 2 } := rfl

/-- receiver that has accepted a header announcing `len` bytes, mirror of sender `s1 = s.rotate` -/
def Receiver.midOf (s1 : Sender) (len : Nat) : Receiver :=
  { rk := s1.sk, rn := s1.sn + 1, rck := s1.sck, buf := [], need := len + 16, isHeader := false }

/-- a box at the header position that opens to the length `len ≥ 2` moves the receiver to `midOf` -/
theorem recv_header_ok (s : Sender) (hdr rest : Bytes) (len : Nat) (h18 : hdr.length = 18)
    (hopen : c.aeadOpen (s.rotate c).sk (s.rotate c).sn [] hdr = some (be16 len))
    (hlen : 2 ≤ len) (hlen2 : len < 65536) :
    recvData c (Receiver.mirrorOf s) (hdr ++ rest)
      = recvData c (Receiver.midOf (s.rotate c) len) rest := by
  rw [recvData_fill c _ _ (by simp [Receiver.mirrorOf]) (by simp [Receiver.mirrorOf]; omega)]
  have e1 : (Receiver.mirrorOf s).need - (Receiver.mirrorOf s).buf.length = 18 := by
    simp [Receiver.mirrorOf]
  rw [e1, List.take_append_of_le_length (by omega), List.drop_append_of_le_length (by omega),
      List.take_of_length_le (by omega), List.drop_of_length_le (by omega)]
  have e2 : ({ (Receiver.mirrorOf s) with buf := [] } : Receiver) = Receiver.mirrorOf s := rfl
  rw [e2]
  have hc : complete c (Receiver.mirrorOf s) ((Receiver.mirrorOf s).buf ++ hdr)
      = .cont (Receiver.midOf (s.rotate c) len) none := by
    unfold complete decryptLengthHeader
    rw [rotate_mirror]
    simp only [Receiver.mirrorOf, List.nil_append, if_true, hopen, unbe16_be16 len hlen2]
    have : ¬ len < 2 := by omega
    simp [this, Receiver.midOf]
  rw [hc]
  simp [consOut]

/-- a box at the header position that does not open drops the connection -/
theorem recv_header_bad (s : Sender) (x : Bytes) (h18 : 18 ≤ x.length)
    (hopen : c.aeadOpen (s.rotate c).sk (s.rotate c).sn [] (x.take 18) = none) :
    recvData c (Receiver.mirrorOf s) x = ([], none) := by
  rw [recvData_fill c _ _ (by simp [Receiver.mirrorOf]) (by simp [Receiver.mirrorOf]; omega)]
  have e1 : (Receiver.mirrorOf s).need - (Receiver.mirrorOf s).buf.length = 18 := by
    simp [Receiver.mirrorOf]
  rw [e1]
  have hc : complete c { (Receiver.mirrorOf s) with buf := [] }
      ((Receiver.mirrorOf s).buf ++ x.take 18) = .disconnect := by
    unfold complete decryptLengthHeader
    have e2 : ({ (Receiver.mirrorOf s) with buf := [] } : Receiver) = Receiver.mirrorOf s := rfl
    rw [e2, rotate_mirror]
    simp [Receiver.mirrorOf, hopen]
  rw [hc]

/-- a body box that opens to `m` is delivered and the receiver mirrors the sender again -/
theorem recv_body_ok (s1 : Sender) (body rest m : Bytes) (len : Nat) (hb : body.length = len + 16)
    (hlen2 : len < 65536)
    (hopen : c.aeadOpen s1.sk (s1.sn + 1) [] body = some m) :
    recvData c (Receiver.midOf s1 len) (body ++ rest)
      = consOut (some m) (recvData c (Receiver.mirrorOf { s1 with sn := s1.sn + 2 }) rest) := by
  rw [recvData_fill c _ _ (by simp [Receiver.midOf]) (by simp [Receiver.midOf]; omega)]
  have e1 : (Receiver.midOf s1 len).need - (Receiver.midOf s1 len).buf.length = len + 16 := by
    simp [Receiver.midOf]
  rw [e1, List.take_append_of_le_length (by omega), List.drop_append_of_le_length (by omega),
      List.take_of_length_le (by omega), List.drop_of_length_le (by omega)]
  have hc : complete c { (Receiver.midOf s1 len) with buf := [] } ((Receiver.midOf s1 len).buf ++ body)
      = .cont (Receiver.mirrorOf { s1 with sn := s1.sn + 2 }) (some m) := by
    unfold complete decryptMessage
    have : ¬ body.length > Ldk.LN_MAX_MSG_LEN + 16 := by
      have : Ldk.LN_MAX_MSG_LEN = 65535 := rfl
      omega
    simp [Receiver.midOf, this, hopen, Receiver.mirrorOf]
  rw [hc]
  simp

/-- a body box that does not open drops the connection -/
theorem recv_body_bad (s1 : Sender) (x : Bytes) (len : Nat) (hx : len + 16 ≤ x.length)
    (hopen : c.aeadOpen s1.sk (s1.sn + 1) [] (x.take (len + 16)) = none) :
    recvData c (Receiver.midOf s1 len) x = ([], none) := by
  rw [recvData_fill c _ _ (by simp [Receiver.midOf]) (by simp [Receiver.midOf]; omega)]
  have e1 : (Receiver.midOf s1 len).need - (Receiver.midOf s1 len).buf.length = len + 16 := by
    simp [Receiver.midOf]
  rw [e1]
  have hc : complete c { (Receiver.midOf s1 len) with buf := [] }
      ((Receiver.midOf s1 len).buf ++ x.take (len + 16)) = .disconnect := by
    unfold complete decryptMessage
    simp [Receiver.midOf, hopen]
  rw [hc]

/-- one genuine frame followed by anything: the message is delivered, the rest is read by the
    mirror of the advanced sender -/
theorem recv_frame (hc : AeadOK c) (s : Sender) (m rest : Bytes) (h2 : 2 ≤ m.length)
    (hmax : m.length ≤ 65535) :
    recvData c (Receiver.mirrorOf s) ((frame c s m).1 ++ rest)
      = consOut (some m) (recvData c (Receiver.mirrorOf (frame c s m).2) rest) := by
  rw [frame_fst, frame_snd, List.append_assoc]
  rw [recv_header_ok c s _ _ m.length (by rw [hc.seal_len]; rfl) (hc.open_seal _ _ _ _) h2 (by omega)]
  rw [recv_body_ok c (s.rotate c) _ rest m m.length (hc.seal_len _ _ _ _) (by omega)
        (hc.open_seal _ _ _ _)]

/-- every message of a list is delivered in order; what follows the genuine frames is read by the
    mirror of the sender's final state -/
theorem recv_sendAll (hc : AeadOK c) : ∀ (msgs : List Bytes) (s : Sender) (rest : Bytes),
    (∀ m ∈ msgs, 2 ≤ m.length ∧ m.length ≤ 65535) →
    recvData c (Receiver.mirrorOf s) ((sendAll c s msgs).1 ++ rest)
      = andThen (msgs, some (Receiver.mirrorOf (sendAll c s msgs).2)) (fun r => recvData c r rest) := by
  intro msgs
  induction msgs with
  | nil => intro s rest _; simp [sendAll]
  | cons m ms ih =>
    intro s rest hm
    have h1 := hm m (by simp)
    have e : sendAll c s (m :: ms)
        = ((frame c s m).1 ++ (sendAll c (frame c s m).2 ms).1, (sendAll c (frame c s m).2 ms).2) := rfl
    rw [e]
    simp only [List.append_assoc]
    rw [recv_frame c hc s m _ h1.1 h1.2, ih (frame c s m).2 rest (fun x hx => hm x (by simp [hx]))]
    simp [consOut, andThen]

theorem unbe16_lt (p : Bytes) : unbe16 p < 65536 := by
  unfold unbe16
  have h1 := (p.getD 0 0).toNat_lt
  have h2 := (p.getD 1 0).toNat_lt
  omega

theorem be16_unbe16 (p : Bytes) (h : p.length = 2) : be16 (unbe16 p) = p := by
  match p, h with
  | [a, b], _ =>
    have ha := a.toNat_lt
    have hb := b.toNat_lt
    simp only [be16, unbe16, List.getD_cons_zero, List.getD_cons_succ]
    congr 1
    · apply UInt8.toNat_inj.mp; simp; omega
    · congr 1; apply UInt8.toNat_inj.mp; simp

/-- whatever bytes make an in-sync receiver deliver a first message `m`: they begin with exactly
    the genuine frame of `m` under the sender's current state -/
theorem delivered_is_genuine (hc : AeadOK c) (ha : Authentic c) (s : Sender) (x m : Bytes)
    (out : List Bytes) (r' : Option Receiver)
    (h : recvData c (Receiver.mirrorOf s) x = (m :: out, r')) :
    ∃ rest, x = (frame c s m).1 ++ rest ∧ 2 ≤ m.length ∧ m.length ≤ 65535
      ∧ (out, r') = recvData c (Receiver.mirrorOf (frame c s m).2) rest := by
  by_cases h18 : x.length < 18
  · exfalso
    by_cases h0 : x = []
    · subst h0; rw [recvData_nil] at h; cases h
    · rw [recvData_short c _ _ h0 (by simp [Receiver.mirrorOf]; omega)] at h; cases h
  have hx : x = x.take 18 ++ x.drop 18 := (List.take_append_drop 18 x).symm
  have hl18 : (x.take 18).length = 18 := by simp; omega
  cases ho : c.aeadOpen (s.rotate c).sk (s.rotate c).sn [] (x.take 18) with
  | none => rw [recv_header_bad c s x (by omega) ho] at h; cases h
  | some p =>
    have hp := ha _ _ _ _ _ ho
    have hpl : p.length = 2 := by
      have := congrArg List.length hp
      rw [hc.seal_len, hl18] at this; omega
    have hplt := unbe16_lt p
    by_cases hlen : unbe16 p < 2
    · -- announced length < 2: dropped
      exfalso
      rw [recvData_fill c _ _ (by simp [Receiver.mirrorOf]) (by simp [Receiver.mirrorOf]; omega)] at h
      have e1 : (Receiver.mirrorOf s).need - (Receiver.mirrorOf s).buf.length = 18 := by
        simp [Receiver.mirrorOf]
      rw [e1] at h
      have hcpl : complete c { (Receiver.mirrorOf s) with buf := [] }
          ((Receiver.mirrorOf s).buf ++ x.take 18) = .disconnect := by
        unfold complete decryptLengthHeader
        have e2 : ({ (Receiver.mirrorOf s) with buf := [] } : Receiver) = Receiver.mirrorOf s := rfl
        rw [e2, rotate_mirror]
        simp [Receiver.mirrorOf, ho, hlen]
      rw [hcpl] at h; cases h
    · rw [hx, recv_header_ok c s _ _ (unbe16 p) hl18 (by rw [ho, be16_unbe16 p hpl]) (by omega) hplt] at h
      by_cases hb : (x.drop 18).length < unbe16 p + 16
      · exfalso
        by_cases h0 : x.drop 18 = []
        · rw [h0, recvData_nil] at h; cases h
        · rw [recvData_short c _ _ h0 (by simp only [Receiver.midOf, List.length_nil]; omega)] at h; cases h
      have hy : x.drop 18 = (x.drop 18).take (unbe16 p + 16) ++ (x.drop 18).drop (unbe16 p + 16) :=
        (List.take_append_drop _ _).symm
      have hlb : ((x.drop 18).take (unbe16 p + 16)).length = unbe16 p + 16 := by
        rw [List.length_take]; omega
      cases hob : c.aeadOpen (s.rotate c).sk ((s.rotate c).sn + 1) [] ((x.drop 18).take (unbe16 p + 16)) with
      | none => rw [recv_body_bad c _ _ _ (by omega) hob] at h; cases h
      | some m' =>
        rw [hy, recv_body_ok c _ _ _ m' (unbe16 p) hlb hplt hob] at h
        simp only [consOut] at h
        have hm : m' = m := by
          have := congrArg (fun t => t.1.head?) h; simpa using this
        subst hm
        have hbody := ha _ _ _ _ _ hob
        have hml : m'.length = unbe16 p := by
          have := congrArg List.length hbody
          rw [hc.seal_len, hlb] at this; omega
        refine ⟨(x.drop 18).drop (unbe16 p + 16), ?_, by omega, by omega, ?_⟩
        · rw [frame_fst, hml, be16_unbe16 p hpl, ← hp, ← hbody, List.append_assoc, ← hy, ← hx]
        · rw [frame_snd]
          have h1 := congrArg (fun t => t.1.tail) h
          have h2 := congrArg (fun t => t.2) h
          simp only [List.tail_cons] at h1 h2
          exact (Prod.ext h1 h2).symm

/-- everything an in-sync receiver delivers from ANY byte string is a prefix of genuine frames:
    the bytes read begin with exactly `sendAll` of the delivered messages -/
theorem delivered_all_genuine (hc : AeadOK c) (ha : Authentic c) : ∀ (msgs : List Bytes) (s : Sender)
    (x : Bytes) (r' : Option Receiver), recvData c (Receiver.mirrorOf s) x = (msgs, r') →
    ∃ rest, x = (sendAll c s msgs).1 ++ rest
      ∧ (∀ m ∈ msgs, 2 ≤ m.length ∧ m.length ≤ 65535)
      ∧ ([], r') = recvData c (Receiver.mirrorOf (sendAll c s msgs).2) rest := by
  intro msgs
  induction msgs with
  | nil => intro s x r' h; exact ⟨x, by simp [sendAll], by simp, by simp [sendAll, h]⟩
  | cons m ms ih =>
    intro s x r' h
    obtain ⟨rest1, hx, h2, h65, hrest⟩ := delivered_is_genuine c hc ha s x m ms r' h
    obtain ⟨rest, hr1, hok, hfin⟩ := ih (frame c s m).2 rest1 r' hrest.symm
    have e : sendAll c s (m :: ms)
        = ((frame c s m).1 ++ (sendAll c (frame c s m).2 ms).1, (sendAll c (frame c s m).2 ms).2) := rfl
    refine ⟨rest, ?_, ?_, ?_⟩
    · rw [e, hx, hr1, List.append_assoc]
    · intro m' hm'
      rcases List.mem_cons.mp hm' with h | h
      · subst h; exact ⟨h2, h65⟩
      · exact hok m' h
    · rw [e]; exact hfin

/-! ### the sender's counter schedule -/

theorem frame_sn (s : Sender) (m : Bytes) :
    (frame c s m).2.sn = (if s.sn ≥ ROTATE_AT then 0 else s.sn) + 2 := by
  rw [frame_snd]
  unfold Sender.rotate
  by_cases h : s.sn ≥ ROTATE_AT <;> simp [h]

theorem sendAll_length_sn : ∀ (msgs : List Bytes) (s : Sender) (q : Nat), s.sn = 2 * q → q ≤ 500 →
    (sendAll c s msgs).2.sn
      = if msgs.length = 0 then 2 * q else 2 * ((q % 500 + msgs.length - 1) % 500 + 1) := by
  intro msgs
  induction msgs with
  | nil => intro s q h _; simp [sendAll, h]
  | cons m ms ih =>
    intro s q h hq
    have e : (sendAll c s (m :: ms)).2 = (sendAll c (frame c s m).2 ms).2 := rfl
    have hs : (frame c s m).2.sn = 2 * (q % 500 + 1) := by
      rw [frame_sn, h]; unfold ROTATE_AT; split <;> omega
    rw [e, ih (frame c s m).2 (q % 500 + 1) hs (by omega)]
    simp only [List.length_cons]
    by_cases h0 : ms.length = 0
    · simp [h0]
    · simp only [h0, if_false, Nat.succ_ne_zero]; omega

/-- no rotation is due while the counter stays below the threshold: the key is kept and the counter
    advances by two per frame -/
theorem sendAll_no_rotation : ∀ (msgs : List Bytes) (s : Sender),
    s.sn + 2 * msgs.length ≤ ROTATE_AT + 1 → s.sn < ROTATE_AT ∨ msgs = [] →
    (sendAll c s msgs).2 = { s with sn := s.sn + 2 * msgs.length } := by
  intro msgs
  induction msgs with
  | nil => intro s _ _; simp [sendAll]
  | cons m ms ih =>
    intro s h1 h2
    have hlt : s.sn < ROTATE_AT := by
      rcases h2 with h | h
      · exact h
      · cases h
    have e : (sendAll c s (m :: ms)).2 = (sendAll c (frame c s m).2 ms).2 := rfl
    have hr : s.rotate c = s := by unfold Sender.rotate; simp [Nat.not_le.mpr hlt]
    have hf : (frame c s m).2 = { s with sn := s.sn + 2 } := by rw [frame_snd, hr]
    rw [e, hf, ih { s with sn := s.sn + 2 }]
    · simp only [List.length_cons]; congr 1; omega
    · simp only [List.length_cons] at h1; simp only; omega
    · simp only [List.length_cons] at h1
      by_cases hms : ms = []
      · exact Or.inr hms
      · have : 0 < ms.length := List.length_pos_iff.mpr hms
        left; simp only; omega

end Ldk.Framing

namespace Ldk.Noise
open Ldk.Framing

/-- hypotheses of the handshake theorem: AEAD correctness, Diffie–Hellman commutativity, and the
    shape of serialized public keys -/
structure HandshakeOK (c : Crypto) : Prop where
  aead : AeadOK c
  ecdh_comm : ∀ a b, c.ecdh a (c.pubOf b) = c.ecdh b (c.pubOf a)
  pub_len : ∀ a, (c.pubOf a).length = 33
  pub_valid : ∀ a, c.validPub (c.pubOf a) = true

theorem inbound_of_outbound (c : Crypto) (ha : AeadOK c) (st : HS) (pub ss : Bytes) (ssOf : Bytes → Bytes)
    (hl : pub.length = 33) (hv : c.validPub pub = true) (hss : ssOf pub = ss) :
    inboundAct c st (outboundAct c st pub ss).1 ssOf
      = some (pub, (outboundAct c st pub ss).2.1, (outboundAct c st pub ss).2.2) := by
  unfold inboundAct outboundAct mixKey
  simp only []
  have hlen : ((0:UInt8) :: pub ++ c.aeadSeal (c.hkdf2 st.ck ss).2 0 (c.hash (st.h ++ pub)) []).length = 50 := by
    simp [ha.seal_len, hl]
  have htake : List.take 33 (List.drop 1 ((0:UInt8) :: pub ++ c.aeadSeal (c.hkdf2 st.ck ss).2 0 (c.hash (st.h ++ pub)) [])) = pub := by
    simp [List.take_left' hl]
  have hdrop : List.drop 34 ((0:UInt8) :: pub ++ c.aeadSeal (c.hkdf2 st.ck ss).2 0 (c.hash (st.h ++ pub)) []) = c.aeadSeal (c.hkdf2 st.ck ss).2 0 (c.hash (st.h ++ pub)) [] := by
    have : (34:Nat) = 33 + 1 := rfl
    rw [this, List.cons_append, List.drop_succ_cons, List.drop_left' hl]
  simp only [hlen, htake, hdrop, hv, hss, ha.open_seal]
  simp

/-- act three produced by `processActTwo` is accepted by `processActThree` when the responder's
    state agrees, and the two key sets are mirror images -/
theorem actThree_roundtrip (c : Crypto) (ha : AeadOK c) (st1 : HS) (tempK2 pubS ssI : Bytes) (ie : Bytes)
    (ssOf : Bytes → Bytes) (hl : pubS.length = 33) (hv : c.validPub pubS = true) (hss : ssOf pubS = ssI) :
    let c1 := c.aeadSeal tempK2 1 st1.h pubS
    let h2 := c.hash (st1.h ++ c1)
    let st2 := (mixKey c { st1 with h := h2 } ssI).1
    let tempK := (mixKey c { st1 with h := h2 } ssI).2
    let t := c.aeadSeal tempK 0 h2 []
    processActThree c { st := st1, ie := ie, tempK2 := tempK2 } ((0:UInt8) :: c1 ++ t) ssOf
      = some (pubS, { sk := (c.hkdf2 st2.ck []).2, sn := 0, sck := st2.ck,
                      rk := (c.hkdf2 st2.ck []).1, rn := 0, rck := st2.ck }) := by
  intro c1 h2 st2 tempK t
  have hc1 : c1.length = 49 := by simp [c1, ha.seal_len, hl]
  have ht : t.length = 16 := by simp [t, ha.seal_len]
  unfold processActThree
  have hlen : ((0:UInt8) :: c1 ++ t).length = 66 := by simp [hc1, ht]
  have htake : List.take 49 (List.drop 1 ((0:UInt8) :: c1 ++ t)) = c1 := by
    simp [List.take_left' hc1]
  have hdrop : List.drop 50 ((0:UInt8) :: c1 ++ t) = t := by
    have : (50:Nat) = 49 + 1 := rfl
    rw [this, List.cons_append, List.drop_succ_cons, List.drop_left' hc1]
  simp only [hlen, htake, hdrop]
  have ho1 : c.aeadOpen tempK2 1 st1.h c1 = some pubS := ha.open_seal _ _ _ _
  simp only [ho1, hv, hss]
  have ho2 : c.aeadOpen tempK 0 h2 t = some [] := ha.open_seal _ _ _ _
  simp [ho2, st2, tempK, h2, c1]


end Ldk.Noise
