/- C14 — the hand-written mirrors of AttributionData's byte-level helpers (Model/Onion.lean) use EXACTLY the index /
   offset / length formulas translated from the Rust source (Generated/AttrIdx.lean, regenerated on every run): each
   statement below holds for ALL arguments.  An edited index expression in onion_utils.rs changes the generated
   definition and breaks the corresponding statement (and with it Props/C14.lean, which imports this file).
   Core only (no Mathlib). -/
import LdkModel.Model.Onion
import LdkModel.Generated.AttrIdx
namespace Ldk.Onion
open Ldk Ldk.Onion.AttrIdx

/-- `start..end` as (offset, length) -/
def rangeLen (r : Nat × Nat) : Nat := r.2 - r.1

theorem idx_new : Attr.new = ⟨zeros holdTimesLen, zeros hmacsLen⟩ := rfl

theorem idx_getHmac (a : Attr) (idx : Nat) :
    a.getHmac idx = slice a.hmacs (getHmacRange idx).1 (rangeLen (getHmacRange idx)) := by
  have : rangeLen (getHmacRange idx) = HMAC_LEN := by
    simp only [rangeLen, getHmacRange, HMAC_LEN]; omega
  rw [this]; rfl

theorem idx_getHmacMut (idx : Nat) : getHmacMutRange idx = getHmacRange idx := rfl

theorem idx_downstreamStep {α : Type} (h : List α) (acc : List α × Nat) (j : Nat) :
    downstreamStep h acc j = (acc.1 ++ slice h (getHmacRange acc.2).1 (rangeLen (getHmacRange acc.2)), downstreamNext acc.2 j) := by
  have : rangeLen (getHmacRange acc.2) = HMAC_LEN := by
    simp only [rangeLen, getHmacRange, HMAC_LEN]; omega
  rw [this]; rfl

theorem idx_downstreamG {α : Type} (h : List α) (position : Nat) :
    downstreamG h position = ((List.range (downstreamIters position)).foldl (downstreamStep h) ([], downstreamInit position)).1 := rfl

theorem idx_hmacFor (C : OnionCrypto) (a : Attr) (um message : Bytes) (position : Nat) :
    a.hmacFor C um message position =
      (norm32 (C.mac um (message ++ a.holdTimes.take (addHmacsHoldTimesEnd position) ++ a.downstreamHmacs position))).take addHmacsTruncLen := rfl

theorem idx_hmacFor_verify (C : OnionCrypto) (a : Attr) (um message : Bytes) (position : Nat) :
    a.hmacFor C um message position =
      (norm32 (C.mac um (message ++ a.holdTimes.take (verifyHoldTimesEnd position) ++ a.downstreamHmacs position))).take verifyTruncLen := rfl

theorem idx_addHmacs (C : OnionCrypto) (a : Attr) (um message : Bytes) :
    a.addHmacs C um message = (List.range addHmacsIters).foldl (fun a hmacIdx =>
      { a with hmacs := setSlice a.hmacs (getHmacMutRange hmacIdx).1 (a.hmacFor C um message (addHmacsPosition hmacIdx)) }) a := rfl

theorem idx_update (C : OnionCrypto) (a : Attr) (um message : Bytes) (holdTime : Nat) :
    a.update C um message holdTime = Attr.addHmacs C { a with holdTimes := setSlice a.holdTimes 0 (be32 holdTime) } um message ∧
    (be32 holdTime).length = updateHoldTimeEnd := ⟨rfl, rfl⟩

theorem idx_verify (C : OnionCrypto) (a : Attr) (um message : Bytes) (position : Nat) :
    a.verify C um message position =
      if a.hmacFor C um message position = a.getHmac (verifyHmacIdx position)
      then some ((slice a.holdTimes (getHoldTimeBytesRange verifyHoldTimeIdx).1 (rangeLen (getHoldTimeBytesRange verifyHoldTimeIdx))).foldl
        (fun acc x => acc * 256 + x.toNat) 0) else none := rfl

theorem idx_copyWithin_left {α : Type} (h : List α) (src dst len : Nat) :
    copyWithinHm h src dst len =
      setSlice h (shiftLeftCopy src dst len).2.2 (slice h (shiftLeftCopy src dst len).1
        ((shiftLeftCopy src dst len).2.1 - (shiftLeftCopy src dst len).1)) := by
  have : (shiftLeftCopy src dst len).2.1 - (shiftLeftCopy src dst len).1 = len * HMAC_LEN := by
    simp only [shiftLeftCopy, HMAC_LEN]; omega
  rw [this]; rfl

theorem idx_copyWithin_right {α : Type} (h : List α) (src dst len : Nat) :
    copyWithinHm h src dst len =
      setSlice h (shiftRightCopy src dst len).2.2 (slice h (shiftRightCopy src dst len).1
        ((shiftRightCopy src dst len).2.1 - (shiftRightCopy src dst len).1)) := by
  have : (shiftRightCopy src dst len).2.1 - (shiftRightCopy src dst len).1 = len * HMAC_LEN := by
    simp only [shiftRightCopy, HMAC_LEN]; omega
  rw [this]; rfl

theorem idx_shiftLeftStep {α : Type} (st : ShiftSt α) (x : Nat) :
    shiftLeftStep st x = (copyWithinHm st.1 st.2.1 st.2.2.1 st.2.2.2, shiftLeftNext st.2.1 st.2.2.1 st.2.2.2) := rfl

theorem idx_shiftRightStep {α : Type} (st : ShiftSt α) (x : Nat) :
    shiftRightStep st x = (copyWithinHm st.1 st.2.1 st.2.2.1 st.2.2.2, shiftRightNext st.2.1 st.2.2.1 st.2.2.2) := rfl

theorem idx_shiftLeftHm {α : Type} (h : List α) :
    shiftLeftHm h = ((List.range shiftLeftIters).foldl shiftLeftStep (h, shiftLeftInit)).1 := rfl

/-- the loop of shift_right `break`s after the copy of iteration `shiftRightBreakAt`, which is the LAST iteration: the
    mirror runs that iteration's (saturating) index updates, whose results are never used -/
theorem idx_shiftRightHm {α : Type} (h : List α) :
    shiftRightHm h = ((List.range shiftRightIters).foldl shiftRightStep (h, shiftRightInit)).1 ∧
    shiftRightBreakAt + 1 = shiftRightIters := ⟨rfl, rfl⟩

theorem idx_shiftLeftHt {α : Type} (ht : List α) :
    Onion.shiftLeftHt ht = setSlice ht AttrIdx.shiftLeftHt.2 (ht.drop AttrIdx.shiftLeftHt.1) := rfl

theorem idx_shiftRightHt {α : Type} (ht : List α) :
    Onion.shiftRightHt ht = setSlice ht AttrIdx.shiftRightHt.2 (ht.take AttrIdx.shiftRightHt.1) := rfl

end Ldk.Onion
